"""developer helper: run one task in-process and time each non-trivial obligation."""
import sys,time; sys.path.insert(0,'/verif')
import z3
from engine import api, backends, driver
prop,name=sys.argv[1],sys.argv[2]
packs=driver.load_packs(prop)
t=[t for p in packs for t in p.tasks if t.name==name][0]
from engine.cstmt import Sym
eng=Sym(t.files or t.pack.files,None,prefix=prop+'.')
def body(e):
    ctx=api.TaskCtx(e,t); e.loopspecs={}; e.contracts={}; t.func(ctx)
t0=time.time()
print(eng.explore(body),'paths',round(time.time()-t0,2),'s')
for ob in eng.obligations:
    if ob.verdict=='proved': continue
    print('---',ob.name,len(ob.hyps),flush=True)
    t0=time.time()
    if len(sys.argv)>3 and sys.argv[3]=='show': print(ob.goal); print(ob.hyps)
    backends.discharge(ob,{"z3_ms":20000,"polyid_s":100})
    print('   ',ob.verdict,ob.backend,ob.detail[:300],round(time.time()-t0,2),flush=True)
    if ob.model: print('    model',str(ob.model)[:500])
