import rebound, urllib.request, sys
def build():
    sim = rebound.Simulation()
    sim.integrator = "ias15"
    sim.add(m=1.)
    sim.add(m=1e-3, a=1., e=0.1)
    sim.add(m=1e-3, a=2., e=0.2, f=1.)
    sim.add(m=1e-3, a=3.3, e=0.05, f=2.)
    sim.move_to_com()
    return sim
def run(serve, request=True):
    sim = build()
    if serve: sim.start_server(port=serve)
    sim.integrate(10.)
    sim.remove(3)                      # N: 4 -> 3, ri_ias15.N_allocated stays 12
    sim.integrate(20.)
    na0 = sim.ri_ias15.N_allocated if hasattr(sim.ri_ias15,'N_allocated') else sim.ri_ias15._N_allocated
    if serve and request:                          # a client fetches one snapshot (server thread, under the mutex)
        data = urllib.request.urlopen("http://localhost:%d/simulation"%serve, timeout=5).read()
    na1 = sim.ri_ias15.N_allocated if hasattr(sim.ri_ias15,'N_allocated') else sim.ri_ias15._N_allocated
    sim.add(m=1e-3, a=3.3, e=0.05, f=2.)   # N: 3 -> 4
    sim.integrate(40.)
    if serve: sim.stop_server()
    return na0, na1, [(p.x, p.y, p.z, p.vx) for p in sim.particles]
a = run(0)
c = run(23457, request=False)
print("control: server running, no request, identical to no-server run:", c[2]==a[2])
b = run(int(sys.argv[1]) if len(sys.argv)>1 else 12345)
print("N_allocated before/after request: no server", a[0], a[1], " with request", b[0], b[1])
same = a[2]==b[2]
print("trajectories bit-identical:", same)
for pa,pb in zip(a[2],b[2]):
    print("  %.17g  %.17g  diff %.3g"%(pa[0],pb[0],pa[0]-pb[0]))
