"""C08 finding: TRACE, peri_mode FULL_BS (the default): the BS sub-integration of a pericentre step is not clipped at
t + dt (integrator_trace.c, reb_integrator_trace_step, case REB_TRACE_PERI_FULL_BS: no `if (r->t+r->dt > t_needed) r->dt =
t_needed-r->t;` as in the FULL_IAS15 branch and in reb_integrator_trace_bs_step).  The particles are advanced past the end
of the step while the clock is set to t + dt.  Run with /venv/bin/python."""
import rebound, math


def mk(integ, peri=None, dt=0.02):
    sim = rebound.Simulation()
    sim.add(m=1.)
    sim.add(m=1e-3, a=1., e=0.99, f=-2.5)
    sim.move_to_com()
    sim.integrator = integ
    sim.dt = dt
    if peri:
        sim.ri_trace.peri_mode = peri
    return sim


def dist(a, b):
    p, q = a.particles[1], b.particles[1]
    return math.sqrt((p.x - q.x) ** 2 + (p.y - q.y) ** 2 + (p.z - q.z) ** 2)


for peri in ("FULL_BS", "FULL_IAS15"):
    s = mk("trace", peri)
    for i in range(2):
        s.step()
    # at which time does an accurate IAS15 solution pass through the position TRACE reports for t = 2 dt?
    best = None
    for k in range(0, 3001):
        tt = s.t + (k / 1000. - 1.0) * s.dt
        ref = mk("ias15")
        ref.integrate(tt)
        d = dist(s, ref)
        if best is None or d < best[0]:
            best = (d, tt)
    ref = mk("ias15")
    ref.integrate(s.t)
    print("%-10s clock t = %.4f   |x - x_ref(t)| = %.2e   state matches the reference solution at t = %.4f (offset %.3f dt, residual %.1e)"
          % (peri, s.t, dist(s, ref), best[1], (best[1] - s.t) / s.dt, best[0]))
