"""C16 finding: reb_calculate_acceleration_var (first order, full set) with gravity_ignore_terms == 1 and N_active == 1.
The real force skips the pair {0,1} (test-particle nest starts at MAX(N_active, starti) = 2), the variational routine starts
the nest at N_active = 1 and adds the pair (1,0): WHFast (Jacobi, default kernel) then counts the star-planet-1 term twice in
the tangent map.  Obligation: C16.first_order.iterspace_unconditional.iterspace.visited_is_specified.test.*
Run with /venv/bin/python."""
import rebound, warnings
warnings.simplefilter("ignore")


def make(da, nact, integ):
    sim = rebound.Simulation()
    sim.integrator = integ
    sim.add(m=1.)
    sim.add(m=1e-3, a=1. + da, e=0.1, primary=sim.particles[0])
    sim.add(m=1e-3, a=1.7, e=0.05, f=1., primary=sim.particles[0])
    sim.N_active = nact
    sim.dt = 0.01
    return sim


for integ in ("whfast", "ias15"):
    for nact in (-1, 2, 1):
        sim = make(0., nact, integ)
        var = sim.add_variation()
        var.vary(1, "a")
        sim.integrate(3.0, exact_finish_time=1)
        d = 1e-6
        sp = make(d, nact, integ); sp.integrate(3.0, exact_finish_time=1)
        sm = make(-d, nact, integ); sm.integrate(3.0, exact_finish_time=1)
        fd = (sp.particles[1].x - sm.particles[1].x) / (2 * d)
        print("%-6s N_active=%2d  d x_1/d a_1: central difference %+.8f  variational particle %+.8f" % (integ, nact, fd, var.particles[1].x))
