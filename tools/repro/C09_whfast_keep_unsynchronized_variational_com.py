import sys, os
sys.path.insert(0, os.getcwd())
import rebound
def run(keep, nsync):
    sim = rebound.Simulation()
    sim.add(m=1.); sim.add(m=1e-3, a=1., e=0.1); sim.add(m=1e-3, a=2.3, e=0.05, f=1.)
    sim.move_to_com()
    v = sim.add_variation()
    v.particles[1].x = 1.; v.particles[0].vx=0.3
    sim.integrator = "whfast"; sim.dt = 0.05
    sim.ri_whfast.safe_mode = 0
    sim.ri_whfast.keep_unsynchronized = keep
    for k in range(20):
        sim.step()
        if nsync and k % 3 == 0:
            sim.synchronize()
    sim.ri_whfast.keep_unsynchronized = 0
    sim.synchronize()
    return [ (p.x,p.y,p.vx) for p in sim.particles ]
a = run(1, 0); b = run(1, 1); c = run(0, 0)
import math
d = max(abs(x-y) for p,q in zip(a,b) for x,y in zip(p,q))
print("keep=1: observed vs unobserved max diff", d)
for i,(p,q) in enumerate(zip(a,b)): print(i, [x-y for x,y in zip(p,q)])
def run2(safe, keep, syncs):
    sim = rebound.Simulation()
    sim.add(m=1.); sim.add(m=1e-3, a=1., e=0.1); sim.add(m=1e-3, a=2.3, e=0.05, f=1.)
    sim.move_to_com()
    v = sim.add_variation()
    v.particles[1].x = 1.; v.particles[0].vx=0.3
    sim.integrator = "whfast"; sim.dt = 0.05
    sim.ri_whfast.safe_mode = safe
    sim.ri_whfast.keep_unsynchronized = keep
    out=[]
    for k in range(20):
        sim.step()
        if syncs and k % 3 == 0:
            sim.synchronize()
            out.append([(p.x,p.y,p.vx) for p in sim.particles])
    return out
s = run2(1,0,1); u = run2(0,1,1); w = run2(0,0,1)
for name,o in (("unsafe keep=1",u),("unsafe keep=0",w)):
    print(name, "vs safe: max diff at the outputs", max(abs(x-y) for A,B in zip(o,s) for p,q in zip(A,B) for x,y in zip(p,q)))
for i,(p,q) in enumerate(zip(u[-1],s[-1])): print(i, [x-y for x,y in zip(p,q)])
