"""C16 finding: reb_tools_megno_update updates megno_var_t / megno_cov_Yt with the deviations from the ALREADY UPDATED means
times (n-1)/n; Welford's co-moment update uses the old means.  The accumulators are therefore not sum (t_i - mean t)^2 and
sum (t_i - mean t)(Y_i - mean Y), and reb_simulation_lyapunov() = cov/var is not the least-squares slope of <Y>(t).
Obligations: C16.megno.update.comoments.step.*   Run with /venv/bin/python."""
import rebound, ctypes
import numpy as np
from rebound import clibrebound

sim = rebound.Simulation()
sim.add(m=1.); sim.add(m=1e-3, a=1.)
sim.init_megno()
upd = clibrebound.reb_tools_megno_update; upd.restype = None
meg = clibrebound.reb_simulation_megno; meg.restype = ctypes.c_double
ts, Ys = [], []
for t, dY in [(1.0, 0.3), (2.0, 1.1), (3.0, 0.2), (4.0, 2.5), (5.0, 0.7)]:
    sim.t = t
    upd(ctypes.byref(sim), ctypes.c_double(dY), ctypes.c_double(1.0))
    ts.append(t); Ys.append(meg(ctypes.byref(sim)))
    tt, YY = np.array(ts), np.array(Ys)
    var_def = ((tt - tt.mean()) ** 2).sum()
    cov_def = ((tt - tt.mean()) * (YY - YY.mean())).sum()
    print("n=%d  megno_var_t: code %.6f definition %.6f | megno_cov_Yt: code %.6f definition %.6f | lyapunov() %.6f least-squares slope %s"
          % (len(ts), sim._megno_var_t, var_def, sim._megno_cov_Yt, cov_def, sim.lyapunov(), (cov_def / var_def) if var_def else None))
