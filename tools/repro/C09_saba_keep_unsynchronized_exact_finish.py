import sys, os
sys.path.insert(0, os.getcwd())
import rebound
def mk(integ, keep, typ=None):
    sim = rebound.Simulation(); sim.add(m=1); sim.add(m=1e-3,a=1); sim.add(m=1e-3,a=1.7,f=1)
    sim.integrator=integ; ri=getattr(sim,"ri_"+integ); ri.safe_mode=0; sim.dt=0.05; ri.keep_unsynchronized=keep
    if typ: ri.type=typ
    return sim
for integ,typ in (("whfast",None),("saba","(10,6,4)"),("saba",1)):
    a=mk(integ,0,typ); a.integrate(5.32)
    b=mk(integ,1,typ); b.integrate(5.32)
    print(integ,typ,"keep=1 vs keep=0 at t=5.3 (exact finish):", abs(a.particles[1].x-b.particles[1].x), b.t)
