# A client request is served while reb_simulation_synchronize() runs at the end of reb_simulation_integrate(),
# i.e. OUTSIDE the region protected by server_data->mutex: the snapshot is not a step-boundary state.
import rebound, urllib.request, socket, sys
PORT = int(sys.argv[1]) if len(sys.argv) > 1 else 23461
TMAX = 1.005
log = []
def build():
    sim = rebound.Simulation()
    sim.integrator = "whfast"
    sim.ri_whfast.safe_mode = 0
    sim.ri_whfast.corrector = 3          # the corrector evaluates forces -> additional_forces is called inside synchronize
    sim.exact_finish_time = 1
    sim.dt = 0.01
    sim.add(m=1.); sim.add(m=1e-3, a=1., e=0.1); sim.add(m=1e-3, a=2., e=0.2, f=1.)
    sim.move_to_com()
    return sim
sim = build()
ncall = [0]
def af(simp):
    s = simp.contents
    ncall[0] += 1
    inside_final_sync = s.t >= TMAX
    if inside_final_sync or ncall[0] == 50:      # one probe in the middle of a step, and the calls made by the final synchronize
        try:
            data = urllib.request.urlopen("http://localhost:%d/simulation" % PORT, timeout=0.5).read()
            log.append(("final-synchronize" if inside_final_sync else "mid-step", "SERVED", data))
        except Exception as ex:
            log.append(("final-synchronize" if inside_final_sync else "mid-step", "blocked (%s)" % type(ex).__name__, None))
sim.additional_forces = af
sim.start_server(port=PORT)
sim.integrate(TMAX)
for where, what, data in log:
    print("request issued during", where, "->", what)
served = [d for (w, what, d) in log if w == "final-synchronize" and d]
if served:
    open("snap.bin", "wb").write(served[0])
    snap = rebound.Simulation("snap.bin")
    print("snapshot: t=%.3f is_synchronized=%d ; live simulation after integrate(): t=%.3f is_synchronized=%d" % (snap.t, snap.ri_whfast.is_synchronized, sim.t, sim.ri_whfast.is_synchronized))
    print("dt in served snapshot = %.6g ; dt of the live simulation after integrate() returned = %.6g" % (snap.dt, sim.dt))
    # continue both to t=2: the run continued from the served snapshot must reproduce the original
    sim.additional_forces = lambda s: None
    snap.additional_forces = lambda s: None
    snap.ri_whfast.safe_mode = 0; snap.exact_finish_time = 1
    sim.integrate(2.0); snap.integrate(2.0)
    print("continued to t=2: original x1=%.17g  from snapshot x1=%.17g  (equal: %s)" % (sim.particles[1].x, snap.particles[1].x, sim.particles[1].x == snap.particles[1].x))
sim.stop_server()
