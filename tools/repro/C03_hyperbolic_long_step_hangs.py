import rebound, math, sys
sim=rebound.Simulation()
sim.add(m=1)
sim.add(a=-3631, e=2.585, f=-0.41)
sim.integrator="whfast"
P=2*math.pi*math.sqrt(3631**3)
sim.dt=float(sys.argv[1])*P
sim.step()
print("done", sim.particles[1].x, sim.particles[1].y)
