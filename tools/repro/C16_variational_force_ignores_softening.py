"""C16 finding: reb_calculate_acceleration_var never reads r->softening, the real force uses r^2 = |d|^2 + softening^2.
With softening != 0 the variational particles are not the derivative of the real trajectory.
Obligation: C16.first_order.softening.active.body.i.x.softened.   Run with /venv/bin/python."""
import rebound


def make(dx, soft):
    sim = rebound.Simulation()
    sim.integrator = "ias15"
    sim.softening = soft
    sim.add(m=1.)
    sim.add(m=1e-3, x=1. + dx, vy=1.)
    return sim


for soft in (0., 0.5):
    sim = make(0., soft)
    var = sim.add_variation()
    var.particles[1].x = 1.
    sim.integrate(2.0)
    d = 1e-6
    sp = make(d, soft); sp.integrate(2.0)
    sm = make(-d, soft); sm.integrate(2.0)
    fd = (sp.particles[1].x - sm.particles[1].x) / (2 * d)
    print("softening %.1f: d x_1(2)/d x_1(0): central difference %.7f   variational particle %.7f" % (soft, fd, var.particles[1].x))
