import rebound
def run(order):
    sim = rebound.Simulation()
    sim.configure_box(10.)
    if order=="before": sim.collision="tree"; sim.collision_resolve="merge"
    sim.add(m=1., r=0.1, x=0.)
    sim.add(m=1., r=0.1, x=0.15, vx=-0.1)
    sim.add(m=1e-3, r=0.01, x=3., vy=0.5)
    if order=="after": sim.collision="tree"; sim.collision_resolve="merge"
    sim.integrator="leapfrog"; sim.dt=1e-3
    sim.step(); sim.step()
    return sim.N
print(run("before"), run("after"))
