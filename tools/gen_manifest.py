"""Generate MANIFEST.json from the packs present in contracts/ and the per-property notes below."""
import json, glob, os, re, sys
ROOT = os.path.dirname(os.path.dirname(os.path.abspath(__file__)))
sys.path.insert(0, ROOT)
TECH = "contract-based deductive verification: VCs generated from clang's typed AST of the real C code (Python ast for the Python layer), sidecar contracts, z3 / ideal-membership / cvc5 back ends"
NOTES = {
 "C01": ("operator word of every fixed-step scheme (WHFast all kernels/correctors/coordinates, SABA all 18 types, leapfrog, SEI, EOS 9x9, encounter-free MERCURIUS), extracted from the real part1/part2/synchronize, meets the free-algebra order conditions of its advertised order (first-order rounding envelope); IAS15 Gauss-Radau tables and their index use; BS sub-step sequence, extrapolation, modified midpoint, call order; user ODEs advanced over exactly the completed step; jerk term matches the force; coordinate caches (WHFast p_jh, SEI sin/tan) belong to the current N and dt",
         "exact sub-flows assumed (C02/C03/C12); convergence of the floating-point trajectory and adaptive step/order control not decided; WHFast512 not compiled"),
 "C02": ("direct gravity routines and jerk: per-pair body contracts + iteration-space obligations (accumulation rule) against the softened Newtonian pair sum incl. ghost images at index x box edge; MERCURIUS/TRACE parts add up; tree node contract; every integrator establishes its own pair filter before its first force evaluation",
         "doubles as reals; accumulation rule trusted; tree walk recursion and multipole bound not decided; pair-filter contract is structural (write summaries)"),
 "C03": ("Stumpff/Stiefel functions (series, quadrupling, reduction), Newton fixed point => universal Kepler equation, f-g update (Wronskian, energy, angular momentum), hyperbolic bisection bracket, mass parameter per coordinate system and caller, coordinate cache follows N, proved on the real code; the kick skips exactly the pair the Kepler step solves (shared with C02), argument reduction exits for non-finite arguments and reaches the series range for finite ones (structural); plus labelled bounded native sweeps of one WHFast step against the closed-form solution and of termination for long hyperbolic steps",
         "doubles as reals; exit-with-root of the iterations assumed; termination and NaN/overflow in floating point not decided by proof (the bounded sweep reports one known finding: hyperbolic long steps); WHFast512 not compiled"),
 "C04": ("merge conserves mass/momentum/COM; diagnostics equal their definitions; COM steps; pair sets and Sum m a = 0 of the force routines incl. MERCURIUS/TRACE parts (shared with C02), Kepler mass parameters (shared with C03), COM drift of unsynchronised WHFast/SABA (shared with C09); TRACE restores the centre of mass on a redone step; every integrator's part1 sets its own pair filter (shared with C02)",
         "doubles as reals; size of the energy error not decided"),
 "C05": ("descriptor table (as the compiler evaluates it) well formed against the real struct layout and complete: every member persisted, reconstructed or explicitly classified; writer emits exactly the table, reader inverts it per descriptor; loader rebuilds the tree iff in use; delta snapshots contain every changed field (shared with C06)",
         "classification list is an assumption (one entry was found false and withdrawn); bit-identical continuation argued from the persistence frame only"),
 "C06": ("reb_binary_diff emits a well-formed delta stream and emits a field iff it differs (new/vanished fields, var_config member-wise), overlay of a delta on blob 0 by the loader reproduces the live values, heartbeat cadence bookkeeping per call; the final snapshot of integrate() is the returned state; save_to_file(delete_file=True) always re-arms the schedule (Python, exhaustive)",
         "byte content uninterpreted; induction over a whole run and >2 GiB offsets not decided"),
 "C07": ("archive open under an arbitrary truncation point (symbolic file length, short reads): heap ownership on every path, a blob is accepted only with consistent END+trailer, index within the file; append protocol of reb_simulation_save_to_file (trailer rewritten only after the delta is complete); native truncation sweep as labelled bounded stand-in",
         "FILE model: prefix truncation only; identity of accepted snapshots with the uninterrupted run is C06"),
 "C08": ("reb_simulation_integrate_raw / reb_check_exit state machine over the reals for a per-step contract (exact finish, no backwards time, dt restored, no-op at t==tmax, status precedence, dt_last_done reset); the step contract itself proved on the real IAS15 / BS controllers and the real MERCURIUS / TRACE part2 (sign of dt kept, min_dt/max_dt, sub-steps never pass t+dt)",
         "doubles as reals; floating-point coincidences at tmax and termination of adaptive loops not decided"),
 "C09": ("safe mode == unsafe + synchronize at operator-word level by induction over steps (base + step lemma on words extracted from the real code) for WHFast, SABA, EOS, encounter-free MERCURIUS; sync idempotent; keep_unsynchronized restores the cached coordinates of every particle (word level and memory level); coordinate cache invalidated whenever N changed; step length changes only in a synchronised state; getSimulation decision table (exhaustive); WHFast part2 with variational particles leaves the state after the kernel with the variational centre of mass at the end of the step",
         "merge laws of exact flows assumed; rounding differences not decided; two known findings (corrector2 inverse, keep_unsynchronized with exact finish)"),
 "C10": ("JANUS step(-dt) o step(dt) = id on the integer state (floating point uninterpreted + IEEE oddness); integer state rebuilt exactly when requested or when N changed; symmetric schemes palindromic in synchronized and unsynchronized mode; force evaluation a pure function of positions and of the integrator's own pair filter; Kepler solver bracket for both signs of dt; SEI cache of the current dt",
         "IEEE oddness/commutativity axioms; int64 overflow not modelled; size of the rounding error of non-JANUS round trips not decided"),
 "C11": ("orbital element <-> Cartesian maps: rejections, definedness, defining relations, anomaly conversions; twin front ends: same accept/reject tables, same prograde/retrograde angle conversions (inverse of the reader's convention), same dimensional conversions (a from P, M from T), arguments reach the parameter of the same name, Python aliases folded before use, masses final before a conversion uses them; pericentre passage |n|(t-T) = M for bound and unbound orbits",
         "doubles as reals; trig axioms per occurrence; Newton convergence and the omega,f round trip not decided; parser contracts are extracted syntactically and compared exactly"),
 "C12": ("all coordinate transformations: forward definitions, slot 0 = (M, COM), inverses recover inputs, variants agree, memory safety; symbolic N, N_active", "doubles as reals; non-zero prefix masses as stated preconditions"),
 "C13": ("collision search predicates (direct, line both signs of dt, tree leaf test), resolve algebra (merge, hard sphere), index fix-up after removals for sorted / unsorted / tree / hybrid-integrator removal, tree updated before it is walked and completed with the particles that are in no leaf yet",
         "doubles as reals; recursive tree search not decided"),
 "C14": ("abstract sequence view of add/remove/hash lookup incl. arbitrary stale lookup tables, N_active rule and N_active <= N - N_var, memory safety, lookup table well formed across remove_all, Python container index logic",
         "qsort contract assumed; integers mathematical"),
 "C15": ("boundary wrap loops, open-boundary removal, ghost boxes, root-cell index arithmetic, tree local lemmas; a tree exists whenever a module uses it, also after load/copy (shared with C05); collision search updates the tree before walking it; update_tree inserts the particles that are in no leaf yet",
         "doubles as reals; global tree invariant for arbitrary depth not decided"),
 "C16": ("variational force loops equal the symbolic derivative of the softened pair-force specification (1st and 2nd order, accumulation rule); all 65 derivative constructors equal the sympy derivative of the real forward map; add_variation / rescale (incl. the IAS15 predictor state) / MEGNO bookkeeping; WHFast words refresh variational positions before every kick; Stumpff cs recurrences of the tangent map; frame shifts apply their derivative; Python dispatch",
         "doubles as reals; Kepler-Pal solver through its summary contract; tangent map of the Kepler solver beyond its Stumpff functions, MEGNO->2 not decided"),
 "C17": ("reb_particle_diff differs iff a non-pointer member differs; compare-mode flag semantics of reb_binary_diff for arbitrary field sequences incl. both passes and full element loops; no persisted array embedding addresses is compared byte-wise; copy reads the source only through the serialiser, which writes every descriptor in every state (shared with C05); delta stream of incremental snapshots well formed (shared with C06); every descriptor addresses the member it names (shared with C05)",
         "byte content uninterpreted; evolution of a copy argued from C05 only"),
 "C18": ("exhaustive per-member comparison of clang record layouts with the ctypes classes, option tables vs C enums, every named function option references the C function of that name, setter/getter round trips, Variation.lrescale addresses its own configuration, Variation.particles is a view of the current block, no definition permutes the parameters of its prototype",
         "x86-64 layout; alias table listed as assumptions"),
 "C19": ("whole-library frames: no written global or function-static state except reb_sigint, no non-reentrant libc, lockset around step and served serialisation, serialisation write frame, every call made while serving writes only the serialiser's frame, pausing a run does not synchronise it",
         "data-race-freedom meta-theorem trusted; scheduling itself not modelled"),
 "C20": ("quaternion algebra and constructors incl. degenerate ones (to_new_axes with antiparallel x), unit tables and conversions, frame shifts incl. variational corrections, linear combinations; element conversions of both front ends carry G in the right place",
         "doubles as reals; reference constants table is an assumption; obtuse from_to branch not decided"),
}
NA = {
}
props = [json.loads(l)["id"] for l in open(os.path.join(ROOT, "properties.jsonl"))]
have = sorted({os.path.basename(p)[:3] for p in glob.glob(os.path.join(ROOT, "contracts", "C[0-9][0-9]_*.py"))})
claim = [p for p in props if p in have and p in NOTES and p not in sys.argv[1:]]
checks = []
for p in claim:
    t, n = NOTES[p]
    checks.append({"property_id": p, "quick_cmd": "./vcheck %s --tier quick" % p, "thorough_cmd": "./vcheck %s --tier thorough" % p,
                   "evidence_file": "evidence/%s.json" % p, "replay_cmd_template": "./vcheck %s --replay {path}" % p, "engine": "vcheck",
                   "level_claimed": {"category": "proof", "text": t, "design_ref": "DESIGN.md 4 %s" % p},
                   "level_note": n + "; home-built VC generator (engine/) is the trusted core; clauses listed under not_decided in the evidence are not claimed",
                   "technique": TECH})
na = [{"property_id": p, "reason": NA.get(p, "no contract pack yet")} for p in props if p not in claim]
m = {"version": 1, "setup_cmd": "./vcheck --setup",
     "hooks": {"guard": "REBOUND_VERIF", "enable": "no hooks: contracts are sidecar files under /verif/contracts; nothing in /repo is instrumented",
               "baseline_off_cmd": "cd /repo && /venv/bin/python setup.py build_ext --inplace -q && /venv/bin/python -m pytest -ra -q -p no:cacheprovider --timeout=900 --continue-on-collection-errors",
               "source_commits": [], "add_only": True},
     "engines": [{"name": "vcheck", "path": "engine/", "serves_properties": claim,
                  "kind_free_text": "contract-based deductive verification: VC generation from clang's typed AST of the real C sources (and Python ast), sidecar contracts, z3 / sympy ideal membership / cvc5 back ends, native replay of counter-models"}],
     "checks": checks, "not_applicable": na,
     "notes": "fix: commits in /repo are listed in known_findings.json (status fixed); known findings print KNOWN-FINDING lines"}
json.dump(m, open(os.path.join(ROOT, "MANIFEST.json"), "w"), indent=1)
print("claimed", claim, "not applicable", [x["property_id"] for x in na])
