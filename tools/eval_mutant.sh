#!/bin/sh
# usage: eval_mutant.sh <patch.diff> <prop> [<prop> ...]   -- runs the quick checks on a private scratch worktree of /repo's HEAD
# with the patch applied (equivalent to: git -C /repo apply <patch>; ./vcheck <prop>; git -C /repo checkout -- .), removes it afterwards.
PATCH="$1"; shift
W=$(mktemp -d /tmp/evalrepo.XXXXXX); rmdir $W
git -C /repo worktree add -q --detach $W HEAD || exit 2
trap 'git -C /repo worktree remove --force $W 2>/dev/null' EXIT INT TERM
cp /repo/librebound*.so $W/ 2>/dev/null
git -C $W apply "$PATCH" || { echo "PATCH DOES NOT APPLY"; exit 2; }
cd /verif
for P in "$@"; do
  VERIF_NO_EVIDENCE=1 VERIF_REPO=$W ./vcheck $P --jobs ${JOBS:-12} 2>&1 | grep -E "^VIOLATION|^KNOWN|^C[0-9]+:|TASK-ERROR" | cut -c1-260 | sed "s/^/[$P] /" | head -${LINES_MAX:-8}
done
