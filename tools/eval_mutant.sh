#!/bin/sh
# usage: eval_mutant.sh <patch.diff> <prop> [<prop> ...]   -- runs the quick checks on a scratch worktree with the patch applied
PATCH="$1"; shift
W=/tmp/evalrepo
HEAD=$(git -C /repo rev-parse HEAD)
git -C $W checkout -q -f --detach $HEAD && git -C $W clean -fdq
cp /repo/librebound*.so $W/ 2>/dev/null; git -C $W apply "$PATCH" || { echo "PATCH DOES NOT APPLY"; exit 2; }
cd /verif
for P in "$@"; do
  VERIF_NO_EVIDENCE=1 VERIF_REPO=$W ./vcheck $P --jobs ${JOBS:-12} 2>&1 | grep -E "^VIOLATION|^KNOWN|^C[0-9]+:|TASK-ERROR" | cut -c1-260 | sed "s/^/[$P] /" | head -${LINES_MAX:-8}
done
git -C $W checkout -q -f --detach $HEAD
