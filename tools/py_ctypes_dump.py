"""py_ctypes_dump -- run under the interpreter that has REBOUND's python deps (/venv/bin/python) with
PYTHONPATH=<tree under analysis>.  Imports the real package of that tree and prints, as JSON, what ctypes itself
computed for every ctypes.Structure subclass defined in rebound/*.py and rebound/integrators/*.py (offset, size and a
type descriptor per _fields_ entry, total size), every module-level option table (dict str->int, list of tuples) and,
per class, what kind of object each attribute named like a property really is at run time.

No verification logic lives here: this only dumps run-time facts of the real modules (used by contracts/C18_layout.py).
"""
import sys, os, json, ctypes, importlib, pkgutil, inspect

_SIMPLE = {
    "d": ("float", 64, True), "f": ("float", 32, True), "g": ("float", 128, True),
    "i": ("int", 32, True), "I": ("int", 32, False), "l": ("int", 8 * ctypes.sizeof(ctypes.c_long), True),
    "L": ("int", 8 * ctypes.sizeof(ctypes.c_ulong), False), "q": ("int", 64, True), "Q": ("int", 64, False),
    "h": ("int", 16, True), "H": ("int", 16, False), "b": ("int", 8, True), "B": ("int", 8, False),
    "c": ("int", 8, True), "?": ("int", 8, False),
}
_CFuncPtr = ctypes.CFUNCTYPE(None).__mro__[1]
_Pointer = ctypes.POINTER(ctypes.c_int).__mro__[1]
_SimpleCData = ctypes.c_int.__mro__[1]


def qual(cls):
    return "%s.%s" % (cls.__module__, cls.__name__)


def desc(t, depth=0):
    if t is None:
        return {"k": "void"}
    if isinstance(t, type) and issubclass(t, ctypes.Structure):
        return {"k": "struct", "cls": qual(t)}
    if isinstance(t, type) and issubclass(t, ctypes.Union):
        return {"k": "union", "cls": qual(t)}
    if isinstance(t, type) and issubclass(t, ctypes.Array):
        return {"k": "array", "n": t._length_, "elem": desc(t._type_, depth + 1), "size": ctypes.sizeof(t)}
    if isinstance(t, type) and issubclass(t, _CFuncPtr):
        return {"k": "func", "res": desc(t._restype_, depth + 1),
                "args": [desc(a, depth + 1) for a in (t._argtypes_ or ())]}
    if isinstance(t, type) and issubclass(t, _Pointer):
        return {"k": "ptr", "to": desc(t._type_, depth + 1) if depth < 6 else {"k": "?"}}
    if isinstance(t, type) and issubclass(t, _SimpleCData):
        c = t._type_
        if c == "P":
            return {"k": "ptr", "to": {"k": "void"}}
        if c == "z":
            return {"k": "ptr", "to": {"k": "int", "bits": 8, "signed": True}, "charp": True}
        if c == "Z":
            return {"k": "ptr", "to": {"k": "int", "bits": 32, "signed": True}, "wcharp": True}
        if c in _SIMPLE:
            k, b, s = _SIMPLE[c]
            return {"k": k, "bits": b, "signed": s, "ctype": t.__name__}
        return {"k": "?", "code": c}
    return {"k": "?", "repr": repr(t)}


def main():
    import rebound
    out = {"python": sys.version.split()[0], "package_file": os.path.abspath(rebound.__file__),
           "libpath": getattr(rebound, "__libpath__", None), "classes": {}, "tables": {}, "modules": {}}
    pkgdir = os.path.dirname(os.path.abspath(rebound.__file__))
    modnames = ["rebound"]
    for m in pkgutil.walk_packages([pkgdir], "rebound."):
        if ".tests" in m.name:
            continue
        modnames.append(m.name)
    mods = {}
    for n in modnames:
        try:
            mods[n] = importlib.import_module(n)
            out["modules"][n] = {"file": os.path.abspath(getattr(mods[n], "__file__", "") or ""), "error": None}
        except Exception as ex:     # optional deps (widget, plotting) may be missing: recorded, decided by the pack
            out["modules"][n] = {"file": None, "error": "%s: %s" % (type(ex).__name__, ex)}
    seen = set()
    for n, mod in sorted(mods.items()):
        for aname, obj in sorted(vars(mod).items()):
            if isinstance(obj, type) and issubclass(obj, (ctypes.Structure, ctypes.Union)) and obj.__module__ == n:
                if obj in seen or obj in (ctypes.Structure, ctypes.Union):
                    continue
                seen.add(obj)
                fields = []
                for ent in getattr(obj, "_fields_", ()):
                    fname, ftype = ent[0], ent[1]
                    d = inspect.getattr_static(obj, fname)
                    fields.append({"name": fname, "offset": getattr(d, "offset", None), "size": getattr(d, "size", None),
                                   "descriptor": type(d).__name__, "type": desc(ftype),
                                   "bitfield": len(ent) > 2})
                attrs = {}
                for k, v in vars(obj).items():
                    attrs[k] = type(v).__name__
                out["classes"][qual(obj)] = {
                    "module": n, "name": obj.__name__, "doc": (obj.__doc__ or "")[:1500],
                    "size": ctypes.sizeof(obj), "align": ctypes.alignment(obj), "fields": fields,
                    "attr_kinds": attrs, "pack": getattr(obj, "_pack_", None),
                    "bases": [qual(b) for b in obj.__mro__[1:] if b not in (object,)],
                }
            elif aname.isupper() and isinstance(obj, dict) and obj and all(isinstance(k, str) for k in obj) \
                    and all(isinstance(v, int) and not isinstance(v, bool) for v in obj.values()):
                out["tables"]["%s.%s" % (n, aname)] = {"kind": "dict", "items": [[k, v] for k, v in obj.items()]}
            elif aname.isupper() and isinstance(obj, (list, tuple)) and obj and all(isinstance(e, tuple) for e in obj):
                try:
                    json.dumps(obj)
                    out["tables"]["%s.%s" % (n, aname)] = {"kind": "list", "items": [list(e) for e in obj]}
                except TypeError:
                    pass
    json.dump(out, sys.stdout)


if __name__ == "__main__":
    main()
