"""Copy confirmed mutants into /verif/seeded/<id>/ and record which checks catch them (run on the scratch worktree /tmp/evalrepo)."""
import os, sys, json, shutil, subprocess, re, glob
ROOT = "/verif"
CONF = {}
import itertools
def _lines(*fs):
    for f in fs:
        if os.path.exists(f):
            for l in open(f):
                yield l
for l in _lines("/tmp/mut/confirm.jsonl", "/tmp/mut/confirm2.jsonl", "/tmp/mut3/confirm3.jsonl", "/tmp/mut3/confirm3b.jsonl", "/tmp/mut4/confirm4.jsonl", "/tmp/mut5/confirm5.jsonl", "/tmp/mut6/confirm6.jsonl", "/tmp/mut7/confirm7.jsonl"):
    try:
        d = json.loads(l)
        CONF[d["dir"]] = d
    except Exception:
        pass
EXTRA = {"C05": ["C05", "C06", "C17"], "C06": ["C06", "C05"], "C17": ["C17", "C05"], "C04": ["C04", "C02", "C09"], "C10": ["C10", "C02"]}
WAVE = os.environ.get("WAVE", "")          # "3": take /tmp/mut3/Cxx_out/*, ids Cxx-w3<name>, own property only
if WAVE in ("3", "4", "5", "6", "7"):
    EXTRA = {}
only = sys.argv[1:]
for d in sorted(glob.glob("/tmp/mut%s/C*_out/*m[0-9]" % WAVE) if WAVE in ("3", "4", "5", "6", "7") else glob.glob("/tmp/mut/C*_out/m*")):
    prop = os.path.basename(os.path.dirname(d))[:3]
    mid = "%s-%s%s" % (prop, ("w" + WAVE) if WAVE in ("3", "4", "5", "6", "7") else "", os.path.basename(d).replace("extra_", "x"))
    if only and mid not in only and prop not in only:
        continue
    if not os.path.exists(os.path.join(d, "patch.diff")):
        continue
    out = os.path.join(ROOT, "seeded", mid)
    conf = CONF.get(d)
    if conf is None:
        r = subprocess.run([os.path.join(ROOT, "tools/confirm_mutant.sh"), d], capture_output=True, text=True)
        try:
            conf = json.loads(r.stdout.strip().split("\n")[-1])
        except Exception:
            conf = {"error": r.stdout[-300:] + r.stderr[-300:]}
    ok = conf.get("demo_unmodified_exit") == 0 and conf.get("patch_applies") == 0 and conf.get("build") == 0 and \
        "873 passed" in conf.get("suite", "") and conf.get("demo_mutant_exit", 0) != 0
    if not ok:
        print(mid, "NOT CONFIRMED", conf)
        continue
    os.makedirs(out, exist_ok=True)
    for f in os.listdir(d):
        if os.path.isfile(os.path.join(d, f)):
            shutil.copy(os.path.join(d, f), os.path.join(out, f))
    meta = {}
    try:
        meta = json.load(open(os.path.join(d, "meta.json")))
    except Exception:
        pass
    meta["confirmed_by_lead"] = {"worktree": "/tmp/confirm at /repo HEAD %s" % subprocess.run(["git", "-C", "/repo", "rev-parse", "--short", "HEAD"], capture_output=True, text=True).stdout.strip(),
                                 "demo_on_unmodified_tree_exit": conf["demo_unmodified_exit"], "patch_applies": True, "builds": True,
                                 "test_suite_with_mutant": conf["suite"], "demo_with_mutant_exit": conf["demo_mutant_exit"]}
    det = {}
    for p in EXTRA.get(prop, [prop]):
        r = subprocess.run([os.path.join(ROOT, "tools/eval_mutant.sh"), os.path.join(d, "patch.diff"), p], capture_output=True, text=True,
                           env=dict(os.environ, LINES_MAX="40", JOBS="10"))
        lines = [l for l in r.stdout.split("\n") if l.startswith("[%s]" % p)]
        viol = [re.sub(r".*replay=/verif/replays/[^/]+/", "", l).replace(".json", "") for l in lines if "VIOLATION" in l]
        summ = [l for l in lines if re.search(r"\] C\d+:", l)]
        det[p] = {"violations": viol[:12], "n_violation_lines": len(viol), "summary": summ[-1][6:] if summ else "", "caught": bool(viol)}
    meta["detection"] = det
    meta["caught_by"] = [p for p, x in det.items() if x["caught"]]
    json.dump(meta, open(os.path.join(out, "meta.json"), "w"), indent=1)
    print(mid, "caught by", meta["caught_by"])
