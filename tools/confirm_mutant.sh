#!/bin/sh
# usage: confirm_mutant.sh <dir with patch.diff + demo*> ; confirms in scratch worktree /tmp/confirm: demo passes unmodified, patch applies,
# builds, suite keeps 873 passed, demo fails with the patch. Prints one JSON line.
D="$1"; W=${W:-/tmp/confirm}
HEAD=$(git -C /repo rev-parse HEAD)
git -C $W checkout -q -f --detach $HEAD; git -C $W clean -fdq -e build
cd $W
DEMO=$(ls $D | grep -E "^demo.*\.py$" | head -1)
# FULL=1: changes to headers need a full rebuild (setup.py does not track header dependencies)
[ -n "$FULL" ] && rm -rf build librebound*.so
/venv/bin/python setup.py build_ext --inplace -q >/dev/null 2>&1
cp $D/$DEMO $W/_demo.py
for x in $D/*.py; do [ "$(basename $x)" = "$DEMO" ] || cp $x $W/; done
/venv/bin/python _demo.py >$W.demo0.log 2>&1; R0=$?
git apply $D/patch.diff 2>/dev/null; A=$?
[ -n "$FULL" ] && rm -rf build librebound*.so
/venv/bin/python setup.py build_ext --inplace -q >$W.build.log 2>&1; B=$?
SUITE=$(/venv/bin/python -m pytest -q -p no:cacheprovider --timeout=900 --continue-on-collection-errors 2>&1 | tail -1)
/venv/bin/python _demo.py >$W.demo1.log 2>&1; R1=$?
rm -f _demo.py
[ -n "$FULL" ] && rm -rf build librebound*.so
git checkout -q -f --detach $HEAD; git clean -fdq -e build
echo "{\"dir\":\"$D\",\"demo\":\"$DEMO\",\"demo_unmodified_exit\":$R0,\"patch_applies\":$A,\"build\":$B,\"suite\":\"$SUITE\",\"demo_mutant_exit\":$R1}"
