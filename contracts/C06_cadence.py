"""C06 (cadence part): reb_simulationarchive_heartbeat takes an automatic snapshot exactly when the threshold is crossed,
and the snapshot it writes already carries the ADVANCED threshold, so that a run restarted from that snapshot neither
duplicates nor skips a snapshot (the persisted simulationarchive_next / _next_step are part of the saved state: C05).
"""
import z3
from engine.api import Pack
from engine.csym import as_int, as_real
from engine.mem import Ptr, NULL, Opaque

P = Pack("C06", ["src/simulationarchive.c"], "automatic snapshot cadence")
PACKS = [P]
P.assume("cadence is stated per heartbeat call (one call per completed step from reb_simulation_integrate_raw: C08/C19)")
P.not_decided += ["wall-time cadence (depends on the wall clock)", "cadence over a whole integration (induction over steps)"]


def heartbeat(v, mode):
    eng = v.eng
    r, rp = v.struct_obj("struct reb_simulation", "r")
    r.simulationarchive_filename = Opaque("fname", tag=z3.BoolVal(True))
    t, dt, nxt, interval = v.real("t"), v.real("dt"), v.real("next"), v.real("interval")
    steps, nstep, astep = v.int("steps_done"), v.int("next_step"), v.int("auto_step")
    r.t, r.dt, r.simulationarchive_next = t, dt, nxt
    r.steps_done, r.simulationarchive_next_step = steps, nstep
    r.simulationarchive_auto_walltime = 0.0
    if mode == "interval":
        r.simulationarchive_auto_interval, r.simulationarchive_auto_step = interval, 0
        v.assume(interval > 0, dt != 0)
    else:
        r.simulationarchive_auto_interval, r.simulationarchive_auto_step = 0.0, astep
        v.assume(astep > 0, steps >= 0, nstep >= 0)
    eng.guarded_traces = True

    def save(e, st, args, n):
        so = st.mem.get(rp.obj)
        st.trace = st.trace + [("save", {k: so.fields.get(k) for k in ("simulationarchive_next", "simulationarchive_next_step", "t", "steps_done")})]
        return None
    eng.trace_prims["reb_simulation_save_to_file"] = save
    eng.havoc_calls.add("reb_simulation_error")
    v.call("reb_simulationarchive_heartbeat", rp)
    saved = []          # (condition under which the snapshot is taken, saved fields)

    def collect(tr, cond):
        for x in tr:
            if x[0] == "guard":
                collect(x[2], z3.And(cond, x[1]))
                collect(x[3], z3.And(cond, z3.Not(x[1])))
            elif x[0] == "save":
                saved.append((z3.simplify(cond), x[1]))
    collect(v.st.trace, z3.BoolVal(True))
    return dict(r=r, t=t, dt=dt, nxt=nxt, interval=interval, steps=steps, nstep=nstep, astep=astep, saved=saved)


@P.task("heartbeat.step_cadence", fn="reb_simulationarchive_heartbeat")
def _(v):
    E = heartbeat(v, "step")
    due = E["nstep"] <= E["steps"]
    v.ground("one_snapshot_site_reached", len(E["saved"]) == 1, str(len(E["saved"])))
    if len(E["saved"]) == 1:
        cond, s = E["saved"][0]
        v.prove("snapshot_iff_due", cond == due)
        v.prove("saved_state_carries_advanced_threshold", z3.Implies(cond, as_int(s["simulationarchive_next_step"]) == E["nstep"] + E["astep"]))
    v.prove("threshold_after_call", as_int(E["r"].simulationarchive_next_step) == z3.If(due, E["nstep"] + E["astep"], E["nstep"]))


@P.task("heartbeat.interval_cadence", fn="reb_simulationarchive_heartbeat")
def _(v):
    E = heartbeat(v, "interval")
    sign = z3.If(E["dt"] > 0, z3.RealVal(1), z3.RealVal(-1))
    due = sign * E["nxt"] <= sign * E["t"]
    v.ground("one_snapshot_site_reached", len(E["saved"]) == 1, str(len(E["saved"])))
    if len(E["saved"]) == 1:
        cond, s = E["saved"][0]
        v.prove("snapshot_iff_due", cond == due)
        v.prove("saved_state_carries_advanced_threshold", z3.Implies(cond, as_real(s["simulationarchive_next"]) == E["nxt"] + sign * E["interval"]))
    v.prove("threshold_after_call", as_real(E["r"].simulationarchive_next) == z3.If(due, E["nxt"] + sign * E["interval"], E["nxt"]))
