"""C19: independent simulations do not share mutable state; the web server only ever sees step-boundary states.

What contracts can say here are FRAMES and LOCK STATE, computed on every run from clang's AST of every translation unit
that setup.py compiles into librebound (engine/frames.py):
  sources          the analysed set of TUs is the set that is compiled
  globals          every object with static storage duration is never written (allow-list: reb_sigint, writers exact)
  libc             no non-reentrant libc function is referenced anywhere
  step_frame       reb_simulation_step / integrate write only through their simulation argument
  lockset.*        held(server_data->mutex) by abstract interpretation of reb_simulation_integrate_raw,
                   reb_server_start, reb_simulation_output_screenshot; every access to simulation state outside the
                   lock is an obligation (discharged only if computed harmless or listed below as reviewed)
  serialise_frame  the write frame of reb_simulation_save_to_stream on the simulation, member by member
The step from these to "all interleavings are equivalent to the sequential run / snapshots are step-boundary states"
is the data-race-freedom meta-theorem (trusted, listed below).
"""
import re
from engine.api import Pack
from engine import cfront, frames

_COMPILED, _ALLC = frames.library_sources()
P = Pack("C19", list(_COMPILED), "frames and lock state of the library as compiled")
PACKS = [P]

P.trust("data-race-freedom meta-theorem: threads that share no mutable state except locations accessed only while "
        "holding one common mutex behave as some sequential interleaving of their critical sections; with no shared "
        "state at all they behave exactly as when run one after another")
P.trust("pthread mutex implementation and the C11/x86-64 memory model (aligned word-sized stores are not torn)")
P.assume("calls through function pointers (user callbacks heartbeat, additional_forces, pre/post_timestep_modifications, "
         "collision_resolve, key_callback, free_particle_ap, ODE callbacks, TRACE/MERCURIUS switching functions) are not "
         "followed; what user code does inside them is outside the claim")
P.assume("points-to inside a function is flow-insensitive and collapses array elements; external (libc) functions are "
         "assumed to write through every pointer parameter that is not pointer-to-const")
P.assume("a static pointer object whose value is copied into a local and then written through is only detected at the "
         "assignment of the static pointer itself (there is no non-const static pointer in the library: see globals)")
P.assume("reads of simulation members by the integrating thread itself outside the lock are not obligations: the only "
         "concurrent writer is the server thread, which (lockset.server, serialise_frame) writes the simulation only under "
         "the mutex (serialise frame) or the run-control word `status`; in reb_server_start reads ARE obligations")
# Genuine defects found by this pack on the pinned tree (obligations kept; native reproductions in tools/repro/):
#  * serialise_frame.member.ri_ias15.N_allocated: reb_simulation_save_to_stream shrinks ri_ias15.N_allocated to 3N; if N
#    later grows again reb_integrator_ias15_alloc reallocates AND clears b/e/csb/csx/csv, so one served /simulation request
#    changes the trajectory bits (tools/repro/C19_serving_alters_ias15_trajectory.py).
#  * lockset.integrate.server.call.reb_check_exit#1 / call.reb_simulation_synchronize#1 / write.dt#2:
#    reb_simulation_integrate_raw synchronises the simulation and restores dt OUTSIDE the locked region; a request served
#    there returns a half-synchronised state with the shortened last dt, from which the run does not continue
#    identically (tools/repro/C19_snapshot_during_unlocked_synchronize.py).
P.not_decided.append("thread scheduling, the pthread implementation and the hardware memory model are not modelled")

_LIB = {}


def lib():
    if "lib" not in _LIB:
        _LIB["lib"] = frames.Lib(cfront.REPO, _COMPILED)
    return _LIB["lib"]


def nm(s):
    return re.sub(r"[^A-Za-z0-9_.:#\[\]>-]", "_", str(s))


# =========================================================================================== sources
@P.task("sources")
def _(v):
    v.ground("setup_py_lists_sources", len(_COMPILED) >= 25, "%d sources in setup.py" % len(_COMPILED))
    for f in _ALLC:
        base = f.split("/")[-1]
        v.ground("file.%s.compiled_or_explicitly_excluded" % base, (f in _COMPILED) != (base in frames.NOT_IN_LIBRARY),
                 "%s: in setup.py sources: %s, in explicit not-in-library list: %s" % (f, f in _COMPILED, base in frames.NOT_IN_LIBRARY))
    for f in _COMPILED:
        v.ground("file.%s.exists" % f.split("/")[-1], f in _ALLC, f)
    flags = cfront.compile_flags()
    v.ground("analysed_with_library_flags", "-DSERVER" in flags and "-DLIBREBOUND" in flags and not any("OPENGL" in x or "MPI" in x for x in flags),
             "flags %s (OPENGL/MPI code is not part of the python library build)" % flags)


# =========================================================================================== globals
ALLOWED_WRITTEN = {
    # object : exact set of functions allowed to write it
    "reb_sigint": {"reb_sigint_handler", "reb_simulation_integrate_raw"},
}
P.assume("reb_sigint (volatile sig_atomic_t) is the only written global: reset at the start of every integrate call and "
         "incremented by the SIGINT handler; in runs in which no SIGINT is delivered it is constantly 0 and is only "
         "read, so it carries no information between simulations")


@P.task("globals")
def _(v):
    L = lib()
    shared = frames.shared_variables(L)
    events = frames.variable_events(L, shared)
    by = {}
    for (key, mode, fn, f, line) in events:
        by.setdefault(key, []).append((mode, fn, f, line))
    v.ground("enumeration_nonempty", len(shared) >= 50, "%d objects with static storage duration" % len(shared))
    for key in sorted(set(by) - set(shared)):
        v.ground("object.%s.declared" % nm(key), False, "written/escaping object not in the enumeration: %s" % by[key])
    for key, info in sorted(shared.items()):
        evs = by.get(key, [])
        where = "%s:%s `%s` (%s scope)" % (info["file"], info["line"], info["type"], info["scope"])
        if info["const"]:
            bad = [e for e in evs if e[0] in ("w", "wt")]
            v.ground("object.%s.const_never_written" % nm(key), not bad, "%s; writes: %s" % (where, bad))
            continue
        if key in ALLOWED_WRITTEN:
            writers = {fn for (m, fn, f, line) in evs}
            modes = {m for (m, fn, f, line) in evs}
            v.ground("object.%s.writers_exact" % nm(key), writers == ALLOWED_WRITTEN[key] and modes <= {"w"},
                     "%s; writers %s (modes %s), allowed %s" % (where, sorted(writers), sorted(modes), sorted(ALLOWED_WRITTEN[key])))
            continue
        v.ground("object.%s.never_written" % nm(key), not evs,
                 "%s is written / its address escapes in: %s" % (where, ["%s (%s:%s, %s)" % (fn, f, line, {"w": "write", "a": "address taken", "wt": "written through"}[m]) for (m, fn, f, line) in evs]))
    for key in ALLOWED_WRITTEN:
        v.ground("allowlist.%s.exists" % key, key in shared, "allow-listed object still exists")


# =========================================================================================== libc
# POSIX.1-2008 2.9.1 "need not be thread-safe" list (restricted to C library functions) plus the classic hidden-state
# generators; `system` and `exit`/`signal` are process-global and handled as reviewed call sites below.
NON_REENTRANT = """asctime basename catgets crypt ctime dbm_clearerr dbm_close dbm_delete dbm_error dbm_fetch dbm_firstkey
dbm_nextkey dbm_open dbm_store dirname dlerror drand48 ecvt encrypt endgrent endpwent endutxent fcvt ftw gcvt
getc_unlocked getchar_unlocked getdate getgrent getgrgid getgrnam gethostbyaddr gethostbyname gethostent getlogin
getnetbyaddr getnetbyname getnetent getopt getprotobyname getprotobynumber getprotoent getpwent getpwnam getpwuid
getservbyname getservbyport getservent getutxent getutxid getutxline gmtime hcreate hdestroy hsearch inet_ntoa l64a
lgamma lgammaf lgammal localeconv localtime lrand48 mrand48 nftw nl_langinfo ptsname putc_unlocked putchar_unlocked
putenv pututxline rand random readdir setenv setgrent setkey setpwent setutxent srand srand48 srandom seed48 lcong48
strerror strsignal strtok tmpnam tempnam ttyname unsetenv clearenv wcstombs wctomb mblen mbtowc setlocale""".split()
ENV_WRITERS = ["putenv", "setenv", "unsetenv", "clearenv"]
REVIEWED_PROCESS_GLOBAL = {
    # function : (exact set of callers, reason)
    "system": ({"reb_server_start"}, "runs `curl` once at server start-up when rebound.html is missing; touches no simulation state"),
    "signal": ({"reb_simulation_integrate_raw"}, "installs the same SIGINT handler on every integrate call (idempotent)"),
    "exit": ({"reb_exit"}, "fatal-error exit of the whole process"),
}
for _f, (_c, _r) in sorted(REVIEWED_PROCESS_GLOBAL.items()):
    P.assume("reviewed process-global call: %s() only from %s: %s" % (_f, sorted(_c), _r))


@P.task("libc")
def _(v):
    L = lib()
    cf = frames.called_functions(L)
    v.ground("call_set_nonempty", len(cf) > 300, "%d distinct functions referenced" % len(cf))
    for f in NON_REENTRANT:
        v.ground("never_references.%s" % f, f not in cf, "%s referenced from %s" % (f, sorted(set(cf.get(f, [])))[:6]))
    v.ground("getenv_only_without_environment_writers", not ("getenv" in cf and any(w in cf for w in ENV_WRITERS)),
             "getenv: %s" % sorted(set(cf.get("getenv", []))))
    for f, (callers, why) in sorted(REVIEWED_PROCESS_GLOBAL.items()):
        got = {c for (c, _f, _l) in cf.get(f, [])}
        v.ground("process_global.%s.callers_exact" % f, got <= callers, "%s called from %s; reviewed callers %s" % (f, sorted(got), sorted(callers)))
    # the reentrant replacements are really what the code uses (sanity of the detection itself)
    v.ground("uses.strtok_r", "strtok_r" in cf, "tokeniser used: %s" % sorted({c for (c, _f, _l) in cf.get("strtok_r", [])}))
    v.ground("uses.rand_r", "rand_r" in cf, "random generator used with per-simulation seed")
    # rand_r must be given the seed stored in the simulation (or a caller-provided seed pointer), never a static
    bad = []
    for t, fname, fn in L.bodies():
        for n in frames.walk(fn):
            if n.get("kind") == "CallExpr" and frames.callee_name(n) == "rand_r":
                a = frames.strip_casts(n["inner"][1])
                txt = frames.expr_text(a)
                root = a
                while root.get("kind") in ("UnaryOperator", "MemberExpr", "ParenExpr", "ImplicitCastExpr", "ArraySubscriptExpr"):
                    root = root["inner"][0]
                d = root.get("referencedDecl", {})
                autos, _st = frames.local_decls(fn)
                if not (root.get("kind") == "DeclRefExpr" and d.get("id") in autos):
                    bad.append("%s: rand_r(%s)" % (fname, txt))
    v.ground("rand_r_seed_is_not_static", not bad, "seed expressions rooted at a non-local object: %s" % bad)


# =========================================================================================== step frame
@P.task("step_frame")
def _(v):
    L = lib()
    S = frames.Summaries(L)
    roots = ["reb_simulation_step", "reb_simulation_integrate", "reb_simulation_steps", "reb_simulation_synchronize"]
    S.compute(roots + ["reb_simulation_integrate_raw", "reb_check_exit", "reb_run_heartbeat"])
    for f in roots + ["reb_simulation_integrate_raw"]:
        s = S.sum.get(f)
        v.ground("%s.analysed" % f, s is not None, "")
        if s is None:
            continue
        gl = sorted({w[0][1] for w in s.writes if w[0][0] == "G"} - set(ALLOWED_WRITTEN))
        v.ground("%s.writes_no_global" % f, not gl, "globals written (transitively): %s" % gl)
        others = sorted({w[0] for w in s.writes if w[0][0] == "P" and w[0][1] != 0})
        v.ground("%s.writes_only_through_simulation_argument" % f, not others or f == "reb_simulation_integrate_raw",
                 "parameters written through: %s" % others)
    s = S.sum.get("reb_simulation_step")
    if s is not None:
        tops = {p.split(".")[0] for p in s.param_paths(0)}
        v.ground("reb_simulation_step.does_not_touch_server_data", "server_data" not in tops and "display_data" not in tops, str(sorted(tops)))
        P_ind = sorted(s.indirect)
        v.ground("reb_simulation_step.indirect_calls_listed", len(P_ind) > 0, "not followed (user callbacks): %s" % P_ind)


# =========================================================================================== lockset
def server_mutex(arg):
    """Is this pthread_mutex_* argument the address of the `mutex` member of a struct reb_server_data?"""
    a = frames.strip_casts(arg)
    if a.get("kind") == "UnaryOperator" and a.get("opcode") == "&":
        a = frames.strip_casts(a["inner"][0])
    return a.get("kind") == "MemberExpr" and a.get("name") == "mutex" and \
        "struct reb_server_data" in frames.qtype(a["inner"][0])


HARMLESS_PREFIXES = ("messages",)      # message ring buffer: not part of a snapshot (checked in serialise_frame)


def frame_on_sim(S, callee, call_node):
    """paths the callee may write inside the simulation passed to it (None if callee unknown/indirect)."""
    s = S.sum.get(callee)
    if s is None:
        return None, None
    idx = [i for i, a in enumerate([c for c in call_node["inner"][1:] if isinstance(c, dict)]) if frames.SIM_PTR.match(frames.qtype(a))]
    paths = set()
    for i in idx:
        paths |= set(s.param_paths(i))
    return paths, s


def ordinals(events):
    """(line, kind, what, id) -> ordinal of that (kind, what) in source order."""
    cnt, res = {}, {}
    for key in sorted(events, key=lambda k: (k[0] or 0, str(k[3]))):
        c = cnt[(key[1], key[2])] = cnt.get((key[1], key[2]), 0) + 1
        res[key] = c
    return res


# --- reviewed accesses outside the lock.  Key: (function, kind, what, ordinal or None=any).  Each entry is an assumption.
REVIEWED = {
    ("reb_simulation_integrate_raw", "write", "status", None):
        "run-control word (aligned int store); also written by the keyboard commands; not used by any force/step computation",
    ("reb_simulation_integrate_raw", "write", "dt", 1):
        "before the first step: sign of dt set from tmax; re-derived identically when a snapshot is continued",
    ("reb_simulation_integrate_raw", "write", "dt_last_done", 1):
        "before the first step: reset to 0; re-derived identically when a snapshot is continued",
    ("reb_simulation_integrate_raw", "call", "reb_run_heartbeat", 1):
        "heartbeat at the initial boundary (before the first step): frame is {status} plus the user callback",
    ("reb_simulation_integrate_raw", "call", "reb_simulationarchive_heartbeat", 2):
        "final archive snapshot after the loop: writes only the serialise frame and simulationarchive_next(_step)",
    ("reb_server_start", "write", "status", None):
        "keyboard commands Q/space/arrow/page-down: explicit client control of pausing/stopping; a word-sized store to the "
        "run-control word; changes when the run stops or pauses, not the state reached by any step",
    ("reb_server_start", "read", "status", None): "keyboard commands: reads the run-control word",
    ("reb_simulation_output_screenshot", "write", "status", None): "run-control word while waiting for the client",
}
for (_fn, _k, _w, _o), _why in sorted(REVIEWED.items(), key=str):
    P.assume("reviewed unlocked access in %s: %s %s%s: %s" % (_fn, _k, _w, "" if _o is None else " #%d" % _o, _why))


def reviewed(fn, kind, what, ordinal):
    return REVIEWED.get((fn, kind, what, ordinal)) or REVIEWED.get((fn, kind, what, None))


def check_events(v, tag, fname, flow, S, include_reads):
    """One obligation per access to simulation state: under the lock, or computed harmless, or reviewed."""
    ords = ordinals(flow.events)
    n_unlocked = 0
    for key in sorted(flow.events, key=lambda k: (k[0] or 0, str(k[3]))):
        line, kind, what, nid = key
        held = flow.events[key]
        if kind == "read" and not include_reads:
            continue
        if what == "server_data" and kind in ("read", "write-through"):
            continue        # the server's own bookkeeping record (mutex, flags), not simulation state; reassignment
                            # of the pointer itself (kind "write") is still checked
        name = "%s.%s.%s#%d" % (tag, kind, nm(what), ords[key])
        if held == {1}:
            v.ground(name + ".under_lock", True, "line %s: mutex held" % line)
            continue
        n_unlocked += 1
        why = None
        if kind == "call":
            node = next(x for x in frames.walk(flow.fn) if x.get("id") == nid)
            paths, s = frame_on_sim(S, what, node)
            if paths is not None and not s.indirect and all(p.split(".")[0] in HARMLESS_PREFIXES for p in paths):
                why = "computed: callee writes only %s of the simulation" % (sorted({p.split(".")[0] for p in paths}) or "nothing")
            detail_frame = "callee may write %s%s" % (sorted({p if p.count(".") < 2 else ".".join(p.split(".")[:3]) for p in (paths or [])})[:25],
                                                      "; calls user callbacks %s" % sorted(s.indirect) if s is not None and s.indirect else "")
        else:
            detail_frame = "%s of r->%s" % (kind, what)
        if why is None:
            why = reviewed(fname, kind, what, ords[key])
            why = ("reviewed: " + why) if why else None
        v.ground(name + ".under_lock_or_harmless", why is not None,
                 "line %s: %s with server mutex %s; %s; %s" % (line, kind + " " + str(what), "possibly not held" if held != {0} else "NOT held",
                                                              detail_frame, why or "NOT reviewed as harmless"))
    return n_unlocked


def summaries_for(L, extra=()):
    S = frames.Summaries(L)
    S.compute(["reb_simulation_save_to_stream", "reb_simulation_synchronize", "reb_check_exit", "reb_run_heartbeat",
               "reb_simulationarchive_heartbeat", "reb_particle_check_testparticles", "reb_simulation_warning",
               "reb_simulation_error", "reb_simulation_step"] + list(extra))
    return S


@P.task("lockset.integrate", fn="reb_simulation_integrate_raw")
def _(v):
    L = lib()
    t, fn = L.function("reb_simulation_integrate_raw")
    v.ground("function_found", fn is not None, "reb_simulation_integrate_raw")
    if fn is None:
        return
    S = summaries_for(L)
    # case server_data != NULL
    flow = frames.LockFlow(t, fn, server_mutex, assume={"server_data": True}).run()
    v.ground("server.lock_operations_present", [op for op, _l in flow.lock_ops] == ["lock", "unlock"], str(flow.lock_ops))
    v.ground("server.no_double_lock_or_stray_unlock", not flow.problems, "; ".join(sorted(flow.problems)))
    for (line, S_) in flow.exits:
        v.ground("server.balanced_at_exit.line%s" % line, S_ == frozenset([0]), "held-set at exit: %s" % sorted(S_))
    v.ground("server.has_exit", len(flow.exits) >= 1, "")
    # the claim proper: step and the in-loop heartbeats run with the mutex held
    ords = ordinals(flow.events)
    for want, which in (("reb_simulation_step", None), ("reb_run_heartbeat", 2), ("reb_simulationarchive_heartbeat", 1)):
        hits = [(k, h) for k, h in flow.events.items() if k[1] == "call" and k[2] == want and (which is None or ords[k] == which)]
        v.ground("server.%s%s.called_with_mutex_held" % (want, "" if which is None else "#%d" % which),
                 bool(hits) and all(h == {1} for _k, h in hits), "lines %s held %s" % ([k[0] for k, _h in hits], [sorted(h) for _k, h in hits]))
    writes_sd = [k for k in flow.events if k[2] == "server_data" and k[1] in ("write", "addr")]
    v.ground("server.server_data_pointer_not_reassigned", not writes_sd, str(writes_sd))
    step = S.sum.get("reb_simulation_step")
    v.ground("server.step_does_not_write_server_data", step is not None and not any(p.split(".")[0] == "server_data" for p in step.param_paths(0)), "")
    check_events(v, "server", "reb_simulation_integrate_raw", flow, S, include_reads=False)
    # case server_data == NULL: no lock operation at all
    flow0 = frames.LockFlow(t, fn, server_mutex, assume={"server_data": False}).run()
    v.ground("noserver.no_lock_operations", not flow0.lock_ops and not flow0.problems, str(flow0.lock_ops))


@P.task("lockset.server", fn="reb_server_start")
def _(v):
    L = lib()
    t, fn = L.function("reb_server_start")
    v.ground("function_found", fn is not None, "reb_server_start")
    if fn is None:
        return
    S = summaries_for(L)
    flow = frames.LockFlow(t, fn, server_mutex).run()
    ops = [op for op, _l in flow.lock_ops]
    v.ground("lock_operations_present", ops.count("lock") >= 3 and ops.count("lock") == ops.count("unlock"), str(flow.lock_ops))
    v.ground("no_double_lock_or_stray_unlock", not flow.problems, "; ".join(sorted(flow.problems)))
    for (line, S_) in flow.exits:
        v.ground("balanced_at_exit.line%s" % line, S_ == frozenset([0]), "held-set at exit: %s" % sorted(S_))
    saves = [(k, h) for k, h in flow.events.items() if k[1] == "call" and k[2] == "reb_simulation_save_to_stream"]
    v.ground("snapshot_endpoint_serialises_with_mutex_held", len(saves) >= 1 and all(h == {1} for _k, h in saves),
             "reb_simulation_save_to_stream at lines %s, held %s" % ([k[0] for k, _h in saves], [sorted(h) for _k, h in saves]))
    # "serving requests never alters the trajectory": whatever the server thread calls with the simulation -- even under the
    # mutex -- may write only the serialiser's frame (cached SEI constants, the IAS15 allocation counter [known finding],
    # messages) or the run-control word
    callee_names = sorted({k[2] for k in flow.events if k[1] == "call"})
    S2 = summaries_for(L, extra=callee_names)
    for key in sorted(flow.events, key=lambda k: (k[0] or 0, str(k[3]))):
        line, kind, what, nid = key
        if kind != "call":
            continue
        node = next(x for x in frames.walk(flow.fn) if x.get("id") == nid)
        if str(what).startswith("(*"):
            continue            # user callback through a function pointer (key_callback): outside the claim, see P.assume
        paths, summ = frame_on_sim(S2, what, node)
        if paths is None:
            v.ground("served.call.%s.write_frame_known" % nm(what), False, "line %s: callee %s receives the simulation but has no summary" % (line, what))
            continue
        bad = sorted(p for p in paths if not (p.split(".")[0] in ("messages", "status", "server_data") or p.startswith("ri_sei.") or
                                              p == "ri_ias15.N_allocated"))
        v.ground("served.call.%s.writes_only_serialiser_frame" % nm(what), not bad and not summ.indirect,
                 "line %s: %s may write %s of the simulation%s" % (line, what, bad[:12], ("; calls user callbacks %s" % sorted(summ.indirect)) if summ.indirect else ""))
    n = check_events(v, "access", "reb_server_start", flow, S, include_reads=True)
    v.ground("events_found", len(flow.events) >= 10, "%d accesses to the simulation, %d outside the lock" % (len(flow.events), n))
    # no other function of the server thread touches the simulation: reb_server_start's callees with a simulation argument
    callees = sorted({k[2] for k in flow.events if k[1] == "call"})
    v.ground("callees_with_simulation_argument_listed", True, str(callees))


@P.task("lockset.screenshot", fn="reb_simulation_output_screenshot")
def _(v):
    L = lib()
    t, fn = L.function("reb_simulation_output_screenshot")
    v.ground("function_found", fn is not None, "")
    if fn is None:
        return
    S = summaries_for(L)
    a = frames.LockFlow(t, fn, server_mutex, assume={"mutex_locked_by_integrate": True, "server_data": True}, start=frozenset([1])).run()
    v.ground("called_from_heartbeat.releases_then_reacquires", [op for op, _l in a.lock_ops] == ["unlock", "lock"] and not a.problems,
             "%s %s" % (a.lock_ops, sorted(a.problems)))
    for (line, S_) in a.exits:
        v.ground("called_from_heartbeat.mutex_held_again_at_exit.line%s" % line, S_ == frozenset([1]), str(sorted(S_)))
    check_events(v, "called_from_heartbeat", "reb_simulation_output_screenshot", a, S, include_reads=False)
    b = frames.LockFlow(t, fn, server_mutex, assume={"mutex_locked_by_integrate": False, "server_data": True}).run()
    v.ground("called_outside_integrate.no_lock_operations", not b.lock_ops and not b.problems, str(b.lock_ops))
    # who else operates the server mutex: exactly these functions
    users = set()
    for t2, name, f2 in L.bodies():
        for n in frames.walk(f2):
            if n.get("kind") == "CallExpr" and frames.callee_name(n) in frames.LOCK_FUNCS:
                args = [c for c in n["inner"][1:] if isinstance(c, dict)]
                if args and server_mutex(args[0]):
                    users.add(name)
    v.ground("server_mutex_users_exact", users == {"reb_simulation_integrate_raw", "reb_server_start", "reb_simulation_output_screenshot"}, str(sorted(users)))
    # the flag that guards the release is set right after lock and cleared after unlock by integrate_raw only
    wr = set()
    for t2, name, f2 in L.bodies():
        def cb(kind, n, mode, name=name):
            if kind == "member" and n.get("name") == "mutex_locked_by_integrate" and mode == "w":
                wr.add(name)
        body = t2.body(f2)
        if body is not None:
            frames.visit_modes(body, "r", cb)
    v.ground("mutex_locked_by_integrate_written_only_by_integrate_raw", wr == {"reb_simulation_integrate_raw"}, str(sorted(wr)))
P.assume("reb_simulation_output_screenshot releases the mutex only when called from a heartbeat inside the locked region "
         "(flag mutex_locked_by_integrate), i.e. at a step boundary, and re-acquires it before returning")


# =========================================================================================== serialise frame
# Members of struct reb_simulation that reb_simulation_save_to_stream may write, with the reason why the write cannot
# change the trajectory.  A member written by the serialiser and NOT listed here fails its obligation.
SERIALISE_ALLOWED = {
    "ri_sei.OMEGAZ": "reb_integrator_sei_init: OMEGAZ=-1 (unset) is replaced by OMEGA, exactly what the next SEI step does first",
    "ri_sei.lastdt": "reb_integrator_sei_init: cache key of the constants below",
    "ri_sei.sindt": "reb_integrator_sei_init: recomputed from (OMEGA, dt); the SEI step recomputes it whenever lastdt != dt",
    "ri_sei.tandt": "as sindt",
    "ri_sei.sindtz": "as sindt (from OMEGAZ)",
    "ri_sei.tandtz": "as sindt (from OMEGAZ)",
    "messages": "error text for archive version < 3 only; not part of the dynamical state, not serialised",
}
for _m, _r in sorted(SERIALISE_ALLOWED.items()):
    P.assume("serialiser may write %s: %s" % (_m, _r))
P.assume("stale-OMEGA corner: if the user changes ri_sei.OMEGA without changing dt between steps, the SEI step keeps the "
         "old constants while a served snapshot refreshes them; changing OMEGA mid-run is outside the claim")


@P.task("serialise_frame", fn="reb_simulation_save_to_stream")
def _(v):
    L = lib()
    S = summaries_for(L)
    s = S.sum.get("reb_simulation_save_to_stream")
    v.ground("analysed", s is not None, "")
    if s is None:
        return
    paths = s.param_paths(0)
    v.ground("frame_nonempty", len(paths) >= 1, str(paths))
    a = S.analyses.get("reb_simulation_save_to_stream")
    direct = {}
    for (reg, line) in (a.direct_writes if a else []):
        if reg[0] == ("P", 0):
            direct.setdefault(".".join(reg[1]), set()).add(line)
    members = sorted({p if not p.startswith("messages") else "messages" for p in paths})
    for m in members:
        v.ground("member.%s.write_is_justified" % nm(m), m in SERIALISE_ALLOWED,
                 "reb_simulation_save_to_stream writes r->%s (output.c line(s) %s)%s" %
                 (m, sorted(x for x in direct.get(m, []) if x), "" if m in SERIALISE_ALLOWED else
                  ": not in the justified allow-list -- serving a snapshot changes simulation state"))
    for m in sorted(SERIALISE_ALLOWED):
        v.ground("allowlist.%s.still_written" % nm(m), m in members, "allow-list entry no longer needed" if m not in members else "")
    v.ground("writes_no_global", not [w for w in s.writes if w[0][0] == "G"], str(sorted(w for w in s.writes if w[0][0] == "G")))
    v.ground("no_user_callback", not s.indirect, str(sorted(s.indirect)))
    # the SEI constants are written by reb_integrator_sei_init only (that is what the justification relies on)
    wr = {}
    for f, an in S.analyses.items():
        for (reg, line) in an.direct_writes:
            if reg[0][0] == "P" and len(reg[1]) >= 2 and reg[1][-2:][0] == "ri_sei" and reg[1][-1] in ("sindt", "tandt", "sindtz", "tandtz", "lastdt"):
                t_, fn_ = L.function(f)
                own = any(x.get("kind") in ("BinaryOperator", "CompoundAssignOperator") and x.get("_line") == line for x in frames.walk(fn_))
                calls = any(x.get("kind") == "CallExpr" and x.get("_line") == line for x in frames.walk(fn_))
                if own and not calls:
                    wr.setdefault(f, set()).add(reg[1][-1])
    v.ground("sei_constants_assigned_only_in_sei_init", set(wr) == {"reb_integrator_sei_init"}, str({k: sorted(x) for k, x in wr.items()}))
    # `messages` is not a serialised field: its name does not occur in the binary field descriptor list
    to = cfront.tu("src/output.c")
    g = to.globals.get("reb_binary_field_descriptor_list")
    names = [x.get("value", "").strip('"') for x in frames.walk(g) if x.get("kind") == "StringLiteral"] if g else []
    v.ground("messages_not_serialised", bool(names) and "messages" not in names, "%d descriptor names" % len(names))
