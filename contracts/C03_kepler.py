"""C03: Kepler propagation of the Wisdom-Holman family -- src/integrator_whfast.c
(invfactorial[], stumpff_cs, stumpff_cs3, stiefel_Gs, stiefel_Gs3, reb_whfast_kepler_solver,
reb_whfast_kepler_step) and the MERCURIUS / TRACE call sites of the solver.

Specification side (written from the mathematics of universal variables, Stiefel & Scheifele 1971,
Mikkola & Innanen 1999, Rein & Tamayo 2015, not from the code):
  Stumpff series      c_k(z) = sum_j (-z)^j / (k+2j)!                              (z = beta X^2)
  closed forms        z = w^2 > 0:  c0 = cos w, c1 w = sin w, c2 w^2 = 1-cos w, c3 w^3 = w - sin w
                      z = -w^2 < 0: c0 = cosh w, c1 w = sinh w, c2 w^2 = cosh w - 1, c3 w^3 = sinh w - w
                      c_k = 1/k! - z c_{k+2}
  G-functions         G_n(beta, X) = X^n c_n(beta X^2)
  universal Kepler equation   dt = r0 X + eta0 G2 + zeta0 G3,   eta0 = x.v, zeta0 = M - beta r0, beta = 2M/r0 - v^2
  new radius          r = r0 + eta0 G1 + zeta0 G2,   r rdot = eta0 G0 + zeta0 G1
  Gauss f,g           x' = (1 - M G2/r0) x + (dt - M G3) v,  v' = -(M G1/(r0 r)) x + (1 - M G2/r) v
  a Kepler orbit is fixed by its constants of motion: energy (beta), angular momentum vector, eccentricity
  (Laplace-Runge-Lenz) vector; the position on it by r and the sign of r rdot.
R-mode: doubles as reals.
"""
import z3
from fractions import Fraction
from engine.api import Pack
from engine.csym import as_real, as_bool, simp
from engine.mem import Ptr

P = Pack("C03", ["src/integrator_whfast.c"], "Kepler propagation (universal variables)")
PACKS = [P]
P.assume("machine arithmetic treated as mathematical (doubles as reals); 'to rounding error' not decided")
P.assume("sqrt axiomatised per occurrence: sqrt(x)^2=x & sqrt(x)>=0 for x>=0; NaN does not exist in R-mode: every "
         "division / sqrt carries a definedness obligation instead; nan(\"\") is an unconstrained real")

PZ = ("polyid", "z3")
R = z3.RealVal
WH = "src/integrator_whfast.c"
TENTH = R(Fraction(0.1))     # the C literal 0.1 (nearest double), threshold of the argument reduction


def fact(k):
    r = 1
    for i in range(2, k + 1):
        r *= i
    return r


def cover(eng, st, name):
    """Vacuity guard for lemma paths that end inside a loop handler (the driver's guard only sees completed paths):
    the accumulated hypotheses must be satisfiable."""
    from engine.csym import Obligation
    sol = z3.Solver()
    sol.set("timeout", 5000)
    for h in st.pc:
        sol.add(h)
    if sol.check() == z3.unsat:
        ob = Obligation(eng.prefix + name + ".cover.hypotheses_satisfiable", [], z3.BoolVal(False), "cover")
        ob.verdict, ob.backend, ob.detail = "refuted", "z3", "hypotheses contradictory (vacuous lemma)"
        eng.obligations.append(ob)


# ============================================================================ 1. the table
def _eval_double(n):
    """IEEE evaluation of a constant initialiser expression (FloatingLiteral, '/', unary -) as the compiler does."""
    k = n["kind"]
    if k == "FloatingLiteral":
        return float(n["value"])
    if k == "IntegerLiteral":
        return float(int(n["value"]))
    if k in ("ImplicitCastExpr", "ParenExpr", "ConstantExpr"):
        return _eval_double(n["inner"][0])
    if k == "BinaryOperator" and n["opcode"] in "/*+-":
        a, b = (_eval_double(c) for c in n["inner"])
        return {"/": a / b, "*": a * b, "+": a + b, "-": a - b}[n["opcode"]]
    if k == "UnaryOperator" and n["opcode"] == "-":
        return -_eval_double(n["inner"][0])
    raise ValueError("initialiser kind " + k)


def _table(v):
    d = v.eng.tu0.globals["invfactorial"]
    init = [c for c in d.get("inner", ()) if c.get("kind") == "InitListExpr"][0]
    return d, [_eval_double(c) for c in init["inner"]]


@P.task("invfactorial.table", fn="stumpff_cs")
def _(v):
    """Every entry of invfactorial[] is 1/k! to within one unit in the last place (two roundings: the literal k!
    and the division), the declared length equals the number of initialisers, and the entries the Stumpff
    routines actually read (k <= 15) are *exactly* the doubles nearest to 1/k! with k! exactly representable."""
    d, tab = _table(v)
    decl_n = v.eng.tu0.node_type(d).n
    v.ground("length", decl_n == len(tab) and len(tab) >= 16, "declared %s, %d initialisers" % (decl_n, len(tab)))
    ulp = Fraction(1, 2 ** 52)
    for k, x in enumerate(tab):
        want = Fraction(1, fact(k))
        err = abs(Fraction(x) - want)
        v.ground("entry%02d" % k, err <= ulp * want, "invfactorial[%d]=%r, 1/%d! = %s, rel.err %.3g" %
                 (k, x, k, float(want), float(err / want)))
    for k in range(0, 16):
        v.ground("exact_factorial%02d" % k, Fraction(float(fact(k))) == fact(k) and tab[k] == 1.0 / float(fact(k)),
                 "k!=%d representable and entry is the correctly rounded quotient" % fact(k))


# ============================================================================ 2. Stumpff functions
def series(k, z, top):
    """partial sum of c_k(z) = sum_j (-z)^j/(k+2j)!  over all terms with k+2j <= top"""
    s, j = R(0), 0
    while k + 2 * j <= top:
        s = s + R(Fraction((-1) ** j, fact(k + 2 * j))) * z ** j
        j += 1
    return s, j            # j = index of the first neglected term


def _cs_array(v, n):
    return v.array("double", n, "cs", sym=False)


def _absz(z):
    return z3.If(z >= 0, z, -z)


for _fn, _ncs, _top in (("stumpff_cs3", 4, 13), ("stumpff_cs", 6, 15)):
    def _mk(fn=_fn, ncs=_ncs, top=_top):
        @P.task(fn + ".series", fn=fn)
        def _(v):
            """|z| <= 0.1 (no argument reduction, no quadrupling): the Horner phase returns the partial sums of the
            Stumpff series through the table entry 1/top!, and the first neglected term (times 2100/2099, the
            geometric bound on the rest of the tail for |z|<=0.1) is below 2^-53 relative to the result."""
            z = v.real("z")
            cs = _cs_array(v, ncs)
            v.assume(_absz(z) <= TENTH)
            v.call(fn, cs.ptr, z)
            for k in range(ncs):
                # odd k use the odd chain (top), even k the even chain (top-1); c0,c1 get one more term
                t = top if k % 2 else top - 1
                if k < ncs - 2:
                    pass
                s, j = series(k, z, t)
                v.prove("c%d.partial_sum" % k, cs[k] == s, order=PZ)
                negl = R(Fraction(1, fact(k + 2 * j))) * z ** j
                v.prove("c%d.truncation_below_half_ulp" % k,
                        z3.And(negl * R(Fraction(2100, 2099)) <= R(Fraction(1, 2 ** 53)) * cs[k],
                               -negl * R(Fraction(2100, 2099)) <= R(Fraction(1, 2 ** 53)) * cs[k]))
    _mk()


@P.task("stumpff_cs3.reduction", fn="stumpff_cs3")
def _(v):
    """Argument reduction while(|z|>0.1){z/=4;n++}: invariant z*4^n = z0; at exit |z| <= 0.1."""
    _reduction(v, "stumpff_cs3", 4)


@P.task("stumpff_cs.reduction", fn="stumpff_cs")
def _(v):
    _reduction(v, "stumpff_cs", 6)


def _reduction(v, fn, ncs):
    z0 = v.real("z")
    cs = _cs_array(v, ncs)
    pow4 = z3.Function("pow4", z3.IntSort(), z3.RealSort())
    k = z3.Int("k")
    v.assume(pow4(0) == 1, z3.ForAll([k], pow4(k + 1) == 4 * pow4(k)))

    def inv(L):
        return [("scaled", L.z * pow4(L.n) == z0), ("count", L.n >= 0)]
    v.loop(fn, 0, invariant=inv)

    def after(eng, st, n, cond, inc, body):
        z, nn = eng.local(st, "z"), eng.local(st, "n")
        eng.oblige(st, v.task.name + ".exit.small", _absz(z) <= TENTH)
        eng.oblige(st, v.task.name + ".exit.scaled", z * pow4(nn) == z0)
        eng.oblige(st, v.task.name + ".exit.count", nn >= 0)
        cover(eng, st, v.task.name)
        from engine.cexec import PathEnd
        raise PathEnd("reduction checked")
    v.loop(fn, 2, invariant=after, mode="custom")
    v.call(fn, cs.ptr, z0)


P.assume("4^n in the reduction invariant is the uninterpreted pow4 with pow4(0)=1, pow4(k+1)=4 pow4(k) (its definition)")
P.assume("bridge (mathematics, not code): for |z|<=0.1 the partial sums proved in *.series differ from the Stumpff "
         "functions c_k(z) by the series tail, which is bounded by 2100/2099 times the first neglected term "
         "(ratio of consecutive terms <= 0.1/(14*15)); that bound is proved to be below 2^-53 |c_k|")
P.assume("double-angle facts supplied as hypotheses of the quadrupling lemmas: sin 2w = 2 sin w cos w, "
         "cos 2w = 2 cos^2 w - 1, sin^2+cos^2=1; sinh 2w = 2 sinh w cosh w, cosh 2w = 2 cosh^2 w - 1, cosh^2-sinh^2=1")


def _closed_form(kind, w, s, c, cs, z, ncs):
    """Defining relations 'cs[k] = c_k(z)' in closed form (w != 0), z = +-w^2; s,c = sin/cos or sinh/cosh of w.
    cs is a dict k -> term (k=0 may be missing for stumpff_cs, which keeps c0 outside the loop)."""
    sg = 1 if kind == "elliptic" else -1
    rel = [("z", z == sg * w * w)]
    if 0 in cs:
        rel.append(("c0", cs[0] == c))
    rel.append(("c1", cs[1] * w == s))
    rel.append(("c2", cs[2] * w * w == sg * (1 - c)))
    rel.append(("c3", cs[3] * w * w * w == sg * (w - s)))
    if ncs == 6:
        # c_k = 1/k! - z c_{k+2}
        rel.append(("c4", z * cs[4] == R(Fraction(1, 2)) - cs[2]))
        rel.append(("c5", z * cs[5] == R(Fraction(1, 6)) - cs[3]))
    return rel


def _quadrupling(v, fn, ncs, kind):
    from engine.cexec import PathEnd
    cs = _cs_array(v, ncs)
    z0 = v.real("z")
    v.assume(_absz(z0) <= TENTH)            # irrelevant for the lemma: the loop state is havocked below
    w = v.real("w")
    tag = v.task.name
    first = 0 if ncs == 4 else 1

    def one_iteration(eng, st, n, cond, inc, body):
        # arbitrary loop state: cs[*], z arbitrary reals, n > 0
        csp = eng.local(st, "cs")
        cur = {}
        for k in range(first, ncs):
            cur[k] = z3.Real("c%d" % k)
            eng.write(st, Ptr(csp.obj, (z3.IntVal(k),)), cur[k])
        zz = z3.Real("zl")
        eng.write(st, eng.local_ptr(st, "z"), zz)
        nn = z3.Int("nl")
        eng.write(st, eng.local_ptr(st, "n"), nn)
        st.assume(nn > 0)
        if kind == "elliptic":
            s, c = z3.Real("sin_w"), z3.Real("cos_w")
            s2, c2 = 2 * s * c, 2 * c * c - 1
            st.assume(s * s + c * c == 1)
        else:
            s, c = z3.Real("sinh_w"), z3.Real("cosh_w")
            s2, c2 = 2 * s * c, 2 * c * c - 1
            st.assume(c * c - s * s == 1)
        for nm, r in _closed_form(kind, w, s, c, cur, zz, ncs):
            st.assume(r)
        eng.exec_stmt(st, body)
        if inc is not None:
            eng.rvalue(st, inc)
        new = {k: eng.read(st, Ptr(csp.obj, (z3.IntVal(k),))) for k in range(first, ncs)}
        z1 = eng.local(st, "z")
        # stumpff_cs3 does not track z in the loop: the relation is about 4*z
        zq = 4 * zz if ncs == 4 else z1
        if ncs == 6:
            eng.oblige(st, tag + ".z_quadrupled", z1 == 4 * zz)
        for nm, r in _closed_form(kind, 2 * w, s2, c2, new, zq, ncs):
            ob = eng.oblige(st, tag + ".at_4z." + nm, r)
            ob.meta["order"] = PZ
        eng.oblige(st, tag + ".counter", eng.local(st, "n") == nn - 1)
        cover(eng, st, tag)
        raise PathEnd("one iteration checked")
    v.loop(fn, 2, invariant=one_iteration, mode="custom")
    v.call(fn, cs.ptr, z0)


for _fn, _ncs in (("stumpff_cs3", 4), ("stumpff_cs", 6)):
    for _kind in ("elliptic", "hyperbolic"):
        def _mk(fn=_fn, ncs=_ncs, kind=_kind):
            @P.task("%s.quadrupling.%s" % (fn, kind), fn=fn)
            def _(v):
                """One iteration of the quadrupling loop from an arbitrary loop state: if cs[] are the Stumpff
                functions of z = +-w^2 (closed forms), afterwards they are the Stumpff functions of 4z = +-(2w)^2,
                and n decreases by one (variant)."""
                _quadrupling(v, fn, ncs, kind)
        _mk()


@P.task("stumpff_cs.c0_after_loop", fn="stumpff_cs")
def _(v):
    """stumpff_cs keeps c0 outside the loop and rescales z inside it: the quadrupling loop restores z (invariant
    z*4^n = z0, exit n = 0), so the final cs[0] = 1 - z0 cs[2] is the Stumpff recurrence at the caller's argument."""
    cs = _cs_array(v, 6)
    z0 = v.real("z")
    pow4 = z3.Function("pow4", z3.IntSort(), z3.RealSort())
    k = z3.Int("k")
    v.assume(pow4(0) == 1, z3.ForAll([k], pow4(k + 1) == 4 * pow4(k)))

    def inv(L):
        return [("scaled", L.z * pow4(L.n) == z0), ("count", L.n >= 0)]
    v.loop("stumpff_cs", 0, invariant=inv)
    v.loop("stumpff_cs", 2, invariant=inv, variant=lambda L: L.n)
    v.call("stumpff_cs", cs.ptr, z0)
    v.prove("recurrence_at_z0", cs[0] == 1 - z0 * cs[2])


# ============================================================================ 3. Stiefel G-functions
P.assume("properties of Stumpff functions used (true for the closed forms, lemma stumpff.algebraic_relations): "
         "c0 = 1 - z c2, c1 = 1 - z c3, c1^2 = c2 (1 + c0)")
P.assume("properties of G-functions used, G_n = X^n c_n(beta X^2) (proved from the Stumpff relations through the real "
         "stiefel_Gs3/stiefel_Gs bodies, tasks stiefel_*.relations): G0 = 1 - beta G2, G1 = X - beta G3, "
         "G1^2 = G2 (1 + G0); these three generate every polynomial identity between beta, X, G0..G3")


def stumpff_summary(ncs, rec, relations=False):
    """Summary contract of stumpff_cs3 / stumpff_cs: cs[0..ncs) := fresh c_k (the Stumpff functions of z)."""
    def apply(eng, st, args, node):
        csp, z = args[0], as_real(args[1])
        c = [eng.fresh("c%d" % k, z3.RealSort()) for k in range(ncs)]
        for k in range(ncs):
            eng.write(st, Ptr(csp.obj, tuple(csp.path[:-1]) + (z3.IntVal(k),)), c[k])
        if relations:
            st.assume(c[0] == 1 - z * c[2])
            st.assume(c[1] == 1 - z * c[3])
            st.assume(c[1] * c[1] == c[2] * (1 + c[0]))
            if ncs == 6:
                st.assume(c[2] == R(Fraction(1, 2)) - z * c[4])
                st.assume(c[3] == R(Fraction(1, 6)) - z * c[5])
        rec.append((z, c))
        return None
    return apply


@P.task("stumpff.algebraic_relations", fn="stumpff_cs3")
def _(v):
    """Lemma (no code): the closed forms imply the algebraic relations that the G-function contract exports."""
    w, s, c = v.real("w"), v.real("s"), v.real("c")
    c0, c1, c2, c3, z = (v.real(n) for n in ("c0", "c1", "c2", "c3", "z"))
    for kind in ("elliptic", "hyperbolic"):
        hy = [r for _n, r in _closed_form(kind, w, s, c, {0: c0, 1: c1, 2: c2, 3: c3}, z, 4)]
        hy += [w != 0, (s * s + c * c == 1) if kind == "elliptic" else (c * c - s * s == 1)]
        v.lemma(kind + ".c0", hy, c0 == 1 - z * c2)
        v.lemma(kind + ".c1", hy, c1 == 1 - z * c3)
        v.lemma(kind + ".c1sq", hy, c1 * c1 == c2 * (1 + c0))


for _fn, _callee, _ncs in (("stiefel_Gs3", "stumpff_cs3", 4), ("stiefel_Gs", "stumpff_cs", 6)):
    def _mk(fn=_fn, callee=_callee, ncs=_ncs):
        @P.task(fn + ".scaling", fn=fn)
        def _(v):
            """G_n = X^n c_n(beta X^2): the Stumpff routine is called with z = beta X^2 and entry n is scaled by X^n."""
            Gs = v.array("double", 6, "Gs", sym=False)
            beta, X = v.real("beta"), v.real("X")
            rec = []
            v.contract(callee, stumpff_summary(ncs, rec))
            old = [Gs[k] for k in range(6)]
            v.call(fn, Gs.ptr, beta, X)
            v.prove("one_call", len(rec) == 1)
            z, c = rec[0]
            v.prove("argument", z == beta * X * X, order=PZ)
            for k in range(ncs):
                v.prove("G%d" % k, Gs[k] == X ** k * c[k], order=PZ)
            for k in range(ncs, 6):
                v.prove("frame.Gs%d" % k, Gs[k] == old[k])

        @P.task(fn + ".relations", fn=fn)
        def _(v):
            """With Stumpff functions obeying c0=1-z c2, c1=1-z c3, c1^2=c2(1+c0) the outputs obey the G relations."""
            Gs = v.array("double", 6, "Gs", sym=False)
            beta, X = v.real("beta"), v.real("X")
            rec = []
            v.contract(callee, stumpff_summary(ncs, rec, relations=True))
            v.call(fn, Gs.ptr, beta, X)
            G = [Gs[k] for k in range(ncs)]
            v.prove("G0", G[0] == 1 - beta * G[2], order=PZ)
            v.prove("G1", G[1] == X - beta * G[3], order=PZ)
            v.prove("G1sq", G[1] * G[1] == G[2] * (1 + G[0]), order=PZ)
            if ncs == 6:
                v.prove("G2", G[2] == X * X / 2 - beta * G[4], order=PZ)
                v.prove("G3", G[3] == X * X * X / 6 - beta * G[5], order=PZ)
    _mk()


# ============================================================================ 4. reb_whfast_kepler_solver
SOLVER = "reb_whfast_kepler_solver"
P.assume("reb_whfast_kepler_solver precondition: M > 0, |x| > 0, non-radial orbit |x|^2|v|^2 - (x.v)^2 > 0 "
         "(a body *orbiting* a central mass; the rectilinear case is outside this pack)")
P.assume("radius positivity (property of true G-functions on a non-radial orbit, used for the definedness of "
         "ri = 1/(r0 + eta0 G1 + zeta0 G2)): r(X) = r0 + eta0 G1(X) + zeta0 G2(X) is the orbital radius at universal "
         "anomaly X and therefore > 0; exported by the stiefel_Gs3 summary contract inside the solver")
P.assume("exit-with-root: the quartic (Laguerre-Conway) loop and the bisection loop are not executed symbolically in "
         "the f,g tasks; their exit state is modelled as: Gs[] = G(beta, X*) for the final iterate X* and "
         "r0 X* + eta0 G2 + zeta0 G3 = dt (or, for the quartic and Newton loops, converged = 0, which leads to the "
         "bisection).  For the Newton loop the last iteration is executed on the real body and the root property is "
         "*proved* from the fixed-point exit X == oldX; the alternative exit X == oldX2 (2-cycle, a floating-point "
         "phenomenon) is excluded by assumption")
P.assume("IEEE: for hyperbolic orbits X_per_period = nan makes the solver choice `|X-oldX| > 0.01*nan` false (Newton); "
         "in R-mode nan is an unconstrained real, so both solver branches are explored for both orbit types (a superset)")
P.not_decided.append("termination / convergence of the Newton, Laguerre-Conway and bisection iterations to a root of the "
                     "universal Kepler equation for every (e, dt/P), and that the bisection bracket contains the root: "
                     "not decided (exit-with-root is assumed, see assumptions); only single-iteration facts are proved")
P.not_decided.append("absence of NaN/Inf in floating point (overflow of beta*X^2, cosh/sinh growth for hyperbolic "
                     "orbits with long steps, 0*inf) and 'to rounding error' (error growth through n quadruplings, "
                     "cancellation in 1 - M G2/r0): not decided; R-mode definedness obligations (division, sqrt) "
                     "are proved under the stated precondition instead")
P.not_decided.append("termination of the argument-reduction loop while(|z|>0.1) z/=4: true over the reals by the "
                     "Archimedean property (variant log4(|z|/0.1), not first-order); for z=+-inf in IEEE the loop "
                     "does not terminate -- not decided here")


def code_sum(*terms):
    """a + b + ... built the way the executor builds it (simplify after every binary operation), so that the result is
    the same hash-consed z3 term as the code's own expression (keeps solver work syntactic)."""
    r = terms[0]
    for t in terms[1:]:
        r = simp(r + t)
    return r


def prove_from(v, name, goal, hyps, order=("polyid",)):
    """Obligation with a hand-picked subset of the path condition as hypotheses (sound: fewer hypotheses).  Keeps the
    ideal small for polyid.  Every hypothesis must literally be on the path condition."""
    from engine.csym import Obligation
    for h in hyps:
        if not any(h.eq(x) for x in v.st.pc):
            raise AssertionError("prove_from: hypothesis not on the path condition: %s" % str(h)[:200])
    ob = Obligation(v.eng.prefix + v.task.name + "." + name, list(hyps), goal, "post")
    ob.meta["order"] = order
    ob.meta["ctx"] = v
    v.eng.obligations.append(ob)
    return ob


def G_summary(rec, radius=True, ncs=4):
    """Summary contract of stiefel_Gs3(Gs, beta, X) (and stiefel_Gs) inside the solver: fresh G0..G3 with the
    algebraic relations of true G-functions; r(X) > 0 read off the caller's r0, eta0, zeta0."""
    def apply(eng, st, args, node):
        gp, beta, X = args[0], as_real(args[1]), as_real(args[2])
        G = [eng.fresh("G%d" % k, z3.RealSort()) for k in range(ncs)]
        for k in range(ncs):
            eng.write(st, Ptr(gp.obj, tuple(gp.path[:-1]) + (z3.IntVal(k),)), G[k])
        rel = [G[0] == 1 - beta * G[2], G[1] == X - beta * G[3], G[1] * G[1] == G[2] * (1 + G[0])]
        if ncs == 6:
            rel += [G[2] == X * X / 2 - beta * G[4], G[3] == X * X * X / 6 - beta * G[5]]
        for r in rel:
            st.assume(r)
        if radius:
            r0, eta0, zeta0 = (eng.local(st, n) for n in ("r0", "eta0", "zeta0"))
            st.assume(r0 + eta0 * G[1] + zeta0 * G[2] > 0)
            # the same fact on the term the code builds for r0 + (eta0*Gs[1] + zeta0*Gs[2])
            st.assume(code_sum(r0, code_sum(simp(eta0 * G[1]), simp(zeta0 * G[2]))) > 0)
            st.assume(code_sum(r0, simp(eta0 * G[1]), simp(zeta0 * G[2])) > 0)
        rec.append({"beta": beta, "X": X, "G": G, "rel": rel})
        return None
    return apply


class Setup:
    pass


def solver_setup(v, nvar=0):
    """Symbolic inputs of reb_whfast_kepler_solver(r, p_j, M, i, dt) with the documented precondition."""
    S = Setup()
    v.eng.check_defined = True
    v.eng.prune_timeout = 150          # feasibility pruning only; 'unknown' keeps the path
    S.r, S.rp = v.struct_obj("struct reb_simulation", "r")
    S.r.N_var_config = nvar
    S.pj = v.array("struct reb_particle", None, "pj")
    S.i = v.int("i")
    S.M, S.dt = v.real("M"), v.real("dt")
    F = ("x", "y", "z", "vx", "vy", "vz")
    S.old = {f: S.pj.array(f) for f in F + ("m",)}
    S.p0 = {f: S.pj.leaf(S.i, f) for f in F}
    p = S.p0
    S.x2 = p["x"] * p["x"] + p["y"] * p["y"] + p["z"] * p["z"]
    S.v2 = p["vx"] * p["vx"] + p["vy"] * p["vy"] + p["vz"] * p["vz"]
    S.xv = p["x"] * p["vx"] + p["y"] * p["vy"] + p["z"] * p["vz"]
    v.assume(S.i >= 0, S.M > 0, S.x2 > 0, S.x2 * S.v2 - S.xv * S.xv > 0)
    v.eng.havoc_calls.add("reb_simulation_warning")
    S.rec = []
    S.cap = {}
    v.contract("stiefel_Gs3", G_summary(S.rec))
    return S


def capture(eng, st, S):
    for n in ("r0", "r0i", "v2", "beta", "eta0", "zeta0", "_dt", "M"):
        S.cap[n] = eng.local(st, n)


def time_equation(c, X, G):
    return c["r0"] * X + c["eta0"] * G[2] + c["zeta0"] * G[3] == c["_dt"]


def install_exit_with_root(v, S):
    """Loop handlers of the f,g tasks (see the exit-with-root assumption)."""
    from engine.cexec import PathEnd
    from engine.csym import NORMAL, Flow
    gsum = G_summary(S.rec)
    v.loop(SOLVER, 1, invariant=lambda L: [("true", z3.BoolVal(True))])      # inner prevX scan (only for the dry run)

    def Gs_of(eng, st, X):
        gp = eng.local_ptr(st, "Gs")
        gsum(eng, st, [Ptr(gp.obj, (z3.IntVal(0),)), S.cap["beta"], X], None)
        return S.rec[-1]

    def failed(eng, st, what):
        """no convergence: Gs[] are the G-functions of the last iterate, converged = 0; the bisection follows.
        Definedness of the bracket computation between here and the bisection loop: not decided (see not_decided)."""
        Gs_of(eng, st, eng.fresh("X_last", z3.RealSort()))
        eng.write(st, eng.local_ptr(st, "converged"), z3.IntVal(0))
        S.cap["mark"] = len(eng.obligations)
        S.cap["pcmark"] = len(st.pc)
        S.cap["exit"] = what + "-failed"

    def quartic(eng, st, n, cond, inc, body):
        capture(eng, st, S)
        mods = eng.loop_modifies(st, n, cond, inc, body, eng.loopspecs[(SOLVER, 0)])
        eng.havoc(st, mods, "quartic")
        if eng.choose(st, 2, "quartic exit") == 0:
            X = eng.local(st, "X")
            last = Gs_of(eng, st, X)
            S.cap["root"] = time_equation(S.cap, X, last["G"])
            st.assume(S.cap["root"])
            eng.write(st, eng.local_ptr(st, "converged"), z3.IntVal(1))
            S.cap["exit"] = "quartic"
        else:
            failed(eng, st, "quartic")
        return NORMAL

    def newton(eng, st, n, cond, inc, body):
        capture(eng, st, S)
        mods = eng.loop_modifies(st, n, cond, inc, body, eng.loopspecs[(SOLVER, 2)])
        eng.havoc(st, mods, "newton")
        if eng.choose(st, 2, "newton exit") == 0:
            # the last iteration, executed on the real body, leaving through the break with X == oldX
            st.assume(eng.local(st, "converged") == 0)
            fl = eng.exec_stmt(st, body)
            if fl.kind != Flow.BREAK:
                raise PathEnd("not the last iteration")
            X, oldX = eng.local(st, "X"), eng.local(st, "oldX")
            fix = X == oldX
            st.assume(fix)
            last = S.rec[-1]
            S.cap["root"] = time_equation(S.cap, oldX, last["G"])
            prove_from(v, "newton.fixed_point_is_root", S.cap["root"], [fix])
            eng.oblige(st, v.task.name + ".newton.Gs_at_final_X", last["X"] == X)
            eng.oblige(st, v.task.name + ".newton.converged_flag", eng.local(st, "converged") == 1)
            st.assume(S.cap["root"])
            S.cap["exit"] = "newton"
        else:
            failed(eng, st, "newton")
        return NORMAL

    def enclosing_if_line(eng, loopnode):
        tu, fn = eng.find_function(SOLVER)
        best = [None]

        def contains(x, target):
            if not isinstance(x, dict):
                return False
            if x.get("id") == target:
                return True
            return any(contains(c, target) for c in x.get("inner", ()))

        def walk(x):
            if not isinstance(x, dict):
                return
            if x.get("kind") == "IfStmt" and contains(x, loopnode["id"]):
                best[0] = x.get("_line")          # innermost wins (the walk goes outside-in)
            for c in x.get("inner", ()):
                walk(c)
        walk(fn)
        return best[0]

    def bracket_contract(eng, st):
        """Entry contract of the bisection loop (the 'hyperbolic bracket' of the property).  The universal variable is
        X = integral of dt/r along the orbit, so X lies between dt/r_max and dt/r_min for every distance bound
        r_min <= r <= r_max reachable within the step.  Hyperbolic branch: r_min = q (pericentre distance) and
        r_max = r0 + w*|dt| with w = sqrt(h2)/q the pericentre speed (the largest speed on the orbit); the bracket
        must be these two values, in increasing order, for both signs of dt.  Elliptic branch: one X-period wide.
        The obligation is over the values the real code has stored in X_min, X_max, q and vq at loop entry."""
        c = S.cap
        Xmin, Xmax = eng.local(st, "X_min"), eng.local(st, "X_max")
        dt, r0, beta = c["_dt"], c["r0"], c["beta"]
        tn = v.task.name
        try:
            q, vq = eng.local(st, "q"), eng.local(st, "vq")
        except KeyError:
            # no q/vq on this path: only legitimate when the elliptic branch was taken
            eng.oblige(st, tn + ".bisection.bracket.hyperbolic_locals_present", beta > 0)
            xpp = eng.local(st, "X_per_period")
            eng.oblige(st, tn + ".bisection.bracket.elliptic_one_period_wide", Xmax - Xmin == xpp)
            return
        w = z3.If(vq >= 0, vq, -vq)
        adt = z3.If(dt >= 0, dt, -dt)
        far, near = r0 + w * adt, q
        h2 = r0 * r0 * c["v2"] - c["eta0"] * c["eta0"]
        M_ = c["M"]
        # side facts, proved against the full path condition (raw coordinates)
        eng.oblige(st, tn + ".bisection.bracket.side.r0_positive", r0 > 0)
        eng.oblige(st, tn + ".bisection.bracket.side.h2_positive", h2 > 0)
        # The bracket obligations are proved in generalised form: the code's values of beta, r0, v2, eta0 (large
        # polynomials in the raw coordinates) are replaced by fresh reals B, R0, V2, E0 constrained only by the side
        # facts above, and the hypotheses are the facts the path condition gained in the bracket stretch (sqrt axioms,
        # assumed definedness of that stretch).  Validity of the generalisation implies the instance.
        B, R0, V2, E0 = (z3.Real(n_) for n_ in ("B_", "R0_", "V2_", "E0_"))

        def gen(t):
            t = z3.substitute(t, (beta, B))
            return z3.substitute(t, (r0, R0), (c["v2"], V2), (c["eta0"], E0))

        def raw(t):
            return "pj." in str(t)
        eng.oblige(st, tn + ".bisection.bracket.side.beta_is_2M_over_r0_minus_v2", beta * r0 == 2 * M_ - c["v2"] * r0)
        base = [M_ > 0, R0 > 0, R0 * R0 * V2 - E0 * E0 > 0, z3.Not(B > 0), B * R0 == 2 * M_ - V2 * R0]
        stretch = [gen(h) for h in st.pc[S.cap.get("pcmark", len(st.pc)):]]
        hyps = base + [h for h in stretch if not raw(h)]

        def lemma(name, goal, drop=(), extra=()):
            from engine.csym import Obligation
            g = gen(goal)
            if raw(g):          # generalisation did not cover the goal: fall back to the instance
                eng.oblige(st, tn + ".bisection.bracket." + name, z3.Implies(z3.Not(beta > 0), goal))
                return
            ob = Obligation(eng.prefix + tn + ".bisection.bracket." + name,
                            [h for k, h in enumerate(hyps) if k not in drop] + [gen(e) for e in extra], g, "post")
            ob.meta["order"] = ("z3", "cvc5")
            ob.meta["ctx"] = v
            eng.obligations.append(ob)
        lemma("hyperbolic_is_dt_over_rmax_and_dt_over_rmin",
              z3.And(q > 0, far > 0,
                     z3.If(dt >= 0,
                           z3.And(Xmin * far == dt, Xmax * near == dt),
                           z3.And(Xmax * far == dt, Xmin * near == dt))))
        # the body is never inside the pericentre distance (uses the definition of beta); the order follows from it
        lemma("r0_at_least_pericentre_distance", r0 >= q)
        lemma("ordered", Xmin <= Xmax, drop=(4,), extra=(r0 >= q, q > 0))
        # q is the pericentre distance h2/(M(1+e)), e^2 = 1 - h2*beta/M^2, and w the pericentre speed sqrt(h2)/q
        lemma("q_is_pericentre_distance",
              z3.And(h2 >= M_ * q, (h2 - M_ * q) * (h2 - M_ * q) == q * q * (M_ * M_ - h2 * beta)))
        lemma("w_is_pericentre_speed", w * w * q * q == h2, drop=(4,))        # holds for any beta <= 0

    def bisection(eng, st, n, cond, inc, body):
        # definedness of the bracket computation (between `if (converged == 0)` and the do-loop): not decided
        lo, hi = enclosing_if_line(eng, n), n.get("_line")
        m = S.cap.get("mark", len(eng.obligations))
        kept = [ob for ob in eng.obligations[m:]
                if not (ob.kind == "def" and ob.where is not None and lo is not None and lo < ob.where < hi)]
        S.cap["dropped"] = len(eng.obligations) - m - len(kept)
        eng.obligations[m:] = kept
        bracket_contract(eng, st)
        mods = eng.loop_modifies(st, n, cond, inc, body, eng.loopspecs[(SOLVER, 3)])
        eng.havoc(st, mods, "bisect")
        X = eng.local(st, "X")
        last = Gs_of(eng, st, X)
        S.cap["root"] = time_equation(S.cap, X, last["G"])
        st.assume(S.cap["root"])
        S.cap["exit"] += "+bisection"
        return NORMAL
    v.eng.fork_ifs_declaring = {"vq"}          # keep q, vq readable for bracket_contract
    v.loop(SOLVER, 0, invariant=quartic, mode="custom")
    v.loop(SOLVER, 2, invariant=newton, mode="custom")
    v.loop(SOLVER, 3, invariant=bisection, mode="custom")


P.not_decided.append("R-mode definedness of the hyperbolic bisection bracket (between `if (converged == 0)` and the do-loop: "
                     "sqrt(1-h2*beta/M^2), sqrt(h2)/q, dt/q, dt/(|vq dt|+r0)) on the fall-back path after a failed "
                     "quartic/Newton iteration: true for beta<=0, h2>0, M>0, but z3 and cvc5 time out on the raw-coordinate "
                     "polynomials (sign of a product of two expanded polynomials); the definedness obligations of exactly "
                     "that stretch are dropped from kepler_solver.fg (their conditions remain assumed on that path)")
P.not_decided.append("NATIVE COUNTEREXAMPLE to C03 outside the reach of R-mode contracts (floating-point overflow), found by a "
                     "native sweep with /venv/bin/python: hyperbolic orbit, x.v <= 0 (at or before pericentre), long positive "
                     "step.  sim.add(m=1); sim.add(m=0,a=-1,e=2,f=0); whfast (any coordinates; also mercurius, saba), dt=3000: "
                     "one step returns pos=(0.99997,5196.05), vel=(-3e-8,1.73194), specific energy 1.4996 instead of 0.5; "
                     "dt=2000 and dt=-10000 are correct; e=1.01 fails already at dt=1000.  Suspected mechanism: the first "
                     "Newton step X=dt/r0 overflows cosh -> NaN; the bisection evaluates s = r0 X + eta0*G2 + zeta0*G3 - dt "
                     "with G2=G3=inf: eta0<=0 gives 0*inf or inf-inf = NaN, `s>=0` is false, the lower bound moves up, "
                     "X -> X_max, Gs non-finite, isnan(ri) -> the straight-line exception x += dt*v")


def cross(a, b):
    return (a[1] * b[2] - a[2] * b[1], a[2] * b[0] - a[0] * b[2], a[0] * b[1] - a[1] * b[0])


def dot(a, b):
    return a[0] * b[0] + a[1] * b[1] + a[2] * b[2]


def capture_fg(v, S):
    """The variational loop (ordinal 4) does not run (N_var_config = 0); its handler is used to read the locals
    f, g, fd, gd, ri, X, Gs[] of the real code at that point."""
    def h(eng, st, n, cond, inc, body):
        from engine.csym import NORMAL, Unsupported, as_bool
        for nm in ("f", "g", "fd", "gd", "ri", "X", "eta0Gs1zeta0Gs2"):
            S.cap[nm] = eng.local(st, nm)
        S.cap["Gs"] = list(eng.local(st, "Gs").items)
        c = simp(as_bool(eng.rvalue(st, cond)))
        if not z3.is_false(c):
            raise Unsupported("variational loop expected not to run in this task")
        return NORMAL
    v.loop(SOLVER, 4, invariant=h, mode="custom")


@P.task("kepler_solver.fg", fn=SOLVER, z3_ms=30000)
def _(v):
    """Every solver path (elliptic|hyperbolic merged) x (quartic | Newton) x (converged | bisection), exit-with-root:
    the code's orbit constants are the specification's, its f, g, fd, gd are the Gauss functions in universal
    variables, and the new state is their image of the old one; other particles untouched."""
    S = solver_setup(v)
    install_exit_with_root(v, S)
    capture_fg(v, S)
    v.call(SOLVER, S.rp, S.pj.ptr, S.M, S.i, S.dt)
    c, M, dt = S.cap, S.M, S.dt
    G = S.rec[-1]["G"]
    X = S.rec[-1]["X"]
    r0, r0i, ri, beta, eta0, zeta0 = c["r0"], c["r0i"], c["ri"], c["beta"], c["eta0"], c["zeta0"]
    p = S.p0
    q = {f: simp(S.pj.leaf(S.i, f)) for f in p}
    # the code's orbit constants are the ones of the specification
    v.prove("def.r0", z3.And(r0 * r0 == S.x2, r0 > 0))
    v.prove("def.r0i", r0i * r0 == 1, order=PZ)
    v.prove("def.beta", beta == 2 * M * r0i - S.v2, order=PZ)
    v.prove("def.eta0", eta0 == S.xv, order=PZ)
    v.prove("def.zeta0", zeta0 == M - beta * r0, order=PZ)
    v.prove("def.dt", c["_dt"] == dt)
    # exit state of the iteration
    for k in range(4):
        v.prove("exit.Gs%d_is_G%d_of_final_iterate" % (k, k), c["Gs"][k] == G[k])
    prove_from(v, "exit.root", r0 * X + eta0 * G[2] + zeta0 * G[3] == dt, [c["root"]])
    e = c["eta0Gs1zeta0Gs2"]
    v.prove("radius.sum", e == eta0 * G[1] + zeta0 * G[2], order=PZ)
    prove_from(v, "radius.ri", ri * code_sum(r0, e) == 1, [])
    v.prove("radius.positive", code_sum(r0, e) > 0)
    # Gauss functions (the code stores f-1 and gd-1)
    v.prove("gauss.f", 1 + c["f"] == 1 - M * G[2] * r0i, order=PZ)
    v.prove("gauss.g", c["g"] == dt - M * G[3], order=PZ)
    v.prove("gauss.fd", c["fd"] == -M * G[1] * r0i * ri, order=PZ)
    v.prove("gauss.gd", 1 + c["gd"] == 1 - M * G[2] * ri, order=PZ)
    for a, b in (("x", "vx"), ("y", "vy"), ("z", "vz")):
        v.prove("update.pos." + a, q[a] == (1 + c["f"]) * p[a] + c["g"] * p[b], order=PZ)
        v.prove("update.vel." + b, q[b] == c["fd"] * p[a] + (1 + c["gd"]) * p[b], order=PZ)
    # frame
    j = v.int("j")
    v.assume(j != S.i)
    for fl in ("x", "y", "z", "vx", "vy", "vz"):
        v.prove("frame.others." + fl, S.pj.leaf(j, fl) == z3.Select(S.old[fl], j))
    v.prove("frame.mass", S.pj.array("m") == S.old["m"])


P.assume("properties of G-functions used for the iteration formulas: d/dX of F(X) = r0 X + eta0 G2 + zeta0 G3 - dt is "
         "F' = r0 + eta0 G1 + zeta0 G2 and F'' = eta0 G0 + zeta0 G1 (dG_{n+1}/dX = G_n); the tasks prove that the code "
         "evaluates exactly these three expressions and combines them as Newton / Laguerre-Conway(n=5) prescribe")


def kepler_F(c, X, G):
    F = c["r0"] * X + c["eta0"] * G[2] + c["zeta0"] * G[3] - c["_dt"]
    F1 = c["r0"] + c["eta0"] * G[1] + c["zeta0"] * G[2]
    F2 = c["eta0"] * G[0] + c["zeta0"] * G[1]
    return F, F1, F2


@P.task("kepler_solver.newton.iteration", fn=SOLVER)
def _(v):
    """The initial Newton step (lines 200-203) and one arbitrary iteration of the Newton loop, on the real code with the
    G-function summary: X' = X - F(X)/F'(X); a fixed point X' == X is a root; the loop counter rises (bounded loop)."""
    from engine.cexec import PathEnd
    from engine.csym import NORMAL, Flow
    S = solver_setup(v)
    v.eng.merge_ifs = False            # fork on beta>0: keeps the initial guess a polynomial (no ite atoms)
    tag = v.task.name

    def quartic(eng, st, n, cond, inc, body):
        raise PathEnd("quartic branch: other task")

    def newton(eng, st, n, cond, inc, body):
        capture(eng, st, S)
        c = S.cap
        # state at loop entry = result of the initial step
        X1, X0 = eng.local(st, "X"), eng.local(st, "oldX")
        first = S.rec[0]
        eng.oblige(st, tag + ".initial.G_at_guess", first["X"] == X0)
        F, F1, F2 = kepler_F(c, X0, first["G"])
        den = code_sum(c["r0"], code_sum(simp(c["eta0"] * first["G"][1]), simp(c["zeta0"] * first["G"][2])))
        prove_from(v, "initial.is_newton_step", X1 == X0 - F * (1 / den), [])
        prove_from(v, "initial.denominator_is_Fprime", den == F1, [])
        # one arbitrary iteration
        mods = eng.loop_modifies(st, n, cond, inc, body, eng.loopspecs[(SOLVER, 2)])
        eng.havoc(st, mods, "newton")
        nh = eng.local(st, "n_hg")
        Xa = eng.local(st, "X")
        k = len(S.rec)
        fl = eng.exec_stmt(st, body)
        if fl.kind == Flow.NORMAL and inc is not None:
            eng.rvalue(st, inc)
        it = S.rec[k]
        Xb, oldX = eng.local(st, "X"), eng.local(st, "oldX")
        eng.oblige(st, tag + ".iteration.G_at_current_iterate", z3.And(it["X"] == Xa, oldX == Xa))
        F, F1, F2 = kepler_F(c, Xa, it["G"])
        den = code_sum(c["r0"], code_sum(simp(c["eta0"] * it["G"][1]), simp(c["zeta0"] * it["G"][2])))
        prove_from(v, "iteration.is_newton_step", Xb == Xa - F * (1 / den), [])
        prove_from(v, "iteration.denominator_is_Fprime", den == F1, [])
        eng.oblige(st, tag + ".iteration.denominator_positive", den > 0)
        if fl.kind == Flow.BREAK:
            eng.oblige(st, tag + ".iteration.break_sets_converged", eng.local(st, "converged") == 1)
            eng.oblige(st, tag + ".iteration.break_only_on_repeat", z3.Or(Xb == Xa, Xb == eng.local(st, "oldX2")))
            fix = Xb == Xa
            st.assume(fix)
            prove_from(v, "iteration.fixed_point_is_root", F == 0, [fix])
        else:
            eng.oblige(st, tag + ".iteration.counter_rises", eng.local(st, "n_hg") == nh + 1)
        cover(eng, st, tag)
        raise PathEnd("one iteration checked")
    v.loop(SOLVER, 0, invariant=quartic, mode="custom")
    v.loop(SOLVER, 2, invariant=newton, mode="custom")
    v.call(SOLVER, S.rp, S.pj.ptr, S.M, S.i, S.dt)


@P.task("kepler_solver.quartic.iteration", fn=SOLVER)
def _(v):
    """One arbitrary iteration of the quartic loop on the real code (the scan of prevX[] for a repeated iterate is
    skipped): the code evaluates F, F', F'' and updates X' = X - 5F/(F' + sqrt|16F'^2 - 20 F F''|), Laguerre-Conway
    with n = 5 [(n-1)^2 = 16, n(n-1) = 20]; a fixed point X' == X is a root; initial guess X = beta dt / M."""
    from engine.cexec import PathEnd
    from engine.csym import NORMAL, Flow
    S = solver_setup(v)
    tag = v.task.name

    def skip(eng, st, n, cond, inc, body):
        return NORMAL

    def newton(eng, st, n, cond, inc, body):
        raise PathEnd("newton branch: other task")

    def quartic(eng, st, n, cond, inc, body):
        capture(eng, st, S)
        c = S.cap
        prove_from(v, "initial_guess", eng.local(st, "X") * c["M"] == c["beta"] * c["_dt"], [])
        eng.write(st, eng.local_ptr(st, "X"), eng.fresh("X_k", z3.RealSort()))
        eng.write(st, eng.local_ptr(st, "n_lag"), eng.fresh("n_lag", z3.IntSort()))
        st.assume(eng.local(st, "n_lag") >= 1)          # counter starts at 1 and only grows
        st.assume(as_bool(eng.rvalue(st, cond)))
        Xa = eng.local(st, "X")
        k = len(S.rec)
        fl = eng.exec_stmt(st, body)
        it = S.rec[k]
        Xb = eng.local(st, "X")
        F, F1, F2 = kepler_F(c, Xa, it["G"])
        f, fp, fpp, denom = (eng.local(st, nm) for nm in ("f", "fp", "fpp", "denom"))
        eng.oblige(st, tag + ".G_at_current_iterate", it["X"] == Xa)
        prove_from(v, "F", f == F, [])
        prove_from(v, "Fprime", fp == F1, [])
        prove_from(v, "Fsecond", fpp == F2, [])
        disc = 16 * fp * fp - 20 * f * fpp
        eng.oblige(st, tag + ".denominator", z3.And(denom - fp >= 0, (denom - fp) * (denom - fp) == z3.If(disc >= 0, disc, -disc)))
        eng.oblige(st, tag + ".denominator_positive", denom > 0)
        prove_from(v, "laguerre_conway_step", Xb == Xa - 5 * f * (1 / denom), [])
        fix = Xb == Xa
        st.assume(fix)
        prove_from(v, "fixed_point_is_root", F == 0, [fix])
        cover(eng, st, tag)
        raise PathEnd("one iteration checked")
    v.loop(SOLVER, 0, invariant=quartic, mode="custom")
    v.loop(SOLVER, 1, invariant=skip, mode="custom")
    v.loop(SOLVER, 2, invariant=newton, mode="custom")
    v.call(SOLVER, S.rp, S.pj.ptr, S.M, S.i, S.dt)


@P.task("kepler_solver.fg_is_kepler_flow", fn=SOLVER)
def _(v):
    """Lemma layer (mathematics over the clauses proved in kepler_solver.fg, no code): a state update
    x' = F x + g v, v' = fd x + Gd v with the Gauss functions F = 1 - M G2/r0, g = dt - M G3, fd = -M G1/(r0 r),
    Gd = 1 - M G2/r, r = r0 + eta0 G1 + zeta0 G2, G's obeying the G relations and the universal Kepler equation,
    conserves angular momentum, energy and the eccentricity vector, and lands at radius r with r rdot = eta0 G0 + zeta0 G1."""
    x = [v.real("x%d" % k) for k in range(3)]
    w = [v.real("v%d" % k) for k in range(3)]
    # definitions are inlined (zeta0, v2, G0, G1, dt, F, g, fd, Gd are abbreviations), which leaves three relations
    r0, r0i, ri, M, beta, eta0, X, G2, G3 = (v.real(n) for n in ("r0", "r0i", "ri", "M", "beta", "eta0", "X", "G2", "G3"))
    zeta0 = M - beta * r0
    v2 = 2 * M * r0i - beta
    G = [1 - beta * G2, X - beta * G3, G2, G3]
    dt = r0 * X + eta0 * G[2] + zeta0 * G[3]
    rr = r0 + eta0 * G[1] + zeta0 * G[2]
    scal = [r0i * r0 == 1, ri * rr == 1, G[1] * G[1] == G[2] * (1 + G[0])]
    F_, g_, fd_, Gd_ = 1 - M * G[2] * r0i, dt - M * G[3], -M * G[1] * r0i * ri, 1 - M * G[2] * ri
    W = F_ * Gd_ - g_ * fd_
    v.lemma("wronskian", scal, W == 1, order=PZ)
    # quadratic forms of the new state in terms of r0^2 = x.x, eta0 = x.v, v2 = v.v
    x1 = [F_ * x[k] + g_ * w[k] for k in range(3)]
    v1 = [fd_ * x[k] + Gd_ * w[k] for k in range(3)]
    vec = [dot(x, x) == r0 * r0, dot(x, w) == eta0, dot(w, w) == v2]
    L0, L1 = cross(x, w), cross(x1, v1)
    for k, a in enumerate("xyz"):
        v.lemma("angular_momentum.bilinear." + a, [], L1[k] == W * L0[k], order=PZ)
    v.lemma("radius.quadratic_form", vec, dot(x1, x1) == F_ * F_ * r0 * r0 + 2 * F_ * g_ * eta0 + g_ * g_ * v2, order=PZ)
    v.lemma("speed.quadratic_form", vec, dot(v1, v1) == fd_ * fd_ * r0 * r0 + 2 * fd_ * Gd_ * eta0 + Gd_ * Gd_ * v2, order=PZ)
    v.lemma("xv.quadratic_form", vec, dot(x1, v1) == F_ * fd_ * r0 * r0 + (F_ * Gd_ + g_ * fd_) * eta0 + g_ * Gd_ * v2,
            order=PZ)
    v.lemma("radius", scal, F_ * F_ * r0 * r0 + 2 * F_ * g_ * eta0 + g_ * g_ * v2 == rr * rr, order=PZ)
    v.lemma("energy", scal, 2 * M * ri - (fd_ * fd_ * r0 * r0 + 2 * fd_ * Gd_ * eta0 + Gd_ * Gd_ * v2) == beta, order=PZ)
    v.lemma("radial_velocity", scal, F_ * fd_ * r0 * r0 + (F_ * Gd_ + g_ * fd_) * eta0 + g_ * Gd_ * v2 ==
            eta0 * G[0] + zeta0 * G[1], order=PZ)
    # eccentricity vector e = v x L / M - x/|x|, with L' = L:  e' - e = A x + B v
    #   x x L = eta0 x - r0^2 v,  v x L = v2 x - eta0 v
    for k, a in enumerate("xyz"):
        v.lemma("eccentricity_vector.triple_products." + a, vec,
                z3.And(cross(x, L0)[k] == eta0 * x[k] - r0 * r0 * w[k], cross(w, L0)[k] == v2 * x[k] - eta0 * w[k]), order=PZ)
    Mi = v.real("Mi")
    A = (fd_ * eta0 + (Gd_ - 1) * v2) * Mi - F_ * ri + r0i
    B = (-fd_ * r0 * r0 - (Gd_ - 1) * eta0) * Mi - g_ * ri
    v.lemma("eccentricity_vector.x_coefficient", scal + [Mi * M == 1], A == 0, order=PZ)
    v.lemma("eccentricity_vector.v_coefficient", scal + [Mi * M == 1], B == 0, order=PZ)


# ============================================================================ 5. mass parameter per coordinate system
P.assume("mass-parameter tasks: 1 <= N - N_var, N_var >= 0, N_active == -1 or 1 <= N_active <= N - N_var, "
         "testparticle_type in {0,1}; effective number of active bodies = N - N_var if N_active == -1 or "
         "testparticle_type == 1, else N_active (rebound.h); Sm(k) = sum_{j=1..k} p_j[j].m is the uninterpreted prefix "
         "sum with Sm(0)=0, Sm(k)=Sm(k-1)+p_j[k].m (its definition)")
P.assume("the solver call in the mass-parameter tasks is replaced by a recording contract that checks its arguments and "
         "havocs position/velocity of p_j[i] only (frame of reb_whfast_kepler_solver proved in kepler_solver.fg)")


def step_setup(v, coords=None):
    S = Setup()
    S.r, S.rp = v.struct_obj("struct reb_simulation", "r")
    S.parts = v.array("struct reb_particle", None, "particles")
    S.pj = v.array("struct reb_particle", None, "p_jh")
    S.N, S.Nvar, S.Nact, S.tpt = v.int("N"), v.int("N_var"), v.int("N_active"), v.int("testparticle_type")
    S.G, S.dt = v.real("G"), v.real("dt")
    r = S.r
    r.N, r.N_var, r.N_active, r.testparticle_type, r.G = S.N, S.Nvar, S.Nact, S.tpt, S.G
    r.particles = S.parts.ptr
    r.N_var_config = 0
    if coords is not None:
        r.ri_whfast.coordinates = v.enumc(coords)
        r.ri_whfast.p_jh = S.pj.ptr
    S.Nreal = S.N - S.Nvar
    v.assume(S.Nvar >= 0, S.Nreal >= 1, z3.Or(S.Nact == -1, z3.And(S.Nact >= 1, S.Nact <= S.Nreal)),
             z3.Or(S.tpt == 0, S.tpt == 1))
    S.Neff = z3.If(z3.Or(S.Nact == -1, S.tpt == 1), S.Nreal, S.Nact)
    S.m0 = S.parts.leaf(0, "m")
    S.called = v.array("int", None, "ghost_called")      # ghost: called[k] = 1 once the solver has been called for body k
    S.called0 = S.called.array()
    return S


def coverage_inv(S, i):
    k = z3.Int("kc")
    cur = S.called.array()
    return z3.ForAll([k], z3.And(z3.Implies(z3.And(1 <= k, k < i), z3.Select(cur, k) == 1),
                                 z3.Implies(k >= i, z3.Select(cur, k) == z3.Select(S.called0, k))))


def coverage_post(v, S, n):
    j = v.int("jc")
    v.assume(1 <= j, j < n, z3.Select(S.called0, j) == 0)
    v.prove("every_body_advanced_once", z3.Select(S.called.array(), j) == 1)


def recording_solver(v, S, arr, M_spec, calls):
    """Contract of reb_whfast_kepler_solver at its call sites: argument checks, then p_j[i].{x..vz} := fresh."""
    tag = v.task.name

    def apply(eng, st, args, node):
        rp, pp, M, idx, dt = args
        i = eng.local(st, "i")
        eng.oblige(st, tag + ".call.simulation", z3.BoolVal(isinstance(rp, Ptr) and rp.obj == S.rp.obj))
        eng.oblige(st, tag + ".call.particle_array",
                   z3.BoolVal(isinstance(pp, Ptr) and pp.obj == arr.ptr.obj and z3.is_true(simp(pp.path[-1] == 0))))
        eng.oblige(st, tag + ".call.index_is_loop_index", idx == i)
        eng.oblige(st, tag + ".call.index_in_range", z3.And(idx >= 1, idx < S.Nreal_here))
        eng.oblige(st, tag + ".call.dt", as_real(dt) == S.dt)
        ob = eng.oblige(st, tag + ".call.mass_parameter", as_real(M) == M_spec(idx))
        for f in ("x", "y", "z", "vx", "vy", "vz"):
            eng.write(st, Ptr(pp.obj, (idx, f)), eng.fresh("kep_" + f, z3.RealSort()))
        eng.oblige(st, tag + ".call.not_called_before", z3.Select(S.called.array(), idx) == z3.Select(S.called0, idx))
        eng.write(st, Ptr(S.called.ptr.obj, (idx,)), z3.IntVal(1))
        calls.append(idx)
        return None
    v.contract(SOLVER, apply)


def _mass_task(coords, ordinal, doc):
    @P.task("kepler_step.mass." + coords.split("_")[-1].lower(), fn="reb_whfast_kepler_step")
    def _(v):
        S = step_setup(v, coords)
        S.Nreal_here = S.Nreal
        marr = S.pj.array("m")
        Sm = z3.Function("Sm", z3.IntSort(), z3.RealSort())
        k = z3.Int("k")
        v.assume(Sm(0) == 0, z3.ForAll([k], Sm(k) == Sm(k - 1) + z3.Select(marr, k), patterns=[Sm(k)]))
        m0, G, Neff = S.m0, S.G, S.Neff

        def mn(a, b):
            return z3.If(a <= b, a, b)
        spec = {
            "REB_WHFAST_COORDINATES_JACOBI": lambda i: G * (m0 + Sm(mn(i, Neff - 1))),
            "REB_WHFAST_COORDINATES_DEMOCRATICHELIOCENTRIC": lambda i: G * m0,
            "REB_WHFAST_COORDINATES_WHDS": lambda i: z3.If(i < Neff, G * (m0 + z3.Select(marr, i)), G * m0),
            "REB_WHFAST_COORDINATES_BARYCENTRIC": lambda i: G * z3.Select(marr, 0),
        }[coords]
        calls = []
        recording_solver(v, S, S.pj, spec, calls)

        def inv(L):
            out = [("range", z3.And(L.i >= 1, z3.Or(L.i <= S.Nreal, S.Nreal < 1))),
                   ("masses_unchanged", z3.And(S.pj.array("m") == marr, S.parts.array("m") == S.parts_m))]
            if coords.endswith("JACOBI"):
                out.append(("interior_mass", L.eta == m0 + Sm(mn(L.i - 1, Neff - 1))))
            out.append(("coverage", coverage_inv(S, L.i)))
            return out
        S.parts_m = S.parts.array("m")
        v.loop("reb_whfast_kepler_step", ordinal, invariant=inv, variant=lambda L: S.Nreal - L.i)
        v.call("reb_whfast_kepler_step", S.rp, S.dt)
        v.prove("frame.masses", z3.And(S.pj.array("m") == marr, S.parts.array("m") == S.parts_m))
        coverage_post(v, S, S.Nreal)
    _.__doc__ = doc


_mass_task("REB_WHFAST_COORDINATES_JACOBI", 0,
           "Jacobi: body i moves around the mass interior to it, M_i = G (m0 + sum_{1<=j<=min(i,N_active-1)} m_j).")
_mass_task("REB_WHFAST_COORDINATES_DEMOCRATICHELIOCENTRIC", 1, "Democratic heliocentric: M = G m0 for every body.")
_mass_task("REB_WHFAST_COORDINATES_WHDS", 2, "WHDS: M = G (m0 + m_i) for active bodies, G m0 for test particles.")
_mass_task("REB_WHFAST_COORDINATES_BARYCENTRIC", 3, "Barycentric: M = G p_j[0].m (slot 0 of p_jh holds the total mass).")


def _dh_caller(name, fn, tu):
    @P.task("kepler_step.mass." + name, fn=fn, files=[tu])
    def _(v):
        """MERCURIUS / TRACE Kepler step (democratic heliocentric, away from encounters): every body 1..N-1 is advanced
        by reb_whfast_kepler_solver on r->particles with M = G particles[0].m and the caller's dt."""
        S = step_setup(v)
        S.Nreal_here = S.N
        v.assume(S.N >= 1)
        marr = S.parts.array("m")
        calls = []
        recording_solver(v, S, S.parts, lambda i: S.G * S.m0, calls)

        def inv(L):
            return [("range", L.i >= 1), ("masses_unchanged", S.parts.array("m") == marr),
                    ("coverage", coverage_inv(S, L.i))]
        v.loop(fn, 0, invariant=inv, variant=lambda L: S.N - L.i)
        v.call(fn, S.rp, S.dt)
        v.prove("frame.masses", S.parts.array("m") == marr)
        coverage_post(v, S, S.N)


_dh_caller("mercurius", "reb_integrator_mercurius_kepler_step", "src/integrator_mercurius.c")
_dh_caller("trace", "reb_integrator_trace_whfast_step", "src/integrator_trace.c")


P.assume("SABA calls reb_whfast_kepler_step (integrator_saba.c) and therefore inherits the WHFast contracts above; "
         "its sub-step lengths c_i*dt (both signs occur) are covered because dt is an unconstrained real here")
P.not_decided.append("WHFast512 (integrator_whfast512.c: AVX-512 intrinsics, own Stumpff/Newton code in vector registers): "
                     "not analysable by the C executor -- not decided")
P.not_decided.append("tangent map of the solver (variational block, lines 311-342: dX, dG_k, df, dg, dfd, dgd as "
                     "derivatives of the f,g map): belongs to C16 (variational equations); here N_var_config = 0")
P.not_decided.append("composition 'Horner value -> n quadruplings -> exact c_k(z0)' is argued, not mechanised: proved are "
                     "(i) z 4^n = z0 and |z|<=0.1 after the reduction, (ii) partial sums + truncation bound at |z|<=0.1, "
                     "(iii) one quadrupling maps exact c_k(z) to exact c_k(4z), (iv) n decreases to 0 and z is restored; "
                     "the truncation error carried through the quadruplings belongs to 'to rounding error'")
