"""C18 (the Python mirror addresses the same bytes / arguments as the C library): Python calls the C functions positionally in
the order of the prototypes of src/rebound.h (that is also what every C caller is compiled against).  C compares a definition
with its prototype by TYPE only: a definition that lists two parameters of the same type in another order than its prototype
compiles without a diagnostic and silently exchanges the two arguments for every caller.

Structural contract over the clang AST of every translation unit of the library (setup.py source list):
    for every function definition that has a prototype in scope, no parameter NAME of the prototype occurs at a different
    position of the definition's parameter list (unnamed parameters and renamed parameters are left alone: only a permutation
    is a violation), and the two lists have the same length."""
from engine.api import Pack
from engine import frames

P = Pack("C18", ["src/rebound.c"], "definitions list their parameters in the order of their prototypes")
PACKS = [P]
P.trust("clang 14 JSON AST: ParmVarDecl order and names of prototypes and definitions")


def _params(fn):
    return [c.get("name") for c in fn.get("inner", ()) if isinstance(c, dict) and c.get("kind") == "ParmVarDecl"]


@P.task("abi.definition_parameters_in_prototype_order")
def _(v):
    lib = frames.Lib()
    checked, bad = 0, []
    for t, name, node in lib.bodies():
        proto = t.protos.get(name) or lib.protos.get(name)
        if proto is None:
            continue
        dp, pp = _params(node), _params(proto)
        if len(dp) != len(pp):
            bad.append("%s: %d parameters in the definition, %d in the prototype" % (name, len(dp), len(pp)))
            continue
        checked += 1
        for i, pn in enumerate(pp):
            if pn and pn in dp and dp.index(pn) != i and dp[i] != pn:
                bad.append("%s: prototype parameter %d `%s` is parameter %d of the definition (%s)" % (name, i, pn, dp.index(pn), ", ".join(map(str, dp))))
                break
    v.ground("definitions_with_prototypes_compared", checked >= 300, "compared: %d" % checked)
    v.ground("no_definition_permutes_the_parameters_of_its_prototype", not bad, "; ".join(bad[:6]))
