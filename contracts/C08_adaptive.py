"""C08 (adaptive step contract): the step contract that C08_integrate.py uses for the adaptive integrators

   adaptive:  t' = t + delta, delta = 0 or (sign(delta) = sign(dt), |delta| <= |dt|), sign(dt') = sign(dt),
              dt_last_done' = delta when delta != 0

is proved here on the REAL step-size controllers: reb_integrator_ias15_step / _part2, reb_integrator_bs_step / _part2,
and the hybrid integrators' part2 (MERCURIUS, TRACE: fixed contract towards the caller, adaptive sub-stepping inside).

R-mode (doubles as reals).  The numerical content of the predictor-corrector / extrapolation loops is irrelevant for the
contract: every numeric loop runs under the trivial invariant (all it writes is havocked, found by a dry run of the real
body), so the error estimate that drives the controller is an ARBITRARY real -- "for every error estimate the controller
keeps the direction, advances t by exactly the dt it was given or not at all, and respects the floor".  The few facts
about the estimate that the controller relies on (it is a maximum of absolute values / a ratio of sums of squares, hence
non-negative) are loop invariants proved on the real loops.
"""
import z3
from fractions import Fraction
from engine.api import Pack
from engine.mem import Ptr, NULL, Opaque, FuncRef, StructObj
from engine.csym import as_int, as_real, as_bool, const_int, Flow, NORMAL

IAS_FILES = ["src/integrator_ias15.c"]
P = Pack("C08", IAS_FILES, "adaptive step contract on the real step-size controllers")
PACKS = [P]

P.assume("machine arithmetic treated as mathematical (doubles as reals). Non-finite values the controllers test for: INFINITY is a "
         "distinguished positive value; isnormal(x) == (x != 0 and x != INFINITY); a quotient x/0 (IEEE: +-inf or NaN, both "
         "rejected by isnormal) is represented by 0, the R-mode value isnormal rejects -- every such quotient in the code "
         "under contract flows into an isnormal() test or into a loop-local comparison both outcomes of which are explored; "
         "BS: isnan(error) is an arbitrary truth value (the NaN exit is explored)")
P.assume("precondition of every step function: r->dt != 0 (C08_integrate: integrate() never calls a step with dt == 0)")
P.assume("IAS15 tasks: work arrays allocated for 3N elements (reb_integrator_ias15_alloc summarised as no-op; frame: "
         "stepcontract.adaptive.frame), gravity != REB_GRAVITY_COMPENSATED, calculate_megno == 0, no additional_forces; "
         "N, N_var, epsilon, min_dt, adaptive_mode (0,1,2,3 one task each), dt_last_done, all array contents arbitrary; "
         "hosts IAS15 / MERCURIUS (encounter map) / TRACE (Kepler mode map) with a non-NULL map")
P.assume("reb_simulation_update_acceleration = havoc of particles[] and gravity_cs[] (write frame: C08_integrate "
         "stepcontract.frame primitive.reb_simulation_update_acceleration and stepcontract.adaptive.frame)")
P.assume("numeric loops run under the trivial invariant: everything an arbitrary iteration writes (computed by a dry run of the "
         "real body; cached per process for loops entered from one call context only) is havocked, incl. r->t inside the "
         "IAS15 predictor-corrector loop (restored by the code afterwards: part of what is proved)")
P.assume("BS tasks: one ODE set (the N-body one, derivatives = the real nbody_derivatives), no user ODEs / getscale / pre / "
         "post_timestep callbacks; min_dt >= 0 and max_dt >= 0 (magnitudes, 0 = not set); target_iter on entry 0 (not chosen yet) "
         "or in 1..7 (kept in 1..7: proved); tables as allocate_sequence_arrays leaves them (stepcontract.bs.sequence_arrays); "
         "tryStep / extrapolate / the C,D copy loop are summarised by havoc of the ODE work arrays (their frames: "
         "stepcontract.bs.trystep_frame, stepcontract.bs.summaries)")
P.trust("libm: pow(x, y) > 0 for x > 0 (R-mode x^y; no underflow to 0 for the arguments 0.02^(1/(2k+1))); log10 uninterpreted")
P.assume("MERCURIUS / TRACE tasks: Kepler / jump / interaction / COM / coordinate-transformation / encounter-prediction "
         "primitives, reb_integrator_ias15_reset, reb_integrator_bs_reset, reb_ode_create/free, memcpy are summarised by havoc "
         "of the particle / backup / map arrays and of the encounter bookkeeping fields (frames: stepcontract.adaptive.frame); "
         "reb_collision_search may change particles, N, status, N_allocated_collisions; no post_timestep_modifications "
         "callback; the inner reb_integrator_ias15_part2 / reb_integrator_bs_step are used by the contracts proved above")
P.not_decided += [
    "termination of while(!reb_integrator_ias15_step(r)) and of the encounter sub-stepping loops (each rejection shrinks |dt| by "
    "more than a factor 4: no lower bound in R; in doubles the floor min_dt or underflow ends it)",
    "floating-point effects on the sign: copysign on -0.0, underflow of sqrt7()/pow()/sqrt() to 0 (dt_new == 0)",
    "IAS15 with gravity == COMPENSATED, MEGNO, velocity dependent additional forces (same scalar controller; the array "
    "numerics read different buffers)",
    "BS with user ODE sets (N_odes > 1) and getscale / pre_timestep / post_timestep callbacks",
    "array index bounds inside the numeric loops (arrays of unknown length; C05/C14 own the allocation invariants)",
    "TRACE sub-integrations for dt < 0: the loops `while (r->t < t_needed ...)` do not run at all for a negative step "
    "(source: 'TODO: Support backwards integrations'); the clock contract t' = t + dt holds regardless",
]

INF = z3.Real("INFINITY")
TRUE = lambda L: [("true", z3.BoolVal(True))]


def absr(x):
    return z3.If(x >= 0, x, -x)


def rmode(v, pack_replay=False):
    """R-mode conventions for the non-finite values the controllers test for (see P.assume)"""
    e = v.eng
    if pack_replay:
        # counter-models of these tasks contain havocked loop heads (no input of the real function reproduces them): failing
        # obligations are replayed natively by the pack's own harness (_replay_controller), not by the generic model replay
        e.current_ctx = None
    e.check_defined = False
    v.contract("__builtin_inff", lambda eng, st, args, n: INF)
    v.contract("__builtin_inf", lambda eng, st, args, n: INF)
    v.assume(INF > 0)
    normal = lambda eng, st, args, n: z3.And(as_real(args[0]) != 0, as_real(args[0]) != INF)
    v.contract("__builtin_isnormal", normal)
    v.contract("isnormal", normal)
    # x/0: IEEE gives +-inf or NaN, both rejected by isnormal(); represented by 0, the R-mode value isnormal() rejects
    v.st.ghost["fdiv"] = lambda eng, st, a, b, n: z3.If(b == 0, z3.RealVal(0), a / b)


# =====================================================================================================
# IAS15
# =====================================================================================================
IAS_STEP, IAS_PART2 = "reb_integrator_ias15_step", "reb_integrator_ias15_part2"


def ias15_sim(v, mode, host="REB_INTEGRATOR_IAS15"):
    rmode(v, pack_replay=True)
    r, rp = v.struct_obj("struct reb_simulation", "r")
    N, Nvar = v.int("N"), v.int("N_var")
    r.N, r.N_var = N, Nvar
    v.assume(N >= 0, Nvar >= 0, Nvar <= N)
    r.integrator = v.enumc(host)
    if host == "REB_INTEGRATOR_MERCURIUS":
        r.ri_mercurius.encounter_N = v.int("encounter_N")
        r.ri_mercurius.encounter_map = v.array("int", None, "encounter_map")
        v.assume(r.ri_mercurius.encounter_N >= Nvar)
    if host == "REB_INTEGRATOR_TRACE":
        r.ri_trace.mode = v.enumc("REB_TRACE_MODE_KEPLER")
        r.ri_trace.encounter_N = v.int("encounter_N")
        r.ri_trace.encounter_map = v.array("int", None, "encounter_map")
        v.assume(r.ri_trace.encounter_N >= Nvar)
    parts = v.array("struct reb_particle", None, "P")
    gcs = v.array("struct reb_vec3d", None, "GCS")
    r.particles, r.gravity_cs = parts, gcs
    arrays = [parts, gcs]
    ri = r.ri_ias15
    for nm in ("at", "x0", "v0", "a0", "csx", "csv", "csa0"):
        a = v.array("double", None, "ias_" + nm)
        ri[nm] = a
        arrays.append(a)
    ri.map = v.array("int", None, "ias_map")
    for g in ("g", "b", "csb", "e", "br", "er"):
        dp = ri[g]
        for k in range(7):
            a = v.array("double", None, "ias_%s%d" % (g, k))
            dp["p%d" % k] = a
            arrays.append(a)
    r.gravity = v.enumc("REB_GRAVITY_BASIC")
    r.calculate_megno = 0
    r.additional_forces = NULL
    ri.adaptive_mode = mode
    s = type("S", (), {})()
    s.r, s.rp, s.N = r, rp, N
    s.t, s.dt, s.dld = v.real("t"), v.real("dt"), v.real("dt_last_done")
    s.eps, s.min_dt = v.real("epsilon"), v.real("min_dt")
    s.status, s.exact = v.int("status"), v.int("exact_finish_time")
    r.status, r.exact_finish_time = s.status, s.exact
    r.t, r.dt, r.dt_last_done = s.t, s.dt, s.dld
    ri.epsilon, ri.min_dt = s.eps, s.min_dt
    v.assume(s.dt != 0)

    def forces(eng, st, args, n):
        eng.havoc(st, {(parts.obj.id, None), (gcs.obj.id, None)}, "forces")
    v.eng.trace_prims["reb_simulation_update_acceleration"] = forces
    v.eng.trace_prims["reb_integrator_ias15_alloc"] = lambda eng, st, args, n: None
    v.eng.havoc_calls |= {"reb_simulation_warning", "reb_simulation_error"}
    s.sqrt7_args = []

    def sqrt7(eng, st, args, n):
        a = as_real(args[0])
        eng.oblige(st, v.task.name + ".callsite.sqrt7.argument_positive", a > 0, "pre", n)
        y = eng.fresh("sqrt7", z3.RealSort())
        st.assume(z3.Implies(a > 0, y > 0))
        s.sqrt7_args.append(a)
        return y
    v.contract("sqrt7", sqrt7)
    return s


def ias15_loops(v, mode):
    """invariants of the loops of reb_integrator_ias15_step, attached by structure (names used in the loop)"""
    nonneg = lambda *names: (lambda L: [(nm + "_nonneg", L[nm] >= 0) for nm in names])
    for (o, info) in v.loops_of(IAS_STEP):
        nm = info["names"]
        v.loop(IAS_STEP, o, invariant=TRUE)
        if "integrator_error" in nm and "maxa" in nm and "mi" in nm:            # mode 1, over particles
            v.loop(IAS_STEP, o, invariant=nonneg("integrator_error", "maxa", "maxj"))
        elif "maxa" in nm and "maxj" in nm:                                       # mode 1, over components
            v.loop(IAS_STEP, o, invariant=nonneg("maxa", "maxj"))
        elif "integrator_error" in nm and "errork" in nm:                         # mode 0
            v.loop(IAS_STEP, o, invariant=nonneg("integrator_error"))
        elif "min_timescale2" in nm:                                              # mode >= 2, over particles
            v.loop(IAS_STEP, o, invariant=lambda L: [("min_timescale2_positive_or_INFINITY",
                                                      z3.Or(L.min_timescale2 == INF, L.min_timescale2 > 0))])
        elif "y2" in nm and "y5" in nm:                                           # mode >= 2, over components
            v.loop(IAS_STEP, o, invariant=nonneg("a0i", "y2", "y3", "y4", "y5"))
        # the step function is entered once per task: the write set of each of its loops is computed once per process
        v.eng.loopspecs[(IAS_STEP, o)].cache_mods = True
    for fn in ("predict_next_step", "copybuffers"):
        for (o, info) in v.loops_of(fn):
            v.loop(fn, o, invariant=TRUE)


def ias15_posts(v, s, ret):
    r = s.r
    acc, rej = ret == 1, ret == 0
    v.prove("returns_0_or_1", z3.Or(acc, rej))
    v.prove("direction_kept", r.dt * s.dt > 0)
    v.prove("accepted.t_advances_by_dt_on_entry", z3.Implies(acc, r.t == s.t + s.dt))
    v.prove("accepted.dt_last_done_is_dt_on_entry", z3.Implies(acc, r.dt_last_done == s.dt))
    v.prove("rejected.t_unchanged", z3.Implies(rej, r.t == s.t))
    v.prove("rejected.dt_last_done_unchanged", z3.Implies(rej, r.dt_last_done == s.dld))
    v.prove("frame.N_status_exact_finish_time_untouched", z3.And(r.N == s.N, r.status == s.status, r.exact_finish_time == s.exact))


def ias15_step_task(mode, host="REB_INTEGRATOR_IAS15", tag=""):
    @P.task("stepcontract.ias15.step.mode%d%s" % (mode, tag), fn=IAS_STEP)
    def _(v):
        """one call of the real reb_integrator_ias15_step, epsilon > 0 (adaptive), from an arbitrary state with dt != 0:
        rejected (returns 0): t, dt_last_done untouched, dt' has the sign of dt and |dt'| < safety_factor*|dt|;
        accepted (returns 1): t' = t + dt, dt_last_done' = dt (the dt on entry), dt' has the sign of dt,
        |dt|/4 <= |dt'| <= 4|dt|;  floor: |dt'| >= min_dt unless the growth limiter capped the step at 4 dt."""
        s = ias15_sim(v, mode, host)
        r = s.r
        v.assume(s.eps > 0)
        ias15_loops(v, mode)
        ret = v.call(IAS_STEP, s.rp)
        acc, rej = ret == 1, ret == 0
        ias15_posts(v, s, ret)
        v.prove("rejected.dt_shrinks_by_more_than_safety_factor", z3.Implies(rej, 4 * absr(r.dt) < absr(s.dt)))
        v.prove("accepted.dt_within_safety_factor", z3.Implies(acc, z3.And(4 * absr(r.dt) >= absr(s.dt), absr(r.dt) <= 4 * absr(s.dt))))
        v.prove("min_dt_floor", z3.Or(absr(r.dt) >= s.min_dt, z3.And(acc, r.dt == 4 * s.dt)))
        v.prove("min_dt_floor.reached_when_dt_within_factor_4", z3.Implies(4 * absr(s.dt) >= s.min_dt, absr(r.dt) >= s.min_dt))


for _m in (0, 1, 2, 3):
    ias15_step_task(_m)
ias15_step_task(2, "REB_INTEGRATOR_MERCURIUS", ".in_mercurius")      # encounter map / encounter_N instead of identity map / N
ias15_step_task(2, "REB_INTEGRATOR_TRACE", ".in_trace")


@P.task("stepcontract.ias15.step.fixed_dt", fn=IAS_STEP)
def _(v):
    """epsilon <= 0 (adaptive stepping off): always accepted, t' = t + dt, dt' = dt, dt_last_done' = dt; any adaptive_mode"""
    s = ias15_sim(v, v.int("adaptive_mode"))
    v.assume(s.eps <= 0)
    ias15_loops(v, None)
    ret = v.call(IAS_STEP, s.rp)
    ias15_posts(v, s, ret)
    v.prove("accepted", ret == 1)
    v.prove("dt_unchanged", s.r.dt == s.dt)


def ias15_step_contract(obliged_name):
    """contract of reb_integrator_ias15_step = what stepcontract.ias15.step.* prove (union of the adaptive and fixed cases)"""
    def apply(eng, st, args, n):
        rp = args[0]
        rd = lambda f: eng.read(st, Ptr(rp.obj, rp.path + (f,)))
        wr = lambda f, val: eng.write(st, Ptr(rp.obj, rp.path + (f,)), val)
        t, dt, dld = rd("t"), rd("dt"), rd("dt_last_done")
        eng.oblige(st, obliged_name + ".callsite.ias15_step.dt_nonzero", dt != 0, "pre", n)
        ret = eng.fresh("ias15_step_ret", z3.IntSort())
        dn = eng.fresh("ias15_dt_new", z3.RealSort())
        st.assume(z3.Or(ret == 0, ret == 1))
        st.assume(dn * dt > 0)
        st.assume(z3.Implies(ret == 0, 4 * absr(dn) < absr(dt)))
        wr("t", z3.If(ret == 1, t + dt, t))
        wr("dt_last_done", z3.If(ret == 1, dt, dld))
        wr("dt", dn)
        return ret
    return apply


def ias15_part2_posts(v, r, t0, dt0):
    """the adaptive step contract of C08_integrate.step_contract('adaptive') with delta = dt_last_done' != 0"""
    delta = r.dt_last_done
    v.prove("t_advances_by_delta", r.t == t0 + delta)
    v.prove("delta_is_dt_last_done_and_has_direction_of_dt", delta * dt0 > 0)
    v.prove("delta_not_larger_than_dt", absr(delta) <= absr(dt0))
    v.prove("direction_kept", r.dt * dt0 > 0)


@P.task("stepcontract.ias15.part2", fn=IAS_PART2)
def _(v):
    """reb_integrator_ias15_part2 = while(!step(r)); with the step contract: every rejected attempt leaves t, dt_last_done
    alone and keeps the sign of dt while shrinking it, so the accepted attempt advances t by a dt of the original sign
    that is not larger than the dt on entry."""
    r, rp = v.struct_obj("struct reb_simulation", "r")
    t0, dt0, dld0 = v.real("t"), v.real("dt"), v.real("dt_last_done")
    r.t, r.dt, r.dt_last_done = t0, dt0, dld0
    v.assume(dt0 != 0)
    v.contract(IAS_STEP, ias15_step_contract("stepcontract.ias15.part2"))
    rd = lambda L, f: L.eng.read(L.st, Ptr(rp.obj, (f,)))

    def inv(L):
        return [("t_untouched_by_rejected_attempts", rd(L, "t") == t0),
                ("dt_last_done_untouched_by_rejected_attempts", rd(L, "dt_last_done") == dld0),
                ("direction_kept", rd(L, "dt") * dt0 > 0),
                ("dt_not_larger", absr(rd(L, "dt")) <= absr(dt0))]
    v.loop(IAS_PART2, 0, invariant=inv)
    v.call(IAS_PART2, rp)
    ias15_part2_posts(v, r, t0, dt0)


@P.task("stepcontract.ias15.sqrt7_positive", fn="sqrt7")
def _(v):
    """the contract used for sqrt7 above, on its real body: a > 0  =>  sqrt7(a) > 0 (scaling loops keep a, scale > 0;
    every Newton iterate x + (a/x^6 - x)/7 = (6x + a/x^6)/7 of a positive x is positive)"""
    rmode(v)
    a = v.real("a")
    v.assume(a > 0)
    pos = lambda L: [("a_positive", L.a > 0), ("scale_positive", L.scale > 0)]
    v.loop("sqrt7", 0, invariant=pos)
    v.loop("sqrt7", 1, invariant=pos)
    v.loop("sqrt7", 2, invariant=lambda L: [("x_positive", L.x > 0)])
    y = v.call("sqrt7", a)
    v.prove("result_positive", y > 0)


# =====================================================================================================
# BS (Gragg-Bulirsch-Stoer)
# =====================================================================================================
BS_FILES = ["src/integrator_bs.c"]
BS_STEP, BS_PART2 = "reb_integrator_bs_step", "reb_integrator_bs_part2"
SEQ_LEN = 9


def bs_sim(v):
    rmode(v, pack_replay=True)
    eng = v.eng
    v.st.ghost["isnan"] = lambda e, st, x: e.fresh("is_nan", z3.BoolSort())       # the error estimate may be NaN
    r, rp = v.struct_obj("struct reb_simulation", "r")
    s = type("S", (), {})()
    s.r, s.rp = r, rp
    N = v.int("N")
    r.N, r.integrator = N, v.enumc("REB_INTEGRATOR_BS")
    v.assume(N >= 0)
    parts = v.array("struct reb_particle", None, "P")
    r.particles = parts
    ode, odep = v.struct_obj("struct reb_ode", "nbody_ode")
    ode.length = 6 * N
    s.ode = ode
    s.ode_arrays = []
    for nm in ("y", "y1", "C", "scale", "y0Dot", "yDot", "yTmp"):
        a = v.array("double", None, "ode_" + nm)
        ode[nm] = a
        s.ode_arrays.append(a)
    D = v.array("double*", SEQ_LEN, "ode_D", sym=False)
    s.D_rows = []
    for k in range(SEQ_LEN):
        row = v.array("double", None, "ode_D%d" % k)
        D[k] = row.ptr
        s.D_rows.append(row)
    ode.D = D
    ode.derivatives = FuncRef("nbody_derivatives")
    ode.getscale, ode.pre_timestep, ode.post_timestep = NULL, NULL, NULL
    ode.r = rp
    ode.needs_nbody = 0
    odes = v.array("struct reb_ode*", 1, "odes", sym=False)
    odes[0] = odep
    r.odes, r.N_odes = odes, 1
    bs = r.ri_bs
    bs.nbody_ode = odep
    s.seq = v.array("int", None, "bs_sequence")
    s.cps = v.array("int", None, "bs_cost_per_step")
    s.coeff = v.array("double", None, "bs_coeff")
    s.cptu = v.array("double", None, "bs_cost_per_time_unit")
    s.os = v.array("double", None, "bs_optimal_step")
    bs.sequence, bs.cost_per_step, bs.coeff, bs.cost_per_time_unit, bs.optimal_step = s.seq, s.cps, s.coeff, s.cptu, s.os
    # what allocate_sequence_arrays establishes (task stepcontract.bs.sequence_arrays)
    for k in range(SEQ_LEN):
        v.assume(s.seq.leaf(k) == 4 * k + 2, s.cps.leaf(k) > 0)
    s.t, s.rdt, s.dld = v.real("t"), v.real("r_dt"), v.real("dt_last_done")
    r.t, r.dt, r.dt_last_done = s.t, s.rdt, s.dld
    s.min_dt, s.max_dt = v.real("min_dt"), v.real("max_dt")
    bs.min_dt, bs.max_dt = s.min_dt, s.max_dt
    s.T0, s.prev, s.status = v.int("target_iter"), v.int("previous_rejected"), v.int("status")
    bs.target_iter, bs.previous_rejected, r.status = s.T0, s.prev, s.status
    v.assume(s.min_dt >= 0, s.max_dt >= 0)                       # documented meaning: magnitudes; 0 = not set
    v.assume(z3.Or(s.T0 == 0, z3.And(1 <= s.T0, s.T0 <= SEQ_LEN - 2)))      # 0 = not yet chosen; else kept in 1..7 (proved below)
    s.parts = parts

    def forces(e, st, args, n):
        e.havoc(st, {(parts.obj.id, None)}, "forces")
    eng.trace_prims["reb_simulation_update_acceleration"] = forces

    def extrapolate(e, st, args, n):
        e.havoc(st, {(a.obj.id, None) for a in s.ode_arrays + s.D_rows}, "extrapolate")
    eng.trace_prims["extrapolate"] = extrapolate
    s.real_trystep = False

    def trystep(e, st, args, n):
        """summary of tryStep (modified-midpoint numerics), proved on its real body in stepcontract.bs.trystep_frame:
        writes only the ODE work arrays and the particles, returns 0 or 1"""
        if s.real_trystep:
            tu, f = e.find_function("tryStep")
            return e.exec_function(st, tu, f, args)
        e.havoc(st, {(a.obj.id, None) for a in s.ode_arrays} | {(parts.obj.id, None)}, "tryStep")
        ok = e.fresh("tryStep_ok", z3.IntSort())
        st.assume(z3.Or(ok == 0, ok == 1))
        return ok
    eng.trace_prims["tryStep"] = trystep
    eng.havoc_calls |= {"reb_simulation_warning", "reb_simulation_error"}

    def powc(e, st, args, n):
        a, b = as_real(args[0]), as_real(args[1])
        y = e.uf("pow", z3.RealSort(), z3.RealSort(), z3.RealSort())(a, b)
        st.assume(z3.Implies(a > 0, y > 0))
        return y
    v.contract("pow", powc)
    return s


def rdbs(eng, st, s, f):
    return eng.read(st, Ptr(s.rp.obj, ("ri_bs", f)))


def bs_loops(v, s, dt0):
    eng = v.eng
    for fn in ("tryStep", "nbody_derivatives", "reb_integrator_bs_update_particles", "reb_integrator_bs_default_scale", BS_PART2):
        for (o, info) in v.loops_of(fn):
            nm = info["names"]
            if ("Ns" in nm and "s" in nm and "j" not in nm) or (fn == BS_PART2 and "s" in nm):
                continue                                   # for (s < Ns): Ns == 1, unrolled
            v.loop(fn, o, invariant=TRUE)
            # write sets computed once per (call stack, loop): the call sites that share a call stack pass the same arrays
            v.eng.loopspecs[(fn, o)].cache_mods = True
    main = None
    for (o, info) in v.loops_of(BS_STEP):
        nm = info["names"]
        if "loop" in nm:
            main = o
        elif "Ns" in nm and "s" in nm:
            continue                                       # for (s < Ns): unrolled
        elif "CD" in nm:
            # C[i] = y1[i]; D[k][i] = y1[i] with symbolic row k: summarised (writes C and the rows of D only; checked
            # syntactically in stepcontract.bs.summaries)
            def skip(e, st, n, cond, inc, body):
                e.havoc(st, {(a.obj.id, None) for a in [s.ode_arrays[2]] + s.D_rows}, "copyCD")
                return NORMAL
            v.loop(BS_STEP, o, invariant=skip, mode="custom")
        elif "error" in nm and "scale" in nm:
            v.loop(BS_STEP, o, invariant=lambda L: [("error_nonneg", L.error >= 0)])
        else:
            v.loop(BS_STEP, o, invariant=TRUE)
        if (BS_STEP, o) in v.eng.loopspecs:
            v.eng.loopspecs[(BS_STEP, o)].cache_mods = True
    j = z3.Int("j")

    def inv(L):
        k, loop, rej, dt = L.k, L.loop, L.reject, L.dt
        T = rdbs(L.eng, L.st, s, "target_iter")
        T1 = rdbs(L.eng, L.entry, s, "target_iter")
        OS = L.eng._leaf_array(L.st.mem.get(s.os.obj.id), ())
        steps = z3.ForAll([j], z3.Implies(z3.And(1 <= j, j <= k), z3.Select(OS, j) > 0))
        return [("flags", z3.And(k >= -1, z3.Or(loop == 0, loop == 1), z3.Or(rej == 0, rej == 1))),
                ("target_iter_range", z3.And(1 <= T, T <= SEQ_LEN - 2)),
                ("status_kept", L.eng.read(L.st, Ptr(s.rp.obj, ("status",))) == s.status),
                ("running", z3.Implies(loop == 1, z3.And(rej == 0, dt == dt0, k <= T, T == T1))),
                ("optimal_steps_computed_so_far_positive", z3.Implies(rej == 0, steps)),
                ("finished.rejected_dt_positive", z3.Implies(z3.And(loop == 0, rej == 1), dt > 0)),
                ("finished.converged", z3.Implies(z3.And(loop == 0, rej == 0), z3.And(dt == dt0, k >= 1, k <= T + 1, T == T1)))]
    v.loop(BS_STEP, main, invariant=inv)


def bs_step_posts(v, s, ret, dt0):
    r = s.r
    bs = r.ri_bs
    dp = bs.dt_proposed
    # error exits (an ODE without derivatives / NaN error estimate): status := GENERIC_ERROR, step rejected, dt_proposed = dt
    errexit = z3.And(r.status == v.enumc("REB_STATUS_GENERIC_ERROR"), ret == 0, dp == dt0)
    v.prove("returns_0_or_1", z3.Or(ret == 0, ret == 1))
    v.prove("direction_kept", dp * dt0 > 0)
    v.prove("frame.t_dt_dt_last_done_not_written", z3.And(r.t == s.t, r.dt == s.rdt, r.dt_last_done == s.dld))
    v.prove("frame.status_kept_or_error_exit", z3.Or(r.status == s.status, errexit))
    v.prove("target_iter_stays_in_1..7", z3.And(1 <= bs.target_iter, bs.target_iter <= SEQ_LEN - 2))
    v.prove("previous_rejected_records_outcome", z3.Or(errexit, bs.previous_rejected == z3.If(ret == 0, 1, 0)))
    v.prove("max_dt_respected", z3.Or(errexit, s.max_dt == 0, absr(dp) <= s.max_dt))
    v.prove("min_dt_respected", z3.Or(errexit, s.min_dt == 0, z3.And(s.max_dt != 0, s.max_dt < s.min_dt), absr(dp) >= s.min_dt))


@P.task("stepcontract.bs.step", fn=BS_STEP, files=BS_FILES)
def _(v):
    """one call of the real reb_integrator_bs_step(r, dt), dt != 0, one ODE set (the N-body one), any target_iter in 0..7,
    any previous_rejected / first_or_last_step, any error estimates: dt_proposed has the sign of dt on every return;
    r->t, r->dt, r->dt_last_done are not written; the min_dt / max_dt clamps hold and keep the sign."""
    s = bs_sim(v)
    dt0 = v.real("dt")
    v.assume(dt0 != 0)
    bs_loops(v, s, dt0)
    ret = as_int(v.call(BS_STEP, s.rp, dt0))
    bs_step_posts(v, s, ret, dt0)


@P.task("stepcontract.bs.step.no_derivatives", fn=BS_STEP, files=BS_FILES)
def _(v):
    """error exit: an ODE set without a derivatives function: rejected, status GENERIC_ERROR, dt_proposed = dt, t/dt untouched"""
    s = bs_sim(v)
    dt0 = v.real("dt")
    v.assume(dt0 != 0)
    s.ode.derivatives = NULL
    bs_loops(v, s, dt0)
    ret = as_int(v.call(BS_STEP, s.rp, dt0))
    r = s.r
    v.prove("rejected", ret == 0)
    v.prove("status_generic_error", r.status == v.enumc("REB_STATUS_GENERIC_ERROR"))
    v.prove("dt_proposed_is_dt", r.ri_bs.dt_proposed == dt0)
    v.prove("frame.t_dt_dt_last_done_not_written", z3.And(r.t == s.t, r.dt == s.rdt, r.dt_last_done == s.dld))


def bs_scalars(s):
    r = s.r
    bs = r.ri_bs
    return [r.t, r.dt, r.dt_last_done, r.status, r.N, bs.target_iter, bs.dt_proposed, bs.previous_rejected, bs.first_or_last_step,
            bs.min_dt, bs.max_dt]


def bs_tables(s):
    return [a.array() for a in (s.seq, s.cps, s.coeff, s.cptu, s.os)]


@P.task("stepcontract.bs.trystep_frame", fn="tryStep", files=BS_FILES)
def _(v):
    """the summary used for tryStep in stepcontract.bs.step, on its real body (all numeric loops under the trivial invariant,
    the real nbody_derivatives): returns 0 or 1; writes none of r->t, dt, dt_last_done, status, N, the controller's scalars
    in ri_bs, its tables (sequence, cost_per_step, coeff, cost_per_time_unit, optimal_step), nor C / D of the ODE."""
    s = bs_sim(v)
    s.real_trystep = True
    bs_loops(v, s, v.real("unused"))
    k, n, t0, step = v.int("k"), v.int("n"), v.real("t0"), v.real("step")
    s.r.ri_bs.first_or_last_step = v.int("first_or_last_step")
    s.r.ri_bs.dt_proposed = v.real("dt_proposed")
    sc0, tb0 = bs_scalars(s), bs_tables(s)
    cd0 = [a.array() for a in [s.ode_arrays[2]] + s.D_rows]
    ret = as_int(v.call("tryStep", s.rp, 1, k, n, t0, step))
    v.prove("returns_0_or_1", z3.Or(ret == 0, ret == 1))
    v.prove("frame.scalars", z3.And(*[a == b for a, b in zip(sc0, bs_scalars(s))]))
    v.prove("frame.tables", z3.And(*[a == b for a, b in zip(tb0, bs_tables(s))]))
    v.prove("frame.C_and_D", z3.And(*[a == b.array() for a, b in zip(cd0, [s.ode_arrays[2]] + s.D_rows)]))


@P.task("stepcontract.bs.summaries", fn="extrapolate", files=BS_FILES)
def _(v):
    """the two other summaries of stepcontract.bs.step: extrapolate (real body for every row count k = 1..8) and the copy loop
    C[i] = D[k][i] = y1[i] (syntactic: its only stores go to odes[.]->C[.] and odes[.]->D[.][.])"""
    from engine import frames
    s = bs_sim(v)
    del v.eng.trace_prims["extrapolate"]
    for (o, info) in v.loops_of("extrapolate"):
        if "facC" in info["names"] and info["depth"] == 0:
            continue                                            # for (j < k): k concrete, unrolled
        if "j" in info["names"] and "k" in info["names"] and info["depth"] == 0:
            continue                                            # for (j <= k): unrolled
        v.loop("extrapolate", o, invariant=TRUE)
    s.r.ri_bs.first_or_last_step = v.int("first_or_last_step")
    s.r.ri_bs.dt_proposed = v.real("dt_proposed")
    sc0, tb0 = bs_scalars(s), bs_tables(s)
    odep = s.r.ri_bs.nbody_ode
    for k in range(1, SEQ_LEN):
        v.call("extrapolate", odep, s.coeff.ptr, k)
    v.prove("extrapolate.frame.scalars", z3.And(*[a == b for a, b in zip(sc0, bs_scalars(s))]))
    v.prove("extrapolate.frame.tables", z3.And(*[a == b for a, b in zip(tb0, bs_tables(s))]))
    tu, fn = v.eng.find_function(BS_STEP)
    hits = []

    def walk(x, depth):
        if isinstance(x, dict):
            if x.get("kind") == "ForStmt":
                txt = set()
                for y in frames.walk(x):
                    if (y.get("kind") == "BinaryOperator" and y.get("opcode") == "=") or y.get("kind") == "CompoundAssignOperator" or \
                       (y.get("kind") == "UnaryOperator" and y.get("opcode") in ("++", "--")):
                        txt.add(frames.expr_text(frames.strip_casts(y["inner"][0])))
                if depth == 2 and "odes[]->D[][]" in txt:
                    hits.append(txt)
                depth += 1
            for c in x.get("inner", ()):
                walk(c, depth)
    walk(fn, 0)
    v.ground("copy_loop.found_once", len(hits) == 1, str(hits))
    v.ground("copy_loop.stores_only_to_C_and_D_rows", bool(hits) and hits[0] <= {"odes[]->C[]", "odes[]->D[][]", "i"}, str(hits))


@P.task("stepcontract.bs.sequence_arrays", fn="allocate_sequence_arrays", files=BS_FILES)
def _(v):
    """what stepcontract.bs.step assumes about the tables, on the real allocator: sequence[k] = 4k+2, cost_per_step[k] > 0"""
    v.eng.check_defined = False
    bs, bsp = v.struct_obj("struct reb_integrator_bs", "ri_bs")
    v.call("allocate_sequence_arrays", bsp)
    for k in range(SEQ_LEN):
        v.prove("sequence[%d]" % k, v.read(Ptr(bs.sequence.obj, (z3.IntVal(k),))) == 4 * k + 2)
        v.prove("cost_per_step[%d]_positive" % k, v.read(Ptr(bs.cost_per_step.obj, (z3.IntVal(k),))) > 0)


def bs_step_contract(s, rets):
    """contract of reb_integrator_bs_step = what stepcontract.bs.step(.no_derivatives) prove"""
    def apply(eng, st, args, n):
        rp, dt = args[0], as_real(args[1])
        eng.oblige(st, "stepcontract.bs.callsite.bs_step.dt_nonzero", dt != 0, "pre", n)
        ret = eng.fresh("bs_step_ret", z3.IntSort())
        dp = eng.fresh("bs_dt_proposed", z3.RealSort())
        st.assume(z3.Or(ret == 0, ret == 1))
        st.assume(dp * dt > 0)
        wr = lambda f, val: eng.write(st, Ptr(rp.obj, rp.path + ("ri_bs", f)), val)
        wr("dt_proposed", dp)
        for f in ("target_iter", "previous_rejected", "first_or_last_step"):
            wr(f, eng.fresh("bs_" + f, z3.IntSort()))
        old = eng.read(st, Ptr(rp.obj, rp.path + ("status",)))
        stn = eng.fresh("bs_status", z3.IntSort())
        st.assume(z3.Or(stn == old, z3.And(stn == eng.enum("REB_STATUS_GENERIC_ERROR"), ret == 0)))
        eng.write(st, Ptr(rp.obj, rp.path + ("status",)), stn)
        eng.havoc(st, {(a.obj.id, None) for a in s.ode_arrays + s.D_rows + [s.parts, s.os, s.cptu]}, "bs_step")
        rets.append((ret, dp))
        return ret
    return apply


@P.task("stepcontract.bs.part2", fn=BS_PART2, files=BS_FILES)
def _(v):
    """the real reb_integrator_bs_part2 with the step contract: accepted: t' = t + dt, dt_last_done' = dt (the dt on entry);
    rejected: t, dt_last_done untouched; in both cases dt' = dt_proposed, same sign as dt: the adaptive contract with
    delta in {0, dt}."""
    s = bs_sim(v)
    r = s.r
    v.assume(s.rdt != 0)
    bs_loops(v, s, s.rdt)
    rets = []
    v.contract(BS_STEP, bs_step_contract(s, rets))
    v.call(BS_PART2, s.rp)
    ret, dp = rets[0]
    v.ground("bs_step_called_once", len(rets) == 1)
    v.prove("accepted.t_advances_by_dt_on_entry", z3.Implies(ret == 1, r.t == s.t + s.rdt))
    v.prove("accepted.dt_last_done_is_dt_on_entry", z3.Implies(ret == 1, r.dt_last_done == s.rdt))
    v.prove("rejected.t_unchanged", z3.Implies(ret == 0, r.t == s.t))
    v.prove("rejected.dt_last_done_unchanged", z3.Implies(ret == 0, r.dt_last_done == s.dld))
    v.prove("dt_is_dt_proposed", r.dt == dp)
    v.prove("direction_kept", r.dt * s.rdt > 0)
    delta = r.t - s.t
    v.prove("adaptive_contract.delta", z3.Or(delta == 0, z3.And(delta * s.rdt > 0, absr(delta) <= absr(s.rdt))))
    v.prove("adaptive_contract.dt_last_done", r.dt_last_done == z3.If(delta != 0, delta, s.dld))


# =====================================================================================================
# hybrid integrators: fixed contract towards reb_simulation_step, adaptive sub-stepping inside (restored afterwards)
# =====================================================================================================
def ias15_part2_contract(name, parts):
    """contract of reb_integrator_ias15_part2 = what stepcontract.ias15.part2 proves (delta != 0)"""
    def apply(eng, st, args, n):
        rp = args[0]
        rd = lambda f: eng.read(st, Ptr(rp.obj, rp.path + (f,)))
        wr = lambda f, val: eng.write(st, Ptr(rp.obj, rp.path + (f,)), val)
        t, dt = rd("t"), rd("dt")
        eng.oblige(st, name + ".callsite.ias15_part2.dt_nonzero", dt != 0, "pre", n)
        d = eng.fresh("ias15_delta", z3.RealSort())
        dn = eng.fresh("ias15_dt_new", z3.RealSort())
        st.assume(z3.And(d * dt > 0, absr(d) <= absr(dt), dn * dt > 0))
        wr("t", t + d)
        wr("dt_last_done", d)
        wr("dt", dn)
        eng.havoc(st, {(parts.obj.id, None)}, "ias15")
        return None
    return apply


def fixed_posts(v, r, t0, dt0):
    v.prove("t_advances_by_dt", r.t == t0 + dt0)
    v.prove("dt_unchanged", r.dt == dt0)
    v.prove("dt_last_done_is_dt", r.dt_last_done == dt0)


def hybrid_sim(v, integ):
    rmode(v)
    r, rp = v.struct_obj("struct reb_simulation", "r")
    N = v.int("N")
    r.N, r.integrator = N, v.enumc(integ)
    v.assume(N >= 0)
    parts = v.array("struct reb_particle", None, "P")
    r.particles = parts
    r.post_timestep_modifications = NULL
    t0, dt0 = v.real("t"), v.real("dt")
    r.t, r.dt, r.dt_last_done = t0, dt0, v.real("dt_last_done")
    v.assume(dt0 != 0)

    def collisions(eng, st, args, n):
        # collisions may merge/remove particles and raise an exit status; they do not write t, dt (stepcontract.adaptive.frame)
        eng.havoc(st, {(parts.obj.id, None)}, "collision")
        for f in ("N", "status", "N_allocated_collisions"):
            eng.write(st, Ptr(rp.obj, (f,)), eng.fresh("collision_" + f, z3.IntSort()))
    v.eng.trace_prims["reb_collision_search"] = collisions
    v.eng.trace_prims["reb_simulation_update_acceleration"] = lambda eng, st, args, n: eng.havoc(st, {(parts.obj.id, None)}, "forces")

    def memcpy(eng, st, args, n):
        eng.havoc(st, {(args[0].obj, None)}, "memcpy")
        return args[0]
    v.contract("memcpy", memcpy)
    v.eng.havoc_calls |= {"reb_simulation_warning", "reb_simulation_error"}
    return r, rp, parts, t0, dt0


def field_havoc(rp, sub, ints=(), reals=()):
    def f(eng, st):
        for nm in ints:
            eng.write(st, Ptr(rp.obj, (sub, nm)), eng.fresh(nm, z3.IntSort()))
        for nm in reals:
            eng.write(st, Ptr(rp.obj, (sub, nm)), eng.fresh(nm, z3.RealSort()))
    return f


MERC_FILES = ["src/integrator_mercurius.c"]
MERC_PART2, MERC_ENC = "reb_integrator_mercurius_part2", "reb_mercurius_encounter_step"


@P.task("stepcontract.mercurius.part2", fn=MERC_PART2, files=MERC_FILES)
def _(v):
    """the real reb_integrator_mercurius_part2 incl. the real reb_mercurius_encounter_step: the encounter step saves t, dt,
    runs IAS15 sub-steps (adaptive contract) from t towards t + dt with r->dt temporarily overwritten, and restores both:
    towards the caller the FIXED contract holds: t' = t + dt, dt' = dt, dt_last_done' = dt.
    Inside: every IAS15 call has dt != 0; the sub-steps keep the direction of dt and never pass t + dt."""
    r, rp, parts, t0, dt0 = hybrid_sim(v, "REB_INTEGRATOR_MERCURIUS")
    rim = r.ri_mercurius
    backup = v.array("struct reb_particle", None, "P_backup")
    emap = v.array("int", None, "encounter_map")
    rim.particles_backup, rim.encounter_map = backup, emap
    hv = field_havoc(rp, "ri_mercurius", ints=("encounter_N", "encounter_N_active", "tponly_encounter", "is_synchronized"))

    def prim(eng, st, args, n):
        eng.havoc(st, {(parts.obj.id, None), (emap.obj.id, None), (backup.obj.id, None)}, "prim")
        hv(eng, st)
    for nm in ("reb_integrator_mercurius_interaction_step", "reb_integrator_mercurius_jump_step", "reb_integrator_mercurius_com_step",
               "reb_integrator_mercurius_kepler_step", "reb_mercurius_encounter_predict", "reb_integrator_mercurius_synchronize",
               "reb_integrator_ias15_reset"):
        v.eng.trace_prims[nm] = prim
    v.contract(IAS_PART2, ias15_part2_contract("stepcontract.mercurius.part2", parts))
    rd = lambda L, f: L.eng.read(L.st, Ptr(rp.obj, (f,)))

    def substeps(L):
        t, dt, sg = rd(L, "t"), rd(L, "dt"), L.dtsign
        return [("substep_direction_is_direction_of_dt", sg * dt >= 0),
                ("substeps_never_pass_t_plus_dt", sg * (t + dt) <= sg * L.t_needed),
                ("substeps_never_before_t", sg * t >= sg * L.old_t)]
    for (o, info) in v.loops_of(MERC_ENC):
        v.loop(MERC_ENC, o, invariant=substeps if info["kind"] == "WhileStmt" else TRUE)
    v.call(MERC_PART2, rp)
    fixed_posts(v, r, t0, dt0)


TRACE_FILES = ["src/integrator_trace.c"]
TRACE_PART2, TRACE_STEP, TRACE_BS = "reb_integrator_trace_part2", "reb_integrator_trace_step", "reb_integrator_trace_bs_step"


@P.task("stepcontract.trace.part2", fn=TRACE_STEP, files=TRACE_FILES)
def _(v):
    """the real reb_integrator_trace_part2 with the real reb_integrator_trace_step (executed once, or twice when the
    post-timestep check rejects the attempt and the step is redone from the backup), the real
    reb_integrator_trace_kepler_step / reb_integrator_trace_bs_step (BS sub-steps, adaptive contract of
    reb_integrator_bs_step) and both FULL pericentre prescriptions (IAS15 / BS sub-steps): every sub-integration saves t
    (and dt where it overwrites it) and restores it, also on the redo, so that towards the caller the FIXED contract holds:
    t' = t + dt, dt' = dt, dt_last_done' = dt, for any peri_mode, any outcome of the encounter checks, either sign of dt.
    Inside: every BS / IAS15 sub-step call has dt != 0."""
    r, rp, parts, t0, dt0 = hybrid_sim(v, "REB_INTEGRATOR_TRACE")
    eng = v.eng
    rt = r.ri_trace
    backup = v.array("struct reb_particle", None, "P_backup")
    backupk = v.array("struct reb_particle", None, "P_backup_kepler")
    emap = v.array("int", None, "encounter_map")
    rt.particles_backup, rt.particles_backup_kepler, rt.encounter_map = backup, backupk, emap
    rt.peri_mode = v.int("peri_mode")
    hv = field_havoc(rp, "ri_trace", ints=("encounter_N", "encounter_N_active", "tponly_encounter", "current_C"))

    def prim(e, st, args, n):
        e.havoc(st, {(parts.obj.id, None), (emap.obj.id, None), (backupk.obj.id, None)}, "prim")
    for nm in ("reb_integrator_trace_interaction_step", "reb_integrator_trace_jump_step", "reb_integrator_trace_com_step",
               "reb_integrator_trace_whfast_step", "reb_integrator_trace_inertial_to_dh", "reb_integrator_trace_dh_to_inertial",
               "reb_integrator_trace_update_particles", "reb_integrator_bs_update_particles", "reb_integrator_ias15_reset",
               "reb_integrator_bs_reset", "reb_ode_free"):
        eng.trace_prims[nm] = prim

    def pre_check(e, st, args, n):
        prim(e, st, args, n)
        hv(e, st)
    eng.trace_prims["reb_integrator_trace_pre_ts_check"] = pre_check

    def post_check(e, st, args, n):
        pre_check(e, st, args, n)
        return e.fresh("new_close_encounter", z3.RealSort())
    eng.trace_prims["reb_integrator_trace_post_ts_check"] = post_check

    def ode_create(e, st, args, n):
        o = StructObj(e.ctype("struct reb_ode"), {}, name="ode%d" % next(e.fresh_n))
        st.mem.add(o)
        y = e.new_array(e.ctype("double"), None, "ode_y%d" % next(e.fresh_n), force_sym=True)
        st.mem.add(y)
        o.fields["y"] = Ptr(y.id, (z3.IntVal(0),), False)
        o.fields["length"] = as_int(args[1])
        e.write(st, Ptr(rp.obj, ("ri_bs", "first_or_last_step")), z3.IntVal(1))
        return Ptr(o.id, (), False)
    v.contract("reb_ode_create", ode_create)
    v.contract("free", lambda e, st, args, n: None)
    v.contract(IAS_PART2, ias15_part2_contract("stepcontract.trace.part2", parts))

    def bs_step(e, st, args, n):
        dt = as_real(args[1])
        e.oblige(st, "stepcontract.trace.part2.callsite.bs_step.dt_nonzero", dt != 0, "pre", n)
        ret = e.fresh("bs_step_ret", z3.IntSort())
        dp = e.fresh("bs_dt_proposed", z3.RealSort())
        st.assume(z3.And(z3.Or(ret == 0, ret == 1), dp * dt > 0))
        e.write(st, Ptr(rp.obj, ("ri_bs", "dt_proposed")), dp)
        old = e.read(st, Ptr(rp.obj, ("status",)))
        stn = e.fresh("bs_status", z3.IntSort())
        st.assume(z3.Or(stn == old, z3.And(stn == e.enum("REB_STATUS_GENERIC_ERROR"), ret == 0)))
        e.write(st, Ptr(rp.obj, ("status",)), stn)
        return ret
    v.contract(BS_STEP, bs_step)
    rd = lambda L, f: L.eng.read(L.st, Ptr(rp.obj, (f,)))

    def kepler_substeps(L):           # while (r->t < t_needed && ...) of reb_integrator_trace_bs_step: forward only (see not_decided)
        t = rd(L, "t")
        return [("substep_direction_is_direction_of_dt", L.dt * L.old("dt") > 0),
                ("substeps_never_before_t", t >= L.old_t),
                ("substeps_never_pass_t_plus_dt", z3.Or(t <= L.t_needed, t == L.old_t)),
                ("r_dt_not_written", rd(L, "dt") == L.old_dt)]

    def full_substeps(tag):           # while (r->t < t_needed && ...) of the FULL pericentre prescriptions (forward only)
        def inv(L):
            t, dt = rd(L, "t"), rd(L, "dt")
            return [(tag + ".substeps_never_before_t", t >= L.old_t),
                    (tag + ".substep_direction_is_direction_of_dt", dt * L.old_dt >= 0),
                    # FULL_IAS15 clips the next sub-step at t + dt; FULL_BS does not (finding: see known findings / tools/repro)
                    (tag + ".substeps_never_pass_t_plus_dt", z3.Or(z3.And(L.old_dt > 0, t + dt <= L.t_needed), z3.And(L.old_dt < 0, t == L.old_t)))]
        return inv
    for (o, info) in v.loops_of(TRACE_BS):
        v.loop(TRACE_BS, o, invariant=kepler_substeps if info["kind"] == "WhileStmt" else TRUE)
        eng.loopspecs[(TRACE_BS, o)].cache_mods = True
    for (o, info) in v.loops_of(TRACE_STEP):
        if info["kind"] == "WhileStmt":
            v.loop(TRACE_STEP, o, invariant=full_substeps("full_ias15" if IAS_PART2 in info["calls"] else "full_bs"))
        else:
            v.loop(TRACE_STEP, o, invariant=TRUE)
        eng.loopspecs[(TRACE_STEP, o)].cache_mods = True
    try:
        v.call(TRACE_PART2, rp)
    finally:
        # the sub-step invariants are replayed natively by the pack (_replay_trace: a model of the havocked loop head is not
        # an input of part2), not by the generic counter-model replay
        for ob in eng.obligations:
            if "substeps_never_pass" in ob.name:
                ob.meta["ctx"] = None
    fixed_posts(v, r, t0, dt0)


# =====================================================================================================
# write frames of the helpers that the tasks above replace by havoc summaries (engine.frames, whole library)
# =====================================================================================================
TIME_FIELDS = ("t", "dt", "dt_last_done")
SUMMARISED = {
    "reb_simulation_update_acceleration": "ias15.step, bs.*, mercurius, trace",
    "reb_integrator_ias15_alloc": "ias15.step",
    "reb_simulation_warning": "all", "reb_simulation_error": "all",
    "reb_collision_search": "mercurius, trace",
    "reb_integrator_ias15_reset": "mercurius, trace",
    "reb_integrator_mercurius_interaction_step": "mercurius", "reb_integrator_mercurius_jump_step": "mercurius",
    "reb_integrator_mercurius_com_step": "mercurius", "reb_integrator_mercurius_kepler_step": "mercurius",
    "reb_mercurius_encounter_predict": "mercurius", "reb_integrator_mercurius_synchronize": "mercurius",
    "reb_integrator_trace_interaction_step": "trace", "reb_integrator_trace_jump_step": "trace",
    "reb_integrator_trace_com_step": "trace", "reb_integrator_trace_whfast_step": "trace",
    "reb_integrator_trace_inertial_to_dh": "trace", "reb_integrator_trace_dh_to_inertial": "trace",
    "reb_integrator_trace_update_particles": "trace", "reb_integrator_bs_update_particles": "trace",
    "reb_integrator_trace_pre_ts_check": "trace", "reb_integrator_trace_post_ts_check": "trace",
    "reb_ode_create": "trace", "reb_ode_free": "trace", "reb_integrator_bs_reset": "trace",
}


def time_suspects(writes):
    """writes (root, path) through parameter 0 that may hit t / dt / dt_last_done of the simulation (directly, by a
    whole-struct or widened path, or through a back pointer ...->r->...)"""
    out = []
    for (root, path) in writes:
        if root != ("P", 0):
            continue
        if not path or path[0] in TIME_FIELDS or path[0] in ("*", "..."):
            out.append(path)
            continue
        for i, c in enumerate(path):
            if c == "r":
                rest = [x for x in path[i + 1:] if x != "*"]
                if not rest or rest[0] in TIME_FIELDS or rest[0] == "...":
                    out.append(path)
                    break
    return out


@P.task("stepcontract.adaptive.frame", fn="reb_simulation_step", files=["src/rebound.c"], timeout=300)
def _(v):
    """none of the functions summarised by havoc in stepcontract.{ias15,bs,mercurius,trace}.* may write r->t, r->dt,
    r->dt_last_done (transitive, field-sensitive write summaries of the real library sources)"""
    from engine import frames
    lib = frames.Lib(repo=v.eng.tus[0].repo)
    S_ = frames.Summaries(lib)
    S_.compute(sorted(SUMMARISED))
    def calls_by_line(node):
        d = {}
        for n in frames.walk(node):
            if n.get("kind") == "CallExpr" and frames.callee_name(n):
                d.setdefault(n.get("_line"), []).append(frames.callee_name(n))
        return d

    def problems(fn, depth=0):
        """[] if every suspicious (widened) write of fn is inherited, statement by statement, from calls that end in a callee
        whose own summary is precise: it writes through a back pointer ->r-> but none of the time fields (reb_ode_free:
        r->N_odes, r->odes[], r->ri_bs.nbody_ode; the prefix ri_bs.nbody_ode->r->... is widened to '...' at its callers)"""
        sus = time_suspects(S_.get(fn).writes)
        if not sus:
            return []
        node = lib.function(fn)[1]
        if node is None or depth > 8 or fn not in S_.analyses:
            return ["%s: %s" % (fn, sus)]
        cbl = calls_by_line(node)
        out = []
        for ((root, path), ln) in S_.analyses[fn].direct_writes:
            if root != ("P", 0) or path not in sus:
                continue
            ok = False
            for c in cbl.get(ln, ()):
                if lib.function(c)[1] is None:
                    continue
                cw = S_.get(c).writes
                if time_suspects(cw):
                    ok = ok or not problems(c, depth + 1)
                elif any("r" in pth for (_r, pth) in cw):
                    ok = True
            if not ok:
                out.append("%s line %s: %s" % (fn, ln, path))
        return out

    for fn in sorted(SUMMARISED):
        t, node = lib.function(fn)
        v.ground("%s.found" % fn, node is not None)
        if node is None:
            continue
        pr = problems(fn)
        v.ground("%s.does_not_write_t_dt_dt_last_done" % fn, not pr, "%s" % pr)


# =====================================================================================================
# native replay of the TRACE finding (FULL_BS sub-steps are not clipped at t + dt)
# =====================================================================================================
_TRACE_HARNESS = r'''
import sys, json, math
sys.path.insert(0, sys.argv[1])
import rebound
def mk(integ, peri=None, dt=0.02):
    sim = rebound.Simulation(); sim.add(m=1.); sim.add(m=1e-3, a=1., e=0.99, f=-2.5); sim.move_to_com()
    sim.integrator = integ; sim.dt = dt
    if peri: sim.ri_trace.peri_mode = peri
    return sim
out = {}
for peri in ("FULL_BS", "FULL_IAS15"):
    s = mk("trace", peri)
    s.step(); s.step()
    best = None
    for k in range(0, 301):
        tt = s.t + (k / 100. - 1.0) * s.dt
        ref = mk("ias15"); ref.integrate(tt)
        p, q = s.particles[1], ref.particles[1]
        d = math.sqrt((p.x-q.x)**2 + (p.y-q.y)**2 + (p.z-q.z)**2)
        if best is None or d < best[0]: best = (d, tt)
    out[peri] = {"clock_t": s.t, "dt": s.dt, "state_matches_reference_at_t": best[1], "offset_in_dt": (best[1] - s.t) / s.dt, "residual": best[0]}
print(json.dumps(out))
'''


def _native_python(repo, harness):
    """run a harness in a fresh /venv interpreter against the rebound package + library built from the tree under analysis"""
    import tempfile, shutil, subprocess, os, json, glob
    from engine import native
    d = tempfile.mkdtemp(prefix="verif-c08-")
    try:
        so = native.build_lib(repo)
        shutil.copytree(os.path.join(repo, "rebound"), os.path.join(d, "rebound"), ignore=shutil.ignore_patterns("tests", "__pycache__"))
        for old in glob.glob(os.path.join(d, "librebound*.so")) + glob.glob(os.path.join(d, "rebound", "librebound*.so")):
            os.remove(old)
        shutil.copy(so, os.path.join(d, "librebound.cpython-312-x86_64-linux-gnu.so"))
        open(os.path.join(d, "harness.py"), "w").write(harness)
        p = subprocess.run(["/venv/bin/python", os.path.join(d, "harness.py"), d], capture_output=True, text=True, timeout=600)
        try:
            return json.loads(p.stdout.strip().split("\n")[-1])
        except Exception:
            return {"error": (p.stdout + p.stderr)[-400:]}
    finally:
        shutil.rmtree(d, True)


def _replay_trace(o, repo):
    """two TRACE steps through a pericentre passage in a fresh interpreter of the tree under analysis: at which time does an
    accurate IAS15 solution pass through the state TRACE reports for the clock time t = 2 dt?"""
    if "substeps_never_pass" not in o["name"]:
        return None, {"reason": "no native replay for this clause"}
    r = _native_python(repo, _TRACE_HARNESS)
    if "error" in r:
        return None, r
    which = "FULL_BS" if "full_bs" in o["name"] else "FULL_IAS15"
    return abs(r[which]["offset_in_dt"]) > 0.05, r


_CONTROLLER_HARNESS = r'''
import sys, json, math, warnings
sys.path.insert(0, sys.argv[1])
import rebound
warnings.simplefilter("ignore")
def run(integ, dt, **kw):
    sim = rebound.Simulation(); sim.add(m=1.); sim.add(m=1e-3, a=1., e=0.3); sim.add(m=1e-3, a=2.3, e=0.1, f=1.); sim.move_to_com()
    sim.integrator = integ; sim.dt = dt
    ri = sim.ri_ias15 if integ == "ias15" else sim.ri_bs
    for k, val in kw.items(): setattr(ri, k, val)
    t0 = sim.t
    x0 = [(p.x, p.y, p.z) for p in sim.particles]
    sim.step()
    moved = x0 != [(p.x, p.y, p.z) for p in sim.particles]
    t, dtn, dld = sim.t, sim.dt, sim.dt_last_done
    sg = 1.0 if dt > 0 else -1.0
    chk = {"direction_kept": sg * dtn > 0,
           "t_advanced_by_dt_last_done_or_not_at_all": abs(t - t0 - dld) <= 1e-12 * max(1.0, abs(t)) or (integ == "bs" and t == t0),
           "completed_step_not_larger_than_dt_and_same_direction": dld == 0 or (sg * dld > 0 and abs(dld) <= abs(dt) * (1 + 1e-15)),
           "particles_moved_iff_t_advanced": moved == (t != t0)}
    if integ == "bs" and kw.get("max_dt"): chk["max_dt_respected"] = abs(dtn) <= kw["max_dt"]
    if integ == "bs" and kw.get("min_dt"): chk["min_dt_respected"] = abs(dtn) >= kw["min_dt"]
    if integ == "ias15" and kw.get("min_dt"): chk["min_dt_floor"] = abs(dtn) >= kw["min_dt"] or dtn == 4 * dt
    return {"integrator": integ, "dt": dt, "settings": kw, "t_after": t, "dt_after": dtn, "dt_last_done_after": dld, "checks": chk}
out = []
for integ in sys.argv[2].split(","):
    for dt in (-0.01, 0.01, -10., 10.):
        out.append(run(integ, dt))
        out.append(run(integ, dt, min_dt=5.) if integ == "ias15" else run(integ, dt, max_dt=0.003))
        if integ == "bs": out.append(run(integ, dt, min_dt=20.))
        if integ == "ias15":
            for mode in (0, 1, 3): out.append(run(integ, dt, adaptive_mode=mode))
print(json.dumps([o for o in out if not all(o["checks"].values())] or {"all_checks_hold": len(out)}))
'''


def _replay_controller(which):
    def replay(o, repo):
        """single native steps of the real integrator (forward / backward, tiny and far too large dt so that steps are
        rejected, floors and clamps engaged): sign of dt kept, t advanced by exactly dt_last_done, clamps respected?"""
        import subprocess
        r = _native_python(repo, _CONTROLLER_HARNESS.replace("sys.argv[2]", repr(which)))
        if isinstance(r, dict) and "error" in r:
            return None, r
        if isinstance(r, dict):
            return False, r
        return True, {"violated_natively": r[:3]}
    return replay


for _t in P.tasks:
    if _t.name == "stepcontract.trace.part2":
        _t.replay = _replay_trace
    elif _t.name.startswith("stepcontract.ias15.step"):
        _t.replay = _replay_controller("ias15")
    elif _t.name in ("stepcontract.bs.step", "stepcontract.bs.part2"):
        _t.replay = _replay_controller("bs")
