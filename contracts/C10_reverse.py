"""C10 (word level): the time-symmetric fixed-step schemes execute palindromic operator words, so that
step(-dt) after step(dt) cancels letter by letter under X(-a)X(a) = id.  JANUS bit-wise reversibility is in
C10_janus.py."""
from fractions import Fraction
import z3
from engine.api import Pack
from engine import opword
from contracts import _words as W
from contracts.C01_order import wh_cfg, saba_cfg, SABA, COORDS

P = Pack("C10", W.WH_FILES, "palindromic words of symmetric schemes")
PACKS = [P]
P.assume("each primitive satisfies X(-a)X(a)=id: exact Kepler flow (group property, C03), kick with frozen positions, jump, COM drift")
P.not_decided += ["size of the accumulated rounding error of the non-JANUS round trips ('to rounding error')"]


def norm(word):
    return W.reduce_word(W.commute_C(W.reduce_word(word)))


def neg(word):
    return [(l, (-c if c is not None else None), k) for (l, c, k) in word]


def sym_checks(v, word, tag):
    w = norm(word)
    core = [x for x in w if x[0] != "C"]
    v.ground(tag + ".palindromic", core == core[::-1], opword.fmt_word(w)[:300])
    # step(-dt) o step(dt): the word with negated arguments appended must cancel completely
    both = norm(word + neg(word))
    v.ground(tag + ".reverse_cancels", both == [], opword.fmt_word(both)[:300])


for coord in COORDS:
    def mk(coord=coord):
        @P.task("whfast.%s.symmetric" % coord.lower(), fn="reb_integrator_whfast_part2")
        def _(v):
            r, rp, dt = W.make_sim(v, wh_cfg(coord, "DEFAULT", 0, 0, safe=1, sync=1))
            word = W.run(v, rp, ["reb_integrator_whfast_part1", "F", "reb_integrator_whfast_part2"])
            sym_checks(v, word, "step")
            v.st.trace = []
            word2 = W.run(v, rp, ["reb_integrator_whfast_part1", "F", "reb_integrator_whfast_part2"])
            v.ground("second_step_same_word", norm(word2) == norm(word), "")
    mk()

for tname in SABA:
    def mk(tname=tname):
        @P.task("saba.%s.symmetric" % tname[9:].lower(), fn="reb_integrator_saba_part2")
        def _(v):
            r, rp, dt = W.make_sim(v, saba_cfg(tname))
            word = W.run(v, rp, ["reb_integrator_saba_part1", "F", "reb_integrator_saba_part2"])
            sym_checks(v, word, "step")
    mk()


# time symmetry must also hold when the final half step is deferred (safe mode off): first step, k middle steps and the
# synchronisation together form a palindromic word that a run with negated step cancels letter by letter
for coord in COORDS:
    def mk_unsafe(coord=coord):
        @P.task("whfast.%s.unsynchronized.symmetric" % coord.lower(), fn="reb_integrator_whfast_synchronize")
        def _(v):
            P1, P2, SY = "reb_integrator_whfast_part1", "reb_integrator_whfast_part2", "reb_integrator_whfast_synchronize"
            r, rp, dt = W.make_sim(v, wh_cfg(coord, "DEFAULT", 0, 0, safe=0, sync=1))
            word = W.run(v, rp, [P1, "F", P2, P1, "F", P2, P1, "F", P2, SY])
            sym_checks(v, word, "three_steps_then_sync")
    mk_unsafe()
