"""C03 (shared with C09): the Kepler step must propagate the current particles, not a stale cache; see C09_whfast_cache.py"""
from contracts.C09_whfast_cache import make

PACKS = [make("C03", "Kepler step propagates the current particles, not a stale cache (shared with C09)")]
