"""C17: copy and compare.

* reb_particle_diff reports a difference iff some non-pointer member differs (never on account of addresses).
* reb_binary_diff (comparison mode 2): per field, the `are_different` flag is raised iff the payload comparison
  reports a difference and the field is not a wall-clock field; equal fields never raise it; nothing is written.
* no persisted array is compared by raw bytes if its element type embeds an address (ground, from the real
  descriptor table and struct layouts).
* copy = load(save(r)) shares no state with the source: reb_simulation_copy_with_messages reads the source only
  through reb_simulation_save_to_stream and writes the copy only through init / reb_input_fields (call structure).
"""
import re
import z3
from engine.api import Pack
from engine import layout, cfront
from engine.csym import as_int
from engine.mem import Ptr, Opaque
from contracts.C06_diff import setup as diff_setup, HDR

P = Pack("C17", ["src/binarydiff.c", "src/output.c", "src/rebound.c"], "copy / compare")
PACKS = [P]
P.assume("persisted content = the serialisation defined by the descriptor table (C05); equality of persisted content is what "
         "compare decides; byte content of buffers is uninterpreted")
P.assume("memcmp(a,b,n)==0 is the specification of 'payloads equal' for address-free element types")
P.not_decided += ["bit-identical evolution of a copy (follows from C05 persistence frame + determinism; not proved here)",
                  "Python wrappers __eq__/copy/__add__ (call-through only)"]


@P.task("reb_particle_diff.iff_non_pointer_member_differs", fn="reb_particle_diff")
def _(v):
    a = v.struct("struct reb_particle", "a")
    b = v.struct("struct reb_particle", "b")
    tu = v.eng.tu0
    scal = [(n, tu.ctype(q)) for (n, q, _i) in tu.records["reb_particle"] if tu.ctype(q).kind in ("float", "int", "enum")]
    ptrs = [n for (n, q, _i) in tu.records["reb_particle"] if tu.ctype(q).kind == "ptr"]
    v.ground("members_partition", len(scal) + len(ptrs) == len(tu.records["reb_particle"]),
             "scalars %s pointers %s" % ([n for n, _ in scal], ptrs))
    # pointer members of the two particles are unrelated opaque addresses
    for n in ptrs:
        a[n] = Opaque("ptrA_" + n, tag=z3.Bool("a_%s_nonnull" % n))
        b[n] = Opaque("ptrB_" + n, tag=z3.Bool("b_%s_nonnull" % n))
    r = v.call("reb_particle_diff", a, b)
    same = z3.And(*[a[n] == b[n] for n, _t in scal])
    v.prove("zero_iff_all_scalar_members_equal", (as_int(r) == 0) == same)
    for n, _t in scal:
        v.prove("detects.%s" % n, z3.Implies(a[n] != b[n], as_int(r) != 0))


@P.task("reb_binary_diff.compare_mode.flag_semantics", fn="reb_binary_diff", timeout=900)
def _(v):
    E = diff_setup(v, 2)
    T, S, B, END, wall, ids = E["T"], E["S"], E["B"], E["END"], E["wall"], E["ids"]
    fn = "reb_binary_diff"
    mc = v.eng.uf("memcmp_buf1_buf2", z3.IntSort(), z3.IntSort(), z3.IntSort(), z3.IntSort())

    def main_inv(L):
        out = [("pos1_boundary", z3.And(L.pos1 >= 64, B[1](L.pos1))), ("pos2_boundary", z3.And(L.pos2 >= 64, B[2](L.pos2))),
               ("flag_boolean", z3.Or(L.are_different == 0, L.are_different == 1))]
        new = L.st.trace[len(L.entry.trace):] if L.entry is not None else []
        out.append(("nothing_written", z3.BoolVal(not new)))
        h1, h2, f0 = L.at_head("pos1"), L.at_head("pos2"), L.at_head("are_different")
        if h1 is not None and "fields_differ" not in _locals(L) and "notfound" in _locals(L):
            # second pass: an iteration whose search through buf1 ended with notfound == 1 must raise the flag
            out.append(("field_only_in_second_buffer_raises_flag", z3.Implies(L.notfound == 1, L.are_different == 1)))
            out.append(("flag_monotone", z3.Implies(f0 == 1, L.are_different == 1)))
        if h1 is not None and "fields_differ" in _locals(L):
            out.append(("flag_monotone", z3.Implies(f0 == 1, L.are_different == 1)))
            # first pass only (it declares fields_differ): a field present in both with equal size and equal bytes
            # (not the particle / var_config arrays, which are compared member-wise) never raises the flag
            t1 = T[1](h1)
            found_same_pos = z3.And(T[2](h2) == t1, h2 + HDR <= E["size2"])
            s1, s2 = S[1](h1), S[2](h2)
            plain = z3.And(t1 != ids["particles"], t1 != ids["var_config"])
            eq = z3.And(found_same_pos, s1 == s2, plain, mc(h1 + HDR, h2 + HDR, s1) == 0)
            out.append(("equal_field_keeps_flag", z3.Implies(eq, L.are_different == f0)))
            ne = z3.And(found_same_pos, plain, z3.Or(s1 != s2, mc(h1 + HDR, h2 + HDR, s1) != 0), z3.And(*[t1 != w for w in wall]))
            out.append(("differing_field_raises_flag", z3.Implies(ne, L.are_different == 1)))
            wl = z3.And(found_same_pos, z3.Or(*[t1 == w for w in wall]))
            out.append(("walltime_field_never_raises_flag", z3.Implies(wl, L.are_different == f0)))
        return out

    def _locals(L):
        names = set()
        for did, oid in L.st.frames[-1].items():
            o = L.st.mem.objs.get(oid)
            if o is not None and getattr(o, "name", None):
                names.add(o.name)
        return names

    def search2_inv(L):
        return [("pos2_boundary", z3.And(L.pos2 >= 64, B[2](L.pos2))), ("notfound_boolean", z3.Or(L.notfound == 0, L.notfound == 1)),
                ("pos1_kept", L.pos1 == L.old("pos1"))]

    def search1_inv(L):
        return [("pos1_boundary", z3.And(L.pos1 >= 64, B[1](L.pos1))), ("notfound_boolean", z3.Or(L.notfound == 0, L.notfound == 1)),
                ("pos2_kept", L.pos2 == L.old("pos2"))]

    def triv(L):
        return [("i_nonneg", L.i >= 0)]

    from contracts.C06_diff import varconfig_loop, particle_loop
    outer = [o for (o, i) in v.loops_of(fn) if i["depth"] == 0 and i["kind"] == "WhileStmt"]
    v.ground("two_passes_present", len(outer) == 2, "first pass (fields of buf1), second pass (fields only in buf2): %s" % outer)
    if len(outer) != 2:
        from engine.cexec import PathEnd
        raise PathEnd("reb_binary_diff: expected two top-level passes")
    from engine.csym import LoopSpec
    passes = {}

    def make_pass(k, o):
        spec = LoopSpec(main_inv)

        def handler(e, st, n, cond, inc, body):
            st.trace = st.trace + [("pass", k)]            # the pass has been entered on this path
            passes[k] = True
            return e.loop_invariant(st, n, cond, inc, body, False, spec, fn, o)
        v.loop(fn, o, invariant=handler, mode="custom")
    for k, o in enumerate(outer):
        make_pass(k + 1, o)
    inner = [o for (o, i) in v.loops_of(fn) if i["depth"] == 1 and i["kind"] == "WhileStmt"]
    v.loop(fn, inner[0], invariant=search2_inv)
    v.loop(fn, inner[1], invariant=search1_inv)
    particle_loop(v, fn, triv)
    varconfig_loop(v, fn)
    ret = v.call(fn, E["b1"], E["size1"], E["b2"], E["size2"], Ptr(None, (), True), Ptr(None, (), True), z3.IntVal(2))
    v.prove("returns_boolean", z3.Or(ret == 0, ret == 1))
    # the comparison is symmetric only if BOTH passes run in compare mode: the second one finds the fields that exist only in the
    # second simulation (a == b and b == a must agree)
    done = [t[1] for t in v.st.trace if t[0] == "pass"]
    v.ground("compare_mode_runs_both_passes", done == [1, 2], "passes entered on this returning path: %s" % done)


def _zeroed_and_never_stored(v, name, member_path):
    """(ii) for arrays such as ri_whfast.p_jh: no function of the library stores a whole element (struct assignment)
    or memcpy's foreign data into the array; zero-initialisation at allocation is proved in task whfast_init.p_jh_new_tail_zeroed"""
    from engine import frames
    last = member_path.split(".")[-1]
    base = {last, "p_j", "p_jh"} if last == "p_jh" else {last}
    bad = []
    lib = frames.Lib(cfront.REPO)
    bodies = list(lib.bodies())
    params = {}
    for (tu, fname, fn) in bodies:
        params[fname] = [c.get("name") for c in fn.get("inner", ()) if isinstance(c, dict) and c.get("kind") == "ParmVarDecl"]
    # interprocedural aliases: a parameter that receives the array (an argument whose text names an alias) is an alias
    # inside the callee (transformations.c writes ri_whfast.p_jh through its p_j / p_h / p_b parameters)
    alias = {fname: set(base) for (_tu, fname, _fn) in bodies}
    for _round in range(4):
        changed = False
        for (tu, fname, fn) in bodies:
            for n in frames.walk(fn):
                if n.get("kind") != "CallExpr":
                    continue
                callee = frames.callee_name(n)
                if callee not in params:
                    continue
                for k, a in enumerate(n["inner"][1:]):
                    txt = frames.expr_text(a)
                    if k < len(params[callee]) and params[callee][k] and any(re.search(r"\b%s\b" % re.escape(x), txt) for x in alias[fname]):
                        # a pointer INTO the array (p_jh + offset) as well as the array itself
                        if params[callee][k] not in alias[callee]:
                            alias[callee].add(params[callee][k])
                            changed = True
        if not changed:
            break
    for (tu, fname, fn) in bodies:
        aliases = alias[fname]
        if True:
            for n in frames.walk(fn):
                if n.get("kind") == "BinaryOperator" and n.get("opcode") == "=":
                    lhs = n["inner"][0]
                    qt = lhs.get("type", {}).get("qualType", "")
                    if "struct reb_particle" in qt and "*" not in qt:
                        txt = frames.expr_text(lhs)
                        if any(re.search(r"\b%s\b" % re.escape(a), txt) for a in aliases):
                            bad.append("%s: %s = ..." % (fname, txt))
                if n.get("kind") == "CallExpr" and frames.callee_name(n) in ("memcpy", "memmove"):
                    args = n["inner"][1:]
                    dst, src = frames.expr_text(args[0]), frames.expr_text(args[1])
                    if any(re.search(r"\b%s\b" % re.escape(a), dst) for a in aliases) and "sync_pj" not in src:
                        bad.append("%s: memcpy(%s, %s)" % (fname, dst, src))
    v.ground("%s.no_whole_element_store" % name.replace(" ", "_"), not bad, "; ".join(bad[:6]))
    return not bad


@P.task("whfast_init.p_jh_new_tail_zeroed", fn="reb_integrator_whfast_init", files=["src/integrator_whfast.c"])
def _(v):
    """growth path of reb_integrator_whfast_init: every member of the newly allocated p_jh entries is zero, old entries kept"""
    r, rp = v.struct_obj("struct reb_simulation", "r")
    N, N_old = v.int("N"), v.int("N_old")
    v.assume(N > N_old, N_old >= 0)
    r.N, r.N_var_config = N, 0
    r.ri_whfast.N_allocated = N_old
    r.ri_whfast.kernel = v.enumc("REB_WHFAST_KERNEL_DEFAULT")
    r.ri_whfast.coordinates = v.enumc("REB_WHFAST_COORDINATES_JACOBI")
    r.ri_whfast.corrector, r.ri_whfast.corrector2 = 0, 0
    r.ri_whfast.keep_unsynchronized, r.ri_whfast.safe_mode = 0, 1
    old = v.array("struct reb_particle", N_old, "PJ_old")
    r.ri_whfast.p_jh = old.ptr
    before = {lp: old.array(*lp) for lp in [("x",), ("m",), ("hash",), ("r",)]}
    v.eng.havoc_calls.add("reb_simulation_error")
    ret = v.call("reb_integrator_whfast_init", rp)
    newp = r.ri_whfast.p_jh
    arr = v.st.mem.get(newp.obj)
    k = v.int("k")
    v.assume(N_old <= k, k < N)
    for leaf, lt in sorted(arr.leaf_types.items(), key=lambda x: str(x[0])):
        a = v.eng._leaf_array(arr, leaf)
        v.prove("new_tail_zero.%s" % ".".join(map(str, leaf)), z3.Select(a, k) == 0)
    j = v.int("j")
    v.assume(0 <= j, j < N_old)
    for lp, a0 in before.items():
        v.prove("prefix_kept.%s" % lp[0], z3.Select(v.eng._leaf_array(arr, lp), j) == z3.Select(a0, j))
    v.prove("counter", r.ri_whfast.N_allocated == N)


@P.task("compare.no_addresses", fn="reb_binary_diff")
def _(v):
    """Every persisted array whose element type embeds an address must be compared member-wise (by a dedicated branch of
    reb_binary_diff), never by memcmp: addresses differ between a simulation and its copy."""
    tu = v.eng.tu0
    rows = layout.descriptor_table(cfront.REPO)
    dn = {val: name for name, val in tu.enums.items() if name in ("REB_POINTER", "REB_POINTER_ALIGNED", "REB_POINTER_FIXED_SIZE", "REB_DP7")}
    mem = {}
    for (p, o, t) in layout.members(tu, "reb_simulation", flatten=True):
        mem.setdefault(o, (p, t))
    # which names does reb_binary_diff treat specially? (string literals compared against descriptor names)
    tub = None
    for t_ in v.eng.tus:
        if "reb_binary_diff" in t_.functions:
            tub = t_
    special = set()

    def walk(x):
        if isinstance(x, dict):
            if x.get("kind") == "CallExpr":
                args = x["inner"][1:]
                callee = x["inner"][0]
                while callee.get("kind") in ("ImplicitCastExpr", "ParenExpr"):
                    callee = callee["inner"][0]
                if callee.get("kind") == "DeclRefExpr" and callee["referencedDecl"]["name"] == "strcmp":
                    for a in args:
                        y = a
                        while isinstance(y, dict) and y.get("kind") in ("ImplicitCastExpr", "ParenExpr"):
                            y = y["inner"][0]
                        if isinstance(y, dict) and y.get("kind") == "StringLiteral":
                            special.add(y["value"].strip('"'))
            for c in x.get("inner", ()):
                walk(c)
    walk(tub.functions["reb_binary_diff"])
    v.ground("special_cases_found", "particles" in special, str(sorted(special)))
    for (typ, dt, name, off, offN, esz) in rows:
        if dt not in dn or off not in mem:
            continue
        mp, mt = mem[off]
        if mt.kind != "ptr" or mt.to.kind != "struct" or mt.to.name not in tu.records:
            v.ground("d%d_%s.address_free" % (typ, name), True, "element type %r has no struct members" % (mt.to if mt.kind == "ptr" else mt,))
            continue
        ptr_leaves = [".".join(map(str, lp)) for (lp, lt) in v.eng.leaf_paths(mt.to) if lt.kind in ("ptr", "func")]
        never_set = False
        if ptr_leaves and name not in special:
            never_set = _zeroed_and_never_stored(v, name, mp)
        ok = (not ptr_leaves) or (name in special) or never_set
        v.ground("d%d_%s.address_free_or_memberwise_or_never_set" % (typ, name), ok,
                 "element type struct %s embeds addresses %s, is compared with memcmp, and its storage is not provably "
                 "zero-initialised / free of whole-struct stores" % (mt.to.name, ptr_leaves))
    # member-wise comparisons must skip exactly the address members: particles -> reb_particle_diff (own task);
    # var_config: the branch reads every non-pointer member of struct reb_variational_configuration
    if "var_config" in special:
        names = set()

        def walk2(x):
            if isinstance(x, dict):
                if x.get("kind") == "MemberExpr":
                    names.add(x.get("name"))
                for c in x.get("inner", ()):
                    walk2(c)
        walk2(tub.functions["reb_binary_diff"])
        for (fname, q, _i) in tu.records["reb_variational_configuration"]:
            t = tu.ctype(q)
            if t.kind == "ptr":
                v.ground("var_config.skips_address.%s" % fname, True, "")
            else:
                v.ground("var_config.compares.%s" % fname, fname in names, "member %s is not read by reb_binary_diff" % fname)


@P.task("copy.structure", fn="reb_simulation_copy_with_messages")
def _(v):
    """reb_simulation_copy_with_messages: the only reader of the source is reb_simulation_save_to_stream and the copy is
    written only by free_pointers/memset/init/reb_input_fields on r_copy: recorded as a call word."""
    eng = v.eng
    r, rp = v.struct_obj("struct reb_simulation", "src")
    c, cp = v.struct_obj("struct reb_simulation", "dst")
    w, wp = v.cell("int", "warnings", value=z3.IntVal(0))
    calls = []

    def rec(name):
        def f(e, st, args, n):
            calls.append((name, [("src" if isinstance(a, Ptr) and a.obj == rp.obj else "dst" if isinstance(a, Ptr) and a.obj == cp.obj else "-") for a in args]))
            if name == "reb_fmemopen":
                return e.new_file(st, "mem")
            return None
        return f
    for nm in ("reb_simulation_save_to_stream", "reb_simulation_free_pointers", "memset", "reb_simulation_init", "reb_fmemopen",
               "reb_input_fields", "fclose", "free"):
        eng.trace_prims[nm] = rec(nm)
    v.call("reb_simulation_copy_with_messages", cp, rp, wp)
    touched_src = [n for (n, a) in calls if "src" in a]
    touched_dst = [n for (n, a) in calls if "dst" in a]
    v.ground("source_only_serialised", touched_src == ["reb_simulation_save_to_stream"], str(calls))
    v.ground("copy_written_by_init_and_loader", touched_dst == ["reb_simulation_free_pointers", "memset", "reb_simulation_init", "reb_input_fields"], str(calls))
    order = [n for (n, a) in calls]
    v.ground("buffer_freed_stream_closed", order[-2:] == ["fclose", "free"], str(order))


# a copy is load(save(r)): state that is not persisted but reconstructed by the loader must be reconstructed whenever it is
# in use, otherwise the copy does not evolve like its source (shared with C05)
from contracts.C05_roundtrip import loader_tree_task as _ltt
P.task("copy.loader_rebuilds_tree_iff_in_use", fn="reb_input_fields", files=["src/input.c", "src/output.c", "src/binarydiff.c"])(_ltt)
