"""C04 (centre of mass moves uniformly): TRACE keeps the centre of mass outside the particle array (ri_trace.com_pos, advanced
by reb_integrator_trace_com_step).  reb_integrator_trace_part2 may reject an attempted step and redo it from a backup of
the particles; everything the attempt has changed must then be restored, or the redone step is applied to a state that is
not the state at the beginning of the step.  Contract on the real reb_integrator_trace_part2 + reb_integrator_trace_step +
reb_integrator_trace_com_step (Kepler / jump / interaction primitives and the encounter checks summarised by havoc of the
particle and encounter arrays, as in C08_adaptive):

    for every outcome of the pre-/post-timestep checks:   com_pos' = com_pos + dt * com_vel   and   com_vel' = com_vel

Found as a genuine defect by a native probe (the rejected attempt had already advanced com_pos: the centre of mass jumped by
dt*v_com on every redone step), repaired by a fix: commit; this task keeps it from coming back."""
import z3
from engine.api import Pack
from engine.mem import Ptr
from contracts.C08_adaptive import hybrid_sim, field_havoc, TRACE_FILES, TRACE_PART2

P = Pack("C04", TRACE_FILES, "TRACE: a redone step starts from the state at the beginning of the step")
PACKS = [P]
P.assume("TRACE redo task: peri_mode == PARTIAL_BS or no pericentre flag (the two FULL prescriptions recompute the centre of mass "
         "from the inertial particles in reb_integrator_trace_inertial_to_dh); Kepler / jump / interaction steps and the encounter "
         "checks write particles, backups, the encounter map and the encounter counters only (frames: C08 stepcontract.adaptive.frame)")
P.not_decided += ["TRACE FULL_BS / FULL_IAS15 pericentre prescriptions on a redone step (centre of mass recomputed from the particles)"]


@P.task("trace.part2.centre_of_mass_advances_once", fn=TRACE_PART2, files=TRACE_FILES)
def _(v):
    r, rp, parts, t0, dt0 = hybrid_sim(v, "REB_INTEGRATOR_TRACE")
    eng = v.eng
    rt = r.ri_trace
    backup = v.array("struct reb_particle", None, "P_backup")
    backupk = v.array("struct reb_particle", None, "P_backup_kepler")
    emap = v.array("int", None, "encounter_map")
    rt.particles_backup, rt.particles_backup_kepler, rt.encounter_map = backup, backupk, emap
    rt.peri_mode = v.enumc("REB_TRACE_PERI_PARTIAL_BS")
    com0 = {}
    for w in ("com_pos", "com_vel"):
        for c in "xyz":
            com0[(w, c)] = v.real("%s_%s" % (w, c))
            eng.write(v.st, Ptr(rp.obj, ("ri_trace", w, c)), com0[(w, c)])
    hv = field_havoc(rp, "ri_trace", ints=("encounter_N", "encounter_N_active", "tponly_encounter", "current_C"))

    def prim(e, st, args, n):
        e.havoc(st, {(parts.obj.id, None), (emap.obj.id, None), (backupk.obj.id, None)}, "prim")
    for nm in ("reb_integrator_trace_interaction_step", "reb_integrator_trace_jump_step", "reb_integrator_trace_kepler_step",
               "reb_integrator_trace_inertial_to_dh", "reb_integrator_trace_dh_to_inertial"):
        eng.trace_prims[nm] = prim

    def check(e, st, args, n):
        prim(e, st, args, n)
        hv(e, st)
    eng.trace_prims["reb_integrator_trace_pre_ts_check"] = check

    def post_check(e, st, args, n):
        check(e, st, args, n)
        return e.fresh("new_close_encounter", z3.IntSort())
    eng.trace_prims["reb_integrator_trace_post_ts_check"] = post_check
    v.call(TRACE_PART2, rp)
    for c in "xyz":
        now = eng.read(v.st, Ptr(rp.obj, ("ri_trace", "com_pos", c)))
        v.prove("com_pos.%s.advanced_by_dt_times_com_vel_exactly_once" % c, now == com0[("com_pos", c)] + dt0 * com0[("com_vel", c)])
        nowv = eng.read(v.st, Ptr(rp.obj, ("ri_trace", "com_vel", c)))
        v.prove("com_vel.%s.unchanged" % c, nowv == com0[("com_vel", c)])
