"""C02 (shared lemma): with shear-periodic boundaries the force on a particle is the sum over the images of the specified ghost
boxes; the images of the radial neighbours move azimuthally with -3/2 Omega Lx per box (Lx the RADIAL box length), which fixes
their time-dependent azimuthal offset.  The contract of the real reb_boundary_get_ghostbox for REB_BOUNDARY_SHEAR (C15:
position shift, velocity shift, oddness) is re-registered here."""
from engine.api import Pack, Task
from contracts import C15_boundary as B

P = Pack("C02", B.P.files, "shear ghost images (shared with C15)")
PACKS = [P]
P.assumptions += ["shared with C15: " + a for a in B.P.assumptions]
for t in B.P.tasks:
    if t.name.startswith("ghostbox.shear"):
        P.tasks.append(Task(P, "images." + t.name, t.fn, t.func, files=t.files or B.P.files, timeout=t.timeout))
