"""Shared helpers for the word-level packs (C01, C09, C10): build a simulation object with a concrete
configuration, register the primitive sub-steps as trace primitives, execute the real part1 / force /
part2 / synchronize functions and return the operator word."""
import z3
from fractions import Fraction
from engine import opword
from engine.mem import Ptr

WH_FILES = ["src/integrator_whfast.c", "src/integrator_saba.c", "src/integrator_leapfrog.c", "src/integrator.c",
            "src/integrator_eos.c", "src/integrator_janus.c", "src/integrator_mercurius.c", "src/integrator_sei.c"]

PRIMS = {
    "reb_whfast_kepler_step": ("K", 1),
    "reb_whfast_com_step": ("C", 1),
    "reb_whfast_jump_step": ("J", 1),
    "reb_whfast_interaction_step": ("I", 1),
}
NOTES = ["reb_simulation_update_acceleration", "reb_integrator_whfast_from_inertial", "reb_integrator_whfast_to_inertial",
         "reb_particles_transform_jacobi_to_inertial_pos", "reb_particles_transform_jacobi_to_inertial_posvel",
         "reb_particles_transform_inertial_to_jacobi_acc", "reb_particles_transform_barycentric_to_inertial_pos",
         "reb_particles_transform_barycentric_to_inertial_posvel",
         "reb_particles_transform_democraticheliocentric_to_inertial_posvel",
         "reb_particles_transform_whds_to_inertial_posvel", "reb_whfast_calculate_jerk",
         "reb_simulation_error", "reb_simulation_warning", "reb_calculate_acceleration_var",
         "reb_tools_megno_deltad_delta", "reb_tools_megno_update"]


def make_sim(v, cfg, prims=PRIMS, notes=NOTES):
    """cfg: {'ri_whfast.kernel': 'REB_WHFAST_KERNEL_DEFAULT' | int | z3 term, ...}"""
    r, rp = v.struct_obj("struct reb_simulation", "r")
    dt = v.real("dt")
    N = v.int("N")
    v.assume(N >= 1)
    r.dt = dt
    r.N = N
    r.N_var = 0
    r.N_var_config = 0
    r.N_active = -1
    r.testparticle_type = 0
    parts = v.array("struct reb_particle", N, "P")
    pj = v.array("struct reb_particle", N, "PJ")
    r.particles = parts.ptr
    r.ri_whfast.p_jh = pj.ptr
    r.ri_whfast.N_allocated = N
    r.ri_whfast.recalculate_coordinates_this_timestep = 0
    r.ri_whfast.recalculate_coordinates_but_not_synchronized_warning = 0
    r.calculate_megno = 0
    for path, val in cfg.items():
        tgt = r
        parts_ = path.split(".")
        for p in parts_[:-1]:
            tgt = getattr(tgt, p)
        if isinstance(val, str):
            val = v.enumc(val)
        setattr(tgt, parts_[-1], val)
    rec = opword.Recorder(v, dt, prims, notes)
    # primitives havoc what they write, so that frame statements about p_jh / particles are meaningful
    eng = v.eng
    WRITES = {"K": [pj], "C": [pj], "J": [pj], "I": [pj]}
    for fname, (letter, _i) in prims.items():
        eng.trace_prims[fname] = _with_havoc(eng.trace_prims[fname], WRITES.get(letter, []), letter)
    for fname in notes:
        tgt = []
        if "to_inertial" in fname:
            tgt = [parts]
        elif "from_inertial" in fname or "inertial_to_jacobi" in fname or "jerk" in fname:
            tgt = [pj]
        elif "update_acceleration" in fname or "acceleration_var" in fname:
            tgt = [parts]
        if tgt:
            eng.trace_prims[fname] = _with_havoc(eng.trace_prims[fname], tgt, fname)
    v.word_arrays = (parts, pj)
    return r, rp, dt


def _with_havoc(rec, arrays, tag):
    def f(eng, st, args, n):
        r = rec(eng, st, args, n)
        eng.havoc(st, {(a._a.id, None) for a in arrays}, "prim_" + tag.replace("reb_", "")[:24])
        return r
    return f


def reduce_word(word):
    """merge laws: X(a)X(b) = X(a+b), X(0) = id, applied to a fixpoint on the physical letters"""
    out = []
    for (l, c, k) in physical(word):
        if c is not None and c == 0:
            continue
        if out and out[-1][0] == l and out[-1][2] == k and c is not None:
            s = out[-1][1] + c
            out.pop()
            if s != 0:
                out.append((l, s, k))
            continue
        out.append((l, c, k))
    changed = True
    while changed:
        changed = False
        new = []
        for item in out:
            if new and new[-1][0] == item[0] and new[-1][2] == item[2] and item[1] is not None:
                s = new[-1][1] + item[1]
                new.pop()
                if s != 0:
                    new.append((item[0], s, item[2]))
                changed = True
            else:
                new.append(item)
        out = new
    return out


def commute_C(word):
    """C (centre-of-mass drift) acts on slot 0 only and commutes with K, I, J: move all C to the front, merged"""
    tot = sum((c for (l, c, k) in word if l == "C"), Fraction(0))
    rest = [w for w in word if w[0] != "C"]
    return ([("C", tot, 1)] if tot != 0 else []) + rest


def run(v, rp, fns):
    """execute the listed real functions in order ('F' = force evaluation letter) and return the word"""
    for f in fns:
        if f == "F":
            v.st.trace = v.st.trace + [("!reb_simulation_update_acceleration", None, 0)]
        else:
            v.call(f, rp)
    errs = v.st.ghost.get("word_errors")
    if errs:
        from engine.cexec import PathEnd
        v.ground("primitive_step_lengths_are_multiples_of_dt", False,
                 "a sub-step was called with a length that is not a constant multiple of the step size dt: %s" % (errs,))
        raise PathEnd("word cannot be formed")
    v.ground("primitive_step_lengths_are_multiples_of_dt", True, "")
    return list(v.st.trace)


def physical(word):
    """keep only the letters that move phase-space variables (K, C, J, I and U-loops)"""
    return [w for w in word if not w[0].startswith("!")]


# ------------------------------------------------------------------ algebra interpretation
def exponents(word, jump_is_identity=True, gens=("A", "B", "J")):
    """K(c)->c*A, I(c)->c*B, J(c)->c*J (or identity); C letters are handled separately (commute)."""
    out = []
    for (l, c, k) in physical(word):
        if l == "K":
            out.append({"A": c})
        elif l == "I":
            out.append({"B": c})
        elif l == "J":
            if not jump_is_identity:
                out.append({"J": c})
        elif l == "C":
            continue
        else:
            raise ValueError("letter %s has no algebra interpretation here" % l)
    return [x for x in out if any(v != 0 for v in x.values())]


def com_total(word):
    return sum((c for (l, c, k) in word if l == "C"), Fraction(0)), sum((c for (l, c, k) in word if l == "K"), Fraction(0))


def force_fresh(word):
    """every I is preceded (after the last position-changing letter) by a to-inertial transform and a
    force evaluation, in that order.  Returns list of offending indices."""
    bad = []
    have_T = have_F = False
    for idx, (l, c, k) in enumerate(word):
        if l in ("K", "J", "C"):
            if c != 0:
                have_T = have_F = False
        elif l.startswith("!reb_particles_transform") and "to_inertial" in l or l == "!reb_integrator_whfast_to_inertial":
            have_T, have_F = True, False
        elif l == "!reb_simulation_update_acceleration":
            have_F = have_T
        elif l == "I":
            if not (have_T and have_F):
                bad.append(idx)
    return bad


def check_order(v, name, exps, s, gens_target, letters_b="B"):
    """ground obligations: one per bidegree class (length, #B)"""
    res = opword.order_residuals(exps, gens_target, s, letters_b)
    classes = {}
    for (w, r, env) in res:
        key = (len(w), sum(1 for ch in w if ch in letters_b))
        ok = abs(r) <= env
        c = classes.setdefault(key, [True, 0, None, 0])
        c[3] += 1
        if not ok:
            c[0] = False
            if abs(r) > c[1]:
                c[1], c[2] = abs(r), w
    for (L, j), (ok, worst, ww, cnt) in sorted(classes.items()):
        v.ground("%s.bideg(L=%d,B=%d)" % (name, L, j), ok,
                 detail="%d words; worst residual %.3e at word %s" % (cnt, float(worst), ww))
    return classes
