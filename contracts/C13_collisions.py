"""C13: collisions detected completely, resolved conservatively (src/collision.c).

Resolvers (merge / hardsphere / halt) are executed on two symbolic particles of a symbolic particle
array; the specification side is written from the property text (conservation of mass, momentum,
centre of mass, volume; restitution law).  The search loops and the index fix-up of the resolve loop
are in the second half of this file.  R-mode (doubles as reals), Z-mode (C ints as integers).
"""
import z3
from engine.api import Pack
from engine.mem import Ptr, NULL, Opaque, FuncRef, StructObj, ArrObj
from engine.csym import as_int, as_real, as_bool, const_int, simp, Flow
from engine.cexec import PathEnd

P = Pack("C13", ["src/collision.c", "src/boundary.c"], "collisions")
PACKS = [P]
P.assume("machine arithmetic treated as mathematical (doubles as reals, C integers as integers); 'to rounding error' not decided")
P.assume("cbrt axiomatised per occurrence: cbrt(x)^3 = x; sqrt: y^2=x & y>=0; atan2(y,x)=t: rho*cos t=x, rho*sin t=y, "
         "rho>=0, rho^2=x^2+y^2, sin^2+cos^2=1")
P.assume("resolver contracts: 0 <= c.p1, c.p2 < N <= N_allocated, c.p1 != c.p2 (the search never pairs a particle with "
         "itself: proved for the direct/line searches in search.*.body)")
P.assume("resolver contracts are stated for m1+m2 != 0; the massless pair is examined separately "
         "(*.defined_for_massless_pair)")

XV = ("x", "y", "z", "vx", "vy", "vz")
POLY = ("polyid", "z3", "cvc5")       # polynomial identities: ideal membership first (z3 afterwards finds counter-models)


class Sim:
    pass


def mk_sim(v, integrator="REB_INTEGRATOR_IAS15"):
    """simulation with a symbolic particle array of N_allocated elements, N of them in use"""
    s = Sim()
    s.r, s.rp = v.struct_obj("struct reb_simulation", "r")
    s.N, s.Nalloc = v.int("N"), v.int("N_allocated")
    s.parts = v.array("struct reb_particle", s.Nalloc, "P")
    s.r.N, s.r.N_allocated = s.N, s.Nalloc
    s.r.particles = s.parts.ptr
    s.r.integrator = v.enumc(integrator)
    v.assume(0 <= s.N, s.N <= s.Nalloc)
    s.leaves = sorted(s.parts.obj.leaf_types, key=str)
    s.old = {f: s.parts.array(*f) for f in s.leaves}
    return s


def cur(s):
    return {f: s.parts.array(*f) for f in s.leaves}


def lname(f):
    return ".".join(str(x) for x in f)


DISTINCT = []      # per task: pairs of index terms known to differ on every path (from the precondition)


def _differ(i, j):
    for a, b in DISTINCT:
        if (a.eq(i) and b.eq(j)) or (a.eq(j) and b.eq(i)):
            return True
    ci, cj = const_int(i), const_int(j)
    return ci is not None and cj is not None and ci != cj


def norm(e, cache=None):
    """read-over-write normalisation using the index disequalities of the precondition (p1 != p2):
    Select(Store(a, p2, w), p1) -> Select(a, p1), Select(Store(a, p1, w), p1) -> w; so that the polynomial
    back end sees plain atoms P.vx[p1], P.vx[p2]"""
    if cache is None:
        cache = {}
    k = e.get_id()
    if k in cache:
        return cache[k]
    if z3.is_app(e) and e.num_args() > 0:
        args = [norm(c, cache) for c in e.children()]
        if z3.is_select(e):
            a, i = args
            while z3.is_store(a):
                b, j, w = a.children()
                if i.eq(j):
                    a = None
                    r = w
                    break
                if _differ(i, j):
                    a = b
                    continue
                break
            if a is not None:
                r = z3.Select(a, i)
        else:
            r = e.decl()(*args)
    else:
        r = e
    cache[k] = r
    return r


def sel(arrs, f, i):
    return z3.simplify(norm(z3.Select(arrs[(f,)], i)))


def mk_collision(v, s, order=None):
    """a collision record naming two different live particles; order fixes which index is larger (the
    two orders are the two callbacks a pair can produce) and makes the executor fork instead of building ite terms"""
    c = v.struct("struct reb_collision", "c")
    p1, p2 = c.p1, c.p2
    v.assume(0 <= p1, p1 < s.N, 0 <= p2, p2 < s.N, p1 != p2)
    DISTINCT[:] = [(p1, p2)]
    if order == "p1<p2":
        v.assume(p1 < p2)
    elif order == "p1>p2":
        v.assume(p1 > p2)
    if order:
        v.eng.merge_ifs = False
    return c, p1, p2


ORDERS = (("lt", "p1<p2"), ("gt", "p1>p2"))


# ============================================================================ merge
def merge_common(v, s, p1, p2, ret, order):
    """postconditions shared by the merge tasks; lo survives, hi is to be removed"""
    o, n = s.old, cur(s)
    lo, hi = (p1, p2) if order == "p1<p2" else (p2, p1)
    mi, mj = sel(o, "m", lo), sel(o, "m", hi)
    M = sel(n, "m", lo)
    v.prove("mass", M == mi + mj)
    for f in XV:
        # m' x' = m_i x_i + m_j x_j  (momentum for f in vx.., centre of mass for f in x..)
        v.prove("weighted." + f, M * sel(n, f, lo) == mi * sel(o, f, lo) + mj * sel(o, f, hi))
    rn = sel(n, "r", lo)
    v.prove("volume", rn * rn * rn == sel(o, "r", lo) ** 3 + sel(o, "r", hi) ** 3)
    v.prove("last_collision", sel(n, "last_collision", lo) == s.r.t)
    # the particle with the HIGHER index is the one to be removed, whichever way round the pair is reported
    v.prove("removes_higher", z3.Or(z3.And(ret == 2, c_is(p2, hi)), z3.And(ret == 1, c_is(p1, hi))))
    v.prove("ret_by_order", ret == z3.If(p1 < p2, 2, 1))
    # frame: every other particle untouched, and the untouched members of the survivor
    k = v.int("k")
    touched = set(XV) | {"m", "r", "last_collision"}
    for f in s.leaves:
        v.prove("frame.others." + lname(f), z3.Implies(k != lo, z3.Select(n[f], k) == z3.Select(o[f], k)))
        if not (len(f) == 1 and f[0] in touched):
            v.prove("frame.survivor." + lname(f), z3.Select(n[f], lo) == z3.Select(o[f], lo))
    v.prove("frame.N", z3.And(s.r.N == s.N, s.r.N_allocated == s.Nalloc))
    return lo, hi, mi, mj


def c_is(a, b):
    return a == b


def merge_pre(v, s, p1, p2, massless_ok=False):
    v.assume(sel(s.old, "last_collision", p1) != s.r.t, sel(s.old, "last_collision", p2) != s.r.t)
    if not massless_ok:
        v.assume(sel(s.old, "m", p1) + sel(s.old, "m", p2) != 0)


for tag, order in ORDERS:
    @P.task("merge.conserves." + tag, fn="reb_collision_resolve_merge")
    def _(v, order=order):
        """track_energy_offset = 0: mass, momentum, centre of mass, volume; removal of the higher index; frame."""
        s = mk_sim(v)
        c, p1, p2 = mk_collision(v, s, order)
        s.r.track_energy_offset = 0
        e0 = s.r.energy_offset
        merge_pre(v, s, p1, p2)
        ret = v.call("reb_collision_resolve_merge", s.rp, c)
        merge_common(v, s, p1, p2, ret, order)
        v.prove("energy_offset_untouched", s.r.energy_offset == e0)


def kin(m, vx, vy, vz):
    return m * (vx * vx + vy * vy + vz * vz) / 2


ENERGY_CASES = [(tag, order, act, "inertial") for tag, order in ORDERS for act in ("active", "testpair")] + \
    [("lt", "p1<p2", "active", "mercurius_encounter"), ("gt", "p1>p2", "active", "trace_kepler")]
for tag, order, act, frame in ENERGY_CASES:
    @P.task("merge.energy_offset.%s.%s%s" % (tag, act, "" if frame == "inertial" else "." + frame), fn="reb_collision_resolve_merge")
    def _(v, order=order, act=act, frame=frame):
        """track_energy_offset != 0: same conservation clauses, and energy_offset' - energy_offset = E_before - E_after
        with E the kinetic energy of the pair in the inertial frame (velocities + com_vel during a MERCURIUS encounter
        step / TRACE Kepler step) plus their mutual potential energy (counted iff at least one of the two is active)."""
        integ = {"inertial": "REB_INTEGRATOR_IAS15", "mercurius_encounter": "REB_INTEGRATOR_MERCURIUS",
                 "trace_kepler": "REB_INTEGRATOR_TRACE"}[frame]
        s = mk_sim(v, integ)
        c, p1, p2 = mk_collision(v, s, order)
        r = s.r
        V = [z3.RealVal(0)] * 3
        if frame == "mercurius_encounter":
            r.ri_mercurius.mode = z3.IntVal(1)
            V = [r.ri_mercurius.com_vel[a] for a in "xyz"]
        elif frame == "trace_kepler":
            r.ri_trace.mode = v.enumc("REB_TRACE_MODE_KEPLER")
            V = [r.ri_trace.com_vel[a] for a in "xyz"]
        v.assume(r.track_energy_offset != 0)
        Nact, Nvar = v.int("N_active"), v.int("N_var")
        r.N_active, r.N_var = Nact, Nvar
        v.assume(Nvar == 0, Nact >= -1)
        e0, G = r.energy_offset, r.G
        merge_pre(v, s, p1, p2)
        o = s.old
        lo, hi = (p1, p2) if order == "p1<p2" else (p2, p1)
        nactive = z3.If(Nact == -1, s.N - Nvar, Nact)
        interacting = z3.Or(lo < nactive, hi < nactive)
        v.assume(interacting if act == "active" else z3.Not(interacting))
        d2 = sum((sel(o, f, lo) - sel(o, f, hi)) ** 2 for f in "xyz")
        if act == "active":
            v.assume(d2 != 0)       # distinct positions (the potential energy is otherwise undefined)
        ret = v.call("reb_collision_resolve_merge", s.rp, c)
        merge_common(v, s, p1, p2, ret, order)
        n = cur(s)

        def ke(arrs, i):
            return kin(sel(arrs, "m", i), *[sel(arrs, "v" + f, i) + V[a] for a, f in enumerate("xyz")])
        Ekin_i = ke(o, lo) + ke(o, hi)
        Ekin_f = ke(n, lo)
        dE = r.energy_offset - e0
        if act == "active":
            # dE = Ekin_i - G m_i m_j / d - Ekin_f  with d = sqrt(d2) > 0, stated without the root:
            # (Ekin_i - Ekin_f - dE) is the number G m_i m_j / d
            u = Ekin_i - Ekin_f - dE
            mm = G * sel(o, "m", lo) * sel(o, "m", hi)
            v.prove("offset.potential_sq", u * u * d2 == mm * mm)
            v.prove("offset.potential_sign", z3.Or(u == 0, (u > 0) == (mm > 0)), order=("z3", "cvc5"))
        else:
            v.prove("offset.kinetic_only", dE == Ekin_i - Ekin_f)


def prove_unchanged(v, s, tag="unchanged"):
    n = cur(s)
    for f in s.leaves:
        v.prove("%s.%s" % (tag, lname(f)), n[f] == s.old[f])


@P.task("merge.guard_second_callback", fn="reb_collision_resolve_merge")
def _(v):
    """A particle that already took part in a collision at this time (last_collision == t, which the first merge sets on
    the survivor) is not merged again: the mirrored / a further callback returns 0 and changes nothing."""
    s = mk_sim(v)
    c, p1, p2 = mk_collision(v, s)
    r = s.r
    e0, N0 = r.energy_offset, r.N
    v.assume(z3.Or(sel(s.old, "last_collision", p1) == r.t, sel(s.old, "last_collision", p2) == r.t))
    ret = v.call("reb_collision_resolve_merge", s.rp, c)
    v.prove("returns_0", ret == 0)
    prove_unchanged(v, s)
    v.prove("sim_unchanged", z3.And(r.energy_offset == e0, r.N == N0))


@P.task("merge.defined_for_massless_pair", fn="reb_collision_resolve_merge")
def _(v):
    """No precondition on the masses: the search hands over any overlapping pair, including two test particles
    (m = 0).  The definedness obligation of 1/(m_i+m_j) is what is examined here."""
    s = mk_sim(v)
    c, p1, p2 = mk_collision(v, s, "p1<p2")
    s.r.track_energy_offset = 0
    merge_pre(v, s, p1, p2, massless_ok=True)
    v.assume(sel(s.old, "m", p1) >= 0, sel(s.old, "m", p2) >= 0)
    v.call("reb_collision_resolve_merge", s.rp, c)


@P.task("halt", fn="reb_collision_resolve_halt")
def _(v):
    s = mk_sim(v)
    c, p1, p2 = mk_collision(v, s)
    r = s.r
    ret = v.call("reb_collision_resolve_halt", s.rp, c)
    v.prove("status", r.status == v.enumc("REB_STATUS_COLLISION"))
    v.prove("keeps_both", ret == 0)
    n = cur(s)
    k = v.int("k")
    for f in s.leaves:
        if f == ("last_collision",):
            v.prove("last_collision", z3.And(sel(n, "last_collision", p1) == r.t, sel(n, "last_collision", p2) == r.t))
            v.prove("frame.others.last_collision", z3.Implies(z3.And(k != p1, k != p2), z3.Select(n[f], k) == z3.Select(s.old[f], k)))
        else:
            v.prove("frame." + lname(f), n[f] == s.old[f])
    v.prove("frame.N", r.N == s.N)


# ============================================================================ hard sphere
P.assume("hardsphere: both radii > 0 (with a zero radius the expression minr*mcv*(1-(r-maxr)/minr) is 0*inf = NaN in IEEE "
         "arithmetic, both comparisons with it are false and dvx2 is unaffected; NaN is not modelled in R-mode)")
P.assume("hardsphere, restitution/energy/separation clauses: the two centres (including the ghost-box shift) do not "
         "coincide (the line of centres is otherwise undefined; momentum conservation and the frame do not need this)")


def implied(v, cond):
    """is `cond` forced by the hypotheses of the current path? (used to tell the early-return paths apart)"""
    sol = z3.Solver()
    sol.set("timeout", 3000)
    for h in v.st.pc:
        sol.add(h)
    sol.add(z3.Not(cond))
    return sol.check() == z3.unsat


def hs_setup(v, eps_mode, mcv_zero, fork_ifs=True):
    s = mk_sim(v)
    c, p1, p2 = mk_collision(v, s)
    v.eng.merge_ifs = not fork_ifs     # forking decides the `dvx2 < mindv` clamp per path (needed by the exact clauses)
    r = s.r
    o = s.old
    s.c, s.p1, s.p2 = c, p1, p2
    s.m1, s.m2 = sel(o, "m", p1), sel(o, "m", p2)
    s.r1, s.r2 = sel(o, "r", p1), sel(o, "r", p2)
    gb = c.gb
    s.x21 = [sel(o, f, p1) + gb[f] - sel(o, f, p2) for f in "xyz"]
    s.v21 = [sel(o, "v" + f, p1) + gb["v" + f] - sel(o, "v" + f, p2) for f in "xyz"]
    s.d2 = sum(a * a for a in s.x21)
    s.sdot = sum(a * b for a, b in zip(s.x21, s.v21))
    s.overlap = z3.Not((s.r1 + s.r2) * (s.r1 + s.r2) < s.d2)
    s.approaching = z3.Not(s.sdot > 0)
    v.assume(s.r1 > 0, s.r2 > 0)
    s.plog0, s.logn0 = r.collisions_plog, r.collisions_log_n
    if mcv_zero:
        r.minimum_collision_velocity = z3.RealVal(0)
    if eps_mode == "default":
        r.coefficient_of_restitution = NULL
        s.eps = z3.RealVal(1)
    else:
        s.eps = v.real("eps")
        r.coefficient_of_restitution = FuncRef("user_coefficient_of_restitution")

        def cb(eng, st, args, n):
            # the callback is handed the normal component of the relative velocity: arg * |x21| = v21 . x21
            # (.normal_component proves rho * vx21nn = v21 . x21 for that local)
            a = as_real(args[1])
            eng.oblige(st, v.task.name + ".callback_gets_normal_velocity", a == eng.local(st, "vx21nn"))
            return s.eps
        v.contract("user_coefficient_of_restitution", cb)
    return s


def hs_normal_component_cut(v, s):
    """Cut point inside reb_collision_resolve_hardsphere, at the sqrt() call that follows the computation of the
    rotated relative velocity vx21nn: proves that vx21nn is the component of the relative velocity along the line of
    centres (rho * vx21nn = v21 . x21 with rho = |x21|, from the atan2 axioms) and hence vx21nn <= 0 for an
    approaching pair with distinct centres; the proven fact is then available to the rest of the path (it decides the
    `dvx2 < mindv` clamp when minimum_collision_velocity = 0)."""
    from engine.csym import Obligation
    R = z3.RealSort()

    def hook(eng, st, args, n):
        if eng.callstack and eng.callstack[-1] == "reb_collision_resolve_hardsphere" and not st.ghost.get("hs_cut"):
            st.ghost["hs_cut"] = True
            vn = eng.local(st, "vx21nn")
            rho = eng.uf("hypot", R, R, R)(simp(eng.local(st, "y21n")), simp(eng.local(st, "x21")))
            s.vn, s.rho = vn, rho
            nm = eng.prefix + v.task.name
            eng.oblige(st, v.task.name + ".normal_component", rho * vn == s.sdot).meta["order"] = POLY
            # generic lemma (a, b, S, D arbitrary reals), used at a=rho, b=vx21nn, S=v21.x21, D=|x21|^2
            a, b, S, D = z3.Reals("lem_a lem_b lem_S lem_D")
            small = [a * b == S, a >= 0, a * a == D, D != 0, S <= 0]
            ob = Obligation(nm + ".normal_component_nonpositive", small, b <= 0, "lemma")
            eng.obligations.append(ob)
            eng.oblige(st, v.task.name + ".rho_is_distance", rho * rho == s.d2).meta["order"] = POLY
            st.assume(z3.Implies(s.d2 != 0, vn <= 0))
            if not z3.is_rational_value(s.eps):
                # with a symbolic restitution coefficient the clamp test -(1+eps)*vx21nn < 0 is a product: generic lemma
                # (b <= 0, E >= 0 => -(1+E) b >= 0) instantiated at b = vx21nn, E = eps, so that the clamp is decided linearly
                E = z3.Real("lem_E")
                ob = Obligation(nm + ".unclamped_impulse_nonnegative", [b <= 0, E >= 0], -(1 + E) * b >= 0, "lemma")
                eng.obligations.append(ob)
                st.assume(z3.Implies(z3.And(s.d2 != 0, s.eps >= 0), -(1 + s.eps) * vn >= 0))
        return eng.math1(st, "sqrt", args[0], n)
    v.contract("sqrt", hook)


def hs_post(v, s, ret, energy, restitution):
    r, o, n = s.r, s.old, cur(s)
    p1, p2 = s.p1, s.p2
    v.prove("returns_0", ret == 0)          # never asks for a removal
    k = v.int("k")
    for f in s.leaves:
        if f in (("vx",), ("vy",), ("vz",), ("last_collision",)):
            v.prove("frame.others." + lname(f), z3.Implies(z3.And(k != p1, k != p2), z3.Select(n[f], k) == z3.Select(o[f], k)))
        else:
            v.prove("frame." + lname(f), n[f] == o[f])
    v.prove("frame.N", r.N == s.N)
    if n[("last_collision",)].eq(o[("last_collision",)]):       # nothing was written on this path
        # early return: not overlapping, or not approaching
        v.prove("early_return.reason", z3.Not(z3.And(s.overlap, s.approaching)))
        for f in ("vx", "vy", "vz", "last_collision"):
            v.prove("early_return.unchanged." + f, n[(f,)] == o[(f,)])
        v.prove("early_return.log", z3.And(r.collisions_plog == s.plog0, r.collisions_log_n == s.logn0))
        return
    dv1 = [sel(n, "v" + f, p1) - sel(o, "v" + f, p1) for f in "xyz"]
    dv2 = [sel(n, "v" + f, p2) - sel(o, "v" + f, p2) for f in "xyz"]
    for i, f in enumerate("xyz"):
        v.prove("momentum." + f, s.m1 * dv1[i] + s.m2 * dv2[i] == 0, order=POLY)
    # the impulse acts along the line of centres: dv1 x x21 = 0
    X = s.x21
    v.prove("central.x", dv1[1] * X[2] - dv1[2] * X[1] == 0, order=POLY)
    v.prove("central.y", dv1[2] * X[0] - dv1[0] * X[2] == 0, order=POLY)
    v.prove("central.z", dv1[0] * X[1] - dv1[1] * X[0] == 0, order=POLY)
    v.prove("stamped", z3.And(sel(n, "last_collision", p1) == r.t, sel(n, "last_collision", p2) == r.t))
    v.prove("counted", r.collisions_log_n == s.logn0 + 1)
    post_rel = [s.v21[i] + dv1[i] - dv2[i] for i in range(3)]
    post_dot = sum(a * b for a, b in zip(post_rel, X))
    if restitution == "exact":
        v.prove("restitution", post_dot == -s.eps * s.sdot, order=POLY)
        # separating: generic lemma (A, E, S arbitrary reals) used at A = post_dot, E = eps, S = v21.x21 (<= 0: approaching)
        from engine.csym import Obligation
        A, E, S = z3.Reals("lem_A lem_E lem_S")
        ob = Obligation(v.eng.prefix + v.task.name + ".separating", [A == -E * S, E >= 0, z3.Not(S > 0)], A >= 0, "lemma")
        v.eng.obligations.append(ob)
        v.prove("separating.eps_nonneg", s.eps >= 0)
    elif restitution == "atleast":
        v.prove("restitution_at_least", post_dot >= -s.eps * s.sdot, order=("z3", "cvc5"))
    if energy:
        e0 = kin(s.m1, *[sel(o, "v" + f, p1) for f in "xyz"]) + kin(s.m2, *[sel(o, "v" + f, p2) for f in "xyz"])
        e1 = kin(s.m1, *[sel(n, "v" + f, p1) for f in "xyz"]) + kin(s.m2, *[sel(n, "v" + f, p2) for f in "xyz"])
        gbv = [s.c.gb["v" + f] for f in "xyz"]
        # with a moving ghost box (shear) the bounce is elastic in the frame of the image; here: gb.v = 0
        v.prove("kinetic_energy", e1 == e0, order=POLY)


@P.task("hardsphere.elastic", fn="reb_collision_resolve_hardsphere")
def _(v):
    """default restitution (eps = 1), minimum_collision_velocity = 0, image at rest (gb.v = 0):
    momentum, central impulse, normal relative velocity exactly reversed (pair separating), kinetic energy conserved."""
    s = hs_setup(v, "default", True)
    hs_normal_component_cut(v, s)
    v.assume(s.m1 + s.m2 != 0, s.d2 != 0)
    v.assume(*[s.c.gb["v" + f] == 0 for f in "xyz"])
    ret = v.call("reb_collision_resolve_hardsphere", s.rp, s.c)
    hs_post(v, s, ret, energy=True, restitution="exact")


@P.task("hardsphere.general", fn="reb_collision_resolve_hardsphere")
def _(v):
    """user restitution callback (eps arbitrary), minimum_collision_velocity arbitrary, moving image (shear):
    momentum, central impulse, frame, early returns; the callback is handed the normal relative velocity."""
    s = hs_setup(v, "callback", False, fork_ifs=False)
    hs_normal_component_cut(v, s)
    v.assume(s.m1 + s.m2 != 0)
    ret = v.call("reb_collision_resolve_hardsphere", s.rp, s.c)
    hs_post(v, s, ret, energy=False, restitution=None)


@P.task("hardsphere.restitution", fn="reb_collision_resolve_hardsphere")
def _(v):
    """user restitution callback with 0 <= eps, minimum_collision_velocity = 0, moving image allowed:
    post-collision normal relative velocity = -eps * pre-collision one, hence the pair is separating."""
    s = hs_setup(v, "callback", True)
    hs_normal_component_cut(v, s)
    v.assume(s.m1 + s.m2 != 0, s.d2 != 0, s.eps >= 0)
    ret = v.call("reb_collision_resolve_hardsphere", s.rp, s.c)
    hs_post(v, s, ret, energy=False, restitution="exact")


@P.task("hardsphere.default_is_elastic_with_moving_image", fn="reb_collision_resolve_hardsphere")
def _(v):
    """NULL callback = restitution 1 also for a sheared image (gb.v != 0): restitution clause only."""
    s = hs_setup(v, "default", True)
    hs_normal_component_cut(v, s)
    v.assume(s.m1 + s.m2 != 0, s.d2 != 0)
    ret = v.call("reb_collision_resolve_hardsphere", s.rp, s.c)
    hs_post(v, s, ret, energy=False, restitution="exact")


@P.task("hardsphere.defined_for_massless_pair", fn="reb_collision_resolve_hardsphere")
def _(v):
    """No precondition on the masses (two test particles may overlap): definedness of m/(m1+m2)."""
    s = hs_setup(v, "default", True)
    hs_normal_component_cut(v, s)
    v.assume(s.m1 >= 0, s.m2 >= 0, s.d2 != 0)
    v.assume(s.overlap, s.approaching, s.x21[0] > 0)
    v.call("reb_collision_resolve_hardsphere", s.rp, s.c)


# ============================================================================ search loops
P.trust("iteration-space rule: a loop `for (int k = a; cond(k); k++)` whose body never writes k and for which "
        "cond(k) <=> k <= b (resp. k < b) is proved visits every integer a <= k <= b (resp. < b); a body contract proved for "
        "an arbitrary iteration of the nest, together with the proved monotone frame (entries below collisions_N are never "
        "rewritten, collisions_N never decreases), then gives: every pair satisfying the hit condition is in the list when "
        "the nest ends (DESIGN 3.3)")
P.assume("search tasks: no SIGINT pending (reb_sigint == 0); N_var == 0; the integrator is not MERCURIUS/TRACE (no "
         "encounter map); boundary = periodic for the ghost-box shifts (open gives the same shifts, shear is not covered)")
P.assume("search tasks are stated at a cut: the state at every loop head of the nest is an arbitrary one satisfying "
         "0 <= collisions_N <= N_allocated_collisions = length(r->collisions) with the particles unchanged; the cut "
         "invariant is proved initially and after an arbitrary iteration")
P.assume("malloc/realloc succeed (the code under test does not check for NULL)")

CFIELDS = [("p1",), ("p2",), ("gb", "x"), ("gb", "y"), ("gb", "z"), ("gb", "vx"), ("gb", "vy"), ("gb", "vz"), ("ri",)]


class Nest:
    """Arbitrary-iteration execution of a loop nest of one function (custom loop handlers).

    loops: list of (ordinal, variable name, init term, cond_spec(K) -> Bool); the innermost loop's handler runs
    `after(eng, st, nest)` at the end of its body and ends the path."""

    def __init__(self, v, fn, loops, after, enter=None):
        self.v, self.fn, self.loops, self.after, self.enter = v, fn, loops, after, enter
        self.K = {}
        for idx, (ordinal, var, init, cond_spec) in enumerate(loops):
            v.loop(fn, ordinal, invariant=self._handler(idx), mode="custom")

    def _handler(self, idx):
        ordinal, var, init, cond_spec = self.loops[idx]
        v = self.v
        tag = "%s.nest.%s" % (v.task.name, var)

        def handler(eng, st, n, cond, inc, body):
            if idx == 0 and self.enter is not None:
                self.enter(eng, st, self)          # cut invariant initially + generic loop-head state
            cur0 = eng.local(st, var)
            init_t = init(self) if callable(init) else init
            eng.oblige(st, tag + ".header.init", cur0 == init_t)
            K = z3.Int("%s_it" % var)
            self.K[var] = K
            p = eng.local_ptr(st, var)
            eng.write(st, p, K)
            st.assume(K >= init_t)
            c = as_bool(eng.rvalue(st, cond))
            eng.oblige(st, tag + ".header.cond", c == cond_spec(self, K))
            # effect of the increment, on a copy
            s2 = st.clone()
            eng.rvalue(s2, inc)
            eng.oblige(s2, tag + ".header.inc", eng.local(s2, var) == K + 1)
            st.assume(c)
            fl = eng.exec_stmt(st, body)
            if fl.kind not in (Flow.NORMAL, Flow.CONTINUE):
                eng.oblige(st, tag + ".no_early_exit", z3.BoolVal(False))
                raise PathEnd("nest")
            if idx != len(self.loops) - 1:
                # the inner handler ended every path that reached the inner loop
                raise PathEnd("nest")
            for (_o, var2, _i, _c) in self.loops:
                eng.oblige(st, tag + ".counter_untouched." + var2, eng.local(st, var2) == self.K[var2])
            # vacuity guard (the path ends here, so the driver's own guard does not see it)
            sol = z3.Solver()
            sol.set("timeout", 1000)
            for h in st.pc:
                sol.add(h)
            if sol.check() == z3.unsat:
                eng.oblige(st, tag + ".cover.path_hypotheses_satisfiable", z3.BoolVal(False), "cover")
            self.after(eng, st, self)
            raise PathEnd("nest")
        return handler


def search_setup(v, mode, ghosts, null_list):
    """simulation for the search tasks: particles, a collisions list (NULL or a block of N_allocated_collisions)"""
    s = mk_sim(v)
    r = s.r
    r.N_var = z3.IntVal(0)
    r.collision = v.enumc(mode)
    r.boundary = v.enumc("REB_BOUNDARY_PERIODIC")
    v.assume(z3.Int("g_reb_sigint") == 0)
    s.NC = v.int("N_allocated_collisions")
    r.N_allocated_collisions = s.NC
    if null_list:
        r.collisions = NULL
        v.assume(s.NC == 0)
        s.coll = None
    else:
        s.coll = v.array("struct reb_collision", s.NC, "C")
        r.collisions = s.coll.ptr
        v.assume(s.NC >= 1)
        v.eng.heap_set(v.st, s.coll.obj.id, owner="callee", kind="heap")
    if ghosts == 0:
        r.N_ghost_x = r.N_ghost_y = r.N_ghost_z = z3.IntVal(0)
        s.G = [z3.IntVal(0)] * 3
    else:
        s.G = [v.int("N_ghost_" + a) for a in "xyz"]
        r.N_ghost_x, r.N_ghost_y, r.N_ghost_z = s.G
        v.assume(*[g >= 0 for g in s.G])
    s.ring = [z3.If(g > 1, 1, g) for g in s.G]        # "only the inner-most ring": min(N_ghost, 1)
    s.box = [r.boxsize.x, r.boxsize.y, r.boxsize.z]
    return s


def coll_arrays(v, st, r_sobj):
    p = v.eng._lazy_field(r_sobj, "collisions", st)
    if not isinstance(p, Ptr) or p.obj is None:
        return None, None
    a = st.mem.get(p.obj)
    return a, {f: v.eng._leaf_array(a, f) for f in CFIELDS}


def search_enter(v, s):
    def enter(eng, st, nest):
        # cut invariant holds on entry of the nest (collisions_N == 0) ...
        cn0 = eng.local(st, "collisions_N")
        eng.oblige(st, v.task.name + ".cut.init", z3.And(0 <= cn0, cn0 <= s.NC))
        # ... and the loop-head state is an arbitrary one satisfying it
        s.cN = z3.Int("collisions_N_head")
        eng.write(st, eng.local_ptr(st, "collisions_N"), s.cN)
        st.assume(z3.And(0 <= s.cN, s.cN <= s.NC))
        arr, s.C0 = coll_arrays(v, st, s.r._s)
    return enter


def oblige_lin(eng, st, name, goal):
    """obligation that uses only the linear hypotheses of the path (a subset of the hypotheses: still sound);
    keeps the structural clauses away from the nonlinear pair test"""
    from engine.csym import Obligation
    from engine.backends import _nonlinear
    ob = Obligation(eng.prefix + name, [h for h in st.hyps() if not _nonlinear(h)], goal, "post")
    if z3.is_true(z3.simplify(goal)):
        ob.verdict, ob.backend = "proved", "simplify"
    eng.obligations.append(ob)
    return ob


def search_after(v, s, hit_of):
    """body contract of the innermost loop: appended <=> hit, monotone frame, cut invariant re-established"""
    def after(eng, st, nest):
        t = v.task.name
        K = nest.K
        r = s.r._s
        I, J = K["i"], K["j"]
        shift = [s.box[0] * z3.ToReal(K["gbx"]), s.box[1] * z3.ToReal(K["gby"]), s.box[2] * z3.ToReal(K["gbz"])]
        hit = hit_of(eng, st, s, I, J, shift)
        cN1 = eng.local(st, "collisions_N")
        arr1, C1 = coll_arrays(v, st, r)
        NC1 = eng._lazy_field(r, "N_allocated_collisions", st)
        appended = cN1 == s.cN + 1
        eng.oblige(st, t + ".body.hit_is_appended", z3.Implies(hit, appended))
        eng.oblige(st, t + ".body.only_hits_are_appended", z3.Implies(z3.Not(hit), cN1 == s.cN))
        oblige_lin(eng, st, t + ".body.at_most_one", z3.Or(cN1 == s.cN, appended))
        if arr1 is not None:
            rec = {f: z3.Select(C1[f], s.cN) for f in CFIELDS}
            oblige_lin(eng, st, t + ".body.record.p1", z3.Implies(appended, rec[("p1",)] == I))
            oblige_lin(eng, st, t + ".body.record.p2", z3.Implies(appended, rec[("p2",)] == J))
            oblige_lin(eng, st, t + ".body.record.distinct", z3.Implies(appended, rec[("p1",)] != rec[("p2",)]))
            for a, f in enumerate("xyz"):
                oblige_lin(eng, st, t + ".body.record.gb." + f, z3.Implies(appended, rec[("gb", f)] == shift[a]))
                oblige_lin(eng, st, t + ".body.record.gb.v" + f, z3.Implies(appended, rec[("gb", "v" + f)] == 0))
            if s.C0 is not None:
                k = z3.Int("k_entry")
                for f in CFIELDS:
                    if f == ("ri",):
                        continue
                    oblige_lin(eng, st, t + ".body.earlier_entries_kept." + lname(f),
                               z3.Implies(z3.And(0 <= k, k < s.cN), z3.Select(C1[f], k) == z3.Select(s.C0[f], k)))
            ln = arr1.length
            oblige_lin(eng, st, t + ".cut.preserved", z3.And(0 <= cN1, cN1 <= NC1, NC1 == ln))
        else:
            oblige_lin(eng, st, t + ".cut.preserved", z3.And(cN1 == 0, NC1 == 0))
        # frame: the nest writes nothing but the list
        n = cur(s)
        for f in s.leaves:
            oblige_lin(eng, st, t + ".frame.particles." + lname(f), n[f] == s.old[f])
        oblige_lin(eng, st, t + ".frame.N", z3.And(s.r.N == s.N, s.r.N_var == 0))
    return after


def direct_hit(eng, st, s, I, J, shift):
    o = s.old
    d = [sel(o, f, I) + shift[a] - sel(o, f, J) for a, f in enumerate("xyz")]
    dv = [sel(o, "v" + f, I) - sel(o, "v" + f, J) for f in "xyz"]
    rs = sel(o, "r", I) + sel(o, "r", J)
    overlapping = sum(a * a for a in d) <= rs * rs
    approaching = z3.Not(sum(a * b for a, b in zip(d, dv)) > 0)
    return z3.And(I != J, overlapping, approaching)


def ring_loops(s, first):
    out = []
    for a, nm in enumerate(("gbx", "gby", "gbz")):
        out.append((first + a, nm, -s.ring[a], (lambda nest, K, a=a: K <= s.ring[a])))
    return out


for gtag, ghosts in (("box", 0), ("ghosts", 1)):
    for ltag, null_list in (("list", False), ("nolist", True)):
        @P.task("search.direct.%s.%s" % (gtag, ltag), fn="reb_collision_search")
        def _(v, ghosts=ghosts, null_list=null_list):
            """REB_COLLISION_DIRECT: the nest (gbx, gby, gbz, i, j) ranges over the inner ring of images x all ordered
            pairs; an arbitrary iteration appends (i, j, shift) iff i != j, |x_i + shift - x_j|^2 <= (r_i+r_j)^2 and
            (x_i + shift - x_j).(v_i - v_j) <= 0; list growth (realloc) memory-safe; nothing else is written."""
            s = search_setup(v, "REB_COLLISION_DIRECT", ghosts, null_list)
            loops = ring_loops(s, 0) + [
                (3, "i", z3.IntVal(0), lambda nest, K: K < s.N),
                (4, "j", z3.IntVal(0), lambda nest, K: K < s.N)]
            Nest(v, "reb_collision_search", loops, search_after(v, s, direct_hit), enter=search_enter(v, s))
            v.call("reb_collision_search", s.rp)


P.assume("LINE search: dt_last_done != 0 (a step has been done).  For a pair with zero relative velocity t_closest is 0/0: "
         "the task search.line.*.dv0 treats the quotient as an arbitrary real, which covers the IEEE outcome NaN (range "
         "test false); definedness checks are switched off in that task only")


def line_min_lemma(v, eng, st, t, rm, d1, dv, dt, q, lam):
    """rmin2_ab = min over the step of the quadratic distance, via a scalar lemma.

    With A = |d1|^2, B = d1.dv, C = |dv|^2 the squared distance at the fraction lam of the step is
    A - 2 lam dt B + lam^2 dt^2 C.  Linking obligations (polynomial identities on the real terms) tie the locals
    r1, r2, r3, t_closest of the code to A, B, C; the scalar lemma is the code's own expression for rmin2_ab with those
    locals replaced by scalar unknowns (a universally quantified lemma instantiated at the real terms)."""
    from engine.csym import Obligation
    A = sum(x * x for x in d1)
    B = sum(x * y for x, y in zip(d1, dv))
    C = sum(y * y for y in dv)
    r1, r2, tc = eng.local(st, "r1"), eng.local(st, "r2"), eng.local(st, "t_closest")
    try:
        r3 = eng.local(st, "r3")
    except KeyError:
        r3 = None
    eng.oblige(st, t + ".body.min.link.r1", r1 == A).meta["order"] = POLY
    eng.oblige(st, t + ".body.min.link.r2", r2 == A - 2 * dt * B + dt * dt * C).meta["order"] = POLY
    eng.oblige(st, t + ".body.min.link.t_closest", tc * C == B).meta["order"] = POLY
    eng.oblige(st, t + ".body.min.link.C_positive", C > 0)
    eng.oblige(st, t + ".body.min.link.q", q(lam) == A - 2 * lam * dt * B + lam * lam * dt * dt * C).meta["order"] = POLY
    inrange = z3.And(tc / dt >= 0, tc / dt <= 1)
    taken = r3 is not None
    if taken:
        eng.oblige(st, t + ".body.min.link.r3", r3 == A - 2 * tc * B + tc * tc * C).meta["order"] = POLY
        eng.oblige(st, t + ".body.min.link.vertex_in_range", inrange)
    else:
        eng.oblige(st, t + ".body.min.link.vertex_out_of_range", z3.Not(inrange))
    a1, a2, a3, tcA, dtA, AA, BB, CC = z3.Reals("lm_r1 lm_r2 lm_r3 lm_tc lm_dt lm_A lm_B lm_C")
    sub = [(r1, a1), (r2, a2), (tc, tcA), (dt, dtA)] + ([(r3, a3)] if taken else [])
    rmA = z3.substitute(rm, *sub)
    allowed = {x.get_id() for x in (a1, a2, a3, tcA, dtA)}

    def scalar_only(e):
        stack = [e]
        while stack:
            x = stack.pop()
            if z3.is_const(x) and x.decl().kind() == z3.Z3_OP_UNINTERPRETED:
                if x.get_id() not in allowed:
                    return False
            elif z3.is_app(x) and x.decl().kind() == z3.Z3_OP_UNINTERPRETED:
                return False
            elif z3.is_app(x) and x.decl().kind() in (z3.Z3_OP_SELECT, z3.Z3_OP_STORE):
                return False
            stack.extend(x.children())
        return True
    eng.oblige(st, t + ".body.min.link.abstraction_is_scalar", z3.BoolVal(scalar_only(rmA)))
    inrA = z3.And(tcA / dtA >= 0, tcA / dtA <= 1)
    hy = [a1 == AA, a2 == AA - 2 * dtA * BB + dtA * dtA * CC, tcA * CC == BB, CC > 0, dtA != 0,
          inrA if taken else z3.Not(inrA)]
    if taken:
        hy.append(a3 == AA - 2 * tcA * BB + tcA * tcA * CC)

    def qA(l):
        return AA - 2 * l * dtA * BB + l * l * dtA * dtA * CC
    nm = eng.prefix + t
    ob = Obligation(nm + ".body.min.lower_bound", hy + [0 <= lam, lam <= 1], rmA <= qA(lam), "lemma")
    ob.meta["order"] = ("z3", "cvc5")
    eng.obligations.append(ob)
    ls = tcA / dtA
    ob = Obligation(nm + ".body.min.attained", hy,
                    z3.Or(rmA == qA(z3.RealVal(0)), rmA == qA(z3.RealVal(1)), z3.And(0 <= ls, ls <= 1, rmA == qA(ls))), "lemma")
    ob.meta["order"] = ("z3", "cvc5")
    eng.obligations.append(ob)


def line_after(v, s, dv0):
    base = None

    def hit_code(eng, st, s_, I, J, shift):
        o = s.old
        rs = sel(o, "r", I) + sel(o, "r", J)
        return eng.local(st, "rmin2_ab") <= rs * rs

    generic = search_after(v, s, hit_code)

    def after(eng, st, nest):
        t = v.task.name
        K = nest.K
        I, J = K["i"], K["j"]
        o = s.old
        shift = [s.box[0] * z3.ToReal(K["gbx"]), s.box[1] * z3.ToReal(K["gby"]), s.box[2] * z3.ToReal(K["gbz"])]
        d1 = [sel(o, f, I) + shift[a] - sel(o, f, J) for a, f in enumerate("xyz")]
        dv = [sel(o, "v" + f, I) - sel(o, "v" + f, J) for f in "xyz"]
        dt = s.r.dt_last_done

        def q(lam):
            # squared distance of the two straight-line paths at the fraction lam of the last step, counted backwards
            return sum((d1[a] - lam * dt * dv[a]) ** 2 for a in range(3))
        rm = eng.local(st, "rmin2_ab")
        lam = z3.Real("lam")
        if dv0:
            eng.oblige(st, t + ".body.min.lower_bound", z3.Implies(z3.And(0 <= lam, lam <= 1), rm <= q(lam))).meta["order"] = ("z3", "cvc5")
            eng.oblige(st, t + ".body.min.attained", rm == q(z3.RealVal(0))).meta["order"] = ("z3", "cvc5")
        else:
            line_min_lemma(v, eng, st, t, rm, d1, dv, dt, q, lam)
        eng.oblige(st, t + ".body.pairs_once", I < J)
        generic(eng, st, nest)
    return after


for gtag, ghosts in (("box", 0), ("ghosts", 1)):
    for dtag in ("moving", "dv0"):
        @P.task("search.line.%s.%s" % (gtag, dtag), fn="reb_collision_search")
        def _(v, ghosts=ghosts, dtag=dtag):
            """REB_COLLISION_LINE: nest (gbx, gby, gbz, i, j>i); the three-candidate minimum rmin2_ab equals the minimum
            over the last step of the squared distance of the straight-line paths; appended iff that minimum is
            <= (r_i+r_j)^2."""
            s = search_setup(v, "REB_COLLISION_LINE", ghosts, False)
            v.eng.merge_ifs = False
            v.eng.prune_timeout = 200      # nonlinear path conditions: an undecided feasibility check only costs a path
            v.assume(s.r.dt_last_done != 0)
            loops = ring_loops(s, 5) + [
                (8, "i", z3.IntVal(0), lambda nest, K: K < s.N),
                (9, "j", (lambda nest: nest.K["i"] + 1), lambda nest, K: K < s.N)]
            dv0 = dtag == "dv0"
            if dv0:
                v.eng.check_defined = False

            def enter(eng, st, nest, inner=search_enter(v, s)):
                inner(eng, st, nest)
            nest = Nest(v, "reb_collision_search", loops, line_after(v, s, dv0), enter=enter)
            # relative velocity of the arbitrary pair: constrained when the pair is known (at the j-loop head)
            orig = nest.after

            def after(eng, st, nest_):
                orig(eng, st, nest_)
            I, J = z3.Int("i_it"), z3.Int("j_it")
            dvs = [sel(s.old, "v" + f, I) - sel(s.old, "v" + f, J) for f in "xyz"]
            if dv0:
                v.assume(*[d == 0 for d in dvs])
            else:
                v.assume(sum(d * d for d in dvs) != 0)
            v.call("reb_collision_search", s.rp)


# ============================================================================ resolve loop: index fix-ups
P.assume("resolve loop: stated at a cut (arbitrary head state of the loop `for i<collisions_N`): the current entry i and an "
         "arbitrary pending entry j>i are each either (-1,-1) or name two different live particles (0 <= p < N); "
         "N_var == 0; free_particle_ap not modelled; hybrid integrators: tasks resolve.fixup.mercurius/trace.* (removal forced order-preserving)")
P.assume("particle identity = ghost label carried in the `hash` member (labels of live particles pairwise different); the "
         "user resolve callback neither adds, removes nor reorders particles (it requests removals through its return value)")
P.assume("reb_simulation_remove_particle is used through a summary contract written from its documented behaviour "
         "(docs/removingparticles.md, rebound.h): for a valid index and N_var == 0 it returns 1 and (keep_sorted) closes the "
         "gap preserving the order / (unsorted) moves the last particle into the gap / (tree present, unsorted) only flags the "
         "particle (y = NaN) and leaves N; the proof of that contract against particle.c belongs to C14")
P.assume("fix-up loops: each iteration touches only collisions[j] (proved: frame of an arbitrary iteration), so the effect of "
         "a fix-up loop on one arbitrary pending entry is the effect of its iteration j; the other entries are havocked")

ID = ("hash",)


def fixup_task(v, keep_sorted, outcome, tree, mode, hybrid=None):
    """hybrid = "REB_INTEGRATOR_MERCURIUS" / "REB_INTEGRATOR_TRACE": reb_simulation_remove_particle removes order-preserving
    whatever flag it is given (C14: `keep_sorted = 1; // Force keep_sorted for hybrid integrator`), so the fix-up of the
    pending records must follow the order-preserving rule even though the user's collision_resolve_keep_sorted is 0"""
    s = mk_sim(v, hybrid) if hybrid else mk_sim(v)
    eff = 1 if hybrid else keep_sorted
    r = s.r
    E = v.eng
    E.merge_ifs = False
    r.N_var = z3.IntVal(0)
    r.collision = v.enumc("REB_COLLISION_NONE")
    r.collision_resolve_keep_sorted = z3.IntVal(keep_sorted)
    r.tree_root = Opaque("ptr:tree_root", tag=z3.BoolVal(True)) if tree else NULL
    r.collision_resolve = FuncRef("user_resolve")
    v.assume(z3.Int("g_reb_sigint") == 0)
    s.NC = v.int("N_allocated_collisions")
    r.N_allocated_collisions = s.NC
    s.coll = v.array("struct reb_collision", s.NC, "C")
    r.collisions = s.coll.ptr
    parts_obj = s.parts.obj
    a_, b_ = z3.Ints("a_id b_id")
    ID0 = s.old[ID]
    unique0 = z3.ForAll([a_, b_], z3.Implies(z3.And(0 <= a_, a_ < b_, b_ < s.N), z3.Select(ID0, a_) != z3.Select(ID0, b_)))
    I, J = z3.Int("i_it"), z3.Int("j_entry")
    C0 = {f: s.coll.array(*f) for f in CFIELDS}
    cp1, cp2 = z3.Select(C0[("p1",)], I), z3.Select(C0[("p2",)], I)
    q1, q2 = z3.Select(C0[("p1",)], J), z3.Select(C0[("p2",)], J)

    def entry_inv(a, b, N):
        return z3.Or(z3.And(a == -1, b == -1), z3.And(0 <= a, a < N, 0 <= b, b < N, a != b))
    st_ = {"removed": [], "calls": 0}

    # -- callee summaries ------------------------------------------------------
    def user_resolve(eng, st, args, n):
        return z3.IntVal(outcome)
    v.contract("user_resolve", user_resolve)

    def ids_now(st):
        return E._leaf_array(st.mem.get(parts_obj.id), ID)

    def remove_particle(eng, st, args, n):
        rp, index, ks = args
        index = as_int(index)
        rs = st.mem.get(rp.obj)
        N = eng._lazy_field(rs, "N", st)
        t = v.task.name + ".remove%d" % st_["calls"]
        # which identity is this call meant to remove?  first call <-> lowest set bit of the outcome
        want = [cp1, cp2][[b for b in (0, 1) if outcome & (1 << b)][st_["calls"]]]
        st_["calls"] += 1
        idn = ids_now(st)
        eng.oblige(st, t + ".callsite.index_valid", z3.And(0 <= index, index < N))
        eng.oblige(st, t + ".callsite.removes_the_intended_identity", z3.Select(idn, index) == z3.Select(ID0, want))
        if not hybrid:
            eng.oblige(st, t + ".callsite.keep_sorted_flag", as_int(ks) == keep_sorted)
        arr = st.mem.get(parts_obj.id)
        k = z3.Int("k_rm")
        if tree:
            eng.write(st, Ptr(parts_obj.id, (index, "y")), z3.Real("NAN"))
        elif eff:
            for leaf in list(arr.leaf_types):
                old = eng._leaf_array(arr, leaf)
                arr.leaves[leaf] = z3.Lambda([k], z3.If(k < index, z3.Select(old, k), z3.Select(old, k + 1)))
            eng.write(st, Ptr(rp.obj, ("N",)), N - 1)
        else:
            for leaf in list(arr.leaf_types):
                old = eng._leaf_array(arr, leaf)
                arr.leaves[leaf] = z3.Store(old, index, z3.Select(old, N - 1))
            eng.write(st, Ptr(rp.obj, ("N",)), N - 1)
        return z3.IntVal(1)
    v.contract("reb_simulation_remove_particle", remove_particle)

    # -- inner fix-up loops: one arbitrary pending entry ------------------------------
    def fix_loop(ordinal):
        tag = v.task.name + ".fixloop%d" % ordinal

        def handler(eng, st, n, cond, inc, body):
            cN = eng.local(st, "collisions_N")
            eng.oblige(st, tag + ".header.init", eng.local(st, "j") == eng.local(st, "i") + 1)
            K = J if mode == "entry" else z3.Int("j_any%d" % ordinal)
            eng.write(st, eng.local_ptr(st, "j"), K)
            st.assume(K >= I + 1)
            c = as_bool(eng.rvalue(st, cond))
            eng.oblige(st, tag + ".header.cond", c == (K < cN))
            s2 = st.clone()
            eng.rvalue(s2, inc)
            eng.oblige(s2, tag + ".header.inc", eng.local(s2, "j") == K + 1)
            arr = st.mem.get(s.coll.obj.id)
            before = {f: eng._leaf_array(arr, f) for f in CFIELDS}
            idb, Nb = ids_now(st), eng._lazy_field(st.mem.get(s.rp.obj), "N", st)
            if mode == "entry":
                st.assume(c)
                fl = eng.exec_stmt(st, body)
                eng.oblige(st, tag + ".iteration.normal_flow", z3.BoolVal(fl.kind in (Flow.NORMAL, Flow.CONTINUE)))
                eng.oblige(st, tag + ".iteration.counter_untouched", z3.And(eng.local(st, "j") == K, eng.local(st, "i") == I))
                arr = st.mem.get(s.coll.obj.id)
                kk = z3.Int("k_other")
                eng.oblige(st, tag + ".iteration.touches_only_entry_j",
                           z3.Implies(kk != K, z3.And(*[z3.Select(eng._leaf_array(arr, f), kk) == z3.Select(before[f], kk)
                                                        for f in CFIELDS])))
                eng.oblige(st, tag + ".iteration.particles_untouched",
                           z3.And(ids_now(st) == idb, eng._lazy_field(st.mem.get(s.rp.obj), "N", st) == Nb))
            # the other entries: arbitrary afterwards
            arr = st.mem.get(s.coll.obj.id)
            for f in CFIELDS:
                new = z3.Const("C_after%d_%s!%d" % (ordinal, lname(f), next(eng.fresh_n)), before[f].sort())
                if mode == "entry":
                    st.assume(z3.Select(new, K) == z3.Select(eng._leaf_array(arr, f), K))
                arr.leaves[f] = new
            return Flow(Flow.NORMAL) if False else __import__("engine.csym", fromlist=["NORMAL"]).NORMAL
        v.loop("reb_collision_search", ordinal, invariant=handler, mode="custom")
    for o in (23, 24, 25, 26):
        fix_loop(o)

    # -- the resolve loop itself: arbitrary iteration i ---------------------------------
    def enter(eng, st, nest):
        s.cN = z3.Int("collisions_N_head")
        eng.oblige(st, v.task.name + ".cut.init", eng.local(st, "collisions_N") == 0)
        eng.write(st, eng.local_ptr(st, "collisions_N"), s.cN)
        st.assume(z3.And(0 <= s.cN, s.cN <= s.NC))
        st.assume(entry_inv(cp1, cp2, s.N))
        if mode == "entry":
            st.assume(z3.And(I < J, J < s.cN))
            st.assume(entry_inv(q1, q2, s.N))

    def after(eng, st, nest):
        t = v.task.name
        # precondition on the ghost labels (pre-state): pairwise different.  Added here, at the end of the path, because
        # it is only needed by the clauses below (it slows the path-feasibility checks down when present from the start)
        st.assume(unique0)
        rs = st.mem.get(s.rp.obj)
        N1 = eng._lazy_field(rs, "N", st)
        id1 = ids_now(st)
        current_valid = z3.And(cp1 != -1, cp2 != -1)
        nrem = 0 if tree else bin(outcome).count("1")
        eng.oblige(st, t + ".N_decreases_by_removals", N1 == z3.If(current_valid, s.N - nrem, s.N))
        eng.oblige(st, t + ".removal_calls", z3.BoolVal(st_["calls"] == (bin(outcome).count("1") if implied(v, current_valid) else 0)))
        a, b = z3.Ints("a_post b_post")
        eng.oblige(st, t + ".labels_stay_distinct",
                   z3.Implies(z3.And(0 <= a, a < b, b < N1), z3.Select(id1, a) != z3.Select(id1, b)))
        if mode != "entry":
            return
        arr = st.mem.get(s.coll.obj.id)
        q1n, q2n = z3.Select(eng._leaf_array(arr, ("p1",)), J), z3.Select(eng._leaf_array(arr, ("p2",)), J)
        n1, n2 = z3.Select(ID0, q1), z3.Select(ID0, q2)
        removed = []
        if outcome & 1:
            removed.append(z3.Select(ID0, cp1))
        if outcome & 2:
            removed.append(z3.Select(ID0, cp2))
        pre_valid = z3.And(q1 != -1, q2 != -1)
        hit = z3.And(current_valid, z3.Or(*[z3.Or(n1 == x, n2 == x) for x in removed])) if removed else z3.BoolVal(False)
        eng.oblige(st, t + ".entry.invalid_stays_invalid", z3.Implies(z3.Not(pre_valid), z3.And(q1n == -1, q2n == -1)))
        eng.oblige(st, t + ".entry.involving_removed_is_invalidated", z3.Implies(z3.And(pre_valid, hit), z3.And(q1n == -1, q2n == -1)))
        keep = z3.And(pre_valid, z3.Not(hit))
        eng.oblige(st, t + ".entry.kept.in_range", z3.Implies(keep, z3.And(0 <= q1n, q1n < N1, 0 <= q2n, q2n < N1)))
        eng.oblige(st, t + ".entry.kept.same_identity.p1", z3.Implies(keep, z3.Select(id1, q1n) == n1))
        eng.oblige(st, t + ".entry.kept.same_identity.p2", z3.Implies(keep, z3.Select(id1, q2n) == n2))
        eng.oblige(st, t + ".entry.kept.distinct", z3.Implies(keep, q1n != q2n))
        if tree:
            # flagged, not moved: the entry is literally unchanged unless invalidated
            eng.oblige(st, t + ".entry.kept.unchanged", z3.Implies(keep, z3.And(q1n == q1, q2n == q2)))
    Nest(v, "reb_collision_search", [(22, "i", z3.IntVal(0), lambda nest, K: K < s.cN)], after, enter=enter)
    # the randomisation loop is not entered at the cut (collisions_N == 0 before the cut); see resolve.randomize
    v.call("reb_collision_search", s.rp)


for ks in (0, 1):
    for outcome in (0, 1, 2, 3):
        for mode in ("entry", "current"):
            @P.task("resolve.fixup.%s.outcome%d.%s" % ("sorted" if ks else "unsorted", outcome, mode), fn="reb_collision_search")
            def _(v, ks=ks, outcome=outcome, mode=mode):
                """resolve loop, no tree: after the removals requested by the outcome, the (fixed-up) current record is used
                to remove exactly the intended identities, and an arbitrary pending entry is invalidated iff it involves a
                removed identity and otherwise names the same two identities, both alive."""
                fixup_task(v, ks, outcome, False, mode)
for hyb in ("MERCURIUS", "TRACE"):
    for outcome in (1, 2, 3):
        for mode in ("entry", "current"):
            @P.task("resolve.fixup.%s.user_flag_unsorted.outcome%d.%s" % (hyb.lower(), outcome, mode), fn="reb_collision_search")
            def _(v, hyb=hyb, outcome=outcome, mode=mode):
                """hybrid integrators: removal is order-preserving regardless of collision_resolve_keep_sorted (= 0 here);
                the pending records must be fixed up with the order-preserving rule"""
                fixup_task(v, 0, outcome, False, mode, hybrid="REB_INTEGRATOR_" + hyb)
for outcome in (1, 2, 3):
    @P.task("resolve.fixup.tree.outcome%d.entry" % outcome, fn="reb_collision_search")
    def _(v, outcome=outcome):
        """resolve loop with a tree (removal deferred: particle flagged, nothing moves)."""
        fixup_task(v, 0, outcome, True, "entry")


@P.task("resolve.randomize", fn="reb_collision_search")
def _(v):
    """randomisation loop: an arbitrary iteration is a transposition of two in-range entries (so the loop permutes the
    list: no record lost or duplicated)."""
    s = mk_sim(v)
    r = s.r
    r.N_var = z3.IntVal(0)
    r.collision = v.enumc("REB_COLLISION_NONE")
    s.NC = v.int("N_allocated_collisions")
    r.N_allocated_collisions = s.NC
    s.coll = v.array("struct reb_collision", s.NC, "C")
    r.collisions = s.coll.ptr
    C0 = {f: s.coll.array(*f) for f in CFIELDS}

    def rand_r(eng, st, args, n):
        x = eng.fresh("rand", z3.IntSort())
        st.assume(x >= 0)            # rand_r returns a value in [0, RAND_MAX]
        return x
    v.contract("rand_r", rand_r)

    def enter(eng, st, nest):
        s.cN = z3.Int("collisions_N_head")
        eng.write(st, eng.local_ptr(st, "collisions_N"), s.cN)
        st.assume(z3.And(0 <= s.cN, s.cN <= s.NC))

    def after(eng, st, nest):
        t = v.task.name
        I = nest.K["i"]
        nw = eng.local(st, "new")
        eng.oblige(st, t + ".partner_in_range", z3.And(0 <= nw, nw < s.cN))
        arr = st.mem.get(s.coll.obj.id)
        k = z3.Int("k_other")
        for f in CFIELDS:
            c1 = eng._leaf_array(arr, f)
            eng.oblige(st, t + ".swap." + lname(f), z3.And(z3.Select(c1, I) == z3.Select(C0[f], nw), z3.Select(c1, nw) == z3.Select(C0[f], I)))
            eng.oblige(st, t + ".others." + lname(f), z3.Implies(z3.And(k != I, k != nw), z3.Select(c1, k) == z3.Select(C0[f], k)))
        eng.oblige(st, t + ".count_unchanged", eng.local(st, "collisions_N") == s.cN)
        n = cur(s)
        eng.oblige(st, t + ".particles_untouched", z3.And(*[n[f] == s.old[f] for f in s.leaves]))
    Nest(v, "reb_collision_search", [(21, "i", z3.IntVal(0), lambda nest, K: K < s.cN)], after, enter=enter)
    v.call("reb_collision_search", s.rp)


# ============================================================================ tree search
@P.task("merge.tree_radius_bounds", fn="reb_collision_resolve_merge")
def _(v):
    """The tree search prunes with r->max_radius1 (collision.c:583: rp = p1_r + max_radius1 + 0.866 w), which is only
    sound while max_radius0 >= every radius and max_radius1 >= every radius but the largest (reb_simulation_add
    maintains this).  A merge changes a radius, so it has to re-establish the bound for the survivor."""
    s = mk_sim(v)
    c, p1, p2 = mk_collision(v, s, "p1<p2")
    r = s.r
    r.track_energy_offset = 0
    merge_pre(v, s, p1, p2)
    o = s.old
    R0, R1 = r.max_radius0, r.max_radius1
    k = v.int("k")
    a_, b_ = z3.Ints("a_r b_r")
    rad = o[("r",)]
    v.assume(z3.ForAll([a_], z3.Implies(z3.And(0 <= a_, a_ < s.N), z3.And(0 <= z3.Select(rad, a_), z3.Select(rad, a_) <= R0))))
    v.assume(z3.ForAll([a_, b_], z3.Implies(z3.And(0 <= a_, a_ < b_, b_ < s.N),
                                            z3.Or(z3.Select(rad, a_) <= R1, z3.Select(rad, b_) <= R1))))
    v.assume(0 <= k, k < s.N, k != p1, k != p2)
    v.call("reb_collision_resolve_merge", s.rp, c)
    n = cur(s)
    rnew = sel(n, "r", p1)
    v.prove("max_radius0", rnew <= r.max_radius0, order=("z3", "cvc5"))
    v.prove("max_radius1", z3.Or(rnew <= r.max_radius1, sel(n, "r", k) <= r.max_radius1), order=("z3", "cvc5"))


@P.task("search.tree.leaf", fn="reb_tree_get_nearest_neighbour_in_cell")
def _(v):
    """leaf case of the tree descent: the leaf's particle is recorded against p1 iff it is another particle,
    overlapping (|gb - x2|^2 <= (p1_r + r2)^2) and approaching; list growth memory-safe."""
    s = search_setup(v, "REB_COLLISION_TREE", 0, False)
    v.eng.merge_ifs = False
    cell, cellp = v.struct_obj("struct reb_treecell", "cell")
    J = v.int("pt")
    cell.pt = J
    v.assume(0 <= J, J < s.N)
    cN = v.int("collisions_N")
    cnc, cnp = v.cell("int", "collisions_N", cN)
    v.assume(0 <= cN, cN <= s.NC)
    gb, gbun = v.struct("struct reb_vec6d", "gb"), v.struct("struct reb_vec6d", "gbunmod")
    ri, p1r = v.int("ri"), v.real("p1_r")
    nr2c, nr2p = v.cell("double", "nearest_r2", v.real("nearest_r2"))
    cn, cnptr = v.struct_obj("struct reb_collision", "collision_nearest")
    I = v.int("i")
    cn.p1 = I
    C0 = {f: s.coll.array(*f) for f in CFIELDS}
    v.call("reb_tree_get_nearest_neighbour_in_cell", s.rp, cnp, gb, gbun, ri, p1r, nr2p, cnptr, cellp)
    o = s.old
    d = [gb[f] - sel(o, f, J) for f in "xyz"]
    dv = [gb["v" + f] - sel(o, "v" + f, J) for f in "xyz"]
    rs = p1r + sel(o, "r", J)
    hit = z3.And(J != I, sum(a * a for a in d) <= rs * rs, z3.Not(sum(a * b for a, b in zip(d, dv)) > 0))
    cN1 = cnc.value if False else v.st.mem.get(cnc.id).value
    v.prove("hit_is_appended", z3.Implies(hit, cN1 == cN + 1))
    v.prove("only_hits_are_appended", z3.Implies(z3.Not(hit), cN1 == cN))
    arr1, C1 = coll_arrays(v, v.st, s.r._s)
    v.prove("record.p1", z3.Implies(hit, z3.Select(C1[("p1",)], cN) == I))
    v.prove("record.p2", z3.Implies(hit, z3.Select(C1[("p2",)], cN) == J))
    for f in XV:
        v.prove("record.gb." + f, z3.Implies(hit, z3.Select(C1[("gb", f)], cN) == gbun[f]))
    k = v.int("k_entry")
    for f in CFIELDS:
        v.prove("earlier_entries_kept." + lname(f), z3.Implies(z3.And(0 <= k, k < cN), z3.Select(C1[f], k) == z3.Select(C0[f], k)))
    v.prove("cut.preserved", z3.And(0 <= cN1, cN1 <= s.r.N_allocated_collisions, s.r.N_allocated_collisions == arr1.length))
    n = cur(s)
    v.prove("particles_untouched", z3.And(*[n[f] == s.old[f] for f in s.leaves]))


# ============================================================================ not decided
P.not_decided.append("tree search, internal nodes: the pruning lemma |x1-c| < p1_r + max_radius1 + (sqrt3/2) w for every overlapping "
                     "leaf particle below c was not discharged (3-D triangle inequality with square roots: z3 nlsat not attempted "
                     "within budget); in exact reals it is moreover false on a sliver, the code's constant 0.86602540378443 being "
                     "4.4e-15 below sqrt(3)/2 and the comparison strict (rounding-level, not claimed as a defect).  Only the leaf "
                     "case (search.tree.leaf) and the radius bound the pruning relies on (merge.tree_radius_bounds: violated) are stated")
P.not_decided.append("recursive descent reb_tree_get_nearest_neighbour_in_cell / reb_tree_check_for_overlapping_trajectories_in_cell "
                     "over the oct-tree (tree well-formedness belongs to C15); LINETREE leaf test (same three-candidate minimum "
                     "as the LINE body, not re-proved on the tree variant); reb_simulation_update_tree")
P.not_decided.append("search in MERCURIUS / TRACE modes (encounter_map subsets, Ninner = 1) and with shear ghost boxes "
                     "(time-dependent shift, gb.v != 0): configurations fixed to IAS15-like integrators and periodic images")
P.not_decided.append("whole-nest induction for the searches: proved = iteration-space headers + body contract of an arbitrary "
                     "iteration + monotone frame; the step from there to 'every hit pair is in the list' is the trusted "
                     "iteration-space rule, not a solver-checked induction")
P.not_decided.append("multiset of surviving particles over a whole resolve loop (no particle lost or duplicated) is reduced to the "
                     "removal contract of reb_simulation_remove_particle (C14) plus the proved per-entry fix-up clause; the "
                     "induction over the pending list is the cut invariant, initial establishment by the search is the record.* "
                     "clauses (p1 != p2, indices of live particles)")
P.not_decided.append("user-supplied resolve callbacks and restitution functions beyond their stated frame assumptions; "
                     "collisions_plog bookkeeping of the hard-sphere resolver (ring diagnostics)")
