"""C13: collisions detected completely, resolved conservatively (src/collision.c).

Resolvers (merge / hardsphere / halt) are executed on two symbolic particles of a symbolic particle
array; the specification side is written from the property text (conservation of mass, momentum,
centre of mass, volume; restitution law).  The search loops and the index fix-up of the resolve loop
are in the second half of this file.  R-mode (doubles as reals), Z-mode (C ints as integers).
"""
import z3
from engine.api import Pack
from engine.mem import Ptr, NULL, Opaque, FuncRef, StructObj, ArrObj
from engine.csym import as_int, as_real, as_bool, const_int, simp, Flow
from engine.cexec import PathEnd

P = Pack("C13", ["src/collision.c", "src/boundary.c"], "collisions")
PACKS = [P]
P.assume("machine arithmetic treated as mathematical (doubles as reals, C integers as integers); 'to rounding error' not decided")
P.assume("cbrt axiomatised per occurrence: cbrt(x)^3 = x; sqrt: y^2=x & y>=0; atan2(y,x)=t: rho*cos t=x, rho*sin t=y, "
         "rho>=0, rho^2=x^2+y^2, sin^2+cos^2=1")
P.assume("resolver contracts: 0 <= c.p1, c.p2 < N <= N_allocated, c.p1 != c.p2 (the search never pairs a particle with "
         "itself: proved for the direct/line searches in search.*.body)")
P.assume("resolver contracts are stated for m1+m2 != 0; the massless pair is examined separately "
         "(*.defined_for_massless_pair)")

XV = ("x", "y", "z", "vx", "vy", "vz")


class Sim:
    pass


def mk_sim(v, integrator="REB_INTEGRATOR_IAS15"):
    """simulation with a symbolic particle array of N_allocated elements, N of them in use"""
    s = Sim()
    s.r, s.rp = v.struct_obj("struct reb_simulation", "r")
    s.N, s.Nalloc = v.int("N"), v.int("N_allocated")
    s.parts = v.array("struct reb_particle", s.Nalloc, "P")
    s.r.N, s.r.N_allocated = s.N, s.Nalloc
    s.r.particles = s.parts.ptr
    s.r.integrator = v.enumc(integrator)
    v.assume(0 <= s.N, s.N <= s.Nalloc)
    s.leaves = sorted(s.parts.obj.leaf_types, key=str)
    s.old = {f: s.parts.array(*f) for f in s.leaves}
    return s


def cur(s):
    return {f: s.parts.array(*f) for f in s.leaves}


def lname(f):
    return ".".join(str(x) for x in f)


FALSE_ATOMS = []      # per task: atoms known to be false on every path (index disequalities from the precondition)


def norm(e):
    """simplify a term using the index disequalities of the precondition (p1 != p2), so that
    Select(Store(a, p2, .), p1) reduces syntactically and the polynomial back end sees plain atoms"""
    if FALSE_ATOMS:
        e = z3.simplify(e, expand_select_store=True)
        e = z3.substitute(e, *[(a, z3.BoolVal(False)) for a in FALSE_ATOMS])
    return z3.simplify(e)


def sel(arrs, f, i):
    return norm(z3.Select(arrs[(f,)], i))


def mk_collision(v, s, order=None):
    """a collision record naming two different live particles; order fixes which index is larger (the
    two orders are the two callbacks a pair can produce) and makes the executor fork instead of building ite terms"""
    c = v.struct("struct reb_collision", "c")
    p1, p2 = c.p1, c.p2
    v.assume(0 <= p1, p1 < s.N, 0 <= p2, p2 < s.N, p1 != p2)
    FALSE_ATOMS[:] = [p1 == p2, p2 == p1]
    if order == "p1<p2":
        v.assume(p1 < p2)
    elif order == "p1>p2":
        v.assume(p1 > p2)
    if order:
        v.eng.merge_ifs = False
    return c, p1, p2


ORDERS = (("lt", "p1<p2"), ("gt", "p1>p2"))


# ============================================================================ merge
def merge_common(v, s, p1, p2, ret, order):
    """postconditions shared by the merge tasks; lo survives, hi is to be removed"""
    o, n = s.old, cur(s)
    lo, hi = (p1, p2) if order == "p1<p2" else (p2, p1)
    mi, mj = sel(o, "m", lo), sel(o, "m", hi)
    M = sel(n, "m", lo)
    v.prove("mass", M == mi + mj)
    for f in XV:
        # m' x' = m_i x_i + m_j x_j  (momentum for f in vx.., centre of mass for f in x..)
        v.prove("weighted." + f, M * sel(n, f, lo) == mi * sel(o, f, lo) + mj * sel(o, f, hi))
    rn = sel(n, "r", lo)
    v.prove("volume", rn * rn * rn == sel(o, "r", lo) ** 3 + sel(o, "r", hi) ** 3)
    v.prove("last_collision", sel(n, "last_collision", lo) == s.r.t)
    # the particle with the HIGHER index is the one to be removed, whichever way round the pair is reported
    v.prove("removes_higher", z3.Or(z3.And(ret == 2, c_is(p2, hi)), z3.And(ret == 1, c_is(p1, hi))))
    v.prove("ret_by_order", ret == z3.If(p1 < p2, 2, 1))
    # frame: every other particle untouched, and the untouched members of the survivor
    k = v.int("k")
    touched = set(XV) | {"m", "r", "last_collision"}
    for f in s.leaves:
        v.prove("frame.others." + lname(f), z3.Implies(k != lo, z3.Select(n[f], k) == z3.Select(o[f], k)))
        if not (len(f) == 1 and f[0] in touched):
            v.prove("frame.survivor." + lname(f), z3.Select(n[f], lo) == z3.Select(o[f], lo))
    v.prove("frame.N", z3.And(s.r.N == s.N, s.r.N_allocated == s.Nalloc))
    return lo, hi, mi, mj


def c_is(a, b):
    return a == b


def merge_pre(v, s, p1, p2, massless_ok=False):
    v.assume(sel(s.old, "last_collision", p1) != s.r.t, sel(s.old, "last_collision", p2) != s.r.t)
    if not massless_ok:
        v.assume(sel(s.old, "m", p1) + sel(s.old, "m", p2) != 0)


for tag, order in ORDERS:
    @P.task("merge.conserves." + tag, fn="reb_collision_resolve_merge")
    def _(v, order=order):
        """track_energy_offset = 0: mass, momentum, centre of mass, volume; removal of the higher index; frame."""
        s = mk_sim(v)
        c, p1, p2 = mk_collision(v, s, order)
        s.r.track_energy_offset = 0
        e0 = s.r.energy_offset
        merge_pre(v, s, p1, p2)
        ret = v.call("reb_collision_resolve_merge", s.rp, c)
        merge_common(v, s, p1, p2, ret, order)
        v.prove("energy_offset_untouched", s.r.energy_offset == e0)


def kin(m, vx, vy, vz):
    return m * (vx * vx + vy * vy + vz * vz) / 2


for tag, order in ORDERS:
    for act in ("active", "testpair"):
        @P.task("merge.energy_offset.%s.%s" % (tag, act), fn="reb_collision_resolve_merge")
        def _(v, order=order, act=act):
            """track_energy_offset != 0 (inertial-frame integrators): same conservation clauses, and
            energy_offset' - energy_offset = E_before - E_after with E the kinetic energy of the pair plus their mutual
            potential energy (counted iff at least one of the two is an active particle)."""
            s = mk_sim(v)
            c, p1, p2 = mk_collision(v, s, order)
            r = s.r
            v.assume(r.track_energy_offset != 0)
            Nact, Nvar = v.int("N_active"), v.int("N_var")
            r.N_active, r.N_var = Nact, Nvar
            v.assume(Nvar == 0, Nact >= -1)
            e0, G = r.energy_offset, r.G
            merge_pre(v, s, p1, p2)
            o = s.old
            lo, hi = (p1, p2) if order == "p1<p2" else (p2, p1)
            nactive = z3.If(Nact == -1, s.N - Nvar, Nact)
            interacting = z3.Or(lo < nactive, hi < nactive)
            v.assume(interacting if act == "active" else z3.Not(interacting))
            d2 = sum((sel(o, f, lo) - sel(o, f, hi)) ** 2 for f in "xyz")
            if act == "active":
                v.assume(d2 != 0)       # distinct positions (the potential energy is otherwise undefined)
            ret = v.call("reb_collision_resolve_merge", s.rp, c)
            merge_common(v, s, p1, p2, ret, order)
            n = cur(s)
            Ekin_i = kin(*[sel(o, f, lo) for f in ("m", "vx", "vy", "vz")]) + kin(*[sel(o, f, hi) for f in ("m", "vx", "vy", "vz")])
            Ekin_f = kin(*[sel(n, f, lo) for f in ("m", "vx", "vy", "vz")])
            dE = r.energy_offset - e0
            if act == "active":
                # dE = Ekin_i - G m_i m_j / d - Ekin_f  with d = sqrt(d2) > 0, stated without the root:
                # (Ekin_i - Ekin_f - dE) is the positive number G m_i m_j / d
                u = Ekin_i - Ekin_f - dE
                mm = G * sel(o, "m", lo) * sel(o, "m", hi)
                v.prove("offset.potential_sq", u * u * d2 == mm * mm)
                v.prove("offset.potential_sign", z3.Or(u == 0, (u > 0) == (mm > 0)), order=("z3", "cvc5"))
            else:
                v.prove("offset.kinetic_only", dE == Ekin_i - Ekin_f)


def prove_unchanged(v, s, tag="unchanged"):
    n = cur(s)
    for f in s.leaves:
        v.prove("%s.%s" % (tag, lname(f)), n[f] == s.old[f])


@P.task("merge.guard_second_callback", fn="reb_collision_resolve_merge")
def _(v):
    """A particle that already took part in a collision at this time (last_collision == t, which the first merge sets on
    the survivor) is not merged again: the mirrored / a further callback returns 0 and changes nothing."""
    s = mk_sim(v)
    c, p1, p2 = mk_collision(v, s)
    r = s.r
    e0, N0 = r.energy_offset, r.N
    v.assume(z3.Or(sel(s.old, "last_collision", p1) == r.t, sel(s.old, "last_collision", p2) == r.t))
    ret = v.call("reb_collision_resolve_merge", s.rp, c)
    v.prove("returns_0", ret == 0)
    prove_unchanged(v, s)
    v.prove("sim_unchanged", z3.And(r.energy_offset == e0, r.N == N0))


@P.task("merge.defined_for_massless_pair", fn="reb_collision_resolve_merge")
def _(v):
    """No precondition on the masses: the search hands over any overlapping pair, including two test particles
    (m = 0).  The definedness obligation of 1/(m_i+m_j) is what is examined here."""
    s = mk_sim(v)
    c, p1, p2 = mk_collision(v, s, "p1<p2")
    s.r.track_energy_offset = 0
    merge_pre(v, s, p1, p2, massless_ok=True)
    v.assume(sel(s.old, "m", p1) >= 0, sel(s.old, "m", p2) >= 0)
    v.call("reb_collision_resolve_merge", s.rp, c)


@P.task("halt", fn="reb_collision_resolve_halt")
def _(v):
    s = mk_sim(v)
    c, p1, p2 = mk_collision(v, s)
    r = s.r
    ret = v.call("reb_collision_resolve_halt", s.rp, c)
    v.prove("status", r.status == v.enumc("REB_STATUS_COLLISION"))
    v.prove("keeps_both", ret == 0)
    n = cur(s)
    k = v.int("k")
    for f in s.leaves:
        if f == ("last_collision",):
            v.prove("last_collision", z3.And(sel(n, "last_collision", p1) == r.t, sel(n, "last_collision", p2) == r.t))
            v.prove("frame.others.last_collision", z3.Implies(z3.And(k != p1, k != p2), z3.Select(n[f], k) == z3.Select(s.old[f], k)))
        else:
            v.prove("frame." + lname(f), n[f] == s.old[f])
    v.prove("frame.N", r.N == s.N)


# ============================================================================ hard sphere
P.assume("hardsphere: both radii > 0 (with a zero radius the expression minr*mcv*(1-(r-maxr)/minr) is 0*inf = NaN in IEEE "
         "arithmetic, both comparisons with it are false and dvx2 is unaffected; NaN is not modelled in R-mode)")
P.assume("hardsphere, restitution/energy/separation clauses: the two centres (including the ghost-box shift) do not "
         "coincide (the line of centres is otherwise undefined; momentum conservation and the frame do not need this)")


def implied(v, cond):
    """is `cond` forced by the hypotheses of the current path? (used to tell the early-return paths apart)"""
    sol = z3.Solver()
    sol.set("timeout", 3000)
    for h in v.st.pc:
        sol.add(h)
    sol.add(z3.Not(cond))
    return sol.check() == z3.unsat


def hs_setup(v, eps_mode, mcv_zero):
    s = mk_sim(v)
    c, p1, p2 = mk_collision(v, s)
    v.eng.merge_ifs = False
    r = s.r
    o = s.old
    s.c, s.p1, s.p2 = c, p1, p2
    s.m1, s.m2 = sel(o, "m", p1), sel(o, "m", p2)
    s.r1, s.r2 = sel(o, "r", p1), sel(o, "r", p2)
    gb = c.gb
    s.x21 = [sel(o, f, p1) + gb[f] - sel(o, f, p2) for f in "xyz"]
    s.v21 = [sel(o, "v" + f, p1) + gb["v" + f] - sel(o, "v" + f, p2) for f in "xyz"]
    s.d2 = sum(a * a for a in s.x21)
    s.sdot = sum(a * b for a, b in zip(s.x21, s.v21))
    s.overlap = z3.Not((s.r1 + s.r2) * (s.r1 + s.r2) < s.d2)
    s.approaching = z3.Not(s.sdot > 0)
    v.assume(s.r1 > 0, s.r2 > 0)
    s.plog0, s.logn0 = r.collisions_plog, r.collisions_log_n
    if mcv_zero:
        r.minimum_collision_velocity = z3.RealVal(0)
    if eps_mode == "default":
        r.coefficient_of_restitution = NULL
        s.eps = z3.RealVal(1)
    else:
        s.eps = v.real("eps")
        r.coefficient_of_restitution = FuncRef("user_coefficient_of_restitution")

        def cb(eng, st, args, n):
            # the callback is handed the normal component of the relative velocity: arg * |x21| = v21 . x21
            a = as_real(args[1])
            eng.oblige(st, v.task.name + ".callback_gets_normal_velocity.sq", a * a * s.d2 == s.sdot * s.sdot)
            return s.eps
        v.contract("user_coefficient_of_restitution", cb)
    return s


def hs_post(v, s, ret, energy, restitution):
    r, o, n = s.r, s.old, cur(s)
    p1, p2 = s.p1, s.p2
    v.prove("returns_0", ret == 0)          # never asks for a removal
    k = v.int("k")
    for f in s.leaves:
        if f in (("vx",), ("vy",), ("vz",), ("last_collision",)):
            v.prove("frame.others." + lname(f), z3.Implies(z3.And(k != p1, k != p2), z3.Select(n[f], k) == z3.Select(o[f], k)))
        else:
            v.prove("frame." + lname(f), n[f] == o[f])
    v.prove("frame.N", r.N == s.N)
    if not implied(v, z3.And(s.overlap, s.approaching)):
        # early return: not overlapping, or not approaching
        v.prove("early_return.reason", z3.Not(z3.And(s.overlap, s.approaching)))
        for f in ("vx", "vy", "vz", "last_collision"):
            v.prove("early_return.unchanged." + f, n[(f,)] == o[(f,)])
        v.prove("early_return.log", z3.And(r.collisions_plog == s.plog0, r.collisions_log_n == s.logn0))
        return
    dv1 = [sel(n, "v" + f, p1) - sel(o, "v" + f, p1) for f in "xyz"]
    dv2 = [sel(n, "v" + f, p2) - sel(o, "v" + f, p2) for f in "xyz"]
    for i, f in enumerate("xyz"):
        v.prove("momentum." + f, s.m1 * dv1[i] + s.m2 * dv2[i] == 0)
    # the impulse acts along the line of centres: dv1 x x21 = 0
    X = s.x21
    v.prove("central.x", dv1[1] * X[2] - dv1[2] * X[1] == 0)
    v.prove("central.y", dv1[2] * X[0] - dv1[0] * X[2] == 0)
    v.prove("central.z", dv1[0] * X[1] - dv1[1] * X[0] == 0)
    v.prove("stamped", z3.And(sel(n, "last_collision", p1) == r.t, sel(n, "last_collision", p2) == r.t))
    v.prove("counted", r.collisions_log_n == s.logn0 + 1)
    post_rel = [s.v21[i] + dv1[i] - dv2[i] for i in range(3)]
    post_dot = sum(a * b for a, b in zip(post_rel, X))
    if restitution == "exact":
        v.prove("restitution", post_dot == -s.eps * s.sdot)
        v.lemma("separating", [post_dot == -s.eps * s.sdot, s.eps >= 0, s.approaching], post_dot >= 0)
    elif restitution == "atleast":
        v.prove("restitution_at_least", post_dot >= -s.eps * s.sdot, order=("z3", "cvc5"))
    if energy:
        e0 = kin(s.m1, *[sel(o, "v" + f, p1) for f in "xyz"]) + kin(s.m2, *[sel(o, "v" + f, p2) for f in "xyz"])
        e1 = kin(s.m1, *[sel(n, "v" + f, p1) for f in "xyz"]) + kin(s.m2, *[sel(n, "v" + f, p2) for f in "xyz"])
        gbv = [s.c.gb["v" + f] for f in "xyz"]
        # with a moving ghost box (shear) the bounce is elastic in the frame of the image; here: gb.v = 0
        v.prove("kinetic_energy", e1 == e0)


@P.task("hardsphere.elastic", fn="reb_collision_resolve_hardsphere")
def _(v):
    """default restitution (eps = 1), minimum_collision_velocity = 0, image at rest (gb.v = 0):
    momentum, central impulse, normal relative velocity exactly reversed (pair separating), kinetic energy conserved."""
    s = hs_setup(v, "default", True)
    v.assume(s.m1 + s.m2 != 0, s.d2 != 0)
    v.assume(*[s.c.gb["v" + f] == 0 for f in "xyz"])
    ret = v.call("reb_collision_resolve_hardsphere", s.rp, s.c)
    hs_post(v, s, ret, energy=True, restitution="exact")
