"""C14: particle bookkeeping of src/particle.c (add / remove / remove_all / index / hash lookup).

The "any sequence of operations" quantifier is discharged through a data-structure invariant wf(r):
every public operation is proved to preserve wf and to transform the abstract view
view(r) = <particles[0..N)> as the list model says; any finite history is then covered by induction
on its length.  Z-mode (C integers as mathematical integers), particle payload = every scalar and
pointer leaf of struct reb_particle (one z3 array per leaf).

wf(r):  0 <= N <= N_allocated, particles is a block of N_allocated elements (or NULL with N_allocated == 0),
        0 <= N_var <= N, -1 <= N_active, every particles[j<N].sim == r,
        lookup table: block of N_allocated_lookup >= N_lookup >= 0 entries, every entry k < N_lookup has index >= 0
        (entries are only ever written by reb_update_particle_lookup_table); the *content* of the table is
        otherwise arbitrary (= stale in an arbitrary way: this covers every interleaving of lookups with add/remove).
"""
import z3
from engine.api import Pack
from engine.mem import Ptr, NULL, Opaque, FuncRef, StructObj, ArrObj
from engine.csym import as_int, as_bool, const_int, Unsupported
from engine.cexec import PathEnd

P = Pack("C14", ["src/particle.c", "src/boundary.c"], "particle bookkeeping")
PACKS = [P]
P.assume("C integers treated as mathematical integers (no wrap-around): counts are assumed < 2^30 so that "
         "(int)r->N, N_allocated*2, left+right and sizeof(struct reb_particle)*N_allocated do not overflow")
P.assume("reb_simulation_error / reb_simulation_warning (rebound.c) only append to r->messages; they do not touch the "
         "particle storage, the counters or the lookup table (modelled as no-ops)")
P.assume("free_particle_ap == NULL (no REBOUNDx callback installed) in all tasks")
P.assume("malloc/realloc succeed (the code under test does not check for NULL either); realloc keeps the old prefix")
P.assume("'simulation unchanged' for a failed request means: N, N_allocated, N_var, N_active, the particles pointer and "
         "every leaf of every particle unchanged; the lazily rebuilt hash lookup table is a cache and not part of it")

INTEGRATORS_PLAIN = ("REB_INTEGRATOR_IAS15", "REB_INTEGRATOR_LEAPFROG")
K = z3.Int("k")


def noop_contract(eng, st, args, n):
    return None


def prune_if_infeasible(v):
    """end the current path when its hypotheses are contradictory (e.g. the fall-through exit of a loop that can only
    be left by `return`); the solver decides, unknown = keep the path"""
    if not v.eng.feasible(v.st, z3.BoolVal(True)):
        raise PathEnd("infeasible")


class S:
    pass


def mk_sim(v, integrator="REB_INTEGRATOR_IAS15", tree=False, null_particles=False):
    """A symbolic simulation satisfying wf(r); returns a namespace with the pre-state."""
    s = S()
    s.v = v
    r, rp = v.struct_obj("struct reb_simulation", "r")
    s.r, s.rp = r, rp
    s.rid = v.eng.ptr_to_int(rp)
    s.N, s.Nalloc, s.Nvar, s.Nactive = v.int("N"), v.int("N_allocated"), v.int("N_var"), v.int("N_active")
    r.N, r.N_allocated, r.N_var, r.N_active = s.N, s.Nalloc, s.Nvar, s.Nactive
    r.integrator = v.enumc(integrator)
    r.free_particle_ap = NULL
    v.eng.check_unsigned_wrap = True       # `r->N-1` etc. must not wrap (obligation arith.unsigned_nowrap@...)
    if tree is False:
        r.tree_root = NULL
    else:
        v.assume(r.tree_root.tag)          # tree_root != NULL
    # wf(r)
    v.assume(0 <= s.N, s.N <= s.Nalloc, 0 <= s.Nvar, s.Nvar <= s.N, -1 <= s.Nactive, s.Nactive <= s.N - s.Nvar)
    if null_particles:
        s.parts = None
        r.particles = NULL
        v.assume(s.Nalloc == 0)
        s.leaves, s.old = [], {}
    else:
        s.parts = v.array("struct reb_particle", s.Nalloc, "P")
        r.particles = s.parts.ptr
        s.pid = s.parts.obj.id
        s.leaves = sorted(s.parts.obj.leaf_types, key=str)
        s.old = {f: s.parts.array(*f) for f in s.leaves}
        v.assume(z3.ForAll([K], z3.Implies(z3.And(0 <= K, K < s.N), z3.Select(s.old[("sim",)], K) == s.rid)))
    for nm in ("reb_simulation_error", "reb_simulation_warning"):
        v.contract(nm, noop_contract)
    return s


def parts_obj(s, st=None):
    """the array object r->particles currently points to (None when NULL)"""
    st = st or s.v.st
    robj = st.mem.objs[s.rp.obj]
    p = robj.fields["particles"]
    if not isinstance(p, Ptr) or p.obj is None:
        return None
    return st.mem.objs[p.obj]


def cur_arrays(s, st=None):
    o = parts_obj(s, st)
    return {f: s.v.eng._leaf_array(o, f) for f in s.leaves}


def lname(f):
    return ".".join(str(x) for x in f)


def prove_wf(v, s, tag="wf"):
    r = s.r
    v.prove(tag + ".counters", z3.And(0 <= r.N, r.N <= r.N_allocated, 0 <= r.N_var, r.N_var <= r.N, -1 <= r.N_active))
    # the active particles are among the real particles: every force loop runs i < N_active over particles[]
    v.prove(tag + ".N_active_at_most_N_real", r.N_active <= r.N - r.N_var)
    o = parts_obj(s)
    if o is None:
        v.prove(tag + ".storage_is_block_of_N_allocated", r.N_allocated == 0)
    else:
        fr = o.freed if z3.is_expr(o.freed) else z3.BoolVal(bool(o.freed))
        v.prove(tag + ".storage_is_block_of_N_allocated", z3.And(as_int(o.length) == r.N_allocated, z3.Not(fr)))
        p = r.particles
        v.prove(tag + ".particles_points_to_block_start", z3.And(as_int(p.path[-1]) == 0, z3.Not(as_bool_null(p))))
        j = z3.Int("j_wf")
        v.st.assume(z3.And(0 <= j, j < r.N))
        v.prove(tag + ".sim_backpointers", z3.Select(v.eng._leaf_array(o, ("sim",)), j) == s.rid)


def as_bool_null(p):
    if p.null is True:
        return z3.BoolVal(True)
    if p.null is False:
        return z3.BoolVal(False)
    return p.null


def prove_unchanged(v, s, name="state_unchanged"):
    r = s.r
    v.prove(name + ".counters", z3.And(r.N == s.N, r.N_allocated == s.Nalloc, r.N_var == s.Nvar, r.N_active == s.Nactive))
    o = parts_obj(s)
    if s.parts is None:
        v.ground(name + ".storage", o is None)
        return
    v.ground(name + ".same_storage_block", o is not None and o.id == s.pid, "r->particles no longer points to the original block")
    if o is not None:
        cur = cur_arrays(s)
        v.prove(name + ".particles", z3.And(*[cur[f] == s.old[f] for f in s.leaves]))


# =====================================================================================================
# reb_simulation_remove_particle
# =====================================================================================================
REMOVE = "reb_simulation_remove_particle"
SHIFT_LOOP = 5      # ordinal of `for(j=index; j<r->N; j++) particles[j] = particles[j+1]` among the loops of the function


def shift_invariant(s, index):
    def inv(L):
        j = L.j
        cur = cur_arrays(s, L.st)
        out = [("range", z3.And(index <= j, j <= s.N - 1))]
        for f in s.leaves:
            out.append(("shifted." + lname(f), z3.ForAll([K], z3.Implies(z3.And(index <= K, K < j),
                        z3.Select(cur[f], K) == z3.Select(s.old[f], K + 1)))))
            out.append(("rest." + lname(f), z3.ForAll([K], z3.Implies(z3.Or(K < index, K >= j),
                        z3.Select(cur[f], K) == z3.Select(s.old[f], K)))))
        return out
    return inv


def view_after_sorted_removal(v, s, index):
    """spec: the list without element `index`, order preserved"""
    cur = cur_arrays(s)
    j = v.int("j")
    v.assume(0 <= j, j < s.N - 1)
    for f in s.leaves:
        v.prove("view." + lname(f), z3.Select(cur[f], j) == z3.If(j < index, z3.Select(s.old[f], j), z3.Select(s.old[f], j + 1)))


def gen_remove_tasks(integ):
    tag = integ.replace("REB_INTEGRATOR_", "").lower()

    @P.task("remove_particle.%s.sorted" % tag, fn=REMOVE)
    def _(v):
        """keep_sorted != 0, no tree, 0 <= index < N, N >= 2, no variational particles:
        view' = view without element index (order preserved), N_active' = N_active-1 iff index < N_active."""
        s = mk_sim(v, integ)
        index, ks = v.int("index"), v.int("keep_sorted")
        v.assume(ks != 0, 0 <= index, index < s.N, s.N >= 2, s.Nvar == 0)
        v.loop(REMOVE, SHIFT_LOOP, invariant=shift_invariant(s, index), variant=lambda L: s.N - L.j)
        ret = v.call(REMOVE, s.rp, index, ks)
        r = s.r
        v.prove("returns_1", ret == 1)
        v.prove("N_decremented", r.N == s.N - 1)
        v.prove("N_active_as_documented", r.N_active == z3.If(index < s.Nactive, s.Nactive - 1, s.Nactive))
        v.prove("other_counters_unchanged", z3.And(r.N_allocated == s.Nalloc, r.N_var == s.Nvar))
        v.ground("same_storage_block", parts_obj(s).id == s.pid)
        prove_wf(v, s)
        view_after_sorted_removal(v, s, index)

    @P.task("remove_particle.%s.unsorted" % tag, fn=REMOVE)
    def _(v):
        """keep_sorted == 0, no tree: particles[index] := old last particle, N' = N-1."""
        s = mk_sim(v, integ)
        index, ks = v.int("index"), v.int("keep_sorted")
        v.assume(ks == 0, 0 <= index, index < s.N, s.N >= 2, s.Nvar == 0)
        ret = v.call(REMOVE, s.rp, index, ks)
        r = s.r
        v.prove("returns_1", ret == 1)
        v.prove("N_decremented", r.N == s.N - 1)
        v.prove("other_counters_unchanged", z3.And(r.N_allocated == s.Nalloc, r.N_var == s.Nvar))
        # the active particles stay inside the array: with every particle active (N_active == N) the count follows N,
        # otherwise it is left alone (the moved particle takes over the slot, and the role, of the removed one)
        v.prove("N_active_follows_N_only_if_all_were_active", r.N_active == z3.If(s.Nactive > s.N - 1, s.N - 1, s.Nactive))
        v.ground("same_storage_block", parts_obj(s).id == s.pid)
        prove_wf(v, s)
        cur = cur_arrays(s)
        j = v.int("j")
        v.assume(0 <= j, j < s.N - 1)
        for f in s.leaves:
            v.prove("view." + lname(f), z3.Select(cur[f], j) == z3.If(j == index, z3.Select(s.old[f], s.N - 1), z3.Select(s.old[f], j)))

    @P.task("remove_particle.%s.tree_flags_particle" % tag, fn=REMOVE)
    def _(v):
        """keep_sorted == 0 with a tree: the particle is only flagged (y = NaN), N unchanged, nothing else touched."""
        s = mk_sim(v, integ, tree=True)
        index, ks = v.int("index"), v.int("keep_sorted")
        v.assume(ks == 0, 0 <= index, index < s.N, s.N >= 2, s.Nvar == 0)
        ret = v.call(REMOVE, s.rp, index, ks)
        r = s.r
        v.prove("returns_1", ret == 1)
        v.prove("counters_unchanged", z3.And(r.N == s.N, r.N_allocated == s.Nalloc, r.N_var == s.Nvar, r.N_active == s.Nactive))
        v.ground("same_storage_block", parts_obj(s).id == s.pid)
        cur = cur_arrays(s)
        v.prove("flagged", z3.Select(cur[("y",)], index) == z3.Real("NAN"))
        v.prove("others_untouched.y", z3.ForAll([K], z3.Implies(K != index, z3.Select(cur[("y",)], K) == z3.Select(s.old[("y",)], K))))
        v.prove("other_fields_untouched", z3.And(*[cur[f] == s.old[f] for f in s.leaves if f != ("y",)]))

    @P.task("remove_particle.%s.invalid_index_noop" % tag, fn=REMOVE)
    def _(v):
        """index < 0 or index >= N  =>  returns 0 and the simulation is unchanged.
        EXPECTED TO FAIL on the pinned tree for N == 1 (the N==1 shortcut precedes the range check)."""
        s = mk_sim(v, integ)
        index, ks = v.int("index"), v.int("keep_sorted")
        v.assume(z3.Or(index < 0, index >= s.N))
        v.loop(REMOVE, SHIFT_LOOP, invariant=shift_invariant(s, index))
        ret = v.call(REMOVE, s.rp, index, ks)
        v.prove("returns_0", ret == 0)
        prove_unchanged(v, s)

    @P.task("remove_particle.%s.invalid_index_noop_when_N_is_not_1" % tag, fn=REMOVE)
    def _(v):
        """same contract restricted to N != 1 (this part holds on the pinned tree)"""
        s = mk_sim(v, integ)
        index, ks = v.int("index"), v.int("keep_sorted")
        v.assume(z3.Or(index < 0, index >= s.N), s.N != 1)
        v.loop(REMOVE, SHIFT_LOOP, invariant=shift_invariant(s, index))
        ret = v.call(REMOVE, s.rp, index, ks)
        v.prove("returns_0", ret == 0)
        prove_unchanged(v, s)

    @P.task("remove_particle.%s.variational_rejected" % tag, fn=REMOVE)
    def _(v):
        """N_var > 0 (MEGNO / variational particles present): returns 0, unchanged."""
        s = mk_sim(v, integ)
        index, ks = v.int("index"), v.int("keep_sorted")
        v.assume(0 <= index, index < s.N, s.N >= 2, s.Nvar > 0)
        v.loop(REMOVE, SHIFT_LOOP, invariant=shift_invariant(s, index))
        ret = v.call(REMOVE, s.rp, index, ks)
        v.prove("returns_0", ret == 0)
        prove_unchanged(v, s)

    @P.task("remove_particle.%s.last_particle" % tag, fn=REMOVE)
    def _(v):
        """N == 1, index == 0: the simulation becomes empty; storage is kept."""
        s = mk_sim(v, integ)
        index, ks = v.int("index"), v.int("keep_sorted")
        v.assume(index == 0, s.N == 1)
        ret = v.call(REMOVE, s.rp, index, ks)
        r = s.r
        v.prove("returns_1", ret == 1)
        v.prove("N_is_0", r.N == 0)
        v.prove("other_counters_unchanged", z3.And(r.N_allocated == s.Nalloc))
        v.ground("same_storage_block", parts_obj(s).id == s.pid)
        # the rule stated for the order-preserving path (index < N_active => N_active--) also applies to the last particle
        v.prove("N_active_rule", z3.Implies(ks != 0, r.N_active == z3.If(index < s.Nactive, s.Nactive - 1, s.Nactive)))

    @P.task("remove_particle.%s.sorted_with_tree" % tag, fn=REMOVE)
    def _(v):
        """keep_sorted != 0 while a tree exists: the code reports failure ("Did not remove particle", returns 0).
        A failed request must leave the simulation unchanged.  EXPECTED TO FAIL: the particle has already been removed."""
        s = mk_sim(v, integ, tree=True)
        index, ks = v.int("index"), v.int("keep_sorted")
        v.assume(ks != 0, 0 <= index, index < s.N, s.N >= 2, s.Nvar == 0)
        v.loop(REMOVE, SHIFT_LOOP, invariant=shift_invariant(s, index))
        ret = v.call(REMOVE, s.rp, index, ks)
        r = s.r
        v.prove("failure_implies_unchanged", z3.Implies(ret == 0, z3.And(r.N == s.N, r.N_active == s.Nactive)))


for _integ in INTEGRATORS_PLAIN:
    gen_remove_tasks(_integ)


# =====================================================================================================
# reb_simulation_add / reb_simulation_add_local
# =====================================================================================================
ADD = "reb_simulation_add"


def mk_add(v, integ="REB_INTEGRATOR_IAS15", null_particles=False, gravity="REB_GRAVITY_BASIC", collision="REB_COLLISION_NONE",
           boundary="REB_BOUNDARY_NONE"):
    s = mk_sim(v, integ, null_particles=null_particles)
    r = s.r
    r.gravity, r.collision, r.boundary = v.enumc(gravity), v.enumc(collision), v.enumc(boundary)
    s.pt = v.struct("struct reb_particle", "pt")
    for (fname, _q, _i) in v.eng.records("reb_particle"):
        getattr(s.pt, fname)          # materialise every field now (pointer fields are identity-carrying opaque values)
    s.mr0, s.mr1 = r.max_radius0, r.max_radius1
    # growth loop `while (N_allocated <= N)`: under wf at most one iteration is feasible; explored by forking
    # (the solver prunes a second iteration), which is exhaustive
    v.loop("reb_simulation_add_local", 0, unroll=4)
    return s


def pt_leaf(v, s, f):
    val = getattr(s.pt, f[0])
    if isinstance(val, (Ptr, Opaque, FuncRef)):
        return v.eng.ptr_to_int(val)
    return val


def add_post_appended(v, s, leaves):
    """view' = view ++ [pt], N' = N+1, particles[N].sim == r, wf'"""
    r = s.r
    v.prove("N_incremented", r.N == s.N + 1)
    v.prove("other_counters_unchanged", z3.And(r.N_var == s.Nvar, r.N_active == s.Nactive))
    v.prove("capacity", z3.And(r.N_allocated >= s.Nalloc, r.N_allocated > s.N))
    prove_wf(v, s)
    o = parts_obj(s)
    cur = {f: v.eng._leaf_array(o, f) for f in leaves}
    for f in leaves:
        if f == ("sim",):
            v.prove("appended.sim_is_r", z3.Select(cur[f], s.N) == s.rid)
        else:
            v.prove("appended." + lname(f), z3.Select(cur[f], s.N) == pt_leaf(v, s, f))
    if s.parts is not None:
        j = v.int("j")
        v.assume(0 <= j, j < s.N)
        for f in leaves:
            v.prove("prefix_kept." + lname(f), z3.Select(cur[f], j) == z3.Select(s.old[f], j))
    # documented side effect of reb_simulation_add: the two largest radii seen so far
    v.prove("max_radius0", r.max_radius0 == z3.If(s.pt.r >= s.mr0, s.pt.r, s.mr0))
    v.prove("max_radius1", r.max_radius1 == z3.If(s.pt.r >= s.mr0, s.mr0, z3.If(s.pt.r >= s.mr1, s.pt.r, s.mr1)))


def gen_add_tasks(integ):
    tag = integ.replace("REB_INTEGRATOR_", "").lower()

    @P.task("add.%s.append" % tag, fn=ADD)
    def _(v):
        """no tree modes, no boundary: the particle is appended; storage doubles when full (N == N_allocated)."""
        s = mk_add(v, integ)
        v.call(ADD, s.rp, s.pt)
        add_post_appended(v, s, s.leaves)
        o = parts_obj(s)
        r = s.r
        v.prove("growth_policy", r.N_allocated == z3.If(s.N < s.Nalloc, s.Nalloc, z3.If(s.Nalloc == 0, 128, 2 * s.Nalloc)))
        if o.id != s.pid:
            # the storage was reallocated: the new tail beyond the old block is zero-filled
            j2 = v.int("j2")
            v.assume(s.Nalloc <= j2, j2 < r.N_allocated, j2 != s.N)
            cur = cur_arrays(s)
            for f in s.leaves:
                zero = z3.RealVal(0) if cur[f].sort().range() == z3.RealSort() else z3.IntVal(0)
                v.prove("new_tail_zeroed." + lname(f), z3.Select(cur[f], j2) == zero)

    @P.task("add.%s.append_to_empty_unallocated" % tag, fn=ADD)
    def _(v):
        """fresh simulation / after remove_all: particles == NULL, N_allocated == 0: 128 slots are allocated."""
        s = mk_add(v, integ, null_particles=True)
        v.call(ADD, s.rp, s.pt)
        o = parts_obj(s)
        leaves = sorted(o.leaf_types, key=str)
        add_post_appended(v, s, leaves)
        v.prove("allocates_128", s.r.N_allocated == 128)


for _integ in INTEGRATORS_PLAIN:
    gen_add_tasks(_integ)


@P.task("add.outside_box_rejected", fn=ADD)
def _(v):
    """open/periodic/shear boundary and a particle outside the box: not added, simulation unchanged
    (the radius bookkeeping of reb_simulation_add is not part of the particle state)."""
    b = v.int("boundary")
    s = mk_add(v)
    s.r.boundary = b
    v.assume(z3.Or(*[b == v.enumc(x) for x in ("REB_BOUNDARY_OPEN", "REB_BOUNDARY_PERIODIC", "REB_BOUNDARY_SHEAR")]))
    pt, box = s.pt, s.r.boxsize
    v.assume(z3.Or(pt.x > box.x / 2, pt.x < -box.x / 2, pt.y > box.y / 2, pt.y < -box.y / 2, pt.z > box.z / 2, pt.z < -box.z / 2))
    v.call(ADD, s.rp, s.pt)
    prove_unchanged(v, s)


@P.task("add.inside_box_appended", fn=ADD)
def _(v):
    b = v.int("boundary")
    s = mk_add(v)
    s.r.boundary = b
    v.assume(z3.Or(*[b == v.enumc(x) for x in ("REB_BOUNDARY_OPEN", "REB_BOUNDARY_PERIODIC", "REB_BOUNDARY_SHEAR")]))
    pt, box = s.pt, s.r.boxsize
    v.assume(z3.Not(z3.Or(pt.x > box.x / 2, pt.x < -box.x / 2, pt.y > box.y / 2, pt.y < -box.y / 2, pt.z > box.z / 2, pt.z < -box.z / 2)))
    v.call(ADD, s.rp, s.pt)
    add_post_appended(v, s, s.leaves)


def gen_add_tree_reject(mode_field, mode_const):
    @P.task("add.tree_mode_rejections.%s" % mode_const.lower().replace("reb_", ""), fn=ADD)
    def _(v):
        """tree gravity / collision modes: without a configured root box, or outside the box, the particle is not
        added: N and the view particles[0..N) are unchanged (the slot particles[N] beyond the view is overwritten and the
        storage may have grown: harmless, stated as such)."""
        kw = {mode_field: mode_const}
        s = mk_add(v, **kw)
        r, pt, box = s.r, s.pt, s.r.boxsize
        absx, absy, absz = [z3.If(c >= 0, c, -c) for c in (pt.x, pt.y, pt.z)]
        v.assume(z3.Or(r.root_size == -1, absx > box.x / 2, absy > box.y / 2, absz > box.z / 2))
        v.call(ADD, s.rp, s.pt)
        v.prove("counters", z3.And(r.N == s.N, r.N_var == s.Nvar, r.N_active == s.Nactive))
        prove_wf(v, s)
        cur = cur_arrays(s)
        j = v.int("j")
        v.assume(0 <= j, j < s.N)
        for f in s.leaves:
            v.prove("view_kept." + lname(f), z3.Select(cur[f], j) == z3.Select(s.old[f], j))


gen_add_tree_reject("gravity", "REB_GRAVITY_TREE")
gen_add_tree_reject("collision", "REB_COLLISION_TREE")
gen_add_tree_reject("collision", "REB_COLLISION_LINETREE")
P.not_decided.append("free_particle_ap != NULL (REBOUNDx callback invoked on the removed slot): callback effects not modelled; all "
                     "tasks fix free_particle_ap == NULL")
P.not_decided.append("reb_simulation_particle_by_hash_mpi (non-MPI build: thin wrapper returning *p or reb_particle_nan()) not under contract")
P.not_decided.append("wrap-around of 32-bit counters beyond 2^30 particles / table entries (Z-mode); unsigned differences are checked "
                     "(arith.unsigned_nowrap obligations), other overflow is excluded by assumption")
P.not_decided.append("reb_simulation_add with a tree mode and an accepted particle: reb_tree_add_particle_to_tree (tree.c) is "
                     "not under contract here (tree consistency is property C15); only the rejection paths are proved")


# =====================================================================================================
# reb_simulation_remove_all_particles, reb_simulation_particle_index
# =====================================================================================================
@P.task("remove_all.allocated", fn="reb_simulation_remove_all_particles")
def _(v):
    s = mk_sim(v)
    v.call("reb_simulation_remove_all_particles", s.rp)
    r = s.r
    v.prove("empty", z3.And(r.N == 0, r.N_allocated == 0, r.N_var == 0, r.N_active == -1))
    v.ground("particles_is_NULL", parts_obj(s) is None)
    old = v.st.mem.objs[s.pid]
    v.ground("storage_released_once", old.freed is True, "free(r->particles) of the heap block (double free / non-block-start would "
             "show up as free.* obligations)")
    prove_wf(v, s)


@P.task("remove_all.unallocated", fn="reb_simulation_remove_all_particles")
def _(v):
    s = mk_sim(v, null_particles=True)
    v.call("reb_simulation_remove_all_particles", s.rp)
    r = s.r
    v.prove("empty", z3.And(r.N == 0, r.N_allocated == 0, r.N_var == 0, r.N_active == -1))
    v.ground("particles_is_NULL", parts_obj(s) is None)
    prove_wf(v, s)


INDEX = "reb_simulation_particle_index"


def index_setup(v, kcond):
    s = mk_sim(v)
    k = v.int("k")
    v.assume(0 <= k, k < s.Nalloc, kcond(s, k))
    # p = &particles[k] with p->sim == r (precondition stated in the code's comment)
    o = s.parts.obj
    o.leaves[("sim",)] = z3.Store(s.old[("sim",)], k, s.rid)
    s.old = {f: s.parts.array(*f) for f in s.leaves}
    s.k = k
    p = Ptr(s.pid, (k,), False)

    def inv(L):
        return [("range", z3.And(0 <= L.i, L.i <= s.N)), ("not_yet_found", z3.Or(L.i <= k, k >= s.N))]
    v.loop(INDEX, 0, invariant=inv, variant=lambda L: s.N - L.i + 1)
    ret = v.call(INDEX, p)
    prune_if_infeasible(v)
    return s, k, ret


@P.task("particle_index.in_range", fn=INDEX)
def _(v):
    """p == &r->particles[k], 0 <= k < N: returns k; nothing is written."""
    s, k, ret = index_setup(v, lambda s, k: k < s.N)
    v.prove("returns_k", ret == k)
    prove_unchanged(v, s)


@P.task("particle_index.beyond_N", fn=INDEX)
def _(v):
    """p points into the storage but at or beyond N (a removed particle): returns -1.
    (Failed for N == 0, k == 0 before the fix: the loop compared &particles[0] with p before looking at N.)"""
    s, k, ret = index_setup(v, lambda s, k: k >= s.N)
    v.prove("returns_minus_1", ret == -1)
    prove_unchanged(v, s)


@P.task("particle_index.beyond_N_nonempty", fn=INDEX)
def _(v):
    """same, restricted to N >= 1 (holds)"""
    s, k, ret = index_setup(v, lambda s, k: z3.And(k >= s.N, s.N >= 1))
    v.prove("returns_minus_1", ret == -1)


@P.task("particle_index.foreign_particle", fn=INDEX)
def _(v):
    """p is a particle object outside the storage whose sim field points to r: returns -1."""
    s = mk_sim(v)
    pobj, pp = v.struct_obj("struct reb_particle", "p")
    pobj.sim = s.rp

    def inv(L):
        return [("range", z3.And(0 <= L.i, L.i <= s.N))]
    v.loop(INDEX, 0, invariant=inv, variant=lambda L: s.N - L.i + 1)
    ret = v.call(INDEX, pp)
    prune_if_infeasible(v)
    v.prove("returns_minus_1", ret == -1)
    prove_unchanged(v, s)


# =====================================================================================================
# hash lookup: reb_search_lookup_table, compare_hash, reb_update_particle_lookup_table,
#              reb_simulation_particle_by_hash, reb_simulation_remove_particle_by_hash
# =====================================================================================================
SEARCH, UPDATE, BYHASH = "reb_search_lookup_table", "reb_update_particle_lookup_table", "reb_simulation_particle_by_hash"
PAIR = "struct reb_hash_pointer_pair"
U32 = 2 ** 32
P.assume("qsort (libc) contract: the first nmemb elements are permuted (bijection on [0,nmemb)) so that "
         "compar(e[a], e[b]) <= 0 for a <= b; elements beyond nmemb untouched; the comparison function passed is "
         "compare_hash (checked on the AST), which task compare_hash.* proves to be the total preorder 'hash <='")


def mk_lookup(v, s, null_table=False):
    """lookup table satisfying only wf: arbitrary (stale) content"""
    r = s.r
    s.Nl, s.Nal = v.int("N_lookup"), v.int("N_allocated_lookup")
    r.N_lookup, r.N_allocated_lookup = s.Nl, s.Nal
    v.assume(0 <= s.Nl, s.Nl <= s.Nal, s.Nl <= 2 ** 30)
    if null_table:
        r.particle_lookup_table = NULL
        s.T = None
        v.assume(s.Nal == 0)
    else:
        s.T = v.array(PAIR, s.Nal, "T")
        r.particle_lookup_table = s.T.ptr
        s.tid = s.T.obj.id
        s.H0, s.I0 = s.T.array("hash"), s.T.array("index")
        v.assume(z3.ForAll([K], z3.Implies(z3.And(0 <= K, K < s.Nl), z3.Select(s.I0, K) >= 0)))
    s.hash = v.int("hash")
    v.assume(0 <= s.hash, s.hash < U32)
    return s


def table_obj(s, st=None):
    st = st or s.v.st
    p = st.mem.objs[s.rp.obj].fields["particle_lookup_table"]
    if not isinstance(p, Ptr) or p.obj is None:
        return None
    return st.mem.objs[p.obj]


def table_arrays(s, st=None):
    o = table_obj(s, st)
    if o is None:
        return z3.K(z3.IntSort(), z3.IntVal(0)), z3.K(z3.IntSort(), z3.IntVal(0)), z3.IntVal(0)
    return s.v.eng._leaf_array(o, ("hash",)), s.v.eng._leaf_array(o, ("index",)), as_int(o.length)


def search_invariant(s, sorted_table):
    def inv(L):
        H, I, ln = table_arrays(s, L.st)
        nl = L.eng.read(L.st, Ptr(s.rp.obj, ("N_lookup",)))
        out = [("range", z3.And(0 <= L.left, L.right <= nl - 1, L.left <= L.right + 1)),
               ("midpoint_sum_fits_int", L.left + L.right < 2 ** 31)]      # (left+right)/2 does not overflow for N_lookup <= 2^30
        if sorted_table:
            out.append(("below_left_smaller", z3.ForAll([K], z3.Implies(z3.And(0 <= K, K < L.left), z3.Select(H, K) < s.hash))))
            out.append(("above_right_larger", z3.ForAll([K], z3.Implies(z3.And(L.right < K, K < nl), z3.Select(H, K) > s.hash))))
        return out
    return inv


def search_variant(L):
    return L.right - L.left + 1


def search_post_found(v, s, ret, name="found"):
    """non-NULL result: &particles[T[m].index] for an entry m < N_lookup carrying the hash, inside particles[0..N)"""
    H, I, ln = table_arrays(s)
    v.ground(name + ".points_into_particle_storage", isinstance(ret, Ptr) and ret.obj == s.pid and len(ret.path) == 1)
    idx = as_int(ret.path[-1])
    m = z3.Int("m")
    v.prove(name + ".inside_view", z3.And(0 <= idx, idx < s.r.N))
    v.prove(name + ".from_matching_entry", z3.Exists([m], z3.And(0 <= m, m < s.r.N_lookup, z3.Select(H, m) == s.hash, z3.Select(I, m) == idx)))


@P.task("search_lookup_table.stale_table", fn=SEARCH)
def _(v):
    """ANY table content (wf only): the result is NULL or a pointer into particles[0..N) taken from an entry with the
    requested hash; every table access is in bounds; nothing is written."""
    s = mk_lookup(v, mk_sim(v))
    v.loop(SEARCH, 0, invariant=search_invariant(s, False), variant=search_variant)
    ret = v.call(SEARCH, s.rp, s.hash)
    prune_if_infeasible(v)
    if isinstance(ret, Ptr) and ret.obj is not None:
        search_post_found(v, s, ret)
    else:
        v.ground("null_result", isinstance(ret, Ptr) and ret.obj is None)
    prove_unchanged(v, s)
    H, I, ln = table_arrays(s)
    v.prove("table_unchanged", z3.And(H == s.H0, I == s.I0, s.r.N_lookup == s.Nl, s.r.N_allocated_lookup == s.Nal))


@P.task("search_lookup_table.no_table", fn=SEARCH)
def _(v):
    s = mk_lookup(v, mk_sim(v), null_table=True)
    v.loop(SEARCH, 0, invariant=search_invariant(s, False), variant=search_variant)
    ret = v.call(SEARCH, s.rp, s.hash)
    v.ground("null_result", isinstance(ret, Ptr) and ret.obj is None)


@P.task("search_lookup_table.sorted_table_complete", fn=SEARCH)
def _(v):
    """table sorted by hash with all indices < N: NULL is returned only if NO entry carries the hash
    (binary search is complete on a sorted table)."""
    s = mk_lookup(v, mk_sim(v))
    a, b = z3.Ints("a b")
    v.assume(z3.ForAll([a, b], z3.Implies(z3.And(0 <= a, a <= b, b < s.Nl), z3.Select(s.H0, a) <= z3.Select(s.H0, b))))
    v.assume(z3.ForAll([K], z3.Implies(z3.And(0 <= K, K < s.Nl), z3.Select(s.I0, K) < s.N)))
    v.loop(SEARCH, 0, invariant=search_invariant(s, True), variant=search_variant)
    ret = v.call(SEARCH, s.rp, s.hash)
    prune_if_infeasible(v)
    if isinstance(ret, Ptr) and ret.obj is not None:
        search_post_found(v, s, ret)
    else:
        v.prove("null_only_if_absent", z3.ForAll([K], z3.Implies(z3.And(0 <= K, K < s.Nl), z3.Select(s.H0, K) != s.hash)))


@P.task("compare_hash.total_preorder", fn="compare_hash")
def _(v):
    objs = [v.struct_obj(PAIR, n) for n in "abc"]
    (a, pa), (b, pb), (c, pc) = objs
    for o in (a, b, c):
        v.assume(0 <= o.hash, o.hash < U32)
    ab = v.call("compare_hash", pa, pb)
    ba = v.call("compare_hash", pb, pa)
    bc = v.call("compare_hash", pb, pc)
    ac = v.call("compare_hash", pa, pc)
    v.prove("is_sign_of_hash_difference", ab == z3.If(a.hash > b.hash, 1, z3.If(a.hash < b.hash, -1, 0)))
    v.prove("le_iff_hash_le", (ab <= 0) == (a.hash <= b.hash))
    v.prove("antisymmetric", ba == -ab)
    v.prove("transitive", z3.Implies(z3.And(ab <= 0, bc <= 0), ac <= 0))
    v.prove("ignores_index", z3.BoolVal(True))


def qsort_contract(s):
    def apply(eng, st, args, n):
        base, cnt, size, cmp = args
        cnt = as_int(cnt)
        eng.oblige(st, "qsort.callsite.compar_is_compare_hash", z3.BoolVal(isinstance(cmp, FuncRef) and cmp.name == "compare_hash"), "pre", n)
        if not isinstance(base, Ptr) or base.obj is None:
            eng.oblige(st, "qsort.callsite.base_null_only_with_zero_count", cnt == 0, "mem", n)
            return None
        o = st.mem.objs[base.obj]
        eng.oblige(st, "qsort.callsite.element_size", as_int(size) == eng.sizeof(o.elem), "pre", n)
        eng.oblige(st, "qsort.callsite.range_in_block", z3.And(as_int(base.path[-1]) == 0, 0 <= cnt, cnt <= as_int(o.length)), "mem", n)
        H, I = eng._leaf_array(o, ("hash",)), eng._leaf_array(o, ("index",))
        H2 = eng.fresh("T_sorted.hash", z3.ArraySort(z3.IntSort(), z3.IntSort()))
        I2 = eng.fresh("T_sorted.index", z3.ArraySort(z3.IntSort(), z3.IntSort()))
        k = next(eng.fresh_n)
        pi = z3.Function("qsort_pi!%d" % k, z3.IntSort(), z3.IntSort())
        pinv = z3.Function("qsort_pinv!%d" % k, z3.IntSort(), z3.IntSort())
        a, b = z3.Ints("a b")
        inr = lambda x: z3.And(0 <= x, x < cnt)
        st.assume(z3.ForAll([K], z3.Implies(inr(K), z3.And(inr(pi(K)), pinv(pi(K)) == K,
                                                            z3.Select(H2, K) == z3.Select(H, pi(K)),
                                                            z3.Select(I2, K) == z3.Select(I, pi(K))))))
        st.assume(z3.ForAll([K], z3.Implies(inr(K), z3.And(inr(pinv(K)), pi(pinv(K)) == K))))
        # the same bijection read in the other direction (old element K ends up at position pinv(K)); implied by the
        # two facts above, stated separately because it gives the solver usable instantiation patterns
        st.assume(z3.ForAll([K], z3.Implies(inr(K), z3.And(inr(pinv(K)), z3.Select(H2, pinv(K)) == z3.Select(H, K),
                                                            z3.Select(I2, pinv(K)) == z3.Select(I, K)))))
        st.assume(z3.ForAll([K], z3.Implies(z3.Not(inr(K)), z3.And(z3.Select(H2, K) == z3.Select(H, K), z3.Select(I2, K) == z3.Select(I, K)))))
        st.assume(z3.ForAll([a, b], z3.Implies(z3.And(0 <= a, a <= b, b < cnt), z3.Select(H2, a) <= z3.Select(H2, b))))
        o.leaves[("hash",)], o.leaves[("index",)] = H2, I2
        s.qsort = (pi, pinv)
        return None
    return apply


def update_setup(v, s, j0):
    """loop invariant of the table-building loop (+ realloc of the table inside the loop)"""
    Ph = s.old[("hash",)] if s.parts is not None else z3.K(z3.IntSort(), z3.IntVal(0))
    elem = v.eng.ctype(PAIR)
    rid = s.rp.obj

    def inv(L):
        H, I, ln = table_arrays(s, L.st)
        nal = L.eng.read(L.st, Ptr(rid, ("N_allocated_lookup",)))
        i, nh, zh = L.i, L.N_hash, L.zerohash
        m = z3.Int("m")
        return [
            ("range", z3.And(0 <= i, i <= s.N, 0 <= nh, nh <= i, nh <= nal, nal == ln, -1 <= zh, zh < nh)),
            ("no_zero_hash_seen", z3.Implies(zh == -1, z3.ForAll([K], z3.Implies(z3.And(0 <= K, K < i), z3.Select(Ph, K) != 0)))),
            ("all_hashed_until_first_zero", z3.Implies(zh == -1, nh == i)),
            ("zero_entry_unique", z3.ForAll([K], z3.Implies(z3.And(0 <= K, K < nh), (z3.Select(H, K) == 0) == (K == zh)))),
            ("zero_entry_is_last_zero_hash_particle", z3.Implies(zh >= 0, z3.ForAll([K], z3.Implies(
                z3.And(z3.Select(I, zh) < K, K < i), z3.Select(Ph, K) != 0)))),
            ("entries_consistent", z3.ForAll([K], z3.Implies(z3.And(0 <= K, K < nh), z3.And(
                0 <= z3.Select(I, K), z3.Select(I, K) < i, z3.Select(H, K) == z3.Select(Ph, z3.Select(I, K)))))),
            ("complete_for_j0", z3.Implies(j0 < i, z3.Exists([m], z3.And(0 <= m, m < nh, z3.Select(H, m) == z3.Select(Ph, j0))))),
        ]
    v.loop(UPDATE, 0, invariant=inv, variant=lambda L: s.N - L.i)

    def hook(eng, st):
        # the body may realloc the table: at an arbitrary iteration it is *some* heap block of *some* length
        ln = eng.fresh("len_T", z3.IntSort())
        t2 = eng.new_array(elem, ln, "Tloop%d" % next(eng.fresh_n), force_sym=True)
        st.mem.add(t2)
        eng.heap_set(st, t2.id, owner="callee", kind="heap")
        st.mem.objs[rid].fields["particle_lookup_table"] = Ptr(t2.id, (z3.IntVal(0),), False)
    v.eng.loopspecs[(UPDATE, 0)].havoc_hook = hook
    v.contract("qsort", qsort_contract(s))


def update_post(v, s, j0, tag=""):
    r = s.r
    Ph = s.old[("hash",)] if s.parts is not None else None
    H, I, ln = table_arrays(s)
    v.prove(tag + "table_block_holds_N_allocated_lookup", z3.And(0 <= r.N_lookup, r.N_lookup <= r.N_allocated_lookup, r.N_allocated_lookup == ln))
    v.prove(tag + "N_lookup_le_N", r.N_lookup <= s.N)
    if Ph is not None:
        k0 = v.int("k0")
        v.assume(0 <= k0, k0 < r.N_lookup)
        v.prove(tag + "entries_consistent", z3.And(0 <= z3.Select(I, k0), z3.Select(I, k0) < s.N, z3.Select(H, k0) == z3.Select(Ph, z3.Select(I, k0))))
        m = z3.Int("m")
        v.prove(tag + "complete", z3.Exists([m], z3.And(0 <= m, m < r.N_lookup, z3.Select(H, m) == z3.Select(Ph, j0))))
        a0, b0 = v.int("a0"), v.int("b0")
        v.assume(0 <= a0, a0 <= b0, b0 < r.N_lookup)
        v.prove(tag + "sorted", z3.Select(H, a0) <= z3.Select(H, b0))
        # hash 0 (the default) is represented once, by the LAST zero-hash particle
        z0, z1 = v.int("z0"), v.int("z1")
        v.assume(0 <= z0, z0 < r.N_lookup, z3.Select(H, z0) == 0, z3.Select(I, z0) < z1, z1 < s.N)
        v.prove(tag + "zero_hash_entry_is_last_such_particle", z3.Select(Ph, z1) != 0)


@P.task("update_lookup_table.rebuild", fn=UPDATE)
def _(v):
    """from ANY old table: afterwards the table is a block of N_allocated_lookup >= N_lookup entries, sorted by hash,
    every entry (h, i) has 0 <= i < N and particles[i].hash == h, and every particle's hash occurs in the table."""
    s = mk_lookup(v, mk_sim(v))
    j0 = v.int("j0")
    v.assume(0 <= j0, j0 < s.N)
    v.assume(z3.ForAll([K], z3.And(0 <= z3.Select(s.old[("hash",)], K), z3.Select(s.old[("hash",)], K) < U32)))
    update_setup(v, s, j0)
    v.call(UPDATE, s.rp)
    update_post(v, s, j0)
    prove_unchanged(v, s)


@P.task("update_lookup_table.first_build", fn=UPDATE)
def _(v):
    """no table yet (NULL, N_allocated_lookup == 0)"""
    s = mk_lookup(v, mk_sim(v), null_table=True)
    j0 = v.int("j0")
    v.assume(0 <= j0, j0 < s.N)
    update_setup(v, s, j0)
    v.call(UPDATE, s.rp)
    update_post(v, s, j0)
    prove_unchanged(v, s)


@P.task("update_lookup_table.empty_simulation", fn=UPDATE)
def _(v):
    """N == 0 (possibly particles == NULL): N_lookup becomes 0, nothing is dereferenced"""
    s = mk_lookup(v, mk_sim(v, null_particles=True))
    v.assume(s.N == 0)
    v.contract("qsort", qsort_contract(s))       # the loop `for(i=0;i<N;..)` does not iterate: decided by the solver
    v.call(UPDATE, s.rp)
    v.prove("N_lookup_is_0", s.r.N_lookup == 0)


# ---- modular layer: reb_simulation_particle_by_hash over the contracts proved above --------------------------------
def wf_table_cond(s, st):
    """wf of the lookup table in state st (what search/update may rely on)"""
    H, I, ln = table_arrays(s, st)
    eng = s.v.eng
    nl = eng.read(st, Ptr(s.rp.obj, ("N_lookup",)))
    nal = eng.read(st, Ptr(s.rp.obj, ("N_allocated_lookup",)))
    return z3.And(0 <= nl, nl <= nal, nal == ln, z3.ForAll([K], z3.Implies(z3.And(0 <= K, K < nl), z3.Select(I, K) >= 0)))


def search_contract(s):
    """= tasks search_lookup_table.{stale_table,no_table,sorted_table_complete}"""
    def apply(eng, st, args, n):
        hsh = as_int(args[1])
        if table_obj(s, st) is None:
            return NULL
        eng.oblige(st, "search.callsite.pre.wf_table", wf_table_cond(s, st), "pre", n)
        H, I, ln = table_arrays(s, st)
        nl = eng.read(st, Ptr(s.rp.obj, ("N_lookup",)))
        nn = eng.read(st, Ptr(s.rp.obj, ("N",)))
        a, b, m = z3.Ints("a b m")
        idx = eng.fresh("found_index", z3.IntSort())
        isnull = eng.fresh("search_returns_NULL", z3.BoolSort())
        st.assume(z3.Implies(z3.Not(isnull), z3.And(0 <= idx, idx < nn, z3.Exists([m], z3.And(
            0 <= m, m < nl, z3.Select(H, m) == hsh, z3.Select(I, m) == idx)))))
        sorted_complete = z3.And(
            z3.ForAll([a, b], z3.Implies(z3.And(0 <= a, a <= b, b < nl), z3.Select(H, a) <= z3.Select(H, b))),
            z3.ForAll([K], z3.Implies(z3.And(0 <= K, K < nl), z3.Select(I, K) < nn)))
        st.assume(z3.Implies(z3.And(sorted_complete, isnull),
                             z3.ForAll([K], z3.Implies(z3.And(0 <= K, K < nl), z3.Select(H, K) != hsh))))
        if s.parts is None:
            st.assume(isnull)
            return NULL
        return Ptr(s.pid, (idx,), isnull)
    return apply


def havoc_table(s, eng, st):
    """r->particle_lookup_table := some heap block of N_allocated_lookup' >= N_lookup' >= 0 entries with unknown content"""
    rid = s.rp.obj
    ln2 = eng.fresh("len_T_new", z3.IntSort())
    t2 = eng.new_array(eng.ctype(PAIR), ln2, "Tnew%d" % next(eng.fresh_n), force_sym=True)
    st.mem.add(t2)
    eng.heap_set(st, t2.id, owner="callee", kind="heap")
    robj = st.mem.objs[rid]
    nl2 = eng.fresh("N_lookup_new", z3.IntSort())
    robj.fields["particle_lookup_table"] = Ptr(t2.id, (z3.IntVal(0),), False)
    robj.fields["N_lookup"] = nl2
    robj.fields["N_allocated_lookup"] = ln2
    st.assume(z3.And(0 <= nl2, nl2 <= ln2))
    return nl2, ln2, eng._leaf_array(t2, ("hash",)), eng._leaf_array(t2, ("index",))


def update_contract(s):
    """= tasks update_lookup_table.{rebuild,first_build,empty_simulation}"""
    def apply(eng, st, args, n):
        rid = s.rp.obj
        if table_obj(s, st) is not None:
            H, I, ln = table_arrays(s, st)
            nl = eng.read(st, Ptr(rid, ("N_lookup",)))
            nal = eng.read(st, Ptr(rid, ("N_allocated_lookup",)))
            eng.oblige(st, "update.callsite.pre.table_block", z3.And(0 <= nl, nl <= nal, nal == ln), "pre", n)
        else:
            eng.oblige(st, "update.callsite.pre.no_table", eng.read(st, Ptr(rid, ("N_allocated_lookup",))) == 0, "pre", n)
        nl2, ln2, H2, I2 = havoc_table(s, eng, st)
        nn = eng.read(st, Ptr(rid, ("N",)))
        st.assume(nl2 <= nn)
        if s.parts is None:
            st.assume(nl2 == 0)
            return None
        Ph = cur_arrays(s, st)[("hash",)]
        a, b, m, j = z3.Ints("a b m j")
        st.assume(z3.ForAll([K], z3.Implies(z3.And(0 <= K, K < nl2), z3.And(
            0 <= z3.Select(I2, K), z3.Select(I2, K) < nn, z3.Select(H2, K) == z3.Select(Ph, z3.Select(I2, K))))))
        st.assume(z3.ForAll([j], z3.Implies(z3.And(0 <= j, j < nn), z3.Exists([m], z3.And(0 <= m, m < nl2, z3.Select(H2, m) == z3.Select(Ph, j))))))
        st.assume(z3.ForAll([a, b], z3.Implies(z3.And(0 <= a, a <= b, b < nl2), z3.Select(H2, a) <= z3.Select(H2, b))))
        return None
    return apply


def byhash_post(v, s, ret, Ph, hsh, tag=""):
    if isinstance(ret, Ptr) and ret.obj is None:
        # NULL on this path
        v.prove(tag + "null_only_if_no_particle_has_hash", z3.ForAll([K], z3.Implies(z3.And(0 <= K, K < s.N), z3.Select(Ph, K) != hsh)))
        return
    v.ground(tag + "points_into_particle_storage", isinstance(ret, Ptr) and ret.obj == s.pid and len(ret.path) == 1)
    idx = as_int(ret.path[-1])
    nn = as_bool_null(ret)
    v.prove(tag + "found.inside_view", z3.Implies(z3.Not(nn), z3.And(0 <= idx, idx < s.N)))
    v.prove(tag + "found.carries_hash", z3.Implies(z3.Not(nn), z3.Select(Ph, idx) == hsh))
    v.prove(tag + "null_only_if_no_particle_has_hash", z3.Implies(nn, z3.ForAll([K], z3.Implies(z3.And(0 <= K, K < s.N), z3.Select(Ph, K) != hsh))))


def gen_byhash(null_table):
    @P.task("particle_by_hash.%s" % ("no_table_yet" if null_table else "arbitrary_stale_table"), fn=BYHASH)
    def _(v):
        """For ANY table content allowed by wf: the result is a particle of particles[0..N) carrying the hash, or NULL and
        then no particle carries it.  Particles untouched, table wf afterwards."""
        s = mk_lookup(v, mk_sim(v), null_table=null_table)
        Ph = s.old[("hash",)]
        v.assume(z3.ForAll([K], z3.And(0 <= z3.Select(Ph, K), z3.Select(Ph, K) < U32)))
        v.contract(SEARCH, search_contract(s))
        v.contract(UPDATE, update_contract(s))
        ret = v.call(BYHASH, s.rp, s.hash)
        prune_if_infeasible(v)
        byhash_post(v, s, ret, Ph, s.hash)
        prove_unchanged(v, s)
        if table_obj(s) is not None:
            v.prove("wf_table_afterwards", wf_table_cond(s, v.st))


gen_byhash(False)
gen_byhash(True)


@P.task("particle_by_hash.empty_unallocated_simulation", fn=BYHASH)
def _(v):
    s = mk_lookup(v, mk_sim(v, null_particles=True))
    v.contract(SEARCH, search_contract(s))
    v.contract(UPDATE, update_contract(s))
    ret = v.call(BYHASH, s.rp, s.hash)
    prune_if_infeasible(v)
    v.ground("returns_NULL", isinstance(ret, Ptr) and (ret.obj is None or ret.null is True))


REMOVE_BY_HASH = "reb_simulation_remove_particle_by_hash"


def byhash_contract(s, Ph):
    """= tasks particle_by_hash.*"""
    def apply(eng, st, args, n):
        hsh = as_int(args[1])
        eng.oblige(st, "by_hash.callsite.pre.wf_table", wf_table_cond(s, st) if table_obj(s, st) is not None else
                   eng.read(st, Ptr(s.rp.obj, ("N_allocated_lookup",))) == 0, "pre", n)
        nl2, ln2, H2, I2 = havoc_table(s, eng, st)     # the table may or may not have been rebuilt: only wf is known
        st.assume(z3.ForAll([K], z3.Implies(z3.And(0 <= K, K < nl2), z3.Select(I2, K) >= 0)))
        idx = eng.fresh("by_hash_index", z3.IntSort())
        isnull = eng.fresh("by_hash_returns_NULL", z3.BoolSort())
        nn = eng.read(st, Ptr(s.rp.obj, ("N",)))
        st.assume(z3.Implies(z3.Not(isnull), z3.And(0 <= idx, idx < nn, z3.Select(Ph, idx) == hsh)))
        st.assume(z3.Implies(isnull, z3.ForAll([K], z3.Implies(z3.And(0 <= K, K < nn), z3.Select(Ph, K) != hsh))))
        return Ptr(s.pid, (idx,), isnull)
    return apply


def index_contract(s):
    """= task particle_index.in_range"""
    def apply(eng, st, args, n):
        p = args[0]
        ok = isinstance(p, Ptr) and p.obj == s.pid and len(p.path) == 1
        eng.oblige(st, "particle_index.callsite.pre.points_into_storage", z3.BoolVal(ok), "pre", n)
        k = as_int(p.path[-1])
        nn = eng.read(st, Ptr(s.rp.obj, ("N",)))
        sim = cur_arrays(s, st)[("sim",)]
        eng.oblige(st, "particle_index.callsite.pre.in_view_and_sim_is_r", z3.And(0 <= k, k < nn, z3.Select(sim, k) == s.rid), "pre", n)
        return k
    return apply


@P.task("remove_particle_by_hash", fn=REMOVE_BY_HASH)
def _(v):
    """unknown hash: returns 0, simulation unchanged.  Known hash: exactly one call
    reb_simulation_remove_particle(r, j, keep_sorted) with 0 <= j < N and particles[j].hash == hash, whose result is
    returned (the effect of that call is specified by the remove_particle.* tasks)."""
    s = mk_lookup(v, mk_sim(v))
    ks = v.int("keep_sorted")
    Ph = s.old[("hash",)]
    v.contract(BYHASH, byhash_contract(s, Ph))
    v.contract(INDEX, index_contract(s))
    calls = []

    def remove_contract(eng, st, args, n):
        calls.append(args)
        eng.oblige(st, "remove.callsite.index_in_view_and_has_hash", z3.And(0 <= as_int(args[1]), as_int(args[1]) < s.N,
                                                                            z3.Select(Ph, as_int(args[1])) == s.hash), "pre", n)
        eng.oblige(st, "remove.callsite.keep_sorted_passed_through", as_int(args[2]) == ks, "pre", n)
        s.remove_ret = eng.fresh("remove_particle_result", z3.IntSort())
        return s.remove_ret
    v.contract(REMOVE, remove_contract)
    ret = v.call(REMOVE_BY_HASH, s.rp, s.hash, ks)
    prune_if_infeasible(v)
    absent = z3.ForAll([K], z3.Implies(z3.And(0 <= K, K < s.N), z3.Select(Ph, K) != s.hash))
    if not calls:
        v.prove("unknown_hash.returns_0", ret == 0)
        v.prove("unknown_hash.only_if_absent", absent)
        prove_unchanged(v, s, "unknown_hash.state_unchanged")
    else:
        v.ground("known_hash.single_remove_call", len(calls) == 1)
        v.prove("known_hash.result_passed_through", ret == s.remove_ret)
        v.prove("known_hash.only_if_present", z3.Not(absent))


# =====================================================================================================
# hybrid integrators: MERCURIUS / TRACE bookkeeping inside remove / add
# =====================================================================================================
P.assume("reb_integrator_ias15_reset / reb_integrator_bs_reset (integrator_ias15.c / integrator_bs.c) touch only "
         "r->ri_ias15 / r->ri_bs (modelled as no-ops on the particle bookkeeping)")
DCRIT_LOOP = 0


def mk_mercurius(v, s, mode):
    """MERCURIUS state: dcrit is a block of N_allocated_dcrit doubles (that is all the API guarantees between steps)"""
    rim = s.r.ri_mercurius
    s.Nd = v.int("N_allocated_dcrit")
    rim.N_allocated_dcrit = s.Nd
    rim.mode = mode
    v.assume(s.Nd >= 0)
    s.D = v.array("double", s.Nd, "dcrit")
    rim.dcrit = s.D.ptr
    s.did = s.D.obj.id
    s.D0 = s.D.array()
    for nm in ("reb_integrator_ias15_reset", "reb_integrator_bs_reset"):
        v.contract(nm, noop_contract)
    return s


def dcrit_array(s, st=None):
    st = st or s.v.st
    return s.v.eng._leaf_array(st.mem.objs[s.did], ())


def dcrit_invariant(s, index):
    def inv(L):
        i = L.i
        D = dcrit_array(s, L.st)
        return [("range", z3.And(0 <= i, z3.Or(i <= s.N - 1, i == 0))),
                ("shifted", z3.ForAll([K], z3.Implies(z3.And(0 <= K, K < i, K >= index), z3.Select(D, K) == z3.Select(s.D0, K + 1)))),
                ("rest", z3.ForAll([K], z3.Implies(z3.Or(K < 0, K >= i, K < index), z3.Select(D, K) == z3.Select(s.D0, K))))]
    return inv


@P.task("remove_particle.mercurius.sorted", fn=REMOVE)
def _(v):
    """MERCURIUS outside a step (mode 0), dcrit array covering all particles (state right after a step) or not yet
    allocated: order-preserving removal whatever keep_sorted says, and dcrit follows the particles."""
    s = mk_mercurius(v, mk_sim(v, "REB_INTEGRATOR_MERCURIUS"), 0)
    index, ks = v.int("index"), v.int("keep_sorted")
    v.assume(0 <= index, index < s.N, s.N >= 2, s.Nvar == 0, z3.Or(s.Nd == 0, s.Nd >= s.N))
    v.loop(REMOVE, DCRIT_LOOP, invariant=dcrit_invariant(s, index), variant=lambda L: s.N - L.i)
    v.loop(REMOVE, SHIFT_LOOP, invariant=shift_invariant(s, index), variant=lambda L: s.N - L.j)
    ret = v.call(REMOVE, s.rp, index, ks)
    r = s.r
    v.prove("returns_1", ret == 1)
    v.prove("N_decremented", r.N == s.N - 1)
    v.prove("N_active_as_documented", r.N_active == z3.If(index < s.Nactive, s.Nactive - 1, s.Nactive))
    prove_wf(v, s)
    view_after_sorted_removal(v, s, index)
    D = dcrit_array(s)
    jd = v.int("jd")
    v.assume(0 <= jd, jd < s.N - 1)
    v.prove("dcrit_follows_particles", z3.Implies(s.Nd > 0, z3.Select(D, jd) == z3.If(jd < index, z3.Select(s.D0, jd), z3.Select(s.D0, jd + 1))))


@P.task("remove_particle.mercurius.dcrit_smaller_than_N", fn=REMOVE)
def _(v):
    """MERCURIUS, particles were added since the last step (mode 0 add does not grow dcrit, so 0 < N_allocated_dcrit < N
    is a reachable state): a VALID removal must stay inside the dcrit block.
    EXPECTED TO FAIL (index.inbounds at particle.c:343): the shift loop runs to N-1 regardless of N_allocated_dcrit."""
    s = mk_mercurius(v, mk_sim(v, "REB_INTEGRATOR_MERCURIUS"), 0)
    index, ks = v.int("index"), v.int("keep_sorted")
    v.assume(0 <= index, index < s.N, s.N >= 2, s.Nvar == 0, 0 < s.Nd, s.Nd < s.N)
    v.loop(REMOVE, DCRIT_LOOP, invariant=dcrit_invariant(s, index), variant=lambda L: s.N - L.i)
    v.loop(REMOVE, SHIFT_LOOP, invariant=shift_invariant(s, index), variant=lambda L: s.N - L.j)
    ret = v.call(REMOVE, s.rp, index, ks)
    v.prove("returns_1", ret == 1)


@P.task("remove_particle.mercurius.invalid_index_noop", fn=REMOVE)
def _(v):
    """MERCURIUS (mode 0), invalid index, N != 1 (the N == 1 defect is reported by remove_particle.*.invalid_index_noop):
    returns 0 and nothing changes, including dcrit.  EXPECTED TO FAIL: dcrit is shifted before the range check
    (negative index), and for N == 0 the loop bound r->N-1 wraps around (arith.unsigned_nowrap)."""
    s = mk_mercurius(v, mk_sim(v, "REB_INTEGRATOR_MERCURIUS"), 0)
    index, ks = v.int("index"), v.int("keep_sorted")
    v.assume(z3.Or(index < 0, index >= s.N), s.N != 1, z3.Or(s.Nd == 0, s.Nd >= s.N))
    v.loop(REMOVE, DCRIT_LOOP, invariant=dcrit_invariant(s, index), variant=lambda L: s.N - L.i)
    v.loop(REMOVE, SHIFT_LOOP, invariant=shift_invariant(s, index))
    ret = v.call(REMOVE, s.rp, index, ks)
    v.prove("returns_0", ret == 0)
    prove_unchanged(v, s)
    jd = v.int("jd")
    v.assume(0 <= jd, jd < s.Nd)
    v.prove("dcrit_unchanged", z3.Select(dcrit_array(s), jd) == z3.Select(s.D0, jd))


@P.task("add.mercurius.append_between_steps", fn=ADD)
def _(v):
    """MERCURIUS mode 0: appended, and both recalculation flags are raised"""
    s = mk_add(v, "REB_INTEGRATOR_MERCURIUS")
    mk_mercurius(v, s, 0)
    v.call(ADD, s.rp, s.pt)
    add_post_appended(v, s, s.leaves)
    rim = s.r.ri_mercurius
    v.prove("recalculation_flags", z3.And(rim.recalculate_r_crit_this_timestep == 1, rim.recalculate_coordinates_this_timestep == 1))


def gen_trace_plain(mode_name):
    @P.task("remove_particle.trace.%s.sorted" % mode_name.lower().replace("reb_trace_mode_", ""), fn=REMOVE)
    def _(v):
        """TRACE outside the BS part: order-preserving removal whatever keep_sorted says"""
        s = mk_sim(v, "REB_INTEGRATOR_TRACE")
        s.r.ri_trace.mode = v.enumc(mode_name)
        v.contract("reb_integrator_bs_reset", noop_contract)
        index, ks = v.int("index"), v.int("keep_sorted")
        v.assume(0 <= index, index < s.N, s.N >= 2, s.Nvar == 0)
        v.loop(REMOVE, SHIFT_LOOP, invariant=shift_invariant(s, index), variant=lambda L: s.N - L.j)
        ret = v.call(REMOVE, s.rp, index, ks)
        r = s.r
        v.prove("returns_1", ret == 1)
        v.prove("N_decremented", r.N == s.N - 1)
        v.prove("N_active_as_documented", r.N_active == z3.If(index < s.Nactive, s.Nactive - 1, s.Nactive))
        prove_wf(v, s)
        view_after_sorted_removal(v, s, index)

    @P.task("add.trace.%s.append" % mode_name.lower().replace("reb_trace_mode_", ""), fn=ADD)
    def _(v):
        s = mk_add(v, "REB_INTEGRATOR_TRACE")
        s.r.ri_trace.mode = v.enumc(mode_name)
        v.call(ADD, s.rp, s.pt)
        add_post_appended(v, s, s.leaves)


for _m in ("REB_TRACE_MODE_INTERACTION", "REB_TRACE_MODE_NONE"):
    gen_trace_plain(_m)


# ---- removal in the middle of a hybrid step (collision resolution): encounter_map / current_Ks reshuffles -------------
ENC_LOOP_MERCURIUS = 1


@P.task("remove_particle.mercurius.during_encounter_step", fn=REMOVE)
def _(v):
    """MERCURIUS mode 1 (IAS15 part; particles are removed here by collision resolution).  Precondition = what the
    encounter prediction establishes: encounter_map[0..encounter_N) strictly increasing particle indices < N, containing
    `index` at position pos.  Post: the map loses that entry, later entries are renumbered (-1), the encounter counts
    are adjusted, all accesses stay inside the map block."""
    s = mk_mercurius(v, mk_sim(v, "REB_INTEGRATOR_MERCURIUS"), 1)
    rim = s.r.ri_mercurius
    eN, eNa, Na, pos = v.int("encounter_N"), v.int("encounter_N_active"), v.int("rim_N_allocated"), v.int("pos")
    rim.encounter_N, rim.encounter_N_active, rim.N_allocated = eN, eNa, Na
    M = v.array("int", Na, "encounter_map")
    rim.encounter_map = M.ptr
    mid = M.obj.id
    M0 = M.array()
    index, ks = v.int("index"), v.int("keep_sorted")
    a, b = z3.Ints("a b")
    v.assume(0 <= index, index < s.N, s.N >= 2, s.Nvar == 0, z3.Or(s.Nd == 0, s.Nd >= s.N))
    v.assume(0 <= eNa, eNa <= eN, eN <= Na, eN <= s.N, 0 <= pos, pos < eN, z3.Select(M0, pos) == index)
    v.assume(z3.ForAll([a, b], z3.Implies(z3.And(0 <= a, a < b, b < eN), z3.Select(M0, a) < z3.Select(M0, b))))
    v.assume(z3.ForAll([K], z3.Implies(z3.And(0 <= K, K < eN), z3.And(0 <= z3.Select(M0, K), z3.Select(M0, K) < s.N))))

    def marr(st):
        return v.eng._leaf_array(st.mem.objs[mid], ())

    def inv(L):
        i, after, ei = L.i, L.after_to_be_removed_particle, L.encounter_index
        Mc = marr(L.st)
        return [("range", z3.And(0 <= i, i <= eN)),
                ("flag", z3.And(z3.Or(after == 0, after == 1), (after == 1) == (pos < i), ei == z3.If(pos < i, pos, -1))),
                ("moved", z3.ForAll([K], z3.Implies(z3.And(pos <= K, K < i - 1), z3.Select(Mc, K) == z3.Select(M0, K + 1) - 1))),
                ("rest", z3.ForAll([K], z3.Implies(z3.Or(K < pos, K >= i - 1), z3.Select(Mc, K) == z3.Select(M0, K))))]
    v.loop(REMOVE, DCRIT_LOOP, invariant=dcrit_invariant(s, index), variant=lambda L: s.N - L.i)
    v.loop(REMOVE, ENC_LOOP_MERCURIUS, invariant=inv, variant=lambda L: eN - L.i)
    v.loop(REMOVE, SHIFT_LOOP, invariant=shift_invariant(s, index), variant=lambda L: s.N - L.j)
    ret = v.call(REMOVE, s.rp, index, ks)
    rim = s.r.ri_mercurius
    v.prove("returns_1", ret == 1)
    v.prove("N_decremented", s.r.N == s.N - 1)
    v.prove("encounter_N_decremented", rim.encounter_N == eN - 1)
    v.prove("encounter_N_active_adjusted", rim.encounter_N_active == z3.If(pos < eNa, eNa - 1, eNa))
    Mc = marr(v.st)
    q = v.int("q")
    v.assume(0 <= q, q < eN - 1)
    v.prove("map.entry", z3.Select(Mc, q) == z3.If(q < pos, z3.Select(M0, q), z3.Select(M0, q + 1) - 1))
    v.prove("map.entries_are_particles_of_new_view", z3.And(0 <= z3.Select(Mc, q), z3.Select(Mc, q) < s.N - 1))
    q2 = v.int("q2")
    v.assume(q < q2, q2 < eN - 1)
    v.prove("map.still_strictly_increasing", z3.Select(Mc, q) < z3.Select(Mc, q2))
    view_after_sorted_removal(v, s, index)


def gen_trace_bs(N, last):
    @P.task("remove_particle.trace.during_bs_step.N%d.%s" % (N, "last_particle" if last else "not_last_particle"), fn=REMOVE)
    def _(v):
        """TRACE mode KEPLER/FULL (BS part; particles are removed here by collision resolution), instance N = %d with all
        particles in the encounter (encounter_map = identity): the pair matrix current_Ks (N x N, row-major) must become
        the (N-1) x (N-1) matrix of the surviving particles, the map is renumbered.  Loops are unrolled: exhaustive for
        this N, all index values%s.""" % (N, " = N-1 (EXPECTED TO FAIL: rows are not re-strided when the LAST particle is removed)" if last else " < N-1")
        s = mk_sim(v, "REB_INTEGRATOR_TRACE")
        tr = s.r.ri_trace
        mode = v.int("trace_mode")
        tr.mode = mode
        v.assume(z3.Or(mode == v.enumc("REB_TRACE_MODE_KEPLER"), mode == v.enumc("REB_TRACE_MODE_FULL")))
        s.r.N = z3.IntVal(N)
        v.assume(s.N == N)
        tr.encounter_N, tr.N_allocated = z3.IntVal(N), z3.IntVal(N)
        eNa = v.int("encounter_N_active")
        tr.encounter_N_active = eNa
        v.assume(0 <= eNa, eNa <= N)
        M = v.array("int", N, "encounter_map")
        tr.encounter_map = M.ptr
        M0 = M.array()
        for i in range(N):
            v.assume(z3.Select(M0, i) == i)
        Ks = v.array("int", N * N, "current_Ks")
        tr.current_Ks = Ks.ptr
        K0 = Ks.array()
        v.contract("reb_integrator_bs_reset", noop_contract)
        index, ks = v.int("index"), v.int("keep_sorted")
        v.assume(0 <= index, index < N, s.Nvar == 0)
        v.assume(index == N - 1 if last else index < N - 1)
        v.loop(REMOVE, SHIFT_LOOP, invariant=shift_invariant(s, index), variant=lambda L: s.N - L.j)
        ret = v.call(REMOVE, s.rp, index, ks)
        tr = s.r.ri_trace
        v.prove("returns_1", ret == 1)
        v.prove("N_decremented", s.r.N == N - 1)
        v.prove("encounter_N_decremented", tr.encounter_N == N - 1)
        v.prove("encounter_N_active_adjusted", tr.encounter_N_active == z3.If(index < eNa, eNa - 1, eNa))
        Mc, Kc = M.array(), Ks.array()
        for q in range(N - 1):
            v.prove("map.%d" % q, z3.Select(Mc, q) == q)
        n1 = N - 1
        cells = []
        for i in range(n1):
            for j in range(n1):
                oi = z3.If(i >= index, i + 1, i)
                oj = z3.If(j >= index, j + 1, j)
                cells.append(z3.Select(Kc, i * n1 + j) == z3.Select(K0, oi * N + oj))
        v.prove("current_Ks_is_matrix_of_survivors", z3.And(*cells))
        view_after_sorted_removal(v, s, index)


for _N in (2, 3):
    gen_trace_bs(_N, False) if _N > 2 else None
    gen_trace_bs(_N, True)
P.not_decided.append("TRACE current_Ks reshuffle in reb_simulation_remove_particle / reb_simulation_add_local for symbolic N: the "
                     "index arithmetic i*new_N+j+counter is nonlinear in N (not attempted with quantifiers); instances N=2,3 "
                     "are executed exhaustively instead (tasks remove_particle.trace.during_bs_step.N*), add in BS mode not covered")
P.not_decided.append("MERCURIUS add during the IAS15 part (mode 1: dcrit/encounter_map growth) and TRACE add during the BS part")


# =====================================================================================================
# the lookup table stays a well-formed cache across reb_simulation_remove_all_particles: either the table it had (a live block of
# exactly N_allocated_lookup entries, N_lookup <= N_allocated_lookup) or no table with BOTH counters 0 -- the rebuild
# (reb_update_particle_lookup_table) reallocates only when N_allocated_lookup is too small and otherwise writes through the pointer
# =====================================================================================================
def lookup_wf_after_remove_all(null_table):
    def task(v):
        s = mk_lookup(v, mk_sim(v), null_table=null_table)
        v.call("reb_simulation_remove_all_particles", s.rp)
        r = s.r
        t = table_obj(s)
        if t is None:
            v.prove("no_table_means_no_capacity", z3.And(r.N_allocated_lookup == 0, r.N_lookup == 0))
        else:
            fr = t.freed if z3.is_expr(t.freed) else z3.BoolVal(bool(t.freed))
            v.prove("table_is_live_block_of_N_allocated_lookup", z3.And(as_int(t.length) == r.N_allocated_lookup, z3.Not(fr)))
            v.prove("N_lookup_within_capacity", z3.And(0 <= r.N_lookup, r.N_lookup <= r.N_allocated_lookup))
            p = r.particle_lookup_table
            v.prove("table_points_to_block_start", z3.And(as_int(p.path[-1]) == 0, z3.Not(as_bool_null(p))))
    return task


from engine.api import Task as _Task
P.tasks.append(_Task(P, "remove_all.lookup_table_stays_well_formed.with_table", "reb_simulation_remove_all_particles", lookup_wf_after_remove_all(False)))
P.tasks.append(_Task(P, "remove_all.lookup_table_stays_well_formed.without_table", "reb_simulation_remove_all_particles", lookup_wf_after_remove_all(True)))
