"""C19 (shared with C09): a served pause / resume request must not change the trajectory: reb_check_exit synchronises only to shorten the last step; see C09_keep_exact.py"""
from engine.api import Pack, Task
from contracts import C09_keep_exact as K

P = Pack("C19", K.P.files, "pausing a run does not synchronise it (shared with C09)")
PACKS = [P]
P.tasks.append(Task(P, "check_exit.synchronises_only_for_exact_finish", K.I.CHECK, K.sync_only_for_exact_finish))
