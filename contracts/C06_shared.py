"""C06 (shared lemma): the archive handle's time index is part of 'every snapshot equals the live state': sa.t[i] is what
Simulationarchive.getSimulation(t) and the Python layer's sa.t / tmin / tmax read.  The index builder is under contract in the
C07 pack (symbolic file); its task is re-registered here so that the C06 check fails when the index stops describing the
snapshots (entry contract `time_index_defaults_to_first_snapshot`: a delta blob without a `t` field has the time of blob 0)."""
from engine.api import Pack, Task
from contracts import C07_archive_open as A

P = Pack("C06", A.P.files, "archive index describes the snapshots (shared with C07)")
PACKS = [P]
P.assumptions += ["shared with C07: " + a for a in A.P.assumptions]
P.trusted += A.P.trusted
for t in A.P.tasks:
    if t.name == "index_builder.ownership_and_acceptance":
        P.tasks.append(Task(P, "index." + t.name, t.fn, t.func, files=A.P.files, timeout=t.timeout, order=t.order, z3_ms=t.z3_ms, polyid_s=t.polyid_s))

# every call of reb_simulation_save_to_file on an existing archive appends exactly one snapshot (or reports that none was
# saved): the append-protocol task of C07 (four writes: old trailer, delta, END, new trailer) is re-registered here, since a
# call that silently appends nothing shifts every later snapshot index ("snapshot k equals the live state at save k")
from contracts import C07_append as AP
for t in AP.P.tasks:
    if t.name == "append.trailer_protocol":
        P.tasks.append(Task(P, "one_snapshot_per_call." + t.name, t.fn, t.func, files=t.files or AP.P.files, timeout=t.timeout, order=t.order, z3_ms=t.z3_ms, polyid_s=t.polyid_s, replay=t.replay))
