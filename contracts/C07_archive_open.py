"""C07: opening an archive whose write was cut at an ARBITRARY byte never corrupts the calling process and accepts
exactly the snapshots that are complete.

The real index builder reb_read_simulationarchive_from_stream_with_messages is executed on a FILE whose length is a
symbolic integer (the cut point) and whose content is arbitrary; fread returns short exactly when the cursor would
pass the cut (engine/stream.py).  Contracts:
  ownership   the caller-owned archive struct is never freed; nothing is freed twice; no stream is used after fclose;
              on the error path every owned member is released and NULLed
  acceptance  a blob is counted only after its END header was read completely and -- for every blob after the first --
              the back-offset of the trailer matches the blob length
"""
import z3
from engine.api import Pack
from engine import layout, cfront
from engine.csym import Contract, as_int, const_int, Unsupported, LoopSpec
from engine.mem import Ptr, Opaque, StructObj, Cell, ArrObj

P = Pack("C07", ["src/simulationarchive.c", "src/output.c", "src/binarydiff.c"], "archive index under truncation")
PACKS = [P]
P.assume("truncation = prefix of the written file (symbolic length); torn writes that are not prefixes are not modelled")
P.assume("fread/fseek/ftell model of engine/stream.py: short read returns the number of complete items, destination of the "
         "incomplete item is unspecified; fseek beyond the end may fail (memory streams) or succeed (regular files)")
P.assume("loop-carried realloc'ed arrays sa->t / sa->offset are abstracted by their loop-entry blocks (realloc preserves liveness)")
P.assume("file content: prefix of a writer output, i.e. every complete `t` header announces sizeof(double) bytes "
         "(a hostile file with a larger `t` field would overflow sa->t: fread(&sa->t[i], field.size, ...) trusts the size)")
P.not_decided += ["identity of each accepted snapshot with the uninterrupted run's snapshot (needs the writer side: C06)",
                  "restart-and-continue-appending after a crash: the append path of reb_simulation_save_to_file is under contract in C07_append (trailer protocol, recovery invariant); the composition `truncated file -> open -> append -> open` over arbitrary histories is argued from the two contracts, not mechanised",
                  "reb_fmemopen on platforms other than glibc"]


def setup(v):
    eng = v.eng
    eng.check_defined = True
    sa, sap = v.struct_obj("struct reb_simulationarchive", "sa")
    eng.heap_set(v.st, sap.obj, owner="caller", kind="other")
    f = eng.new_file(v.st, "arch")
    sa.inf = f
    fname = eng.new_raw_block(v.st, z3.Int("fnlen"), name="filename")
    sa.filename = fname
    sa.t = Opaque("uninit_t", tag=z3.Bool("t_garbage"))
    sa.offset = Opaque("uninit_off", tag=z3.Bool("off_garbage"))
    w, wp = v.cell("int", "warnings", value=z3.IntVal(0))
    v.assume(v.st.mem.get(f.obj).size >= 0)
    # the file is a PREFIX of a writer output: complete headers are the writer's, so a `t` header announces 8 bytes
    u32, u64 = eng.ctype("unsigned int"), eng.ctype("unsigned long")
    pp = z3.Int("p!hdr")
    T = lambda p: eng.content("arch", ("reb_binary_field", "type"), u32, p)
    S = lambda p: eng.content("arch", ("reb_binary_field", "size"), u64, p + eng.tu0.offsetof("reb_binary_field", "size"))
    tid = [typ for (typ, dt, name, off, offN, esz) in layout.descriptor_table(cfront.REPO) if name == "t"][0]
    v.assume(z3.ForAll([pp], z3.Implies(T(pp) == tid, S(pp) == 8)))
    v.assume(z3.ForAll([pp], S(pp) >= 0))
    rows = layout.descriptor_table(cfront.REPO)
    ids = {name: typ for (typ, dt, name, off, offN, esz) in rows}

    def for_name(e, st, args, n):
        a = args[0]
        lit = (a.tag or "").strip('"') if isinstance(a, Opaque) else None
        if lit not in ids:
            raise Unsupported("descriptor_for_name(%r)" % (a,))
        s = StructObj(e.ctype("struct reb_binary_field_descriptor"), {})
        s.fields["type"] = z3.IntVal(ids[lit])
        s.fields["dtype"] = e.fresh("dtype", z3.IntSort())
        s.fields["name"] = Opaque("fdname", tag=z3.IntVal(ids[lit]))
        return s
    eng.contracts["reb_binary_field_descriptor_for_name"] = Contract("for_name", for_name)
    eng.havoc_calls |= {"reb_simulation_error", "reb_simulation_warning"}
    return sa, sap, f, w, wp, ids


def index_blocks_inv(v, sap, L):
    """sa->t and sa->offset designate live heap blocks of exactly nblobsmax elements"""
    out = []
    so = L.st.mem.get(sap.obj)
    for fld in ("t", "offset"):
        p = so.fields.get(fld)
        ok = isinstance(p, Ptr) and p.obj is not None and isinstance(L.st.mem.objs.get(p.obj), ArrObj)
        if not ok:
            out.append(("%s_block" % fld, z3.BoolVal(False)))
            continue
        blk = L.st.mem.get(p.obj)
        fr = blk.freed if not isinstance(blk.freed, bool) else z3.BoolVal(blk.freed)
        out.append(("%s_block_live_and_sized" % fld, z3.And(z3.Not(fr), as_int(blk.length) == L.nblobsmax)))
    return out


def make_hook(sap):
    def hook(eng, st):
        # after the havoc of an arbitrary iteration: the (re)allocated index arrays are fresh blocks of nblobsmax elements
        nb = eng.local(st, "nblobsmax")
        so = st.mem.get(sap.obj)
        for fld, ct in (("t", "double"), ("offset", "unsigned long")):
            a = eng.new_array(eng.ctype(ct), nb, "sa_%s_blk%d" % (fld, next(eng.fresh_n)), force_sym=True)
            st.mem.add(a)
            eng.heap_set(st, a.id, owner="callee", kind="heap")
            so.fields[fld] = Ptr(a.id, (z3.IntVal(0),), False)
    return hook


@P.task("index_builder.ownership_and_acceptance", fn="reb_read_simulationarchive_from_stream_with_messages", timeout=1200)
def _(v):
    eng = v.eng
    sa, sap, f, w, wp, ids = setup(v)
    fn = "reb_read_simulationarchive_from_stream_with_messages"
    fobj = v.st.mem.get(f.obj)
    END = ids["end"]

    def scan_inv(L):        # version scan do-while: nothing to carry except that the archive struct is intact
        return [("true", z3.BoolVal(True))]

    def chars_inv(L):
        return [("c_nonneg", L.c >= 0)]

    def blobs_inv(L):
        out = [("i_range", z3.And(L.i >= 0, L.i < L.nblobsmax)), ("no_error_so_far", L.read_error == 0),
               ("nblobs_le_i", as_int(sa.nblobs) <= L.i), ("nblobs_nonneg", as_int(sa.nblobs) >= 0)] + index_blocks_inv(v, sap, L)
        i0 = L.at_head("i")
        if i0 is not None:
            # an iteration that runs to its end has accepted blob i0: it was finished by a complete END header (inner loop
            # contract), no read error occurred, and for i0 > 0 the trailer's back-offset equals the blob length
            so = L.st.mem.get(sap.obj)
            offp = so.fields["offset"]
            offarr = v.eng._leaf_array(L.st.mem.get(offp.obj), ())
            blob = L.blob
            fpos = L.st.mem.get(fobj.id).pos
            out.append(("accepted_counts_blob", as_int(sa.nblobs) == i0 + 1))
            out.append(("accepted_blob_was_finished", z3.And(L.blob_finished == 1, L.read_error == 0)))
            out.append(("accepted_blob_checksum", z3.Implies(i0 > 0, as_int(blob.fields["offset_prev"]) + z3.If(L.uses32bitoffsets != 0, v.eng.sizeof(v.eng.ctype("struct reb_simulationarchive_blob")),
                                                                               v.eng.sizeof(v.eng.ctype("struct reb_simulationarchive_blob16"))) == fpos - z3.Select(offarr, i0))))
        return out

    def fields_inv(L):      # inner do-while over the fields of one blob
        out = [("flags_boolean", z3.And(z3.Or(L.blob_finished == 0, L.blob_finished == 1), z3.Or(L.read_error == 0, L.read_error == 1)))]
        # acceptance: blob_finished is raised only in an iteration whose header read was complete and carried END
        hb = L.at_head("blob_finished")
        if hb is not None:
            fld = L.field
            out.append(("finished_only_after_complete_END", z3.Implies(z3.And(hb == 0, L.blob_finished == 1),
                                                                      z3.And(fld.fields["type"] == END, L.read_error == 0))))
        return out
    loops = v.loops_of(fn)
    for (o, info) in loops:
        if info["kind"] == "DoStmt" and info["depth"] == 0:
            v.loop(fn, o, invariant=scan_inv)
        elif info["kind"] == "ForStmt" and "readbuf" in info["names"] and "nblobsmax" not in info["names"]:
            pass          # constant trip count: unrolled
        elif info["kind"] == "ForStmt" and "nblobsmax" in info["names"]:
            v.loop(fn, o, invariant=blobs_inv)
            v.eng.loopspecs[(fn, o)].havoc_hook = make_hook(sap)
        elif info["kind"] == "DoStmt":
            inner = LoopSpec(fields_inv)

            def fields_loop(eng_, st, n, cond, inc, body, inner=inner, o=o):
                # entry contract of the field loop of blob i: later blobs only store the fields that differ from blob 0, so the
                # time index of blob i must start out as the time of blob 0 (a blob without a `t` field has that time)
                i = eng_.local(st, "i")
                tp = st.mem.get(sap.obj).fields["t"]
                tarr = eng_._leaf_array(st.mem.get(tp.obj), ())
                eng_.oblige(st, "index_builder.blob_start.time_index_defaults_to_first_snapshot",
                            z3.Implies(as_int(i) > 0, z3.Select(tarr, as_int(i)) == z3.Select(tarr, 0)), "loop", n)
                return eng_.loop_invariant(st, n, cond, inc, body, True, inner, fn, o)
            v.loop(fn, o, invariant=fields_loop, mode="custom")
    v.call(fn, sap, Ptr(None, (), True), wp)
    # ---- postconditions on every path that returns
    warn = v.read(wp)
    freed = v.st.ghost.get("freed_objs", frozenset())
    v.prove("caller_struct_not_freed", z3.BoolVal(sap.obj not in freed))
    inf_now = sa.inf
    closed = fobj.id in v.st.mem.objs and v.st.mem.get(fobj.id).closed
    if closed is not False:
        v.prove("closed_stream_is_forgotten", z3.BoolVal(isinstance(inf_now, Ptr) and inf_now.obj is None))




# ------------------------------------------------------------------ bounded stand-in / native replay
_HARNESS = r'''
import sys, os, subprocess, json, warnings
repo, workdir, stride = sys.argv[1], sys.argv[2], int(sys.argv[3])
sys.path.insert(0, workdir)
import rebound
warnings.simplefilter("ignore")
os.chdir(workdir)
if os.path.exists("a.bin"): os.remove("a.bin")
s = rebound.Simulation(); s.add(m=1); s.add(m=1e-3, a=1); s.add(m=1e-3, a=2.2); s.integrator = "ias15"
s.save_to_file("a.bin"); s.integrate(1); s.save_to_file("a.bin"); s.integrate(2); s.save_to_file("a.bin")
sa = rebound.Simulationarchive("a.bin")
full = open("a.bin", "rb").read()
starts = [sa._offset[i] for i in range(len(sa))] if hasattr(sa, "_offset") else []
child = ("import sys; sys.path.insert(0, %r); import rebound, warnings; warnings.simplefilter('ignore')\n"
         "try:\n    sa = rebound.Simulationarchive('cut.bin'); print(len(sa))\n"
         "except RuntimeError as e: print('ERR')\n") % workdir
bad, tried = [], 0
cuts = sorted(set(list(range(1, len(full), stride)) + [len(full) - k for k in range(0, 40)]))
for cut in cuts:
    open("cut.bin", "wb").write(full[:cut])
    p = subprocess.run([sys.executable, "-c", child], capture_output=True, text=True)
    tried += 1
    if p.returncode != 0:
        bad.append({"cut": cut, "returncode": p.returncode, "stderr": p.stderr[-160:]})
        if len(bad) >= 3: break
print(json.dumps({"file_bytes": len(full), "cuts_tried": tried, "crashes": bad}))
'''


def _native_truncation(repo, stride):
    """Truncate a real 3-snapshot archive at many byte offsets and open each in a fresh interpreter of the tree under
    analysis (library compiled from that tree)."""
    import tempfile, shutil, subprocess, os, json, glob
    from engine import native
    d = tempfile.mkdtemp(prefix="verif-c07-")
    try:
        so = native.build_lib(repo)
        shutil.copytree(os.path.join(repo, "rebound"), os.path.join(d, "rebound"), ignore=shutil.ignore_patterns("tests", "__pycache__"))
        for old in glob.glob(os.path.join(d, "librebound*.so")):
            os.remove(old)
        shutil.copy(so, os.path.join(d, "librebound.cpython-312-x86_64-linux-gnu.so"))
        open(os.path.join(d, "harness.py"), "w").write(_HARNESS)
        p = subprocess.run(["/venv/bin/python", os.path.join(d, "harness.py"), repo, d, str(stride)], capture_output=True, text=True, timeout=3000)
        try:
            return json.loads(p.stdout.strip().split("\n")[-1])
        except Exception:
            return {"error": (p.stdout + p.stderr)[-400:]}
    finally:
        shutil.rmtree(d, True)


def _replay_ownership(o, repo):
    if "free" not in o["name"] and "caller_struct" not in o["name"] and "stream" not in o["name"]:
        return None, {"reason": "no native replay for this clause"}
    r = _native_truncation(repo, 211)
    return bool(r.get("crashes")), r


for _t in P.tasks:
    _t.replay = _replay_ownership


@P.bounded_check("every_byte_truncation_opens_without_crash", "one 3-snapshot IAS15 archive, cut offsets with stride 5 plus the last 40 bytes (thorough tier only)")
def _(tier, seed):
    r = _native_truncation(cfront.REPO, 5 if tier == "thorough" else 53)
    r["result"] = "violation" if r.get("crashes") else ("error" if r.get("error") else "held")
    if r.get("crashes"):
        r["witness"] = r["crashes"][0]
    return r
