"""C11 (twin front ends): the C parser reb_particle_from_fmt_errV (src/tools.c) and the Python constructor
Particle.__init__ (rebound/particle.py) must accept and reject the same argument combinations.

This pack compares the *decision tables* of the two front ends, extracted on every run from the real sources
(clang AST of tools.c, Python ast of particle.py): which keywords count as Cartesian / orbital / non-Pal / Pal /
longitude arguments, which keywords get a default of 0, and the order of the rejection tests.  It does not
symbolically execute the two parsers (the Python side has no symbolic executor in the engine): equality of the
numeric formulas (a from P, omega from pomega, f from theta, M from l / T) is listed as not decided.
"""
import ast, os, re
from engine.api import Pack

P = Pack("C11", ["src/tools.c"], "twin parsers: decision tables")
PACKS = [P]
P.trust("decision tables of the two parsers are extracted syntactically: C counters `int N=0; if(!isnan(x)) N++;` / "
        "`if(primary_given) N++;`, Python lists `cart/orbi/pal/longitudes/pericenters` and the notNone([...]) argument")
P.not_decided.append("twin parsers: equality of the numeric conversion formulas (a from P: cbrt vs **(1./3.), omega from pomega, "
                     "f from theta, M from l and T) and of the callee arguments is not decided (no symbolic executor for the "
                     "Python side); only the accept/reject decision tables, defaults and test order are compared")

REPO = os.environ.get("VERIF_REPO", "/repo")
CFN = "reb_particle_from_fmt_errV"


# ---------------------------------------------------------------------------- C side (clang AST)
def _declrefs(n, out):
    if isinstance(n, dict):
        if n.get("kind") == "DeclRefExpr" and n["referencedDecl"]["kind"] in ("VarDecl", "ParmVarDecl"):
            out.append(n["referencedDecl"]["name"])
        for c in n.get("inner", ()):
            _declrefs(c, out)
    return out


def _walk(n, f):
    if isinstance(n, dict):
        f(n)
        for c in n.get("inner", ()):
            _walk(c, f)


def _strip(n):
    while n.get("kind") in ("ParenExpr", "ImplicitCastExpr", "CompoundStmt") and len(n.get("inner", ())) == 1:
        n = n["inner"][0]
    return n


def c_tables(eng):
    tu, fn = eng.find_function(CFN)
    body = tu.body(fn)
    counters, defaults, errs = {}, [], []

    def visit(n):
        if n.get("kind") == "DeclStmt":
            for d in n.get("inner", ()):
                if d.get("kind") == "VarDecl" and re.fullmatch(r"N[a-z]+", d.get("name", "")):
                    counters.setdefault(d["name"], [])
        if n.get("kind") == "IfStmt" and len(n["inner"]) == 2:
            cond, then = n["inner"]
            t = _strip(then)
            if t.get("kind") == "UnaryOperator" and t.get("opcode") == "++":
                tgt = _declrefs(t, [])
                if len(tgt) == 1 and tgt[0] in counters:
                    names = _declrefs(cond, [])
                    counters[tgt[0]].append("primary" if names == ["primary_given"] else names[0])
            # default:  if (isnan(X)) X = 0;
            if t.get("kind") == "BinaryOperator" and t.get("opcode") == "=":
                lhs = _declrefs(t["inner"][0], [])
                rhs = _strip(t["inner"][1])
                zero = rhs.get("kind") in ("IntegerLiteral", "FloatingLiteral") and float(rhs.get("value")) == 0.0
                cn = _declrefs(cond, [])
                neg = _strip(cond).get("kind") == "UnaryOperator" and _strip(cond).get("opcode") == "!"
                if zero and len(lhs) == 1 and cn == lhs and not neg:
                    defaults.append(lhs[0])
        # *err = K
        if n.get("kind") == "BinaryOperator" and n.get("opcode") == "=":
            l, r = n["inner"]
            if _strip(l).get("kind") == "UnaryOperator" and _strip(l).get("opcode") == "*" and _declrefs(l, []) == ["err"]:
                r = _strip(r)
                if r.get("kind") == "IntegerLiteral":
                    errs.append(int(r["value"]))
    _walk(body, visit)
    # error code -> message
    tu2, f2 = eng.find_function("reb_string_for_particle_error")
    msgs = {}

    def visit2(n):
        if n.get("kind") == "IfStmt":
            cond, then = n["inner"][0], n["inner"][1]
            k = [None]
            _walk(cond, lambda x: k.__setitem__(0, int(x["value"])) if x.get("kind") == "IntegerLiteral" else None)
            s = [None]
            _walk(then, lambda x: s.__setitem__(0, x.get("value")) if x.get("kind") == "StringLiteral" else None)
            if k[0] is not None and s[0]:
                msgs[k[0]] = s[0]
    _walk(tu2.body(f2), visit2)
    return counters, defaults, errs, msgs


# ---------------------------------------------------------------------------- Python side (ast)
def py_tables():
    src = open(os.path.join(REPO, "rebound", "particle.py")).read()
    mod = ast.parse(src)
    init = None
    for node in ast.walk(mod):
        if isinstance(node, ast.ClassDef) and node.name == "Particle":
            for f in node.body:
                if isinstance(f, ast.FunctionDef) and f.name == "__init__":
                    init = f
    lists, mixlist, defaults, raises = {}, None, [], []
    for node in ast.walk(init):
        if isinstance(node, ast.Assign) and len(node.targets) == 1 and isinstance(node.targets[0], ast.Name) \
                and isinstance(node.value, ast.List) and all(isinstance(e, ast.Name) for e in node.value.elts):
            lists[node.targets[0].id] = [e.id for e in node.value.elts]
        if isinstance(node, ast.Call) and isinstance(node.func, ast.Name) and node.func.id == "notNone" \
                and isinstance(node.args[0], ast.List):
            mixlist = [e.id for e in node.args[0].elts]
        if isinstance(node, ast.If) and isinstance(node.test, ast.Compare) and isinstance(node.test.left, ast.Name) \
                and len(node.test.ops) == 1 and isinstance(node.test.ops[0], ast.Is) \
                and isinstance(node.test.comparators[0], ast.Constant) and node.test.comparators[0].value is None \
                and len(node.body) == 1 and isinstance(node.body[0], ast.Assign) \
                and isinstance(node.body[0].targets[0], ast.Name) and node.body[0].targets[0].id == node.test.left.id \
                and isinstance(node.body[0].value, ast.Constant) and node.body[0].value.value == 0:
            defaults.append(node.test.left.id)

    def visit(stmts):
        for s in stmts:
            if isinstance(s, ast.Raise) and isinstance(s.exc, ast.Call) and s.exc.args and isinstance(s.exc.args[0], ast.Constant):
                raises.append(s.exc.args[0].value)
            for fld in ("body", "orelse"):
                if hasattr(s, fld) and isinstance(getattr(s, fld), list):
                    visit(getattr(s, fld))
    visit(init.body)
    return lists, mixlist, defaults, raises


CATEGORIES = [  # (label, regex on the message) -- meaning of a rejection, independent of wording
    ("mix_pal", r"mix Pal"), ("mix_cart", r"cartesian"), ("need_sim", r"simulation"),
    ("not_both_a_P", r"(?i)not both"), ("need_a_or_P", r"(?i)need to pass either"),
    ("ixiy", r"\(ix, iy\)"), ("omega_pomega", r"omega.*pomega"), ("one_longitude", r"(?i)one longitude"),
]


def _cat(msg):
    for lab, rx in CATEGORIES:
        if re.search(rx, msg):
            return lab
    return None


@P.task("parsers.decision_tables", fn=CFN)
def _(v):
    counters, cdef, cerrs, cmsgs = c_tables(v.eng)
    lists, mixlist, pdef, raises = py_tables()
    v.ground("extracted.c", all(k in counters and counters[k] for k in ("Ncart", "Norb", "Nnonpal", "Npal", "Nlong")),
             "C counters found: %r" % counters)
    v.ground("extracted.py", all(k in lists for k in ("cart", "orbi", "pal", "longitudes", "pericenters")) and bool(mixlist),
             "Python lists found: %r, mix list %r" % (lists, mixlist))

    def same(name, c, p):
        v.ground(name, set(c) == set(p) and len(c) == len(set(c)),
                 "C: %s | Python: %s | only in C: %s | only in Python: %s" %
                 (sorted(c), sorted(p), sorted(set(c) - set(p)), sorted(set(p) - set(c))))
    same("cartesian_keywords", counters.get("Ncart", []), lists.get("cart", []))
    same("orbital_keywords", counters.get("Norb", []), lists.get("orbi", []))
    same("pal_keywords", counters.get("Npal", []), lists.get("pal", []))
    same("longitude_keywords", counters.get("Nlong", []), lists.get("longitudes", []))
    # EXPECTED TO FAIL on the unchanged tree (genuine defect, confirmed natively): the C parser counts `primary`
    # among the elements that cannot be mixed with Pal coordinates, the Python constructor does not:
    # reb_simulation_add_fmt(r, "m a h primary", ...) is rejected (error 7), sim.add(m=, a=, h=, primary=) is accepted.
    same("elements_not_mixable_with_pal", counters.get("Nnonpal", []), mixlist or [])
    # defaults of 0 (Pal branch: l h k ix iy; classical: e inc Omega)
    cd = [x for x in cdef if x not in ("omega",)]
    pd = [x for x in pdef if x not in ("x", "y", "z", "vx", "vy", "vz", "omega")]
    same("defaults_zero", cd, pd)
    # order of the rejection tests (first failing test decides which error is reported)
    corder = [_cat(cmsgs.get(k, "")) for k in cerrs]
    porder = [c for c in (_cat(m) for m in raises) if c]
    v.ground("rejection_order", corder == porder and None not in corder and len(corder) == 8,
             "C: %s | Python: %s" % (corder, porder))
    # every error code set by the C parser has a message; codes 1..6 are passed through from reb_particle_from_orbit_err
    v.ground("error_messages", all(k in cmsgs for k in cerrs) and all(k in cmsgs for k in range(1, 7)),
             "codes set: %s, messages for: %s" % (cerrs, sorted(cmsgs)))


# ---------------------------------------------------------------------------- angle conventions (prograde / retrograde)
P.trust("angle-conversion task: the conversion statements are extracted syntactically (an `if` on cos(inc) > 0 resp. "
        "o.inc < M_PI/2. whose branches assign a linear combination of angles); the comparison itself is exact (sympy)")


def _c_lin(n):
    """linear combination of identifiers (a.b -> b) built from + and - only, as a sympy expression; None otherwise"""
    import sympy as sp
    n = _strip(n)
    k = n.get("kind")
    if k == "DeclRefExpr":
        return sp.Symbol(n["referencedDecl"]["name"])
    if k == "MemberExpr":
        return sp.Symbol(n["name"])
    if k == "UnaryOperator" and n.get("opcode") == "-":
        a = _c_lin(n["inner"][0])
        return None if a is None else -a
    if k == "BinaryOperator" and n.get("opcode") in ("+", "-"):
        a, b = _c_lin(n["inner"][0]), _c_lin(n["inner"][1])
        if a is None or b is None:
            return None
        return a + b if n["opcode"] == "+" else a - b
    return None


def _c_branch_assignments(fn_body, is_prograde_test):
    """{(var, 'prograde'|'retrograde'): expr} from `if (<test>) { var = lin; ... } else { var = lin; ... }`"""
    out = {}

    def assigns(stmt):
        res = {}
        stmt_list = stmt.get("inner", [stmt]) if stmt.get("kind") == "CompoundStmt" else [stmt]
        for s in stmt_list:
            s = _strip(s)
            if s.get("kind") == "BinaryOperator" and s.get("opcode") == "=":
                lhs = _c_lin(s["inner"][0])
                rhs = _c_lin(s["inner"][1])
                if lhs is not None and rhs is not None and lhs.is_Symbol:
                    res[str(lhs)] = rhs
            if s.get("kind") == "IfStmt" and len(s["inner"]) == 3:
                # nested `if (o.e > MIN_ECC) l = pomega +- M; else (small-e approximation)`: the exact branch is the first
                res.update({k: v for k, v in assigns(s["inner"][1]).items() if k not in res})
        return res

    def visit(n):
        if n.get("kind") == "IfStmt" and len(n["inner"]) == 3 and is_prograde_test(n["inner"][0]):
            for which, br in (("prograde", n["inner"][1]), ("retrograde", n["inner"][2])):
                for var, e in assigns(br).items():
                    out[(var, which)] = e
    _walk(fn_body, visit)
    return out


def _is_cos_inc_positive(c):
    """`cos(inc) > 0.`"""
    from engine import frames
    c = _strip(c)
    if not (c.get("kind") == "BinaryOperator" and c.get("opcode") == ">"):
        return False
    l = _strip(c["inner"][0])
    return l.get("kind") == "CallExpr" and frames.callee_name(l) == "cos" and "inc" in _declrefs(l, [])


def _is_inc_below_half_pi(c):
    """`o.inc < M_PI/2.`"""
    c = _strip(c)
    if not (c.get("kind") == "BinaryOperator" and c.get("opcode") == "<"):
        return False
    l = _strip(c["inner"][0])
    return l.get("kind") == "MemberExpr" and l.get("name") == "inc"


def _py_lin(n):
    import sympy as sp
    if isinstance(n, ast.Name):
        return sp.Symbol(n.id)
    if isinstance(n, ast.UnaryOp) and isinstance(n.op, ast.USub):
        a = _py_lin(n.operand)
        return None if a is None else -a
    if isinstance(n, ast.BinOp) and isinstance(n.op, (ast.Add, ast.Sub)):
        a, b = _py_lin(n.left), _py_lin(n.right)
        if a is None or b is None:
            return None
        return a + b if isinstance(n.op, ast.Add) else a - b
    return None


def _py_branch_assignments():
    src = open(os.path.join(REPO, "rebound", "particle.py")).read()
    out = {}
    for node in ast.walk(ast.parse(src)):
        if isinstance(node, ast.If) and re.sub(r"\s+", "", ast.unparse(node.test)) == "math.cos(inc)>0" and node.orelse:
            for which, body in (("prograde", node.body), ("retrograde", node.orelse)):
                for s in body:
                    if isinstance(s, ast.Assign) and isinstance(s.targets[0], ast.Name):
                        e = _py_lin(s.value)
                        if e is not None:
                            out[(s.targets[0].id, which)] = e
    return out


@P.task("parsers.angle_conversions", fn=CFN)
def _(v):
    """omega from pomega, f from theta and M from l, for prograde and retrograde orbits: (1) the C and the Python front end
    use the same formula; (2) the formula inverts the convention under which reb_orbit_from_particle_err reports pomega,
    theta and l (so that creating a particle and reading the element back returns it)."""
    import sympy as sp
    tu, fn = v.eng.find_function(CFN)
    cpars = _c_branch_assignments(tu.body(fn), _is_cos_inc_positive)
    tu2, rd = v.eng.find_function("reb_orbit_from_particle_err")
    reader = _c_branch_assignments(tu2.body(rd), _is_inc_below_half_pi)
    py = _py_branch_assignments()
    want = [(x, w) for x in ("omega", "f", "M") for w in ("prograde", "retrograde")]
    v.ground("c_parser.conversions_found", all(k in cpars for k in want), "found %s" % sorted(cpars))
    v.ground("python_parser.conversions_found", all(k in py for k in want), "found %s" % sorted(py))
    rwant = [(x, w) for x in ("pomega", "theta", "l", "f") for w in ("prograde", "retrograde")]
    v.ground("reader.conventions_found", all(k in reader for k in rwant), "found %s" % sorted(reader))
    if not (all(k in cpars for k in want) and all(k in py for k in want) and all(k in reader for k in rwant)):
        return
    Om, om, f, M = sp.symbols("Omega omega f M")
    for w in ("prograde", "retrograde"):
        # reader: o.f = wpf - o.omega defines wpf = omega + f
        wpf = sp.Symbol("wpf")
        sol = sp.solve(sp.Eq(sp.Symbol("f"), reader[("f", w)]), wpf)
        conv = {"pomega": reader[("pomega", w)], "theta": reader[("theta", w)].subs(wpf, sol[0] if sol else wpf),
                "l": reader[("l", w)].subs(sp.Symbol("pomega"), reader[("pomega", w)])}
        for var, given in (("omega", "pomega"), ("f", "theta"), ("M", "l")):
            c, p = cpars[(var, w)], py[(var, w)]
            v.ground("%s.%s_from_%s.c_equals_python" % (w, var, given), sp.simplify(c - p) == 0, "C: %s = %s; Python: %s = %s" % (var, c, var, p))
            back = conv[given].subs(sp.Symbol(var), c)
            v.ground("%s.%s_from_%s.inverts_the_reported_convention" % (w, var, given), sp.simplify(back - sp.Symbol(given)) == 0,
                     "reader reports %s = %s; with the parser's %s = %s this gives %s" % (given, conv[given], var, c, sp.simplify(back)))
