"""C11 (twin front ends): the C parser reb_particle_from_fmt_errV (src/tools.c) and the Python constructor
Particle.__init__ (rebound/particle.py) must accept and reject the same argument combinations.

This pack compares the *decision tables* of the two front ends, extracted on every run from the real sources
(clang AST of tools.c, Python ast of particle.py): which keywords count as Cartesian / orbital / non-Pal / Pal /
longitude arguments, which keywords get a default of 0, and the order of the rejection tests.  It does not
symbolically execute the two parsers (the Python side has no symbolic executor in the engine): equality of the
numeric formulas (a from P, omega from pomega, f from theta, M from l / T) is listed as not decided.
"""
import ast, os, re
from engine.api import Pack

P = Pack("C11", ["src/tools.c"], "twin parsers: decision tables")
PACKS = [P]
P.trust("decision tables of the two parsers are extracted syntactically: C counters `int N=0; if(!isnan(x)) N++;` / "
        "`if(primary_given) N++;`, Python lists `cart/orbi/pal/longitudes/pericenters` and the notNone([...]) argument")
P.not_decided.append("twin parsers: equality of the numeric conversion formulas (a from P: cbrt vs **(1./3.), omega from pomega, "
                     "f from theta, M from l and T) and of the callee arguments is not decided (no symbolic executor for the "
                     "Python side); only the accept/reject decision tables, defaults and test order are compared")

REPO = os.environ.get("VERIF_REPO", "/repo")
CFN = "reb_particle_from_fmt_errV"


# ---------------------------------------------------------------------------- C side (clang AST)
def _declrefs(n, out):
    if isinstance(n, dict):
        if n.get("kind") == "DeclRefExpr" and n["referencedDecl"]["kind"] in ("VarDecl", "ParmVarDecl"):
            out.append(n["referencedDecl"]["name"])
        for c in n.get("inner", ()):
            _declrefs(c, out)
    return out


def _walk(n, f):
    if isinstance(n, dict):
        f(n)
        for c in n.get("inner", ()):
            _walk(c, f)


def _strip(n):
    while n.get("kind") in ("ParenExpr", "ImplicitCastExpr", "CompoundStmt") and len(n.get("inner", ())) == 1:
        n = n["inner"][0]
    return n


def c_tables(eng):
    tu, fn = eng.find_function(CFN)
    body = tu.body(fn)
    counters, defaults, errs = {}, [], []

    def visit(n):
        if n.get("kind") == "DeclStmt":
            for d in n.get("inner", ()):
                if d.get("kind") == "VarDecl" and re.fullmatch(r"N[a-z]+", d.get("name", "")):
                    counters.setdefault(d["name"], [])
        if n.get("kind") == "IfStmt" and len(n["inner"]) == 2:
            cond, then = n["inner"]
            t = _strip(then)
            if t.get("kind") == "UnaryOperator" and t.get("opcode") == "++":
                tgt = _declrefs(t, [])
                if len(tgt) == 1 and tgt[0] in counters:
                    names = _declrefs(cond, [])
                    counters[tgt[0]].append("primary" if names == ["primary_given"] else names[0])
            # default:  if (isnan(X)) X = 0;
            if t.get("kind") == "BinaryOperator" and t.get("opcode") == "=":
                lhs = _declrefs(t["inner"][0], [])
                rhs = _strip(t["inner"][1])
                zero = rhs.get("kind") in ("IntegerLiteral", "FloatingLiteral") and float(rhs.get("value")) == 0.0
                cn = _declrefs(cond, [])
                neg = _strip(cond).get("kind") == "UnaryOperator" and _strip(cond).get("opcode") == "!"
                if zero and len(lhs) == 1 and cn == lhs and not neg:
                    defaults.append(lhs[0])
        # *err = K
        if n.get("kind") == "BinaryOperator" and n.get("opcode") == "=":
            l, r = n["inner"]
            if _strip(l).get("kind") == "UnaryOperator" and _strip(l).get("opcode") == "*" and _declrefs(l, []) == ["err"]:
                r = _strip(r)
                if r.get("kind") == "IntegerLiteral":
                    errs.append(int(r["value"]))
    _walk(body, visit)
    # error code -> message
    tu2, f2 = eng.find_function("reb_string_for_particle_error")
    msgs = {}

    def visit2(n):
        if n.get("kind") == "IfStmt":
            cond, then = n["inner"][0], n["inner"][1]
            k = [None]
            _walk(cond, lambda x: k.__setitem__(0, int(x["value"])) if x.get("kind") == "IntegerLiteral" else None)
            s = [None]
            _walk(then, lambda x: s.__setitem__(0, x.get("value")) if x.get("kind") == "StringLiteral" else None)
            if k[0] is not None and s[0]:
                msgs[k[0]] = s[0]
    _walk(tu2.body(f2), visit2)
    return counters, defaults, errs, msgs


# ---------------------------------------------------------------------------- Python side (ast)
def py_tables():
    src = open(os.path.join(REPO, "rebound", "particle.py")).read()
    mod = ast.parse(src)
    init = None
    for node in ast.walk(mod):
        if isinstance(node, ast.ClassDef) and node.name == "Particle":
            for f in node.body:
                if isinstance(f, ast.FunctionDef) and f.name == "__init__":
                    init = f
    lists, mixlist, defaults, raises = {}, None, [], []
    for node in ast.walk(init):
        if isinstance(node, ast.Assign) and len(node.targets) == 1 and isinstance(node.targets[0], ast.Name) \
                and isinstance(node.value, ast.List) and all(isinstance(e, ast.Name) for e in node.value.elts):
            lists[node.targets[0].id] = [e.id for e in node.value.elts]
        if isinstance(node, ast.Call) and isinstance(node.func, ast.Name) and node.func.id == "notNone" \
                and isinstance(node.args[0], ast.List):
            mixlist = [e.id for e in node.args[0].elts]
        if isinstance(node, ast.If) and isinstance(node.test, ast.Compare) and isinstance(node.test.left, ast.Name) \
                and len(node.test.ops) == 1 and isinstance(node.test.ops[0], ast.Is) \
                and isinstance(node.test.comparators[0], ast.Constant) and node.test.comparators[0].value is None \
                and len(node.body) == 1 and isinstance(node.body[0], ast.Assign) \
                and isinstance(node.body[0].targets[0], ast.Name) and node.body[0].targets[0].id == node.test.left.id \
                and isinstance(node.body[0].value, ast.Constant) and node.body[0].value.value == 0:
            defaults.append(node.test.left.id)

    def visit(stmts):
        for s in stmts:
            if isinstance(s, ast.Raise) and isinstance(s.exc, ast.Call) and s.exc.args and isinstance(s.exc.args[0], ast.Constant):
                raises.append(s.exc.args[0].value)
            for fld in ("body", "orelse"):
                if hasattr(s, fld) and isinstance(getattr(s, fld), list):
                    visit(getattr(s, fld))
    visit(init.body)
    return lists, mixlist, defaults, raises


CATEGORIES = [  # (label, regex on the message) -- meaning of a rejection, independent of wording
    ("mix_pal", r"mix Pal"), ("mix_cart", r"cartesian"), ("need_sim", r"simulation"),
    ("not_both_a_P", r"(?i)not both"), ("need_a_or_P", r"(?i)need to pass either"),
    ("ixiy", r"\(ix, iy\)"), ("omega_pomega", r"omega.*pomega"), ("one_longitude", r"(?i)one longitude"),
]


def _cat(msg):
    for lab, rx in CATEGORIES:
        if re.search(rx, msg):
            return lab
    return None


@P.task("parsers.decision_tables", fn=CFN)
def _(v):
    counters, cdef, cerrs, cmsgs = c_tables(v.eng)
    lists, mixlist, pdef, raises = py_tables()
    v.ground("extracted.c", all(k in counters and counters[k] for k in ("Ncart", "Norb", "Nnonpal", "Npal", "Nlong")),
             "C counters found: %r" % counters)
    v.ground("extracted.py", all(k in lists for k in ("cart", "orbi", "pal", "longitudes", "pericenters")) and bool(mixlist),
             "Python lists found: %r, mix list %r" % (lists, mixlist))

    def same(name, c, p):
        v.ground(name, set(c) == set(p) and len(c) == len(set(c)),
                 "C: %s | Python: %s | only in C: %s | only in Python: %s" %
                 (sorted(c), sorted(p), sorted(set(c) - set(p)), sorted(set(p) - set(c))))
    same("cartesian_keywords", counters.get("Ncart", []), lists.get("cart", []))
    same("orbital_keywords", counters.get("Norb", []), lists.get("orbi", []))
    same("pal_keywords", counters.get("Npal", []), lists.get("pal", []))
    same("longitude_keywords", counters.get("Nlong", []), lists.get("longitudes", []))
    # EXPECTED TO FAIL on the unchanged tree (genuine defect, confirmed natively): the C parser counts `primary`
    # among the elements that cannot be mixed with Pal coordinates, the Python constructor does not:
    # reb_simulation_add_fmt(r, "m a h primary", ...) is rejected (error 7), sim.add(m=, a=, h=, primary=) is accepted.
    same("elements_not_mixable_with_pal", counters.get("Nnonpal", []), mixlist or [])
    # defaults of 0 (Pal branch: l h k ix iy; classical: e inc Omega)
    cd = [x for x in cdef if x not in ("omega",)]
    pd = [x for x in pdef if x not in ("x", "y", "z", "vx", "vy", "vz", "omega")]
    same("defaults_zero", cd, pd)
    # order of the rejection tests (first failing test decides which error is reported)
    corder = [_cat(cmsgs.get(k, "")) for k in cerrs]
    porder = [c for c in (_cat(m) for m in raises) if c]
    v.ground("rejection_order", corder == porder and None not in corder and len(corder) == 8,
             "C: %s | Python: %s" % (corder, porder))
    # every error code set by the C parser has a message; codes 1..6 are passed through from reb_particle_from_orbit_err
    v.ground("error_messages", all(k in cmsgs for k in cerrs) and all(k in cmsgs for k in range(1, 7)),
             "codes set: %s, messages for: %s" % (cerrs, sorted(cmsgs)))


# ---------------------------------------------------------------------------- angle conventions (prograde / retrograde)
P.trust("angle-conversion task: the conversion statements are extracted syntactically (an `if` on cos(inc) > 0 resp. "
        "o.inc < M_PI/2. whose branches assign a linear combination of angles); the comparison itself is exact (sympy)")


def _c_lin(n):
    """linear combination of identifiers (a.b -> b) built from + and - only, as a sympy expression; None otherwise"""
    import sympy as sp
    n = _strip(n)
    k = n.get("kind")
    if k == "DeclRefExpr":
        return sp.Symbol(n["referencedDecl"]["name"])
    if k == "MemberExpr":
        return sp.Symbol(n["name"])
    if k == "UnaryOperator" and n.get("opcode") == "-":
        a = _c_lin(n["inner"][0])
        return None if a is None else -a
    if k == "BinaryOperator" and n.get("opcode") in ("+", "-"):
        a, b = _c_lin(n["inner"][0]), _c_lin(n["inner"][1])
        if a is None or b is None:
            return None
        return a + b if n["opcode"] == "+" else a - b
    return None


def _c_branch_assignments(fn_body, is_prograde_test):
    """{(var, 'prograde'|'retrograde'): expr} from `if (<test>) { var = lin; ... } else { var = lin; ... }`"""
    out = {}

    def assigns(stmt):
        res = {}
        stmt_list = stmt.get("inner", [stmt]) if stmt.get("kind") == "CompoundStmt" else [stmt]
        for s in stmt_list:
            s = _strip(s)
            if s.get("kind") == "BinaryOperator" and s.get("opcode") == "=":
                lhs = _c_lin(s["inner"][0])
                rhs = _c_lin(s["inner"][1])
                if lhs is not None and rhs is not None and lhs.is_Symbol:
                    res[str(lhs)] = rhs
            if s.get("kind") == "IfStmt" and len(s["inner"]) == 3:
                # nested `if (o.e > MIN_ECC) l = pomega +- M; else (small-e approximation)`: the exact branch is the first
                res.update({k: v for k, v in assigns(s["inner"][1]).items() if k not in res})
        return res

    def visit(n):
        if n.get("kind") == "IfStmt" and len(n["inner"]) == 3 and is_prograde_test(n["inner"][0]):
            for which, br in (("prograde", n["inner"][1]), ("retrograde", n["inner"][2])):
                for var, e in assigns(br).items():
                    out[(var, which)] = e
    _walk(fn_body, visit)
    return out


def _is_cos_inc_positive(c):
    """`cos(inc) > 0.`"""
    from engine import frames
    c = _strip(c)
    if not (c.get("kind") == "BinaryOperator" and c.get("opcode") == ">"):
        return False
    l = _strip(c["inner"][0])
    return l.get("kind") == "CallExpr" and frames.callee_name(l) == "cos" and "inc" in _declrefs(l, [])


def _is_inc_below_half_pi(c):
    """`o.inc < M_PI/2.`"""
    c = _strip(c)
    if not (c.get("kind") == "BinaryOperator" and c.get("opcode") == "<"):
        return False
    l = _strip(c["inner"][0])
    return l.get("kind") == "MemberExpr" and l.get("name") == "inc"


def _py_lin(n):
    import sympy as sp
    if isinstance(n, ast.Name):
        return sp.Symbol(n.id)
    if isinstance(n, ast.UnaryOp) and isinstance(n.op, ast.USub):
        a = _py_lin(n.operand)
        return None if a is None else -a
    if isinstance(n, ast.BinOp) and isinstance(n.op, (ast.Add, ast.Sub)):
        a, b = _py_lin(n.left), _py_lin(n.right)
        if a is None or b is None:
            return None
        return a + b if isinstance(n.op, ast.Add) else a - b
    return None


def _py_branch_assignments():
    src = open(os.path.join(REPO, "rebound", "particle.py")).read()
    out = {}
    for node in ast.walk(ast.parse(src)):
        if isinstance(node, ast.If) and re.sub(r"\s+", "", ast.unparse(node.test)) == "math.cos(inc)>0" and node.orelse:
            for which, body in (("prograde", node.body), ("retrograde", node.orelse)):
                for s in body:
                    if isinstance(s, ast.Assign) and isinstance(s.targets[0], ast.Name):
                        e = _py_lin(s.value)
                        if e is not None:
                            out[(s.targets[0].id, which)] = e
    return out


@P.task("parsers.angle_conversions", fn=CFN)
def _(v):
    """omega from pomega, f from theta and M from l, for prograde and retrograde orbits: (1) the C and the Python front end
    use the same formula; (2) the formula inverts the convention under which reb_orbit_from_particle_err reports pomega,
    theta and l (so that creating a particle and reading the element back returns it)."""
    import sympy as sp
    tu, fn = v.eng.find_function(CFN)
    cpars = _c_branch_assignments(tu.body(fn), _is_cos_inc_positive)
    tu2, rd = v.eng.find_function("reb_orbit_from_particle_err")
    reader = _c_branch_assignments(tu2.body(rd), _is_inc_below_half_pi)
    py = _py_branch_assignments()
    want = [(x, w) for x in ("omega", "f", "M") for w in ("prograde", "retrograde")]
    v.ground("c_parser.conversions_found", all(k in cpars for k in want), "found %s" % sorted(cpars))
    v.ground("python_parser.conversions_found", all(k in py for k in want), "found %s" % sorted(py))
    rwant = [(x, w) for x in ("pomega", "theta", "l", "f") for w in ("prograde", "retrograde")]
    v.ground("reader.conventions_found", all(k in reader for k in rwant), "found %s" % sorted(reader))
    if not (all(k in cpars for k in want) and all(k in py for k in want) and all(k in reader for k in rwant)):
        return
    Om, om, f, M = sp.symbols("Omega omega f M")
    for w in ("prograde", "retrograde"):
        # reader: o.f = wpf - o.omega defines wpf = omega + f
        wpf = sp.Symbol("wpf")
        sol = sp.solve(sp.Eq(sp.Symbol("f"), reader[("f", w)]), wpf)
        conv = {"pomega": reader[("pomega", w)], "theta": reader[("theta", w)].subs(wpf, sol[0] if sol else wpf),
                "l": reader[("l", w)].subs(sp.Symbol("pomega"), reader[("pomega", w)])}
        for var, given in (("omega", "pomega"), ("f", "theta"), ("M", "l")):
            c, p = cpars[(var, w)], py[(var, w)]
            v.ground("%s.%s_from_%s.c_equals_python" % (w, var, given), sp.simplify(c - p) == 0, "C: %s = %s; Python: %s = %s" % (var, c, var, p))
            back = conv[given].subs(sp.Symbol(var), c)
            v.ground("%s.%s_from_%s.inverts_the_reported_convention" % (w, var, given), sp.simplify(back - sp.Symbol(given)) == 0,
                     "reader reports %s = %s; with the parser's %s = %s this gives %s" % (given, conv[given], var, c, sp.simplify(back)))


# ---------------------------------------------------------------------------- arguments reach the parameter of the same name
@P.task("parsers.arguments_match_parameter_names", fn=CFN)
def _(v):
    """The front ends collect elements in variables named after the element (a, e, inc, Omega, omega, f, h, k, ix, iy, ...) and
    pass them on positionally.  Structural contract over the real sources of src/tools.c and src/particle.c: whenever an argument
    is a plain variable whose name is also the name of a parameter of the callee, it is passed in THAT parameter's position
    (passing `h` where the callee expects `k` compiles, and builds a different orbit)."""
    from engine import frames
    from engine import cfront as _cf
    bad, checked = [], 0
    protos = {}
    tus = [_cf.tu(f, REPO) for f in ("src/tools.c", "src/particle.c")]
    for tu in tus:
        for name, fn in list(getattr(tu, "functions", {}).items()) + list(getattr(tu, "protos", {}).items()):
            ps = [c.get("name") for c in fn.get("inner", ()) if isinstance(c, dict) and c.get("kind") == "ParmVarDecl"]
            if ps and all(ps) and (name not in protos or len(ps) >= len(protos[name])):
                protos[name] = ps
    for tu in tus:
        for name, fn in tu.functions.items():
            for n in frames.walk(fn):
                if n.get("kind") != "CallExpr":
                    continue
                callee = frames.callee_name(n)
                ps = protos.get(callee)
                if not ps:
                    continue
                for k, a in enumerate(n["inner"][1:]):
                    a = frames.strip_casts(a)
                    if a.get("kind") != "DeclRefExpr" or k >= len(ps):
                        continue
                    an = a.get("referencedDecl", {}).get("name")
                    if an in ps:
                        checked += 1
                        if ps[k] != an and ps.count(an) == 1 and ps[k] in [frames.strip_casts(x).get("referencedDecl", {}).get("name")
                                                                             for x in n["inner"][1:] if frames.strip_casts(x).get("kind") == "DeclRefExpr"]:
                            # both names occur among the arguments and are exchanged relative to the parameter list
                            bad.append("%s: %s(... %s in the position of parameter %s ...)" % (name, callee, an, ps[k]))
    v.ground("some_call_sites_checked", checked >= 20, "arguments compared with parameter names: %d" % checked)
    v.ground("no_argument_in_the_position_of_another_parameter", not bad, "; ".join(bad[:6]))


# ---------------------------------------------------------------------------- Python aliases are folded before they are used
@P.task("parsers.python_aliases_folded_before_use", fn=CFN)
def _(v):
    """Particle.__init__ documents pal_h / pal_k / pal_ix / pal_iy as alternative spellings of h / k / ix / iy.  The alias is folded
    into the short name by `if pal_h is not None: ... h = pal_h`.  Def-use contract on the real Python AST: inside __init__, every
    read of h / k / ix / iy other than the `is not None` guard of its own folding statement comes AFTER the folding (a decision
    list built before it silently drops the aliases: the particle differs from the one built with the short names and from the C
    front end)."""
    src = open(os.path.join(REPO, "rebound", "particle.py")).read()
    mod = ast.parse(src)
    init = None
    for node in ast.walk(mod):
        if isinstance(node, ast.ClassDef) and node.name == "Particle":
            for f in node.body:
                if isinstance(f, ast.FunctionDef) and f.name == "__init__":
                    init = f
    v.ground("init_found", init is not None, "")
    if init is None:
        return
    pairs = {"h": "pal_h", "k": "pal_k", "ix": "pal_ix", "iy": "pal_iy"}
    for short, alias in pairs.items():
        folds = []
        for node in ast.walk(init):
            if isinstance(node, ast.If) and isinstance(node.test, ast.Compare) and isinstance(node.test.left, ast.Name) \
                    and node.test.left.id == alias:
                for s in ast.walk(node):
                    if isinstance(s, ast.Assign) and isinstance(s.targets[0], ast.Name) and s.targets[0].id == short \
                            and isinstance(s.value, ast.Name) and s.value.id == alias:
                        folds.append(node)
        v.ground("%s.folding_statement_found" % alias, len(folds) == 1, "`if %s is not None: ... %s = %s`: %d" % (alias, short, alias, len(folds)))
        if len(folds) != 1:
            continue
        fold = folds[0]
        inside = {id(n) for n in ast.walk(fold)}
        early = [n.lineno for n in ast.walk(init) if isinstance(n, ast.Name) and n.id == short and isinstance(n.ctx, ast.Load)
                 and id(n) not in inside and n.lineno < fold.end_lineno]
        v.ground("%s.no_read_of_%s_before_the_alias_is_folded" % (alias, short), not early,
                 "reads of %s at lines %s, folding statement ends at line %d" % (short, early, fold.end_lineno))


# ---------------------------------------------------------------------------- dimensional conversions (a from P, M from T)
def _c_expr(n):
    """C expression -> sympy (identifiers: r->G -> G, r->t -> t, primary.m -> m_primary); + - * /, sqrt, cbrt, fabs, literals"""
    import sympy as sp
    from engine import frames
    n = _strip(n)
    k = n.get("kind")
    if k == "DeclRefExpr":
        return sp.Symbol(n["referencedDecl"]["name"])
    if k == "MemberExpr":
        base = _strip(n["inner"][0])
        bn = base.get("referencedDecl", {}).get("name") if base.get("kind") == "DeclRefExpr" else None
        return sp.Symbol({"primary": "m_primary"}.get(bn, "") if n["name"] == "m" and bn == "primary" else n["name"])
    if k in ("FloatingLiteral", "IntegerLiteral"):
        val = sp.nsimplify(n.get("value"), rational=True)
        return sp.pi if abs(float(val) - 3.141592653589793) < 1e-12 else val
    if k == "UnaryOperator" and n.get("opcode") == "-":
        return -_c_expr(n["inner"][0])
    if k == "BinaryOperator" and n.get("opcode") in ("+", "-", "*", "/"):
        a, b = _c_expr(n["inner"][0]), _c_expr(n["inner"][1])
        return {"+": a + b, "-": a - b, "*": a * b, "/": a / b}[n["opcode"]]
    if k == "CallExpr":
        fn = frames.callee_name(n)
        args = [_c_expr(a) for a in n["inner"][1:]]
        if fn == "sqrt":
            return sp.sqrt(args[0])
        if fn == "cbrt":
            return sp.cbrt(args[0])
        if fn in ("fabs", "fastabs"):
            return sp.Abs(args[0])
    raise ValueError("unsupported C expression %s" % k)


def _py_expr(n):
    import sympy as sp
    if isinstance(n, ast.Name):
        return sp.Symbol(n.id)
    if isinstance(n, ast.Attribute):
        if isinstance(n.value, ast.Name) and n.value.id == "math" and n.attr == "pi":
            return sp.pi
        if isinstance(n.value, ast.Name) and n.value.id == "primary" and n.attr == "m":
            return sp.Symbol("m_primary")
        return sp.Symbol(n.attr)           # simulation.G -> G, simulation.t -> t, self.m -> m
    if isinstance(n, ast.Constant):
        if not isinstance(n.value, (int, float)) or isinstance(n.value, bool):
            raise ValueError("non-numeric constant")
        return sp.nsimplify(n.value, rational=True)
    if isinstance(n, ast.UnaryOp) and isinstance(n.op, ast.USub):
        return -_py_expr(n.operand)
    if isinstance(n, ast.BinOp):
        a, b = _py_expr(n.left), _py_expr(n.right)
        if isinstance(n.op, ast.Add): return a + b
        if isinstance(n.op, ast.Sub): return a - b
        if isinstance(n.op, ast.Mult): return a * b
        if isinstance(n.op, ast.Div): return a / b
        if isinstance(n.op, ast.Pow): return a ** b
    if isinstance(n, ast.Call) and isinstance(n.func, ast.Name) and n.func.id == "abs":
        return sp.Abs(_py_expr(n.args[0]))
    if isinstance(n, ast.Call) and isinstance(n.func, ast.Attribute) and n.func.attr == "sqrt":
        return sp.sqrt(_py_expr(n.args[0]))
    raise ValueError("unsupported Python expression " + ast.dump(n)[:80])


@P.task("parsers.dimensional_conversions", fn=CFN)
def _(v):
    """a from the period P and the mean anomaly from the time of pericentre passage T involve G, the masses and the simulation time:
    Kepler's third law  a^3 = G (m_primary + m) P^2 / (4 pi^2),  n = sqrt(G (m_primary + m)/|a|^3),  M = n (t - T).
    Both front ends must use these formulas (the same particle from the same arguments in any unit system)."""
    import sympy as sp
    from engine import frames
    tu, fn = v.eng.find_function(CFN)
    G, mp, m, a, Pp, t, T = sp.symbols("G m_primary m a P t T")
    spec_a = sp.cbrt(G * (mp + m) * Pp ** 2 / (4 * sp.pi ** 2))
    spec_M = sp.sqrt(G * (mp + m) / sp.Abs(a ** 3)) * (t - T)
    # ---- C
    c_a, c_n, c_M = None, None, None
    for n in frames.walk(tu.body(fn)):
        if n.get("kind") == "BinaryOperator" and n.get("opcode") == "=":
            lhs = _strip(n["inner"][0])
            if lhs.get("kind") == "DeclRefExpr" and lhs["referencedDecl"]["name"] == "a":
                try:
                    e = _c_expr(n["inner"][1])
                    if e.has(Pp):
                        c_a = e
                except ValueError:
                    pass
            if lhs.get("kind") == "DeclRefExpr" and lhs["referencedDecl"]["name"] == "M":
                try:
                    e = _c_expr(n["inner"][1])
                    if e.has(T):
                        c_M = e
                except ValueError:
                    pass
        if n.get("kind") == "VarDecl" and n.get("name") == "n" and n.get("inner"):
            try:
                c_n = _c_expr(n["inner"][-1])
            except ValueError:
                pass
    # ---- Python
    src = open(os.path.join(REPO, "rebound", "particle.py")).read()
    py_a, py_n, py_M = None, [], None
    for node in ast.walk(ast.parse(src)):
        if isinstance(node, ast.Assign) and isinstance(node.targets[0], ast.Name):
            nm = node.targets[0].id
            try:
                e = _py_expr(node.value)
            except ValueError:
                continue
            if nm == "a" and e.has(Pp):
                py_a = e
            if nm == "n" and (e.has(a) or e.has(Pp)):
                py_n.append(e)
            if nm == "M" and e.has(T):
                py_M = e
    ok = lambda x, y: x is not None and y is not None and sp.simplify(x - y) == 0
    v.ground("c.a_from_P_is_keplers_third_law", ok(c_a, spec_a), "C: a = %s" % c_a)
    v.ground("python.a_from_P_is_keplers_third_law", ok(py_a, spec_a), "Python: a = %s" % py_a)
    n_sym = sp.Symbol("n")
    cM = None if (c_M is None or c_n is None) else c_M.subs(n_sym, c_n)
    v.ground("c.M_from_T", ok(cM, spec_M), "C: n = %s, M = %s" % (c_n, c_M))
    v.ground("python.single_definition_of_the_mean_motion", len(py_n) == 1, "assignments to n: %s" % py_n)
    pM = None if (py_M is None or len(py_n) != 1) else py_M.subs(n_sym, py_n[0])
    v.ground("python.M_from_T", ok(pM, spec_M), "Python: n = %s, M = %s" % (py_n, py_M))


# ---------------------------------------------------------------------------- the masses of a conversion are final before they are used
def _terminates(block):
    if not block:
        return False
    last = block[-1]
    if isinstance(last, (ast.Return, ast.Raise)):
        return True
    if isinstance(last, ast.If):
        return _terminates(last.body) and _terminates(last.orelse)
    return False


def _chains(fn):
    """for every AST node inside fn: the chain [(block list, index of the statement in it, branch tag)] from the function body down"""
    out = {}

    def visit_block(block, chain, tag):
        for i, s in enumerate(block):
            c = chain + [(block, i, tag)]
            for sub in ast.walk(s):
                out.setdefault(id(sub), c)
            for fld in ("body", "orelse", "finalbody"):
                b = getattr(s, fld, None)
                if isinstance(b, list) and b and isinstance(b[0], ast.stmt):
                    # nodes inside the nested block get the longer chain
                    for sub in b:
                        for x in ast.walk(sub):
                            out.pop(id(x), None)
                    visit_block(b, c, (id(s), fld, isinstance(s, (ast.For, ast.While))))
            for h in getattr(s, "handlers", []) or []:
                for sub in h.body:
                    for x in ast.walk(sub):
                        out.pop(id(x), None)
                visit_block(h.body, c, (id(s), "handler%d" % id(h), False))
    visit_block(fn.body, [], None)
    return out


def _may_flow(chain_r, chain_w):
    """can control go from the statement holding the read to the statement holding the write? (structured code: if / for / while /
    return / raise; a loop body may repeat)"""
    k = 0
    while k < len(chain_r) and k < len(chain_w) and chain_r[k][0] is chain_w[k][0] and chain_r[k][1] == chain_w[k][1] \
            and (k + 1 < len(chain_r) and k + 1 < len(chain_w)) and chain_r[k + 1][2] == chain_w[k + 1][2]:
        k += 1
    # k: first level at which the two chains part (same block list, or different sub-blocks of one compound statement)
    in_loop = any(c[2] is not None and c[2][2] for c in chain_r[:k + 1])
    if chain_r[k][0] is not chain_w[k][0]:
        # different sub-blocks of the same compound statement (if-body / else): exclusive unless inside a loop
        return in_loop
    if chain_r[k][1] > chain_w[k][1]:
        return in_loop
    if chain_r[k][1] == chain_w[k][1]:
        # same simple statement (read and write in one statement: the read is evaluated first, e.g. x.m = f(x.m)) or the header
        # of a compound statement: not a use of a stale value
        return False
    for blk, i, tag in chain_r[k + 1:]:
        if _terminates(blk):
            return False
    return True


@P.task("parsers.python_masses_are_final_before_a_conversion_uses_them", fn=CFN)
def _(v):
    """Particle.__init__ may replace the primary (default: centre of mass; index / hash lookup) and, with jacobi_masses=True, its
    mass (mu = G M_jacobi).  Every conversion that involves the gravitational parameter -- a from P, M from T, and the C
    conversions the primary is passed to -- must use the FINAL primary: def-use contract on the real AST of __init__: no value use
    of `primary` (primary.m, or primary as a call argument) can be followed on any control-flow path by an assignment to primary or
    primary.<member>; the same for self.m (the particle's own mass)."""
    src = open(os.path.join(REPO, "rebound", "particle.py")).read()
    mod = ast.parse(src)
    init = None
    for node in ast.walk(mod):
        if isinstance(node, ast.ClassDef) and node.name == "Particle":
            for f in node.body:
                if isinstance(f, ast.FunctionDef) and f.name == "__init__":
                    init = f
    v.ground("init_found", init is not None, "")
    if init is None:
        return
    chains = _chains(init)

    def is_primary(n):
        return isinstance(n, ast.Name) and n.id == "primary"

    def is_self_m(n):
        return isinstance(n, ast.Attribute) and n.attr == "m" and isinstance(n.value, ast.Name) and n.value.id == "self"
    for label, is_obj, writes_of, uses_of in (
            ("primary",
             is_primary,
             lambda n: (isinstance(n, ast.Name) and n.id == "primary" and isinstance(n.ctx, ast.Store))
             or (isinstance(n, ast.Attribute) and is_primary(n.value) and isinstance(n.ctx, ast.Store)),
             lambda n: (isinstance(n, ast.Attribute) and is_primary(n.value) and isinstance(n.ctx, ast.Load))
             or (isinstance(n, ast.Call) and any(is_primary(a) for a in n.args)
                 and not (isinstance(n.func, ast.Name) and n.func.id in ("isinstance", "type")))),   # type tests are not value uses
            ("self.m",
             is_self_m,
             lambda n: is_self_m(n) and isinstance(n.ctx, ast.Store),
             lambda n: is_self_m(n) and isinstance(n.ctx, ast.Load))):
        writes = [n for n in ast.walk(init) if writes_of(n)]
        uses = [n for n in ast.walk(init) if uses_of(n)]
        v.ground("%s.writes_and_uses_found" % label, len(writes) >= 1 and len(uses) >= 2, "writes %d, value uses %d" % (len(writes), len(uses)))
        stale = []
        for u in uses:
            for w in writes:
                cu, cw = chains.get(id(u)), chains.get(id(w))
                if cu is None or cw is None:
                    continue
                if _may_flow(cu, cw):
                    stale.append("line %d uses %s, line %d assigns it afterwards" % (u.lineno, label, w.lineno))
        v.ground("%s.no_value_use_before_a_later_assignment" % label, not stale, "; ".join(sorted(set(stale))[:5]))
