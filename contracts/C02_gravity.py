"""C02: every force routine of src/gravity.c computes the specified softened Newtonian pair sum.

Specification (written from the property statement, not from the code).  For a real particle k
    a_k = sum over ghost boxes g and sources s in Src(k), (s,k,g) not the self pair, of
          -G m_s (x_k + g - x_s) / (|x_k + g - x_s|^2 + eps^2)^(3/2)
Src(k) = active particles, plus test particles iff testparticle_type==1 and k is active; never test-test;
gravity_ignore_terms==1 removes the pair {0,1}, ==2 removes every pair containing particle 0.

Technique: the accumulation rule (DESIGN 3.3, engine/accum.py).  Per loop nest of the real function
  * `.body.*`       the real loop body, executed for symbolic indices under the real loop guards, adds exactly the spec term
                    to each accumulator leaf it writes (and nothing else: `.frame.*`),
  * `.iterspace.*`  the set of (target, source[, ghost]) contributions visited by the real loop headers / continue guards
                    equals the specified set, each exactly once (closed linear integer arithmetic, symbolic
                    N, N_var, N_active, testparticle_type, gravity_ignore_terms),
  * `.zeroed`       accumulators are zero when the first nest starts (true inductive invariant of the zeroing loop).
The conclusion a_k = sum over the specified set is the rule's meta-theorem (trusted, see P.trust).
"""
import z3
from engine.api import Pack
from engine import accum
from engine.csym import as_real, as_int
from engine.mem import Ptr, StructObj
from engine.cexec import PathEnd

P = Pack("C02", ["src/gravity.c", "src/boundary.c"], "gravity: pairwise sum")
PACKS = [P]
FN = "reb_calculate_acceleration"

P.assume("machine arithmetic treated as mathematical (doubles as reals): rounding, overflow and the order of "
         "floating-point summation are not modelled")
P.assume("sqrt axiomatised per occurrence: sqrt(x)^2 = x and sqrt(x) >= 0; (.)^(3/2) in the specification is x*sqrt(x)")
P.assume("configuration precondition: 0 <= N_var <= N, N_active == -1 or 0 <= N_active <= N - N_var, particles has N "
         "elements, testparticle_type in {0,1}, gravity_ignore_terms in {0,1,2}")
P.assume("no interrupt pending: reb_sigint <= 1 (otherwise the routine returns early by design)")
P.assume("the specification is defined: for every specified pair |x_k + g - x_s|^2 + eps^2 != 0 (instantiated at the "
         "visited pair; with zero softening coincident particles make the specified sum itself undefined)")
P.trust("accumulation rule: fold over a commutative monoid is independent of order (DESIGN 3.3): from the body contract, "
        "the frame and the iteration-space equality, accumulator_final = accumulator_initial + sum of the spec terms over "
        "the specified contribution set; likewise sum_k m_k a_k = sum over visited pairs of (m_i da_i + m_j da_j)")

R, I = z3.RealSort(), z3.IntSort()
XYZ = ("x", "y", "z")
POLY = ("polyid", "z3", "cvc5")
PAIR = ((),)          # shape of a two-level nest: a loop with one childless inner loop
AXYZ = ("ax", "ay", "az")


# ------------------------------------------------------------------------------------------------ harness
class Cfg:
    pass


def setup(v, gravity, ghosts=(0, 0, 0)):
    """symbolic simulation with the documented configuration precondition"""
    c = Cfg()
    c.v = v
    c.r, c.rp = v.struct_obj("struct reb_simulation", "r")
    c.N, c.N_var, c.N_active = v.int("N"), v.int("N_var"), v.int("N_active")
    c.tp, c.ign = v.int("testparticle_type"), v.int("gravity_ignore_terms")
    c.G, c.eps = v.real("G"), v.real("softening")
    c.parts = v.array("struct reb_particle", c.N, "P")
    r = c.r
    r.N, r.N_var, r.N_active = c.N, c.N_var, c.N_active
    r.testparticle_type, r.gravity_ignore_terms = c.tp, c.ign
    r.G, r.softening = c.G, c.eps
    r.particles = c.parts.ptr
    r.gravity = v.enumc(gravity)
    r.N_ghost_x, r.N_ghost_y, r.N_ghost_z = ghosts
    c.N_real = c.N - c.N_var
    c.N_act = z3.If(c.N_active == -1, c.N_real, c.N_active)
    v.assume(c.N >= 0, c.N_var >= 0, c.N_var <= c.N,
             z3.Or(c.N_active == -1, z3.And(0 <= c.N_active, c.N_active <= c.N - c.N_var)),
             z3.Or(c.tp == 0, c.tp == 1), 0 <= c.ign, c.ign <= 2)
    sig = v.eng.global_object(v.st, "reb_sigint")
    sig.value = z3.Int("reb_sigint")
    v.assume(sig.value <= 1)
    # frozen state: positions and masses (captured before the call)
    c.X = {f: c.parts.array(f) for f in XYZ + ("m",)}
    return c


def spec_sqrt(eng, st, x):
    """sqrt of a sum of squares in the specification: same uninterpreted symbol as the engine's model of sqrt"""
    x = z3.simplify(x)
    y = eng.uf("sqrt", R, R)(x)
    st.assume(y * y == x)
    st.assume(y >= 0)
    return y


def sep2(c, k, s, g=(0, 0, 0)):
    d = [z3.Select(c.X[f], k) + gg - z3.Select(c.X[f], s) for f, gg in zip(XYZ, g)]
    return d, d[0] * d[0] + d[1] * d[1] + d[2] * d[2] + c.eps * c.eps


def spec_term(c, st, k, s, g=(0, 0, 0), weight=None):
    """acceleration of particle k due to source s seen through the ghost-box shift g (3 components)"""
    d, r2 = sep2(c, k, s, g)
    rr = spec_sqrt(c.v.eng, st, r2)
    pref = -c.G * z3.Select(c.X["m"], s) / (r2 * rr)
    if weight is not None:
        pref = pref * weight
    return [pref * dd for dd in d]


def is_source(c, k, s, N_real=None, N_act=None, ign=None):
    """Spec predicate: s contributes to the acceleration of k (single box).  From the statement.
    The heliocentric splittings (MERCURIUS, TRACE) use it with ign = 2 (the star's pairs belong to the Kepler part) and,
    for the encounter sub-system, with the encounter counts in place of N_real / N_active."""
    N_real = c.N_real if N_real is None else N_real
    N_act = c.N_act if N_act is None else N_act
    ign = c.ign if ign is None else ign
    active = lambda a: z3.And(0 <= a, a < N_act)
    test = lambda a: z3.And(N_act <= a, a < N_real)
    real = lambda a: z3.And(0 <= a, a < N_real)
    src = z3.Or(active(s), z3.And(test(s), c.tp == 1, active(k)))
    ign1 = z3.Implies(ign == 1, z3.Not(z3.Or(z3.And(k == 0, s == 1), z3.And(k == 1, s == 0))))
    ign2 = z3.Implies(ign == 2, z3.And(k != 0, s != 0))
    return z3.And(real(k), real(s), k != s, src, ign1, ign2)


def acc_keys(A, c):
    return [A.key(c.parts, f) for f in AXYZ]


def frozen_unchanged(v, c, name="frame.positions_masses_untouched"):
    v.prove(name, z3.And(*[c.parts.array(f) == c.X[f] for f in XYZ + ("m",)]))


def zero_loop_invariant(c, var, upto, leaves=AXYZ, extra=None):
    k = z3.Int("kz")

    def inv(L):
        i = L[var]
        cur = {f: c.parts.array(f) for f in leaves}
        out = [("range", z3.And(0 <= i, i <= z3.If(upto >= 0, upto, 0))),
               ("zeroed", z3.ForAll([k], z3.Implies(z3.And(0 <= k, k < i), z3.And(*[z3.Select(cur[f], k) == 0 for f in leaves]))))]
        if extra:
            out += extra(L, k)
        return out
    return inv


def prove_zeroed(c, st, name, upto, arrays=None):
    """at the entry of the first nest every accumulator element below `upto` is zero"""
    v = c.v
    k = v.eng.fresh("kzero", I)
    arrays = arrays or [c.parts.array(f) for f in AXYZ]
    for a in arrays:
        v.eng.oblige(st, "%s.%s.%s" % (v.task.name, name, a.decl().name() if z3.is_const(a) else "acc"),
                     z3.Select(a, k) == 0, "post", extra_hyps=[0 <= k, k < upto])


# ------------------------------------------------------------------------------------------------ pair body contract
def pair_visit(c, A, i_name="i", j_name="j", j_when=None, weight=None, ghost=None, target=None, also=None, leaves=AXYZ,
               term=None):
    """visit callback for a body that updates target(i) with the term of source j and (when `j_when`) target(j) with the
    term of source i.  j_when = None: always; otherwise a z3 condition *from the specification*.
    A body path that ends in `continue` must leave every accumulator untouched and contributes nothing."""
    def visit(vis):
        v = c.v
        if vis.flow == accum.Flow.CONTINUE:
            for key in A.accs:
                vis.unchanged(key, "skipped.unchanged")
            return
        i, j = vis.idx[i_name], vis.idx[j_name]
        ti, tj = (i, j) if target is None else target(vis)
        st = vis.state
        keys = [A.key(c.parts, f) for f in leaves]
        g = ghost.shift(vis) if ghost else (0, 0, 0)
        gm = ghost.shift(vis, -1) if ghost else (0, 0, 0)
        w = weight(vis, ti, tj) if weight else None
        fi = (term or spec_term)(c, st, ti, tj, g, w)
        fj = (term or spec_term)(c, st, tj, ti, gm, w)
        cases = [((), True)] if j_when is None else [((j_when,), True), ((z3.Not(j_when),), False)]
        for f, key, si in zip(XYZ, keys, fi):
            vis.prove("body.i." + f, vis.delta(key, ti) == si, order=POLY)
        for hyp, on in cases:
            tag = "" if j_when is None else (".on" if on else ".off")
            for f, key, sj in zip(XYZ, keys, fj):
                vis.prove("body.j%s.%s" % (tag, f), vis.delta(key, tj, hyp) == (sj if on else 0), assuming=hyp, order=POLY)
            if on:
                # momentum lemma (also used by C04): the two updates of a visited pair cancel when weighted by the masses
                mi, mj = z3.Select(c.X["m"], ti), z3.Select(c.X["m"], tj)
                for f, key in zip(XYZ, keys):
                    vis.prove("momentum%s.%s" % (tag, f), mi * vis.delta(key, ti, hyp) + mj * vis.delta(key, tj, hyp) == 0,
                              assuming=hyp, order=POLY)
        # frame: no other element of any accumulator changes
        k = v.eng.fresh("kf", I)
        for f, key in zip(XYZ, keys):
            vis.prove("frame.other_elements." + f, z3.Select(vis.post[key], k) == z3.Select(vis.pre[key], k),
                      assuming=(k != ti, k != tj))
        if also:
            also(vis, ti, tj)
        vis.contrib((ghost.key(vis) if ghost else ()) + (i, j))
        vis.contrib((ghost.key(vis, -1) if ghost else ()) + (j, i), when=True if j_when is None else j_when)
    return visit


def pair_pre(c, ghost=None, target=None, i_name="i", j_name="j", also=None):
    """instantiate 'the specification is defined' at the visited pair (see P.assume)"""
    def pre(vis):
        i, j = vis.idx[i_name], vis.idx[j_name]
        ti, tj = (i, j) if target is None else target(vis)
        g = ghost.shift(vis) if ghost else (0, 0, 0)
        _d, r2 = sep2(c, ti, tj, g)
        vis.state.assume(r2 != 0)
        if also:
            also(vis, ti, tj)
    return pre


def two_level(v, loops, what):
    ok = all(l.shape() == PAIR for l in loops)
    return [[l.ordinal, l.children[0].ordinal] for l in loops] if ok else None


# ------------------------------------------------------------------------------------------------ ghost boxes
BOUNDARIES = ("REB_BOUNDARY_NONE", "REB_BOUNDARY_OPEN", "REB_BOUNDARY_PERIODIC", "REB_BOUNDARY_SHEAR")
GB = "reb_boundary_get_ghostbox"
P.assume("reb_boundary_get_ghostbox is used through its contract in the gravity tasks: shift(0,0,0) = 0 and "
         "shift(-a,-b,-c) = -shift(a,b,c); proved from the real body per boundary type in tasks ghostbox.*")


P.assume("C fmod is odd in its first argument and fmod(0,y) = 0 (C99 7.12.10.1: the result has the sign of x and magnitude "
         "less than |y|; exact in IEEE arithmetic): used for the time-dependent shear shift only")


def odd_fmod(v):
    """fmod(x,y) as sign * FM(canonical(+-x), y): oddness in x holds by construction, fmod(0,y) = 0"""
    FM = z3.Function("fmod_abs", R, R, R)

    def apply(eng, st, args, n):
        x, y = z3.simplify(as_real(args[0]), som=True), as_real(args[1])
        eng.check_then_assume(st, "def.fmod@%s" % eng._where(n), y != 0, "def", n)
        if z3.is_rational_value(x) and x.numerator_as_long() == 0:
            return z3.RealVal(0)
        nx = z3.simplify(-x, som=True)
        if str(nx) < str(x):
            return -FM(nx, y)
        return FM(x, y)
    v.contract("fmod", apply)


def ghostbox_task(bname):
    @P.task("ghostbox." + bname[len("REB_BOUNDARY_"):].lower(), fn=GB)
    def _(v):
        """summary contract of reb_boundary_get_ghostbox: the position shift is odd in the box index and zero for the
        central box (the time-dependent shear shift included)"""
        r, rp = v.struct_obj("struct reb_simulation", "r")
        r.boundary = v.enumc(bname)
        a, b, cc = v.int("a"), v.int("b"), v.int("c")
        if bname == "REB_BOUNDARY_SHEAR":
            v.assume(r.boxsize.y > 0)
            odd_fmod(v)
        g = v.call(GB, rp, a, b, cc)
        h = v.call(GB, rp, -a, -b, -cc)
        z = v.call(GB, rp, 0, 0, 0)
        for f in XYZ:
            v.prove("odd." + f, h[f] == -g[f])
            v.prove("origin." + f, z[f] == 0)
        if bname in ("REB_BOUNDARY_OPEN", "REB_BOUNDARY_PERIODIC"):
            # the images of the force specification sit at whole multiples of the box edges (not of the root-cell size)
            for f, n_ in zip(XYZ, (a, b, cc)):
                v.prove("image_shift_is_index_times_box_edge." + f, g[f] == z3.ToReal(n_) * r.boxsize[f])
    return _


for _b in BOUNDARIES:
    ghostbox_task(_b)


class Ghost:
    """contract of reb_boundary_get_ghostbox inside the gravity tasks + access to the shift of the visited box"""
    names = ("gbx", "gby", "gbz")

    def __init__(self, v):
        self.v = v
        self.F = {f: z3.Function("ghost_shift_" + f, I, I, I, R) for f in XYZ}
        t = v.eng.ctype("struct reb_vec6d")

        def apply(eng, st, args, n):
            idx = [z3.simplify(as_int(x)) for x in args[1:4]]
            s = StructObj(t, {})
            central = all(z3.is_int_value(x) and x.as_long() == 0 for x in idx)
            for f in XYZ:
                s.fields[f] = z3.RealVal(0) if central else self.F[f](*idx)
            for f in ("vx", "vy", "vz"):
                s.fields[f] = eng.fresh("ghost_" + f, R)
            return s
        v.contract(GB, apply)

    def shift(self, vis, sign=1):
        idx = [vis.idx[n] for n in self.names]
        g = tuple(self.F[f](*idx) for f in XYZ)
        if sign == 1:
            return g
        m = tuple(z3.simplify(self.F[f](*[-x for x in idx])) for f in XYZ)
        for a, b in zip(g, m):
            vis.state.assume(b == -a)          # oddness, proved in ghostbox.*
        return m

    def key(self, vis, sign=1):
        return tuple(sign * vis.idx[n] for n in self.names)


# ------------------------------------------------------------------------------------------------ REB_GRAVITY_BASIC
def basic_shape(v):
    """loops of `case REB_GRAVITY_BASIC` identified by structure (ordinals are never typed in)"""
    top = accum.loops_under(v.eng, FN, v.eng.enum("REB_GRAVITY_BASIC"))
    ok = len(top) == 2 and top[0].shape() == () and top[1].shape() == (((PAIR, PAIR),),)
    v.ground("shape.basic", ok, "expected: zeroing loop; 3 ghost loops around [active i>j nest, test-particle nest]; got %s"
             % [t.shape() for t in top])
    if not ok:
        raise PathEnd("REB_GRAVITY_BASIC: unexpected loop structure (reported by shape.basic)")
    zero, gx = top
    gy = gx.children[0]
    gz = gy.children[0]
    act, tst = gz.children
    return zero.ordinal, [gx.ordinal, gy.ordinal, gz.ordinal], [act.ordinal, act.children[0].ordinal], [tst.ordinal, tst.children[0].ordinal]


@P.task("basic.onebox", fn=FN, timeout=300)
def _(v):
    """N_ghost_x = N_ghost_y = N_ghost_z = 0: the single (central) box"""
    c = setup(v, "REB_GRAVITY_BASIC")
    Ghost(v)
    zero, ghosts, act, tst = basic_shape(v)
    A = accum.Accum(v, FN, [(c.parts, f) for f in AXYZ])
    v.loop(FN, zero, invariant=zero_loop_invariant(c, "i", c.N), variant=lambda L: c.N - L.i)
    A.nest("active", act, pair_visit(c, A), pre=pair_pre(c), entry=lambda st: prove_zeroed(c, st, "zeroed", c.N))
    A.nest("test", tst, pair_visit(c, A, j_when=(c.tp == 1)), pre=pair_pre(c))
    v.call(FN, c.rp)
    frozen_unchanged(v, c)
    k, s = z3.Ints("k s")
    A.iterspace("iterspace", (k, s), is_source(c, k, s))


@P.task("basic.ghostboxes", fn=FN, timeout=300)
def _(v):
    """symbolic N_ghost_x/y/z >= 0: contributions are keyed by (box index, target, source); the j-update of a pair seen
    through box g is the term of the image -g (oddness of the shift)"""
    ng = [v.int("N_ghost_" + f) for f in XYZ]
    c = setup(v, "REB_GRAVITY_BASIC", ghosts=ng)
    v.assume(*[n >= 0 for n in ng])
    gh = Ghost(v)
    zero, ghosts, act, tst = basic_shape(v)
    A = accum.Accum(v, FN, [(c.parts, f) for f in AXYZ])
    v.loop(FN, zero, invariant=zero_loop_invariant(c, "i", c.N), variant=lambda L: c.N - L.i)
    A.nest("active", ghosts + act, pair_visit(c, A, ghost=gh), pre=pair_pre(c, ghost=gh),
           entry=lambda st: prove_zeroed(c, st, "zeroed", c.N))
    A.nest("test", ghosts + tst, pair_visit(c, A, j_when=(c.tp == 1), ghost=gh), pre=pair_pre(c, ghost=gh))
    v.call(FN, c.rp)
    frozen_unchanged(v, c)
    a, b, cc, k, s = z3.Ints("a b c k s")
    inbox = z3.And(*[z3.And(-n <= x, x <= n) for n, x in zip(ng, (a, b, cc))])
    A.iterspace("iterspace", (a, b, cc, k, s), z3.And(inbox, is_source(c, k, s)))
    # the images of a particle itself (s == k, g != 0) are part of the specified sum but are not visited: they cancel
    # pairwise between the boxes g and -g
    kk = v.int("kself")
    st = v.st
    g = tuple(gh.F[f](a, b, cc) for f in XYZ)
    m = tuple(z3.simplify(gh.F[f](-a, -b, -cc)) for f in XYZ)
    for x, y in zip(g, m):
        st.assume(y == -x)
    _d, r2 = sep2(c, kk, kk, g)
    st.assume(r2 != 0)
    f1 = spec_term(c, st, kk, kk, g)
    f2 = spec_term(c, st, kk, kk, m)
    for f, u, w in zip(XYZ, f1, f2):
        v.prove("selfimage_cancel." + f, u + w == 0, order=POLY)


# ------------------------------------------------------------------------------------------------ REB_GRAVITY_COMPENSATED
P.assume("REB_GRAVITY_COMPENSATED/JACOBI/MERCURIUS/TRACE do not look at N_ghost_*: their contracts are for the single box "
         "(N_ghost_x = N_ghost_y = N_ghost_z = 0)")
P.assume("REB_GRAVITY_COMPENSATED: r->gravity_cs already holds N_allocated_gravity_cs >= N elements (the state after the "
         "first call); in real arithmetic the Kahan compensation terms are identically zero (loop invariant cs == 0)")


@P.task("compensated", fn=FN, timeout=300)
def _(v):
    c = setup(v, "REB_GRAVITY_COMPENSATED")
    ncs = v.int("N_allocated_gravity_cs")
    cs = v.array("struct reb_vec3d", ncs, "CS")
    c.r.N_allocated_gravity_cs = ncs
    c.r.gravity_cs = cs.ptr
    v.assume(ncs >= c.N)
    top = accum.loops_under(v.eng, FN, v.eng.enum("REB_GRAVITY_COMPENSATED"))
    # single loops before the zeroing loop (e.g. inside the reallocation branch, which the precondition excludes) carry no
    # contract: if a path reaches one the engine reports the task as unsupported
    while len(top) > 3 and top[0].shape() == ():
        top = top[1:]
    ok = len(top) == 3 and top[0].shape() == () and top[1].shape() == PAIR and top[2].shape() == PAIR
    v.ground("shape.compensated", ok, "expected: zeroing loop, active nest, test-particle nest; got %s" % [t.shape() for t in top])
    if not ok:
        raise PathEnd("REB_GRAVITY_COMPENSATED: unexpected loop structure (reported by shape.compensated)")
    zero, act, tst = top
    A = accum.Accum(v, FN, [(c.parts, f) for f in AXYZ] + [(cs, f) for f in XYZ])
    cskeys = [A.key(cs, f) for f in XYZ]

    def zero_extra(L, k):
        return [("cs_zeroed", z3.ForAll([k], z3.Implies(z3.And(0 <= k, k < L.i), z3.And(*[z3.Select(cs.array(f), k) == 0 for f in XYZ]))))]
    v.loop(FN, zero.ordinal, invariant=zero_loop_invariant(c, "i", c.N_real, extra=zero_extra), variant=lambda L: c.N_real - L.i)

    def cs_pre(vis, ti, tj):
        # instances of the nest invariant  forall k < N_real: cs[k] == 0  at the two indices the body touches
        for key in cskeys:
            vis.state.assume(z3.Select(vis.pre[key], ti) == 0)
            vis.state.assume(z3.Select(vis.pre[key], tj) == 0)

    def cs_post(vis, ti, tj):
        k = v.eng.fresh("kc", I)
        for f, key in zip(XYZ, cskeys):
            vis.prove("kahan.cs_stays_zero." + f, vis.resolve(z3.Select(vis.post[key], k), (z3.Select(vis.pre[key], k) == 0,)) == 0,
                      assuming=(z3.Select(vis.pre[key], k) == 0,))

    def entry(st):
        prove_zeroed(c, st, "zeroed", c.N_real)
        prove_zeroed(c, st, "zeroed.cs", c.N_real, [cs.array(f) for f in XYZ])
    A.nest("active", [act.ordinal, act.children[0].ordinal], pair_visit(c, A, also=cs_post), pre=pair_pre(c, also=cs_pre), entry=entry)
    A.nest("test", [tst.ordinal, tst.children[0].ordinal], pair_visit(c, A, j_when=(c.tp == 1), also=cs_post),
           pre=pair_pre(c, also=cs_pre))
    v.call(FN, c.rp)
    frozen_unchanged(v, c)
    k, s = z3.Ints("k s")
    A.iterspace("iterspace", (k, s), is_source(c, k, s))


# ------------------------------------------------------------------------------------------------ MERCURIUS / TRACE
P.assume("MERCURIUS: the switching function ri_mercurius.L is a pure function of (d, dcrit) (called through the pointer; "
         "modelled as an uninterpreted function); dcrit has N_allocated_dcrit >= N elements")
P.assume("MERCURIUS mode 1 / TRACE Kepler mode: encounter_map is strictly increasing on [0, encounter_N) with "
         "encounter_map[0] == 0 and values below N - N_var (as built by the encounter steps: flags compressed to indices in "
         "increasing order), 1 <= encounter_N, 0 <= encounter_N_active <= encounter_N; coordinates are heliocentric: the "
         "star term is -G m_0 x_k/(|x_k|^2+eps^2)^(3/2) with the star at the origin (particles[0] carries the centre of mass)")
P.assume("TRACE: current_Ks holds N*N flags")
P.trust("assignment rule: a loop whose body assigns a[map[i]] := t(i) (independent of a) for an injective map leaves "
        "a[map[i]] = t(i) for every visited i and every other element unchanged (used for the star-term loops of "
        "MERCURIUS mode 1 and TRACE Kepler mode)")


def helio_shape(v, cases, what, first_is_single=True):
    top = accum.loops_under(v.eng, FN, *cases)
    ok = len(top) == 3 and top[0].shape() == () and top[1].shape() == PAIR and top[2].shape() == PAIR
    v.ground("shape." + what, ok, "expected: single loop, active nest, test-particle nest; got %s" % [t.shape() for t in top])
    if not ok:
        raise PathEnd(what + ": unexpected loop structure (reported by shape.*)")
    return top[0].ordinal, [top[1].ordinal, top[1].children[0].ordinal], [top[2].ordinal, top[2].children[0].ordinal]


def install_L(v, c):
    from engine.mem import FuncRef
    c.LF = z3.Function("L_switch", R, R, R)
    c.L_calls = []

    def apply(eng, st, args, n):
        t = c.LF(as_real(args[1]), as_real(args[2]))
        c.L_calls.append(t)
        return t
    v.contract("L_switch", apply)
    c.r.ri_mercurius.L = FuncRef("L_switch")
    nd = v.int("N_allocated_dcrit")
    c.dcrit = v.array("double", nd, "dcrit")
    c.r.ri_mercurius.dcrit = c.dcrit.ptr
    c.r.ri_mercurius.N_allocated_dcrit = nd
    v.assume(nd >= c.N)
    c.D = c.dcrit.array()


def L_weight(c, complement):
    """spec weight of a pair: L(|x_k - x_s|_eps, max(dcrit_k, dcrit_s)) resp. 1 - L(same arguments).  The term the code
    obtained from the switching function on this path must be the same application (`.weight.same_arguments`)."""
    def weight(vis, ti, tj):
        _d, r2 = sep2(c, ti, tj)
        rr = spec_sqrt(c.v.eng, vis.state, r2)
        di, dj = z3.Select(c.D, ti), z3.Select(c.D, tj)
        wspec = c.LF(rr, z3.If(di >= dj, di, dj))
        ok = len(c.L_calls) == 1
        c.v.ground(vis.acc.relname(vis, "weight.one_call_of_L"), ok, "%d calls of the switching function in the body" % len(c.L_calls))
        if ok:
            vis.prove("weight.same_arguments", c.L_calls[0] == wspec)
            vis.state.assume(c.L_calls[0] == wspec)
            vis.state.assume(z3.simplify(c.L_calls[0]) == wspec)      # the same fact on the simplified form of the term
        return (1 - wspec) if complement else wspec
    return weight


def clear_L(c):
    def also(vis, ti, tj):
        del c.L_calls[:]
    return also


@P.task("mercurius.mode0", fn=FN, timeout=300)
def _(v):
    """WHFast part: every pair without the star, weighted by L"""
    c = setup(v, "REB_GRAVITY_MERCURIUS")
    c.r.integrator = v.enumc("REB_INTEGRATOR_MERCURIUS")
    c.r.ri_mercurius.mode = 0
    install_L(v, c)
    zero, act, tst = helio_shape(v, (v.eng.enum("REB_GRAVITY_MERCURIUS"), 0), "mercurius.mode0")
    A = accum.Accum(v, FN, [(c.parts, f) for f in AXYZ])
    v.loop(FN, zero, invariant=zero_loop_invariant(c, "i", c.N_real), variant=lambda L: c.N_real - L.i)
    w = L_weight(c, False)
    A.nest("active", act, pair_visit(c, A, weight=w), pre=pair_pre(c, also=clear_L(c)),
           entry=lambda st: prove_zeroed(c, st, "zeroed", c.N_real))
    A.nest("test", tst, pair_visit(c, A, j_when=(c.tp == 1), weight=w), pre=pair_pre(c, also=clear_L(c)))
    v.call(FN, c.rp)
    frozen_unchanged(v, c)
    k, s = z3.Ints("k s")
    A.iterspace("iterspace", (k, s), is_source(c, k, s, ign=2))


def encounter_setup(v, c, ri):
    c.encN, c.encNa = v.int("encounter_N"), v.int("encounter_N_active")
    nm = v.int("N_allocated_map")
    c.map = v.array("int", nm, "map")
    ri.encounter_N, ri.encounter_N_active = c.encN, c.encNa
    ri.encounter_map = c.map.ptr
    c.M = c.map.array()
    a, b = z3.Ints("qa qb")
    v.assume(c.encN >= 1, 0 <= c.encNa, c.encNa <= c.encN, nm >= c.encN, z3.Select(c.M, 0) == 0,
             z3.ForAll([a], z3.Implies(z3.And(0 <= a, a < c.encN), z3.And(0 <= z3.Select(c.M, a), z3.Select(c.M, a) < c.N_real))),
             z3.ForAll([a, b], z3.Implies(z3.And(0 <= a, a < b, b < c.encN), z3.Select(c.M, a) < z3.Select(c.M, b))))


def star_nest(c, A, name, ordinal):
    """for (i=1; i<encounter_N; i++) a[map[i]] = star term: assignment loop (see P.trust)"""
    v = c.v
    keys = acc_keys(A, c)

    def star(st, mi):
        d = [z3.Select(c.X[f], mi) for f in XYZ]
        r2 = d[0] * d[0] + d[1] * d[1] + d[2] * d[2] + c.eps * c.eps
        return d, r2

    def pre(vis):
        mi = z3.Select(c.M, vis.idx["i"])
        _d, r2 = star(vis.state, mi)
        vis.state.assume(r2 != 0)

    def visit(vis):
        mi = z3.Select(c.M, vis.idx["i"])
        d, r2 = star(vis.state, mi)
        rr = spec_sqrt(v.eng, vis.state, r2)
        pref = -c.G * z3.Select(c.X["m"], 0) / (r2 * rr)
        k = v.eng.fresh("kf", I)
        for f, key, dd in zip(XYZ, keys, d):
            vis.prove("star.value." + f, vis.resolve(z3.Select(vis.post[key], mi)) == pref * dd, order=POLY)
            vis.prove("frame.other_elements." + f, z3.Select(vis.post[key], k) == z3.Select(vis.pre[key], k), assuming=(k != mi,))
        vis.contrib((vis.idx["i"],))
    return A.nest(name, [ordinal], visit, pre=pre)


def enc_target(c):
    return lambda vis: (z3.Select(c.M, vis.idx["i"]), z3.Select(c.M, vis.idx["j"]))


def encounter_iterspace(v, c, A):
    p, q = z3.Ints("p q")
    A.iterspace("iterspace.pairs", (p, q), is_source(c, p, q, N_real=c.encN, N_act=c.encNa, ign=2), nests=("active", "test"))
    A.iterspace("iterspace.star", (p,), z3.And(1 <= p, p < c.encN), nests=("star",))


@P.task("mercurius.mode1", fn=FN, timeout=300)
def _(v):
    """IAS15 (encounter) part: star term for every encounter particle, then every pair of encounter particles without the
    star weighted by 1-L; contributions are keyed by positions in encounter_map"""
    c = setup(v, "REB_GRAVITY_MERCURIUS")
    c.r.integrator = v.enumc("REB_INTEGRATOR_MERCURIUS")
    c.r.ri_mercurius.mode = 1
    install_L(v, c)
    encounter_setup(v, c, c.r.ri_mercurius)
    star, act, tst = helio_shape(v, (v.eng.enum("REB_GRAVITY_MERCURIUS"), 1), "mercurius.mode1")
    A = accum.Accum(v, FN, [(c.parts, f) for f in AXYZ])
    w = L_weight(c, True)
    tg = enc_target(c)
    star_nest(c, A, "star", star)
    A.nest("active", act, pair_visit(c, A, weight=w, target=tg), pre=pair_pre(c, target=tg, also=clear_L(c)))
    A.nest("test", tst, pair_visit(c, A, j_when=(c.tp == 1), weight=w, target=tg), pre=pair_pre(c, target=tg, also=clear_L(c)))
    v.call(FN, c.rp)
    frozen_unchanged(v, c)
    encounter_iterspace(v, c, A)


@P.task("mercurius.parts_add_up", fn=FN)
def _(v):
    """the two parts use L(d, dcrit) and 1 - L(d, dcrit) with the same arguments for the same pair
    (`.weight.same_arguments` in mercurius.mode0 / mercurius.mode1 tie the code's calls to this application):
    L*f + (1-L)*f = f componentwise"""
    c = setup(v, "REB_GRAVITY_MERCURIUS")
    install_L(v, c)
    k, s = v.int("k"), v.int("s")
    _d, r2 = sep2(c, k, s)
    v.assume(r2 != 0)
    rr = spec_sqrt(v.eng, v.st, r2)
    dk, ds = z3.Select(c.D, k), z3.Select(c.D, s)
    L = c.LF(rr, z3.If(dk >= ds, dk, ds))
    full = spec_term(c, v.st, k, s)
    p0 = spec_term(c, v.st, k, s, weight=L)
    p1 = spec_term(c, v.st, k, s, weight=1 - L)
    for f, a, b, t in zip(XYZ, p0, p1, full):
        v.prove("sum." + f, a + b == t, order=POLY)


def trace_common(v, mode):
    c = setup(v, "REB_GRAVITY_TRACE")
    c.r.ri_trace.mode = v.enumc(mode)
    c.Ks = v.array("int", c.N * c.N, "Ks")
    c.r.ri_trace.current_Ks = c.Ks.ptr
    c.K = c.Ks.array()
    return c


def ks_flag(c, a, b):
    """flag of the unordered particle pair {a,b}: current_Ks[min*N + max]"""
    return z3.Select(c.K, z3.If(a < b, a, b) * c.N + z3.If(a < b, b, a))


@P.task("trace.interaction", fn=FN, timeout=300)
def _(v):
    """interaction step: every pair without the star whose close-encounter flag is clear"""
    c = trace_common(v, "REB_TRACE_MODE_INTERACTION")
    zero, act, tst = helio_shape(v, (v.eng.enum("REB_GRAVITY_TRACE"), v.eng.enum("REB_TRACE_MODE_INTERACTION")), "trace.interaction")
    A = accum.Accum(v, FN, [(c.parts, f) for f in AXYZ])
    v.loop(FN, zero, invariant=zero_loop_invariant(c, "i", c.N_real), variant=lambda L: c.N_real - L.i)
    A.nest("active", act, pair_visit(c, A), pre=pair_pre(c), entry=lambda st: prove_zeroed(c, st, "zeroed", c.N_real))
    A.nest("test", tst, pair_visit(c, A, j_when=(c.tp == 1)), pre=pair_pre(c))
    v.call(FN, c.rp)
    frozen_unchanged(v, c)
    k, s = z3.Ints("k s")
    A.iterspace("iterspace", (k, s), z3.And(is_source(c, k, s, ign=2), ks_flag(c, k, s) == 0))


@P.task("trace.kepler", fn=FN, timeout=300)
def _(v):
    """Kepler (BS) step: star term for every encounter particle, then every pair of encounter particles without the star
    whose close-encounter flag is set"""
    c = trace_common(v, "REB_TRACE_MODE_KEPLER")
    encounter_setup(v, c, c.r.ri_trace)
    star, act, tst = helio_shape(v, (v.eng.enum("REB_GRAVITY_TRACE"), v.eng.enum("REB_TRACE_MODE_KEPLER")), "trace.kepler")
    A = accum.Accum(v, FN, [(c.parts, f) for f in AXYZ])
    tg = enc_target(c)
    star_nest(c, A, "star", star)
    A.nest("active", act, pair_visit(c, A, target=tg), pre=pair_pre(c, target=tg))
    A.nest("test", tst, pair_visit(c, A, j_when=(c.tp == 1), target=tg), pre=pair_pre(c, target=tg))
    v.call(FN, c.rp)
    frozen_unchanged(v, c)
    p, q = z3.Ints("p q")
    flag = ks_flag(c, z3.Select(c.M, p), z3.Select(c.M, q))
    A.iterspace("iterspace.pairs", (p, q), z3.And(is_source(c, p, q, N_real=c.encN, N_act=c.encNa, ign=2), flag != 0),
                nests=("active", "test"))
    A.iterspace("iterspace.star", (p,), z3.And(1 <= p, p < c.encN), nests=("star",))


@P.task("trace.parts_add_up", fn=FN)
def _(v):
    """specification-level lemma: for two encounter particles the interaction step (flag clear) and the Kepler step (flag
    set) take the pair in exactly one of the two parts, with the same flag current_Ks[min*N+max]
    (`trace.interaction.iterspace` / `trace.kepler.iterspace.pairs` tie the code's `continue` guards to that flag)"""
    c = trace_common(v, "REB_TRACE_MODE_KEPLER")
    encounter_setup(v, c, c.r.ri_trace)
    p, q = v.int("p"), v.int("q")
    k, s = z3.Select(c.M, p), z3.Select(c.M, q)
    a = z3.Int("qa")
    # encounter positions below encounter_N_active are exactly the active particles of the encounter set
    v.assume(z3.ForAll([a], z3.Implies(z3.And(0 <= a, a < c.encN), (z3.Select(c.M, a) < c.N_act) == (a < c.encNa))))
    v.assume(0 <= p, p < c.encN, 0 <= q, q < c.encN)
    inter = z3.And(is_source(c, k, s, ign=2), ks_flag(c, k, s) == 0)
    kep = z3.And(is_source(c, p, q, N_real=c.encN, N_act=c.encNa, ign=2), ks_flag(c, k, s) != 0)
    full = is_source(c, k, s, ign=2)
    v.prove("exclusive", z3.Not(z3.And(inter, kep)))
    v.prove("exhaustive", full == z3.Or(inter, kep))


# ------------------------------------------------------------------------------------------------ REB_GRAVITY_JACOBI
P.assume("REB_GRAVITY_JACOBI does not look at softening, N_var, N_active, testparticle_type, gravity_ignore_terms: its "
         "contract is for softening == 0 and all N particles real and active; Jacobi masses M_j = sum_{l<j} m_l are "
         "non-zero for j >= 2 and no two particles (nor a particle and the centre of mass of its interior) coincide")
P.assume("prefix sums of the specification: SM(0)=0, SM(j+1)=SM(j)+m_j, SR(0)=0, SR(j+1)=SR(j)+m_j x_j (definitions, "
         "instantiated at the current j)")
P.trust("accumulation rule with in-nest initialisation (JACOBI): element k is zeroed at outer iteration k and every "
        "contribution made at outer iteration j targets an index <= j (obligations jacobi.*.zero_before_use.*), so all "
        "contributions to k come after its zeroing; the outer loop is covered by a true inductive invariant "
        "(range, unit stride, Rj/Mj prefix sums)")


@P.task("jacobi", fn=FN, timeout=300)
def _(v):
    """a_k = sum over s != k, {k,s} != {0,1} of the unsoftened pair term  -  sum over j >= 2, j >= k of K(k,j), where
    K(k,j) is the acceleration of k due to the Jacobi Kepler potential V_j = -G m_j M_j/|Q_j|, Q_j = x_j - R_j/M_j:
    K(j,j) = -G M_j Q_j/|Q_j|^3,  K(k,j) = +G m_j Q_j/|Q_j|^3 (k<j).  (The routine is the WHFast interaction part: together
    with the Jacobi Kepler part it is the full force; the {0,1} pair equals the j=1 Kepler term: lemma pair01.)"""
    c = setup(v, "REB_GRAVITY_JACOBI")
    c.r.integrator = v.enumc("REB_INTEGRATOR_WHFAST")
    v.assume(c.eps == 0, c.N_var == 0)
    top = accum.loops_under(v.eng, FN, v.eng.enum("REB_GRAVITY_JACOBI"))
    ok = len(top) == 1 and top[0].shape() == PAIR
    v.ground("shape.jacobi", ok, "expected one two-level nest; got %s" % [t.shape() for t in top])
    if not ok:
        raise accum.Unsupported("REB_GRAVITY_JACOBI: unexpected loop structure")
    outer, inner = top[0].ordinal, top[0].children[0].ordinal
    SM = z3.Function("SM", I, R)
    SR = {f: z3.Function("SR" + f, I, R) for f in XYZ}
    m = c.X["m"]
    v.assume(SM(0) == 0, *[SR[f](0) == 0 for f in XYZ])
    A = accum.Accum(v, FN, [(c.parts, f) for f in AXYZ])
    keys = acc_keys(A, c)
    box = {}

    def inv(L):
        j = L.j
        # definitions of the prefix sums at this j
        L.st.assume(SM(j + 1) == SM(j) + z3.Select(m, j))
        for f in XYZ:
            L.st.assume(SR[f](j + 1) == SR[f](j) + z3.Select(m, j) * z3.Select(c.X[f], j))
        out = [("range", z3.And(0 <= j, j <= c.N)), ("Mj", L.Mj == SM(j))]
        out += [("Rj" + f, L["Rj" + f] == SR[f](j)) for f in XYZ]
        out.append(("frozen", z3.And(*[c.parts.array(f) == c.X[f] for f in XYZ + ("m",)])))
        if "j_body" in box:
            out.append(("unit_stride", j == box["j_body"] + 1))
        elif "seen_init" not in box:
            box["seen_init"] = True
            out.append(("starts_at_0", j == 0))
        return out
    v.loop(FN, outer, invariant=inv, variant=lambda L: c.N - L.j)

    def outer_syms(st):
        j = v.eng.local(st, "j")
        box["j_body"] = j
        box["st_entry"] = st
        # the element of this outer iteration has just been zeroed
        for f, key in zip(XYZ, keys):
            v.eng.oblige(st, "%s.pairs.zero_before_use.own_element_zeroed.%s" % (v.task.name, f),
                         z3.Select(c.parts.array("a" + f), j) == 0, "post")
        return [("j", j, [0 <= j, j < c.N])]

    def Q(j):
        return [z3.Select(c.X[f], j) - SR[f](j) / SM(j) for f in XYZ]

    def pre(vis):
        i, j = vis.idx["i"], vis.idx["j"]
        st = vis.state
        q = Q(j)
        st.assume(z3.Implies(j > 1, SM(j) != 0))
        st.assume(z3.Implies(j > 1, q[0] * q[0] + q[1] * q[1] + q[2] * q[2] != 0))
        _d, r2 = sep2(c, i, j)
        st.assume(z3.Implies(i != j, r2 != 0))

    def visit(vis):
        i, j = vis.idx["i"], vis.idx["j"]
        st = vis.state
        fresh = v.eng.fresh("kf", I)
        for f, key in zip(XYZ, keys):
            vis.prove("frame.other_elements." + f, z3.Select(vis.post[key], fresh) == z3.Select(vis.pre[key], fresh),
                      assuming=(fresh != i, fresh != j))

        # the running sums the code holds are the prefix sums (loop invariant, assumed in this state): rewrite them so
        # that the code's Jacobi coordinate is literally the specification's, and give the algebra back end only the
        # hypotheses it needs (fewer hypotheses = a stronger statement)
        sub = [(v.eng.local(st, "Mj"), SM(j))] + [(v.eng.local(st, "Rj" + f), SR[f](j)) for f in XYZ]
        for a, b in sub:
            vis.prove("invariant_instance.%s" % a.decl().name().split("!")[0].split("_")[-1], a == b)

        def focused(name, goal, hyp):
            from engine.csym import Obligation
            g = z3.substitute(goal, *sub)
            hs = [z3.substitute(h, *sub) for h in vis.unguarded(st.hyps(), hyp)
                  if not z3.is_quantifier(h) and "m_sqrt" in h.sexpr()]
            ob = Obligation(v.eng.prefix + A.obname(vis, name), hs + [c.eps == 0] + list(hyp), g, "post")
            ob.meta["order"] = POLY
            ob.meta["ctx"] = v
            v.eng.obligations.append(ob)

        def case(tag, hyp, want_i, want_j):
            for n, (f, key) in enumerate(zip(XYZ, keys)):
                focused("body.%s.i.%s" % (tag, f), vis.delta(key, i, hyp) == want_i[n], hyp)
                if want_j is not None:
                    focused("body.%s.j.%s" % (tag, f), vis.delta(key, j, hyp) == want_j[n], hyp)
        zero = [z3.RealVal(0)] * 3
        # Jacobi Kepler term (spec): needs Q_j, defined for j > 1
        q = Q(j)
        q2 = q[0] * q[0] + q[1] * q[1] + q[2] * q[2]
        hJ = (j > 1,)
        st2 = vis.state
        qq = spec_sqrt(v.eng, st2, q2)
        K_lt = [c.G * z3.Select(m, j) * x / (q2 * qq) for x in q]          # K(k,j), k < j
        K_eq = [-c.G * SM(j) * x / (q2 * qq) for x in q]                   # K(j,j)
        fi = spec_term(c, st2, i, j)
        fj = spec_term(c, st2, j, i)
        case("lt.jacobi", (i < j, j > 1), [a - b for a, b in zip(fi, K_lt)], fj)
        case("lt.pair01", (i < j, j <= 1), zero, zero)
        case("eq.jacobi", (i == j, j > 1), [-b for b in K_eq], None)
        case("eq.none", (i == j, j <= 1), zero, None)
        # contributions, keyed (target, source): direct term both ways; Jacobi Kepler term j to target i
        direct = z3.And(i < j, z3.Not(z3.And(i == 0, j == 1)))
        vis.contrib((i, j), when=direct, cls="direct")
        vis.contrib((j, i), when=direct, cls="direct")
        vis.contrib((i, j), when=(j > 1), cls="kepler")
        # zero-before-use: every target written at outer iteration j is <= j
        vis.prove("zero_before_use.targets_not_above_outer_index", i <= j)

    def after():
        kt, ks = z3.Ints("tgt src")
        spec_direct = z3.And(0 <= ks, ks < c.N, 0 <= kt, kt < c.N, ks != kt,
                             z3.Not(z3.Or(z3.And(ks == 0, kt == 1), z3.And(ks == 1, kt == 0))))
        A.iterspace("iterspace.direct", (kt, ks), spec_direct, cls="direct")
        kj = z3.Int("jk")
        A.iterspace("iterspace.kepler", (kt, kj), z3.And(2 <= kj, kj < c.N, 0 <= kt, kt <= kj), cls="kepler")
    A.nest("pairs", [inner], visit, pre=pre, outer=outer_syms, after=after)
    A.freeze_preconditions()      # the iteration-space lemmas are stated from inside the outer loop's preservation path
    v.call(FN, c.rp)
    frozen_unchanged(v, c)


@P.task("jacobi.pair01", fn=FN)
def _(v):
    """the omitted direct {0,1} pair is exactly the j = 1 Jacobi Kepler term (M_1 = m_0, R_1 = m_0 x_0, Q_1 = x_1 - x_0)"""
    c = setup(v, "REB_GRAVITY_JACOBI")
    v.assume(c.eps == 0)
    m = c.X["m"]
    M1 = z3.Select(m, 0)
    R1 = [M1 * z3.Select(c.X[f], 0) for f in XYZ]
    v.assume(M1 != 0)
    q = [z3.Select(c.X[f], 1) - r1 / M1 for f, r1 in zip(XYZ, R1)]
    q2 = q[0] * q[0] + q[1] * q[1] + q[2] * q[2]
    v.assume(q2 != 0)
    _d, r2 = sep2(c, 1, 0)
    v.assume(r2 != 0)
    qq = spec_sqrt(v.eng, v.st, q2)
    K11 = [-c.G * M1 * x / (q2 * qq) for x in q]
    K01 = [c.G * z3.Select(m, 1) * x / (q2 * qq) for x in q]
    f10 = spec_term(c, v.st, z3.IntVal(1), z3.IntVal(0))
    f01 = spec_term(c, v.st, z3.IntVal(0), z3.IntVal(1))
    for n, f in enumerate(XYZ):
        v.prove("K11_is_pair." + f, K11[n] == f10[n], order=POLY)
        v.prove("K01_is_pair." + f, K01[n] == f01[n], order=POLY)


# ------------------------------------------------------------------------------------------------ jerk (EOS modified kick)
P.assume("reb_calculate_and_apply_jerk: contract for softening == 0 (the routine does not look at the softening) and "
         "REB_GRAVITY_BASIC; the pair set must be the one of the accelerations (same Src(k))")


@P.task("jerk.basic", fn="reb_calculate_and_apply_jerk", timeout=300)
def _(v):
    """v_k += 2 v * sum over s in Src(k) of D f(k<-s)[a_k - a_s], the directional derivative of the pair acceleration
    f(d) = -G m_s d/|d|^3 along the relative acceleration: -G m_s ((a_k-a_s)/r^3 - 3 (d.(a_k-a_s)) d/r^5)"""
    JF = "reb_calculate_and_apply_jerk"
    c = setup(v, "REB_GRAVITY_BASIC")
    v.assume(c.eps == 0)
    vv = v.real("v")
    Aacc = {f: c.parts.array(f) for f in AXYZ}
    top = accum.loops_under(v.eng, JF, v.eng.enum("REB_GRAVITY_BASIC"))
    ok = len(top) == 2 and top[0].shape() == PAIR and top[1].shape() == PAIR
    v.ground("shape.jerk", ok, "expected: active nest, test-particle nest; got %s" % [t.shape() for t in top])
    if not ok:
        raise accum.Unsupported("jerk: unexpected loop structure")
    act, tst = [[t.ordinal, t.children[0].ordinal] for t in top]

    def jerk_term(c_, st, k, s, g, w):
        d, r2 = sep2(c, k, s)
        rr = spec_sqrt(v.eng, st, r2)
        da = [z3.Select(Aacc[f], k) - z3.Select(Aacc[f], s) for f in AXYZ]
        dot = d[0] * da[0] + d[1] * da[1] + d[2] * da[2]
        ms = z3.Select(c.X["m"], s)
        return [2 * vv * (-c.G * ms) * (da[n] / (r2 * rr) - 3 * dot * d[n] / (r2 * r2 * rr)) for n in range(3)]
    VL = ("vx", "vy", "vz")
    A = accum.Accum(v, JF, [(c.parts, f) for f in VL])
    A.nest("active", act, pair_visit(c, A, leaves=VL, term=jerk_term), pre=pair_pre(c))
    A.nest("test", tst, pair_visit(c, A, j_when=(c.tp == 1), leaves=VL, term=jerk_term), pre=pair_pre(c))
    v.call(JF, c.rp, vv)
    v.prove("frame.positions_masses_accelerations_untouched",
            z3.And(*[c.parts.array(f) == c.X[f] for f in XYZ + ("m",)] + [c.parts.array(f) == Aacc[f] for f in AXYZ]))
    k, s = z3.Ints("k s")
    A.iterspace("iterspace", (k, s), is_source(c, k, s))



@P.task("none", fn=FN)
def _(v):
    """REB_GRAVITY_NONE: every acceleration is zero"""
    c = setup(v, "REB_GRAVITY_NONE")
    top = accum.loops_under(v.eng, FN, v.eng.enum("REB_GRAVITY_NONE"))
    v.ground("shape.none", len(top) == 1 and top[0].shape() == (), "one loop")
    v.loop(FN, top[0].ordinal, invariant=zero_loop_invariant(c, "j", c.N), variant=lambda L: c.N - L.j)
    v.call(FN, c.rp)
    k = v.int("k")
    v.assume(0 <= k, k < c.N)
    for f in AXYZ:
        v.prove("zero." + f, c.parts.leaf(k, f) == 0)
    frozen_unchanged(v, c)


P.not_decided += [
    "REB_GRAVITY_TREE: the recursive tree walk (reb_calculate_acceleration_for_particle_from_cell), 'every leaf reached "
    "exactly once for zero opening angle' and the multipole error bound for finite opening angle: not attempted (needs a "
    "tree-shape induction the engine does not have); no local node contract is claimed either",
    "code under #ifdef OPENMP / MPI (the O(N^2) variants of every routine) is not part of the compiled configuration "
    "(flags of setup.py) and is not analysed",
    "REB_GRAVITY_COMPENSATED: the realloc path (N_allocated_gravity_cs < N) and the accuracy benefit of the Kahan "
    "summation (rounding is not modelled; in real arithmetic the compensation is identically zero)",
    "floating-point rounding and the order of summation (R-mode); early return when reb_sigint > 1",
    "MERCURIUS: that L == 1 for pairs outside the encounter set (so that mode 0 alone is the full pair force there) is a "
    "property of the encounter prediction (integrator), not of gravity.c; parts_add_up is stated per pair",
    "TRACE: that every flagged pair lies inside the encounter set, and that encounter positions below "
    "encounter_N_active are exactly the active particles, are integrator invariants (assumed in trace.parts_add_up)",
    "REB_GRAVITY_JACOBI with softening != 0, N_var != 0 or N_active < N: the routine ignores these settings (observation, "
    "outside the contract's precondition); reb_calculate_acceleration_var (variational equations) is not part of C02",
    "the conclusion steps themselves (a_k = sum over the specified set; sum_k m_k a_k = 0 when all particles are active) "
    "are the accumulation rule's meta-theorem applied to the proved body/iteration-space/momentum obligations",
]
