"""C06 (overlay part): loading snapshot k = reading blob 0, then reading delta k over it (reb_input_fields twice).  For the
overlay to equal the live state, a delta field must REPLACE the corresponding array -- in particular the size-0 header that
reb_binary_diff emits for an array that vanished since blob 0 must shrink the array and reset its counter to 0 (cnt = 0 is
included in the symbolic count).  The reader contract per array descriptor is shared with C05 (same real function)."""
from engine.api import Pack
from engine import layout, cfront
from contracts.C05_roundtrip import _reader_body

P = Pack("C06", ["src/output.c", "src/input.c", "src/binarydiff.c"], "delta overlay on load")
PACKS = [P]
P.assume("snapshot k is obtained by reb_input_fields on blob 0 followed by reb_input_fields on delta k "
         "(reb_simulation_create_from_simulationarchive_with_messages); per-field replacement is what is proved here")


def _make():
    rows = layout.descriptor_table(cfront.REPO)
    tu = cfront.tu("src/output.c", cfront.REPO)
    dn = {val: name for name, val in tu.enums.items() if name in ("REB_POINTER", "REB_DP7", "REB_POINTER_ALIGNED")}
    for (typ, dt, name, off, offN, esz) in rows:
        if dt not in dn:
            continue

        def mk(typ=typ, name=name):
            @P.task("overlay.array_field_replaced.d%d_%s" % (typ, name), fn="reb_input_fields", timeout=600)
            def _(v):
                _reader_body(v, typ)
        mk()


_make()
