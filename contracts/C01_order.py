"""C01: the operator word executed by one step of each splitting integrator (extracted by symbolic execution of
the REAL part1 / part2 / synchronize functions with the primitive sub-steps as trace letters) satisfies the
algebraic order conditions of its advertised (generalised) order, given exact sub-flows.

Error Hamiltonian term eps^j dt^k  <=>  the step map agrees with exp(dt(A+B)) on every word with j letters B
up to length k.  The advertised orders are taken from docs/integrators.md and the papers cited there
(Wisdom & Holman 1991, Wisdom 1996/2006, Laskar & Robutel 2001, Blanes et al. 2013, Rein, Tamayo & Brown 2019).
Coefficients are the exact rational values of the doubles in the real tables; tolerance is the first-order
rounding envelope of those doubles (engine.opword.order_residuals).
"""
from fractions import Fraction
import z3
from engine.api import Pack
from engine import opword
from contracts import _words as W

P = Pack("C01", W.WH_FILES, "order conditions of operator words")
PACKS = [P]
P.assume("sub-flows are exact: K(a) is the exact Kepler flow exp(a*A) (C03), I(b) the exact kick exp(b*B) with forces from "
         "the current positions (C02), J the exact jump flow; centre-of-mass drift C commutes with everything")
P.assume("order conditions are stated in the free associative algebra on {A,B[,J]}: agreement with exp(A+B[+J]) on all words "
         "of the advertised bidegree; tolerance = 4 x first-order rounding envelope of the tabulated doubles")
P.assume("WHFast corrector2 has no documented numerical order: only 'does not lower the order' and exact conjugation are claimed")
P.not_decided += [
    "convergence of the floating-point trajectory to the true solution (needs exact-flow assumptions + rounding analysis)",
    "adaptive step/order control of IAS15, BS, TRACE, MERCURIUS encounter prediction (dynamic, convergence-type)",
    "WHFast512 (not compiled in this build)",
    "WHFast corrector2 combined with a non-default kernel: no advertised order (the algebra shows the composition kernel's "
    "eps^2 dt^4 property is lost when corrector2 is also switched on: word ABAB residual 4.9e-3); not claimed", "user-defined ODEs coupled to the N-body system",
]

ONE = Fraction(1)
COORDS = ["JACOBI", "DEMOCRATICHELIOCENTRIC", "WHDS", "BARYCENTRIC"]


def wh_cfg(coord, kernel, corr, corr2, safe=1, sync=1):
    return {"integrator": "REB_INTEGRATOR_WHFAST", "ri_whfast.kernel": "REB_WHFAST_KERNEL_" + kernel,
            "ri_whfast.coordinates": "REB_WHFAST_COORDINATES_" + coord, "ri_whfast.corrector": corr,
            "ri_whfast.corrector2": corr2, "ri_whfast.safe_mode": safe, "ri_whfast.is_synchronized": sync,
            "ri_whfast.keep_unsynchronized": 0}


def wh_allowed(coord, kernel, corr, corr2):
    """which combinations reb_integrator_whfast_init accepts (spec from docs/integrators.md: kernels and correctors
    need Jacobi (correctors also barycentric) coordinates)"""
    if kernel != "DEFAULT" and coord != "JACOBI":
        return False
    if corr != 0 and coord not in ("JACOBI", "BARYCENTRIC"):
        return False
    return True


def wh_order(kernel, corr, corr2):
    s1 = 2 if corr == 0 else corr + 1
    if kernel in ("COMPOSITION", "MODIFIEDKICK", "LAZY") and corr >= 3:
        return (s1, 4, 3)
    return (s1, 2)


def whfast_task(coord, kernel, corr, corr2):
    name = "whfast.%s.%s.c%d.c2_%d" % (coord.lower(), kernel.lower(), corr, corr2)

    @P.task(name, fn="reb_integrator_whfast_part1", timeout=900)
    def _(v):
        r, rp, dt = W.make_sim(v, wh_cfg(coord, kernel, corr, corr2))
        word = W.run(v, rp, ["reb_integrator_whfast_part1", "F", "reb_integrator_whfast_part2"])
        errs = [l for (l, c, k) in word if l == "!reb_simulation_error"]
        phys = W.physical(word)
        if not wh_allowed(coord, kernel, corr, corr2):
            # corrector2 with non-Jacobi coordinates: operator_C uses jacobi transforms; init does not reject it
            v.ground("rejected", bool(errs), "documented-incompatible combination must raise an error; word=%s" % opword.fmt_word(word)[:300])
            return
        v.ground("accepted", not errs, "word=%s" % opword.fmt_word(word)[:200])
        ctot, ktot = W.com_total(word)
        v.ground("com_drift_total", ctot == 1, "sum of C arguments = %s (must be 1 step)" % ctot)
        v.ground("kepler_total", ktot == 1, "sum of K arguments = %s" % ktot)
        bad = W.force_fresh(word)
        v.ground("forces_fresh", not bad, "I letters without transform+force evaluation since the last drift: %s" % bad)
        jid = coord in ("JACOBI", "BARYCENTRIC")
        exps = W.exponents(word, jump_is_identity=jid)
        target = {"A": ONE, "B": ONE}
        if not jid:
            target["J"] = ONE
        s = wh_order(kernel, corr, corr2)
        W.check_order(v, "order%s" % (s,), exps, s, target, letters_b="BJ")
        v.ground("time_advance", True, "t += dt/2 twice checked in C08")
    return _


for coord in COORDS:
    for kernel in ("DEFAULT", "COMPOSITION"):
        for corr in (0, 3, 5, 7, 11, 17):
            for corr2 in (0, 1):
                if corr2 == 1 and corr in (5, 7, 11):
                    continue          # corrector2 is independent of the first corrector's order: sampled at 0,3,17
                if not wh_allowed(coord, kernel, corr, corr2) and (corr not in (0, 3) or corr2):
                    continue          # rejected combinations: one representative per reason
                if corr2 == 1 and kernel != "DEFAULT":
                    continue          # no advertised order for corrector2 on top of a kernel (see P.not_decided)
                whfast_task(coord, kernel, corr, corr2)


@P.task("whfast.jump_is_identity_for_jacobi_barycentric", fn="reb_whfast_jump_step")
def _(v):
    """The algebra above treats J as the identity for Jacobi/barycentric coordinates: prove it on the real body."""
    for coord in ("JACOBI", "BARYCENTRIC"):
        r, rp = v.struct_obj("struct reb_simulation", "r_" + coord)
        N = v.int("N")
        v.assume(N >= 1)      # step functions are reached from integrate() only with N >= 1 (reb_check_exit)
        r.N, r.N_var, r.N_active, r.testparticle_type = N, 0, -1, 0
        r.ri_whfast.coordinates = v.enumc("REB_WHFAST_COORDINATES_" + coord)
        pj = v.array("struct reb_particle", N, "PJ" + coord)
        parts = v.array("struct reb_particle", N, "P" + coord)
        r.particles = parts.ptr
        r.ri_whfast.p_jh = pj.ptr
        before = {f: pj.array(f) for f in ("x", "y", "z", "vx", "vy", "vz", "m")}
        v.call("reb_whfast_jump_step", rp, v.real("a"))
        for f, arr in before.items():
            v.prove("%s.unchanged.%s" % (coord.lower(), f), pj.array(f) == arr)


# ------------------------------------------------------------------ SABA
SABA = {  # type name -> advertised generalised order
    "REB_SABA_1": (2, 2), "REB_SABA_2": (4, 2), "REB_SABA_3": (6, 2), "REB_SABA_4": (8, 2),
    "REB_SABA_10_4": (10, 4), "REB_SABA_8_6_4": (8, 6, 4), "REB_SABA_10_6_4": (10, 6, 4),
    "REB_SABA_H_8_4_4": (8, 4, 4), "REB_SABA_H_8_6_4": (8, 6, 4), "REB_SABA_H_10_6_4": (10, 6, 4),
}


def saba_cfg(tname, safe=1, sync=1):
    return {"integrator": "REB_INTEGRATOR_SABA", "ri_saba.type": tname, "ri_saba.safe_mode": safe,
            "ri_saba.is_synchronized": sync, "ri_saba.keep_unsynchronized": 0,
            "ri_whfast.coordinates": "REB_WHFAST_COORDINATES_JACOBI", "ri_whfast.kernel": "REB_WHFAST_KERNEL_DEFAULT",
            "ri_whfast.corrector": 0, "ri_whfast.corrector2": 0, "ri_whfast.safe_mode": 1,
            "ri_whfast.is_synchronized": 1, "ri_whfast.keep_unsynchronized": 0}


def saba_task(tname, s):
    @P.task("saba.%s" % tname[9:].lower(), fn="reb_integrator_saba_part2", timeout=900)
    def _(v):
        r, rp, dt = W.make_sim(v, saba_cfg(tname))
        word = W.run(v, rp, ["reb_integrator_saba_part1", "F", "reb_integrator_saba_part2"])
        errs = [l for (l, c, k) in word if l == "!reb_simulation_error"]
        v.ground("accepted", not errs, opword.fmt_word(word)[:300])
        ctot, ktot = W.com_total(word)
        v.ground("com_drift_total", ctot == ktot, "sum C = %s, sum K = %s" % (ctot, ktot))
        v.ground("forces_fresh", not W.force_fresh(word), str(W.force_fresh(word)))
        exps = W.exponents(word)
        W.check_order(v, "order%s" % (s,), exps, s, {"A": ONE, "B": ONE})
        # consistency: sum of drift coefficients = sum of kick coefficients = 1 within the envelope is part of L=1 classes
    return _


for tname, s in SABA.items():
    saba_task(tname, s)
