"""C12: coordinate transformations of src/transformations.c  (R-mode: doubles as reals).

Every function of transformations.c is executed symbolically (real body from clang's AST) with symbolic
N, N_active and particle arrays of symbolic length N, loops by invariant.

Specification side (written from the definitions, not from the code)
  O           the original inertial particle set (one z3 array per component) with masses m_k
  M(i)        = sum_{k<i} m_k            uninterpreted; definitional equations M(0)=0, M(i+1) = M(i) + m_i
  S_c(i)      = sum_{k<i} m_k c_k        uninterpreted, one per component c in x..az; S_c(0)=0, S_c(i+1)=S_c(i)+m_i c_i
  COM_c(n)    = S_c(n) / M(n)
  slot 0 (all four systems): mass M(N_active), components COM_c(N_active)
  Jacobi       1<=j<N_active: c_j - COM_c(j)            test particle j>=N_active: c_j - COM_c(N_active)
  democratic heliocentric   : q_j = x_j - x_0,  w_j = v_j - COM_v(N_active)
  WHDS                      : q_j = x_j - x_0,  w_j = (v_j - COM_v(N_active)) (m_0+m_j)/m_0  (active),
                              w_j = v_j - COM_v(N_active) (test particle)
  barycentric               : c_j - COM_c(N_active)

Forward tasks prove  T = FWD_sys(O)  (the `*_post` generators below) for the array the real function writes.
Inverse tasks assume T = FWD_sys(O)  (the same generators, so the two contracts fit by construction) and prove that
the real inverse function writes O back: that is the round trip of the property, over all N, N_active, masses.

Universally quantified facts that contain products (step equations, the forward post-condition used as hypothesis
of an inverse task) are not given to the solver as quantified formulas; they are instantiated at the indices a
proof needs: 0, the loop index of the current iteration (through the invariant callback) and the arbitrary
("Skolem") element index j at which element-wise post-conditions are stated.
"""
import z3
from engine.api import Pack
from engine.csym import simp

P = Pack("C12", ["src/transformations.c"], "coordinate transformations")
PACKS = [P]
P.assume("machine arithmetic treated as mathematical (doubles as reals); 'to rounding error' not decided")
P.assume("prefix sums M(i)=sum_{k<i} m_k and S_c(i)=sum_{k<i} m_k c_k are uninterpreted functions defined by "
         "M(0)=0, S_c(0)=0, M(k+1)=M(k)+m_k, S_c(k+1)=S_c(k)+m_k*c_k; the step equations are definitional and are "
         "instantiated at k=0 and at the loop index of each loop iteration (conservative extension: they have a "
         "unique solution for every mass/coordinate array)")
P.assume("element-wise post-conditions are proved at one arbitrary index j (1<=j<N) chosen before the call; this is "
         "the universally quantified statement (Skolem constant), loop invariants carry the fact for this j")
P.assume("inverse tasks take the forward post-condition T=FWD(O) as hypothesis, instantiated at slot 0, at j and at the "
         "loop index of each iteration (instances of a universally quantified hypothesis)")
P.assume("preconditions (weakest that make every def.div obligation provable): 1<=N_active<=N for all functions; "
         "Jacobi (all 6 functions): M(k)!=0 for every 1<=k<=N_active; democratic heliocentric: M(N_active)!=0 "
         "(forward) and in addition m_0!=0 for to_inertial_posvel (the divisions by mtot and m0 occur only for "
         "N_active>=2; for N_active=1, m_0=M(1)=M(N_active)); WHDS: M(N_active)!=0, m_0!=0, and for "
         "to_inertial_posvel m_0+m_k!=0 for 1<=k<N_active; barycentric: M(N_active)!=0 (forward), m_0!=0 (inverse: "
         "the code divides by p_b[0].m - sum_{1<=k<N_active} p_b[k].m). Zero masses are allowed wherever these "
         "conditions hold (in particular any test particle and any active body k>=1 in DH/barycentric)")
P.assume("arrays passed as particles / p_j,p_h,p_b are distinct objects of length N (all call sites pass "
         "r->particles and ri_whfast.p_jh); p_mass is checked both as the same array as particles (all call sites "
         "for real particles) and as a separate array (variational particles: particles+vc.index)")
P.assume("inverse DH/WHDS posvel read particles[0].m (never written by any transformation): precondition "
         "particles[0].m == m_0, the mass the forward transform used; jacobi acc variants read p_j[0].m which only "
         "the posvel/posvelacc forward variants write: precondition p_j[0].m == M(N_active)")

I, R = z3.IntSort(), z3.RealSort()
POS, VEL, ACC = ("x", "y", "z"), ("vx", "vy", "vz"), ("ax", "ay", "az")
ALL = POS + VEL + ACC
FIELDS = ALL + ("m", "r")
T = "struct reb_particle"
PRE = "reb_particles_transform_"


def ix(k):
    """index terms are always used in simplified form (so that M(i+1) is one syntactic term)"""
    return simp(k) if isinstance(k, z3.ExprRef) else z3.IntVal(k)


class Spec:
    """Prefix sums over the original inertial set: O[c] z3 arrays, mass z3 array."""

    def __init__(self, O, mass):
        self.O, self.mass = O, mass
        self.Mf = z3.Function("M", I, R)
        self.Sf = {c: z3.Function("S_" + c, I, R) for c in ALL}

    def m(self, k):
        return z3.Select(self.mass, ix(k))

    def o(self, c, k):
        return z3.Select(self.O[c], ix(k))

    def M(self, k):
        return self.Mf(ix(k))

    def S(self, c, k):
        return self.Sf[c](ix(k))

    def com(self, c, n):
        return self.S(c, n) / self.M(n)

    def base(self, comps):
        return [self.M(0) == 0] + [self.S(c, 0) == 0 for c in comps]

    def step(self, k, comps):
        """definition of the prefix sums at index k"""
        return [self.M(k + 1) == self.M(k) + self.m(k)] + \
               [self.S(c, k + 1) == self.S(c, k) + self.m(k) * self.o(c, k) for c in comps]

    def define(self, v, comps):
        v.assume(*self.base(comps))
        v.assume(*self.step(0, comps))

    def at(self, L, k, comps):
        """instantiate the step equations at a loop index (called from invariant callbacks)"""
        L.st.assume(z3.And(*self.step(k, comps)))


def arrays(av, comps):
    return {c: av.array(c) for c in comps}


def free_arrays(name, comps):
    return {c: z3.Array("%s.%s" % (name, c), I, R) for c in comps}


def mem(av):
    """H(c,k): current content of a memory array"""
    return lambda c, k: av.leaf(ix(k), c)


def frozen(arrs):
    """H(c,k) over captured z3 arrays"""
    return lambda c, k: z3.Select(arrs[c], ix(k))


def setup(v, names):
    """symbolic N, N_active (1 <= N_active <= N) and particle arrays of symbolic length N"""
    N, Na = v.int("N"), v.int("N_active")
    v.assume(1 <= Na, Na <= N)
    return [N, Na] + [v.array(T, N, nm) for nm in names]


def prefix_nonzero(sp, Na):
    k = z3.Int("k")
    return z3.ForAll([k], z3.Implies(z3.And(1 <= k, k <= Na), sp.Mf(k) != 0))


def between(lo, k, hi):
    return z3.And(lo <= k, k < hi)


# ------------------------------------------------------------------------------------------------------
# forward post-conditions  T = FWD(O)   (lists of (name, formula)); H(c,k) reads the transformed set
def slot0_post(sp, H, Na, comps, with_m=True):
    r = [("slot0.m", H("m", 0) == sp.M(Na))] if with_m else []
    return r + [("slot0." + c, H(c, 0) == sp.com(c, Na)) for c in comps]


def jacobi_post(sp, H, k, N, Na, comps):
    r = []
    for c in comps:
        r.append(("active." + c, z3.Implies(between(1, k, Na), H(c, k) == sp.o(c, k) - sp.com(c, k))))
        r.append(("test." + c, z3.Implies(between(Na, k, N), H(c, k) == sp.o(c, k) - sp.com(c, Na))))
    return r


def dh_post(sp, H, k, N, Na, comps=POS + VEL):
    r = []
    for c in comps:
        if c in POS:
            r.append(("helio." + c, z3.Implies(between(1, k, N), H(c, k) == sp.o(c, k) - sp.o(c, 0))))
        else:
            r.append(("bary." + c, z3.Implies(between(1, k, N), H(c, k) == sp.o(c, k) - sp.com(c, Na))))
    r.append(("mass", z3.Implies(between(1, k, N), H("m", k) == sp.m(k))))
    return r


def whds_post(sp, H, k, N, Na, comps=POS + VEL):
    r = []
    for c in comps:
        if c in POS:
            r.append(("helio." + c, z3.Implies(between(1, k, N), H(c, k) == sp.o(c, k) - sp.o(c, 0))))
        else:
            r.append(("active." + c, z3.Implies(between(1, k, Na),
                                                H(c, k) == (sp.o(c, k) - sp.com(c, Na)) * (sp.m(0) + sp.m(k)) / sp.m(0))))
            r.append(("test." + c, z3.Implies(between(Na, k, N), H(c, k) == sp.o(c, k) - sp.com(c, Na))))
    r.append(("mass", z3.Implies(between(1, k, N), H("m", k) == sp.m(k))))
    return r


def bary_post(sp, H, k, N, Na, comps):
    r = [("bary." + c, z3.Implies(between(1, k, N), H(c, k) == sp.o(c, k) - sp.com(c, Na))) for c in comps]
    r.append(("mass", z3.Implies(between(1, k, Na), H("m", k) == sp.m(k))))
    return r


def assume_all(target, facts):
    """target: TaskCtx or LoopView"""
    st = target.st
    for _nm, f in facts:
        st.assume(f)


def prove_all(v, prefix, facts):
    for nm, f in facts:
        v.prove(prefix + nm, f)


def frame(v, av, old, written, N, tag="frame."):
    """fields of av not in `written` are unchanged at an arbitrary slot"""
    j0 = v.int("j_frame")
    v.assume(0 <= j0, j0 < N)
    for c in FIELDS:
        if c not in written:
            v.prove(tag + c, av.leaf(j0, c) == z3.Select(old[c], j0))


def entails(st, g, ms=2000):
    sol = z3.Solver()
    sol.set("timeout", ms)
    for h in st.hyps():
        sol.add(h)
    sol.add(z3.Not(g))
    return sol.check() == z3.unsat


def activate(L, tag, facts):
    """Modus ponens at a loop head: for every guarded instance Implies(g, eq) whose guard follows from the invariant
    and the loop condition, emit the guard as an obligation and add the bare equality eq as hypothesis (this gives the
    ideal-membership back end equalities to work with)."""
    for nm, f in facts:
        if z3.is_implies(f) and entails(L.st, f.arg(0)):
            L.eng.oblige(L.st, "%s.guard.%s" % (tag, nm), f.arg(0), "lemma")
            L.st.assume(f.arg(1))


def cut(L, name, eq):
    """ghost assertion: prove eq here (obligation), then use it as hypothesis"""
    L.eng.check_then_assume(L.st, name, simp(eq), "lemma")


class Once:
    """first call of the variant callback = head of the arbitrary iteration (invariant and loop condition assumed)"""

    def __init__(self):
        self.head = False

    def first(self):
        if self.head:
            return False
        self.head = True
        return True


def guarded(j, lo, hi, eqs):
    return [(nm, z3.Implies(between(lo, j, hi), e)) for nm, e in eqs]


# =====================================================================================================
# Jacobi
JAC_FWD = {"posvel": (POS + VEL, True), "posvelacc": (POS + VEL + ACC, True), "acc": (ACC, False)}
JAC_INV = {"posvel": POS + VEL, "pos": POS, "acc": ACC}


def jacobi_forward_task(variant, alias):
    fn = PRE + "inertial_to_jacobi_" + variant
    comps, writes_m = JAC_FWD[variant]

    @P.task("jacobi.inertial_to_jacobi_%s.%s" % (variant, "pmass_is_particles" if alias else "pmass_separate"), fn=fn)
    def _(v):
        if alias:
            N, Na, parts, pj = setup(v, ["P", "J"])
            pm = parts
        else:
            N, Na, parts, pj, pm = setup(v, ["P", "J", "PM"])
        pmass0 = parts.array("m")
        sp = Spec(arrays(parts, comps), pm.array("m"))
        old = arrays(pj, FIELDS)
        H = mem(pj)
        j = v.int("j")
        sp.define(v, comps)
        v.assume(prefix_nonzero(sp, Na))

        def elems(upto_active, upto_test):
            r = []
            for c in comps:
                r.append(("active_" + c, z3.Implies(between(1, j, upto_active), H(c, j) == sp.o(c, j) - sp.com(c, j))))
                if upto_test is not None:
                    r.append(("test_" + c, z3.Implies(between(Na, j, upto_test), H(c, j) == sp.o(c, j) - sp.com(c, Na))))
            if writes_m:
                hi = upto_active if upto_test is None else upto_test
                r.append(("mass", z3.Implies(between(1, j, hi), H("m", j) == z3.Select(pmass0, j))))
            return r

        def inv0(L):
            i = L.i
            sp.at(L, i, comps)
            r = [("range", z3.And(1 <= i, i <= Na)), ("eta", L.eta == sp.M(i))]
            r += [("s_" + c, L["s_" + c] == sp.S(c, i)) for c in comps]
            return r + elems(i, None)
        v.loop(fn, 0, invariant=inv0, variant=lambda L: Na - L.i)

        def inv1(L):
            i = L.i
            r = [("range", z3.And(Na <= i, i <= N)), ("eta", L.eta == sp.M(Na))]
            r += [("s_" + c, L["s_" + c] == sp.S(c, Na)) for c in comps]
            return r + elems(Na, i)
        v.loop(fn, 1, invariant=inv1, variant=lambda L: N - L.i)
        v.call(fn, parts.ptr, pj.ptr, pm.ptr, N, Na)
        prove_all(v, "", slot0_post(sp, H, Na, comps, with_m=writes_m))
        v.assume(1 <= j, j < N)
        prove_all(v, "", jacobi_post(sp, H, j, N, Na, comps))
        if writes_m:
            v.prove("mass", H("m", j) == z3.Select(pmass0, j))
        frame(v, pj, old, comps + (("m",) if writes_m else ()), N)
    return _


def jacobi_inverse_task(variant, alias):
    fn = PRE + "jacobi_to_inertial_" + variant
    comps = JAC_INV[variant]

    @P.task("jacobi.jacobi_to_inertial_%s.roundtrip.%s" % (variant, "pmass_is_particles" if alias else "pmass_separate"),
            fn=fn)
    def _(v):
        if alias:
            N, Na, parts, pj = setup(v, ["P", "J"])
            pm = parts
        else:
            N, Na, parts, pj, pm = setup(v, ["P", "J", "PM"])
        O = free_arrays("O", comps)
        sp = Spec(O, pm.array("m"))
        old = arrays(parts, FIELDS)
        H = frozen(arrays(pj, comps + ("m",)))
        cur = mem(parts)
        j = v.int("j")
        sp.define(v, comps)
        v.assume(prefix_nonzero(sp, Na))
        # hypothesis: p_j is the Jacobi transform of O (forward contract), instantiated at 0 and j
        assume_all(v, slot0_post(sp, H, Na, comps, with_m=True))
        assume_all(v, jacobi_post(sp, H, j, N, Na, comps))

        h0, h1 = Once(), Once()

        def var0(L):
            if h0.first():
                activate(L, fn + ".loop0", jacobi_post(sp, H, L.i, N, Na, comps))
            return L.i - Na + 1

        def inv0(L):                      # test particles, downwards from N-1 to N_active
            i = L.i
            assume_all(L, jacobi_post(sp, H, i, N, Na, comps))
            if h0.head:                   # end of the arbitrary iteration: the element just written is the original
                for c in comps:
                    cut(L, fn + ".loop0.written." + c, cur(c, i + 1) == sp.o(c, i + 1))
            r = [("range_nowrap", z3.And(Na - 1 <= i, i <= N - 1, i >= 0))]
            r += [("test_" + c, z3.Implies(z3.And(i < j, Na <= j, j < N), cur(c, j) == sp.o(c, j))) for c in comps]
            return r
        v.loop(fn, 0, invariant=inv0, variant=var0)

        def var1(L):
            if h1.first():
                activate(L, fn + ".loop1", jacobi_post(sp, H, L.i, N, Na, comps))
            return L.i

        def inv1(L):                      # active particles, downwards from N_active-1 to 1
            i = L.i
            sp.at(L, i, comps)
            assume_all(L, jacobi_post(sp, H, i, N, Na, comps))
            if h1.head:
                for c in comps:
                    cut(L, fn + ".loop1.written." + c, cur(c, i + 1) == sp.o(c, i + 1))
            r = [("range_nowrap", z3.And(0 <= i, i <= Na - 1)), ("eta", L.eta == sp.M(i + 1))]
            r += [("s_" + c, L["s_" + c] == sp.S(c, i + 1)) for c in comps]
            r += [("test_" + c, z3.Implies(between(Na, j, N), cur(c, j) == sp.o(c, j))) for c in comps]
            r += [("active_" + c, z3.Implies(z3.And(i < j, j < Na), cur(c, j) == sp.o(c, j))) for c in comps]
            return r
        v.loop(fn, 1, invariant=inv1, variant=var1)
        v.call(fn, parts.ptr, pj.ptr, pm.ptr, N, Na)
        for c in comps:
            v.prove("recovered.slot0." + c, cur(c, 0) == sp.o(c, 0))
        v.assume(1 <= j, j < N)
        for c in comps:
            v.prove("recovered." + c, cur(c, j) == sp.o(c, j))
        frame(v, parts, old, comps, N)
    return _


for _variant in JAC_FWD:
    for _alias in (True, False):
        jacobi_forward_task(_variant, _alias)
for _variant in JAC_INV:
    for _alias in (True, False):
        jacobi_inverse_task(_variant, _alias)
