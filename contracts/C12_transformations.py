"""C12: coordinate transformations of src/transformations.c  (R-mode: doubles as reals).

Every function of transformations.c is executed symbolically (real body from clang's AST) with symbolic
N, N_active and particle arrays of symbolic length N, loops by invariant.

Specification side (written from the definitions, not from the code)
  O           the original inertial particle set (one z3 array per component) with masses m_k
  M(i)        = sum_{k<i} m_k            uninterpreted; definitional equations M(0)=0, M(i+1) = M(i) + m_i
  S_c(i)      = sum_{k<i} m_k c_k        uninterpreted, one per component c in x..az; S_c(0)=0, S_c(i+1)=S_c(i)+m_i c_i
  COM_c(n)    = S_c(n) / M(n)
  slot 0 (all four systems): mass M(N_active), components COM_c(N_active)
  Jacobi       1<=j<N_active: c_j - COM_c(j)            test particle j>=N_active: c_j - COM_c(N_active)
  democratic heliocentric   : q_j = x_j - x_0,  w_j = v_j - COM_v(N_active)
  WHDS                      : q_j = x_j - x_0,  w_j = (v_j - COM_v(N_active)) (m_0+m_j)/m_0  (active),
                              w_j = v_j - COM_v(N_active) (test particle)
  barycentric               : c_j - COM_c(N_active)

Forward tasks prove  T = FWD_sys(O)  (the `*_post` generators below) for the array the real function writes.
Inverse tasks assume T = FWD_sys(O)  (the same generators, so the two contracts fit by construction) and prove that
the real inverse function writes O back: that is the round trip of the property, over all N, N_active, masses.

Universally quantified facts that contain products (step equations, the forward post-condition used as hypothesis
of an inverse task) are not given to the solver as quantified formulas; they are instantiated at the indices a
proof needs: 0, the loop index of the current iteration (through the invariant callback) and the arbitrary
("Skolem") element index j at which element-wise post-conditions are stated.
"""
import z3
from engine.api import Pack
from engine.csym import simp

P = Pack("C12", ["src/transformations.c"], "coordinate transformations")
PACKS = [P]
P.assume("machine arithmetic treated as mathematical (doubles as reals); 'to rounding error' not decided")
P.assume("prefix sums M(i)=sum_{k<i} m_k and S_c(i)=sum_{k<i} m_k c_k are uninterpreted functions defined by "
         "M(0)=0, S_c(0)=0, M(k+1)=M(k)+m_k, S_c(k+1)=S_c(k)+m_k*c_k; the step equations are definitional and are "
         "instantiated at k=0 and at the loop index of each loop iteration (conservative extension: they have a "
         "unique solution for every mass/coordinate array)")
P.assume("element-wise post-conditions are proved at one arbitrary index j (1<=j<N) chosen before the call; this is "
         "the universally quantified statement (Skolem constant), loop invariants carry the fact for this j")
P.assume("inverse tasks take the forward post-condition T=FWD(O) as hypothesis, instantiated at slot 0, at j and at the "
         "loop index of each iteration (instances of a universally quantified hypothesis)")
P.assume("preconditions (weakest that make every def.div obligation provable): 1<=N_active<=N for all functions; "
         "Jacobi (all 6 functions): M(k)!=0 for every 1<=k<=N_active; democratic heliocentric: M(N_active)!=0 "
         "(forward) and in addition m_0!=0 for to_inertial_posvel (the divisions by mtot and m0 occur only for "
         "N_active>=2; for N_active=1, m_0=M(1)=M(N_active)); WHDS: M(N_active)!=0, m_0!=0, and for "
         "to_inertial_posvel m_0+m_k!=0 for 1<=k<N_active; barycentric: M(N_active)!=0 (forward), m_0!=0 (inverse: "
         "the code divides by p_b[0].m - sum_{1<=k<N_active} p_b[k].m). Zero masses are allowed wherever these "
         "conditions hold (in particular any test particle and any active body k>=1 in DH/barycentric)")
P.assume("in-place variants reb_integrator_{mercurius,trace}_{inertial_to_dh,dh_to_inertial}: N_active is what the code "
         "derives from the simulation (N if N_active==-1 or testparticle_type==1, else N_active), assumed 1<=N_active<=N; "
         "M(N_active)!=0 (forward), M(N_active)!=0 and m_0!=0 (inverse: both divisions are unconditional); the centre of "
         "mass is carried by ri_<integrator>.com_pos/com_vel instead of slot 0")
P.assume("arrays passed as particles / p_j,p_h,p_b are distinct objects of length N (all call sites pass "
         "r->particles and ri_whfast.p_jh); p_mass is checked both as the same array as particles (all call sites "
         "for real particles) and as a separate array (variational particles: particles+vc.index)")
P.assume("inverse DH/WHDS posvel read particles[0].m (never written by any transformation): precondition "
         "particles[0].m == m_0, the mass the forward transform used; jacobi acc variants read p_j[0].m which only "
         "the posvel/posvelacc forward variants write: precondition p_j[0].m == M(N_active)")

I, R = z3.IntSort(), z3.RealSort()
POS, VEL, ACC = ("x", "y", "z"), ("vx", "vy", "vz"), ("ax", "ay", "az")
ALL = POS + VEL + ACC
FIELDS = ALL + ("m", "r")
T = "struct reb_particle"
PRE = "reb_particles_transform_"


def ix(k):
    """index terms are always used in simplified form (so that M(i+1) is one syntactic term)"""
    return simp(k) if isinstance(k, z3.ExprRef) else z3.IntVal(k)


class Spec:
    """Prefix sums over the original inertial set: O[c] z3 arrays, mass z3 array."""

    def __init__(self, O, mass):
        self.O, self.mass = O, mass
        self.Mf = z3.Function("M", I, R)
        self.Sf = {c: z3.Function("S_" + c, I, R) for c in ALL}

    def m(self, k):
        return z3.Select(self.mass, ix(k))

    def o(self, c, k):
        return z3.Select(self.O[c], ix(k))

    def M(self, k):
        return self.Mf(ix(k))

    def S(self, c, k):
        return self.Sf[c](ix(k))

    def com(self, c, n):
        return self.S(c, n) / self.M(n)

    def base(self, comps):
        return [self.M(0) == 0] + [self.S(c, 0) == 0 for c in comps]

    def step(self, k, comps):
        """definition of the prefix sums at index k"""
        return [self.M(k + 1) == self.M(k) + self.m(k)] + \
               [self.S(c, k + 1) == self.S(c, k) + self.m(k) * self.o(c, k) for c in comps]

    def define(self, v, comps):
        v.assume(*self.base(comps))
        v.assume(*self.step(0, comps))

    def at(self, L, k, comps):
        """instantiate the step equations at a loop index (called from invariant callbacks)"""
        L.st.assume(z3.And(*self.step(k, comps)))


def arrays(av, comps):
    return {c: av.array(c) for c in comps}


def free_arrays(name, comps):
    return {c: z3.Array("%s.%s" % (name, c), I, R) for c in comps}


def mem(av):
    """H(c,k): current content of a memory array (H.av = the array view)"""
    f = lambda c, k: av.leaf(ix(k), c)
    f.av = av
    return f


def frozen(arrs):
    """H(c,k) over captured z3 arrays"""
    return lambda c, k: z3.Select(arrs[c], ix(k))


def setup(v, names):
    """symbolic N, N_active (1 <= N_active <= N) and particle arrays of symbolic length N"""
    N, Na = v.int("N"), v.int("N_active")
    v.assume(1 <= Na, Na <= N)
    return [N, Na] + [v.array(T, N, nm) for nm in names]


def prefix_nonzero(sp, Na):
    k = z3.Int("k")
    return z3.ForAll([k], z3.Implies(z3.And(1 <= k, k <= Na), sp.Mf(k) != 0))


def between(lo, k, hi):
    return z3.And(lo <= k, k < hi)


# ------------------------------------------------------------------------------------------------------
# forward post-conditions  T = FWD(O)   (lists of (name, formula)); H(c,k) reads the transformed set
def slot0_post(sp, H, Na, comps, with_m=True):
    r = [("slot0.m", H("m", 0) == sp.M(Na))] if with_m else []
    return r + [("slot0." + c, H(c, 0) == sp.com(c, Na)) for c in comps]


def jacobi_post(sp, H, k, N, Na, comps):
    r = []
    for c in comps:
        r.append(("active." + c, z3.Implies(between(1, k, Na), H(c, k) == sp.o(c, k) - sp.com(c, k))))
        r.append(("test." + c, z3.Implies(between(Na, k, N), H(c, k) == sp.o(c, k) - sp.com(c, Na))))
    return r


def dh_post(sp, H, k, N, Na, comps=POS + VEL):
    r = []
    for c in comps:
        if c in POS:
            r.append(("helio." + c, z3.Implies(between(1, k, N), H(c, k) == sp.o(c, k) - sp.o(c, 0))))
        else:
            r.append(("bary." + c, z3.Implies(between(1, k, N), H(c, k) == sp.o(c, k) - sp.com(c, Na))))
    r.append(("mass", z3.Implies(between(1, k, N), H("m", k) == sp.m(k))))
    return r


def whds_post(sp, H, k, N, Na, comps=POS + VEL):
    r = []
    for c in comps:
        if c in POS:
            r.append(("helio." + c, z3.Implies(between(1, k, N), H(c, k) == sp.o(c, k) - sp.o(c, 0))))
        else:
            r.append(("active." + c, z3.Implies(between(1, k, Na),
                                                H(c, k) == (sp.o(c, k) - sp.com(c, Na)) * (sp.m(0) + sp.m(k)) / sp.m(0))))
            r.append(("test." + c, z3.Implies(between(Na, k, N), H(c, k) == sp.o(c, k) - sp.com(c, Na))))
    r.append(("mass", z3.Implies(between(1, k, N), H("m", k) == sp.m(k))))
    return r


def bary_post(sp, H, k, N, Na, comps):
    r = [("bary." + c, z3.Implies(between(1, k, N), H(c, k) == sp.o(c, k) - sp.com(c, Na))) for c in comps]
    r.append(("mass", z3.Implies(between(1, k, Na), H("m", k) == sp.m(k))))
    return r


def assume_all(target, facts):
    """target: TaskCtx or LoopView"""
    st = target.st
    for _nm, f in facts:
        st.assume(f)


def prove_all(v, prefix, facts):
    for nm, f in facts:
        v.prove(prefix + nm, f)


def frame(v, av, old, written, N, tag="frame."):
    """fields of av not in `written` are unchanged at an arbitrary slot"""
    j0 = v.int("j_frame")
    v.assume(0 <= j0, j0 < N)
    for c in FIELDS:
        if c not in written:
            v.prove(tag + c, av.leaf(j0, c) == z3.Select(old[c], j0))


def entails(st, g, ms=2000):
    sol = z3.Solver()
    sol.set("timeout", ms)
    for h in st.hyps():
        sol.add(h)
    sol.add(z3.Not(g))
    return sol.check() == z3.unsat


def activate(L, tag, facts):
    """Modus ponens at a loop head: for every guarded instance Implies(g, eq) whose guard follows from the invariant
    and the loop condition, emit the guard as an obligation and add the bare equality eq as hypothesis (this gives the
    ideal-membership back end equalities to work with)."""
    for nm, f in facts:
        if z3.is_implies(f) and entails(L.st, f.arg(0)):
            L.eng.oblige(L.st, "%s.guard.%s" % (tag, nm), f.arg(0), "lemma")
            L.st.assume(f.arg(1))


def cut(L, name, eq):
    """ghost assertion: prove eq here (obligation), then use it as hypothesis"""
    L.eng.check_then_assume(L.st, name, simp(eq), "lemma")


class Once:
    """first call of the variant callback = head of the arbitrary iteration (invariant and loop condition assumed)"""

    def __init__(self):
        self.head = False

    def first(self):
        if self.head:
            return False
        self.head = True
        return True


# =====================================================================================================
# Jacobi
JAC_FWD = {"posvel": (POS + VEL, True), "posvelacc": (POS + VEL + ACC, True), "acc": (ACC, False)}
JAC_INV = {"posvel": POS + VEL, "pos": POS, "acc": ACC}


def jacobi_forward_task(variant, alias):
    fn = PRE + "inertial_to_jacobi_" + variant
    comps, writes_m = JAC_FWD[variant]

    @P.task("jacobi.inertial_to_jacobi_%s.%s" % (variant, "pmass_is_particles" if alias else "pmass_separate"), fn=fn)
    def _(v):
        if alias:
            N, Na, parts, pj = setup(v, ["P", "J"])
            pm = parts
        else:
            N, Na, parts, pj, pm = setup(v, ["P", "J", "PM"])
        pmass0 = parts.array("m")
        sp = Spec(arrays(parts, comps), pm.array("m"))
        old = arrays(pj, FIELDS)
        H = mem(pj)
        j = v.int("j")
        sp.define(v, comps)
        v.assume(prefix_nonzero(sp, Na))

        def make_invariants(comps_, writes_m_):
            def elems(upto_active, upto_test):
                r = []
                for c in comps_:
                    r.append(("active_" + c, z3.Implies(between(1, j, upto_active), H(c, j) == sp.o(c, j) - sp.com(c, j))))
                    if upto_test is not None:
                        r.append(("test_" + c, z3.Implies(between(Na, j, upto_test), H(c, j) == sp.o(c, j) - sp.com(c, Na))))
                if writes_m_:
                    hi = upto_active if upto_test is None else upto_test
                    r.append(("mass", z3.Implies(between(1, j, hi), H("m", j) == z3.Select(pmass0, j))))
                return r

            def inv0(L):
                i = L.i
                sp.at(L, i, comps_)
                r = [("range", z3.And(1 <= i, i <= Na)), ("eta", L.eta == sp.M(i))]
                r += [("s_" + c, L["s_" + c] == sp.S(c, i)) for c in comps_]
                return r + elems(i, None)

            def inv1(L):
                i = L.i
                r = [("range", z3.And(Na <= i, i <= N)), ("eta", L.eta == sp.M(Na))]
                r += [("s_" + c, L["s_" + c] == sp.S(c, Na)) for c in comps_]
                return r + elems(Na, i)
            return inv0, inv1
        inv0, inv1 = make_invariants(comps, writes_m)
        v.loop(fn, 0, invariant=inv0, variant=lambda L: Na - L.i)
        v.loop(fn, 1, invariant=inv1, variant=lambda L: N - L.i)
        # if the combined variant is ever expressed through its siblings, their bodies are inlined: the siblings' loops then
        # carry the siblings' invariants (same specification objects), so the combined contract is still decided
        for sib, (scomps, swm) in JAC_FWD.items():
            if sib != variant and set(scomps) <= set(comps):
                i0, i1 = make_invariants(scomps, swm)
                v.loop(PRE + "inertial_to_jacobi_" + sib, 0, invariant=i0, variant=lambda L: Na - L.i)
                v.loop(PRE + "inertial_to_jacobi_" + sib, 1, invariant=i1, variant=lambda L: N - L.i)
        v.call(fn, parts.ptr, pj.ptr, pm.ptr, N, Na)
        prove_all(v, "", slot0_post(sp, H, Na, comps, with_m=writes_m))
        v.assume(1 <= j, j < N)
        prove_all(v, "", jacobi_post(sp, H, j, N, Na, comps))
        if writes_m:
            v.prove("mass", H("m", j) == z3.Select(pmass0, j))
        frame(v, pj, old, comps + (("m",) if writes_m else ()), N)
    return _


def jacobi_inverse_task(variant, alias, c):
    """round trip, one component c per task (hypotheses about the other components are left out: the verification
    conditions stay small enough for both z3 and the ideal-membership back end)"""
    fn = PRE + "jacobi_to_inertial_" + variant
    comps = (c,)
    written = JAC_INV[variant]

    @P.task("jacobi.jacobi_to_inertial_%s.roundtrip.%s.%s" % (variant, "pmass_is_particles" if alias else "pmass_separate", c),
            fn=fn)
    def _(v):
        if alias:
            N, Na, parts, pj = setup(v, ["P", "J"])
            pm = parts
        else:
            N, Na, parts, pj, pm = setup(v, ["P", "J", "PM"])
        O = free_arrays("O", comps)
        sp = Spec(O, pm.array("m"))
        old = arrays(parts, FIELDS)
        H = frozen(arrays(pj, comps + ("m",)))
        cur = mem(parts)
        j = v.int("j")
        sp.define(v, comps)
        v.assume(prefix_nonzero(sp, Na))
        # hypothesis: p_j is the Jacobi transform of O (forward contract), instantiated at 0 and j
        assume_all(v, slot0_post(sp, H, Na, comps, with_m=True))
        assume_all(v, jacobi_post(sp, H, j, N, Na, comps))
        h0, h1 = Once(), Once()

        def var0(L):
            if h0.first():
                activate(L, fn + ".loop0", jacobi_post(sp, H, L.i, N, Na, comps))
            return L.i - Na + 1

        def inv0(L):                      # test particles, downwards from N-1 to N_active
            i = L.i
            assume_all(L, jacobi_post(sp, H, i, N, Na, comps))
            if h0.head:                   # end of the arbitrary iteration: the element just written is the original
                cut(L, fn + ".loop0.written." + c, cur(c, i + 1) == sp.o(c, i + 1))
            return [("range_nowrap", z3.And(Na - 1 <= i, i <= N - 1, i >= 0)),
                    ("test_" + c, z3.Implies(z3.And(i < j, Na <= j, j < N), cur(c, j) == sp.o(c, j)))]
        v.loop(fn, 0, invariant=inv0, variant=var0)

        def var1(L):
            if h1.first():
                activate(L, fn + ".loop1", jacobi_post(sp, H, L.i, N, Na, comps))
            return L.i

        def inv1(L):                      # active particles, downwards from N_active-1 to 1
            i = L.i
            sp.at(L, i, comps)
            assume_all(L, jacobi_post(sp, H, i, N, Na, comps))
            if h1.head:
                cut(L, fn + ".loop1.written." + c, cur(c, i + 1) == sp.o(c, i + 1))
            return [("range_nowrap", z3.And(0 <= i, i <= Na - 1)), ("eta", L.eta == sp.M(i + 1)),
                    ("s_" + c, L["s_" + c] == sp.S(c, i + 1)),
                    ("test_" + c, z3.Implies(between(Na, j, N), cur(c, j) == sp.o(c, j))),
                    ("active_" + c, z3.Implies(z3.And(i < j, j < Na), cur(c, j) == sp.o(c, j)))]
        v.loop(fn, 1, invariant=inv1, variant=var1)
        v.call(fn, parts.ptr, pj.ptr, pm.ptr, N, Na)
        v.prove("recovered.slot0." + c, cur(c, 0) == sp.o(c, 0))
        v.assume(1 <= j, j < N)
        v.prove("recovered." + c, cur(c, j) == sp.o(c, j))
        if c == written[0]:
            frame(v, parts, old, written, N)
    return _


for _variant in JAC_FWD:
    for _alias in (True, False):
        jacobi_forward_task(_variant, _alias)
for _variant in JAC_INV:
    for _alias in (True, False):
        for _c in JAC_INV[_variant]:
            jacobi_inverse_task(_variant, _alias, _c)


# =====================================================================================================
# democratic heliocentric and WHDS, forward
def acc0(c):
    """name of the accumulator local for component c in the heliocentric functions"""
    return c + "0"


def helio_forward_task(system):
    fn = PRE + "inertial_to_%s_posvel" % system
    comps = POS + VEL
    post = dh_post if system == "democraticheliocentric" else whds_post

    @P.task("%s.inertial_to_%s_posvel" % (system, system), fn=fn)
    def _(v):
        N, Na, parts, ph = setup(v, ["P", "H"])
        sp = Spec(arrays(parts, comps), parts.array("m"))
        old = arrays(ph, FIELDS)
        H = mem(ph)
        j = v.int("j")
        sp.define(v, comps)
        v.assume(sp.M(Na) != 0)
        if system == "whds":
            v.assume(sp.m(0) != 0)

        def inv0(L):                      # sums over the active particles
            i = L.i
            sp.at(L, i, comps)
            return [("range", z3.And(0 <= i, i <= Na)), ("m0", L.m0 == sp.M(i))] + \
                   [(acc0(c), L[acc0(c)] == sp.S(c, i)) for c in comps]
        v.loop(fn, 0, invariant=inv0, variant=lambda L: Na - L.i)

        def elems(L, lo, hi):
            i = L.i
            return [("range", z3.And(lo <= i, i <= hi))] + slot0_post(sp, H, Na, comps) + \
                   [(nm, z3.Implies(j < i, f)) for nm, f in post(sp, H, j, N, Na)]
        if system == "democraticheliocentric":
            v.loop(fn, 1, invariant=lambda L: elems(L, 1, N), variant=lambda L: N - L.i)
        else:
            v.loop(fn, 1, invariant=lambda L: elems(L, 1, Na), variant=lambda L: Na - L.i)
            v.loop(fn, 2, invariant=lambda L: elems(L, Na, N), variant=lambda L: N - L.i)
        v.call(fn, parts.ptr, ph.ptr, N, Na)
        prove_all(v, "", slot0_post(sp, H, Na, comps))
        v.assume(1 <= j, j < N)
        prove_all(v, "", post(sp, H, j, N, Na))
        frame(v, ph, old, comps + ("m",), N)
    return _


helio_forward_task("democraticheliocentric")
helio_forward_task("whds")


# =====================================================================================================
# democratic heliocentric and WHDS, inverse (round trip)
DH_POS = PRE + "democraticheliocentric_to_inertial_pos"


def helio_inverse_setup(v, c, post, need_m0, pair_nonzero=False):
    N, Na, parts, ph = setup(v, ["P", "H"])
    comps = (c,)
    O = free_arrays("O", comps)
    Om = z3.Array("O.m", I, R)
    sp = Spec(O, Om)
    old = arrays(parts, FIELDS)
    H = frozen(arrays(ph, comps + ("m",)))
    cur = mem(parts)
    j = v.int("j")
    sp.define(v, comps)
    v.assume(sp.M(Na) != 0)
    if need_m0:
        v.assume(sp.m(0) != 0)
        v.assume(cur("m", 0) == sp.m(0))          # particles[0].m is the central mass the forward transform used
    if pair_nonzero:
        k = z3.Int("k")
        v.assume(z3.ForAll([k], z3.Implies(between(1, k, Na), z3.Select(Om, 0) + z3.Select(Om, k) != 0)))
    assume_all(v, slot0_post(sp, H, Na, comps))
    assume_all(v, post(sp, H, j, N, Na, comps))
    return N, Na, parts, ph, sp, old, H, cur, j


def mass_facts(cur, H, old, i, j, Na):
    """linear facts about particles[.].m while/after the first loop of DH to_inertial_pos has processed 1..i-1"""
    k = z3.Int("k")
    return [("mass_done", z3.ForAll([k], z3.Implies(between(1, k, i), z3.Select(cur.av.array("m"), k) == H("m", k)))),
            ("mass_slot0", cur("m", 0) == z3.Select(old["m"], 0)),
            ("mass_rest", z3.Implies(j >= i, cur("m", j) == z3.Select(old["m"], j)))]


def dh_pos_loops(v, c, post, N, Na, parts, sp, old, H, cur, j):
    """invariants of the two loops of reb_particles_transform_democraticheliocentric_to_inertial_pos, component c"""
    comps = (c,)
    h0 = Once()

    def var0(L):
        if h0.first():
            activate(L, DH_POS + ".loop0", post(sp, H, L.i, N, Na, comps))
        return Na - L.i

    def inv0(L):
        i = L.i
        sp.at(L, i, comps)
        assume_all(L, post(sp, H, i, N, Na, comps))
        r = [("range", z3.And(1 <= i, i <= Na))] + mass_facts(cur, H, old, i, j, Na)
        if c in POS:
            r.append((acc0(c), L[acc0(c)] == (sp.S(c, i) - sp.M(i) * sp.o(c, 0)) / sp.M(Na)))
        return r
    v.loop(DH_POS, 0, invariant=inv0, variant=var0)

    def inv1(L):
        i = L.i
        r = [("range", z3.And(1 <= i, i <= N))]
        if c in POS:
            r += [("slot0_" + c, cur(c, 0) == sp.o(c, 0)),
                  ("elem_" + c, z3.Implies(between(1, j, i), cur(c, j) == sp.o(c, j)))]
        return r
    v.loop(DH_POS, 1, invariant=inv1, variant=lambda L: N - L.i)


def mass_post(v, sp, cur, old, j, Na):
    v.prove("mass.active_from_transformed_set", z3.Implies(j < Na, cur("m", j) == sp.m(j)))
    v.prove("mass.test_unchanged", z3.Implies(j >= Na, cur("m", j) == z3.Select(old["m"], j)))
    v.prove("mass.slot0_unchanged", cur("m", 0) == z3.Select(old["m"], 0))


def helio_inverse_pos_task(system, c):
    fn = PRE + "%s_to_inertial_pos" % system
    post = dh_post if system == "democraticheliocentric" else whds_post

    @P.task("%s.%s_to_inertial_pos.roundtrip.%s" % (system, system, c), fn=fn)
    def _(v):
        N, Na, parts, ph, sp, old, H, cur, j = helio_inverse_setup(v, c, post, need_m0=False)
        dh_pos_loops(v, c, post, N, Na, parts, sp, old, H, cur, j)
        v.call(fn, parts.ptr, ph.ptr, N, Na)
        v.prove("recovered.slot0." + c, cur(c, 0) == sp.o(c, 0))
        v.assume(1 <= j, j < N)
        v.prove("recovered." + c, cur(c, j) == sp.o(c, j))
        if c == "x":
            mass_post(v, sp, cur, old, j, Na)
            frame(v, parts, old, POS + ("m",), N)
    return _


def vel_sum(sp, c, i, Na):
    """sum_{1<=k<i} m_k (v_k - COM_v(N_active)) / m_0 in terms of the prefix sums"""
    return (sp.S(c, i) - sp.S(c, 1) - (sp.M(i) - sp.M(1)) * sp.com(c, Na)) / sp.m(0)


def helio_inverse_posvel_task(system, c):
    fn = PRE + "%s_to_inertial_posvel" % system
    whds = system == "whds"
    post = whds_post if whds else dh_post

    @P.task("%s.%s_to_inertial_posvel.roundtrip.%s" % (system, system, c), fn=fn)
    def _(v):
        N, Na, parts, ph, sp, old, H, cur, j = helio_inverse_setup(v, c, post, need_m0=True, pair_nonzero=whds)
        comps = (c,)
        dh_pos_loops(v, c, post, N, Na, parts, sp, old, H, cur, j)

        def head(L, tag):
            """loop head of an iteration over the active particles: instances at i as bare equalities"""
            activate(L, tag, post(sp, H, L.i, N, Na, comps))
            cut(L, tag + ".mass_at_i", cur("m", L.i) == H("m", L.i))

        def elem(lo, hi, act=None, extra=None):
            """loop writing particles[i].v for lo<=i<hi"""
            h = Once()

            def var(L):
                if h.first() and act:
                    head(L, act)
                return hi - L.i

            def inv(L):
                i = L.i
                assume_all(L, post(sp, H, i, N, Na, comps))
                if h.head and act and c in VEL:
                    cut(L, act + ".written." + c, cur(c, i - 1) == sp.o(c, i - 1))
                r = [("range", z3.And(lo <= i, i <= hi))]
                if c in VEL:
                    r.append(("elem_" + c, z3.Implies(between(lo, j, i), cur(c, j) == sp.o(c, j))))
                    if extra is not None:
                        r.append(("kept_" + c, z3.Implies(between(extra[0], j, extra[1]), cur(c, j) == sp.o(c, j))))
                return r
            return inv, var

        def summ(tag):
            """loop accumulating sum m_k w_k/m_0 (DH) resp. sum w_k m_k/(m_0+m_k) (WHDS) over 1<=k<N_active"""
            h = Once()

            def var(L):
                if h.first():
                    head(L, tag)
                return Na - L.i

            def inv(L):
                i = L.i
                sp.at(L, i, comps)
                assume_all(L, post(sp, H, i, N, Na, comps))
                r = [("range", z3.And(1 <= i, i <= Na))]
                if c in VEL:
                    r.append((acc0(c), L[acc0(c)] == vel_sum(sp, c, i, Na)))
                return r
            return inv, var

        if whds:
            i0, v0 = elem(1, Na, act=fn + ".loop0")
            i1, v1 = elem(Na, N, extra=(1, Na))
            i2, v2 = summ(fn + ".loop2")
            v.loop(fn, 0, invariant=i0, variant=v0)
            v.loop(fn, 1, invariant=i1, variant=v1)
            v.loop(fn, 2, invariant=i2, variant=v2)
        else:
            i0, v0 = elem(1, N)
            i1, v1 = summ(fn + ".loop1")
            v.loop(fn, 0, invariant=i0, variant=v0)
            v.loop(fn, 1, invariant=i1, variant=v1)
        v.call(fn, parts.ptr, ph.ptr, N, Na)
        v.prove("recovered.slot0." + c, cur(c, 0) == sp.o(c, 0))
        v.assume(1 <= j, j < N)
        v.prove("recovered." + c, cur(c, j) == sp.o(c, j))
        if c == "x":
            mass_post(v, sp, cur, old, j, Na)
            frame(v, parts, old, POS + VEL + ("m",), N)
    return _


for _sys in ("democraticheliocentric", "whds"):
    for _c in POS:
        helio_inverse_pos_task(_sys, _c)
    for _c in POS + VEL:
        helio_inverse_posvel_task(_sys, _c)


# =====================================================================================================
# barycentric
@P.task("barycentric.inertial_to_barycentric_posvel", fn=PRE + "inertial_to_barycentric_posvel")
def _(v):
    fn = PRE + "inertial_to_barycentric_posvel"
    comps = POS + VEL
    N, Na, parts, pb = setup(v, ["P", "B"])
    sp = Spec(arrays(parts, comps), parts.array("m"))
    old = arrays(pb, FIELDS)
    H = mem(pb)
    j = v.int("j")
    sp.define(v, comps)
    v.assume(sp.M(Na) != 0)

    def inv0(L):                          # sums over active particles 1..N_active-1, slot 0 holds m_0 c_0 meanwhile
        i = L.i
        sp.at(L, i, comps)
        r = [("range", z3.And(1 <= i, i <= Na)), ("s_m", L.s_m == sp.M(i) - sp.M(1))]
        r += [("s_" + c, L["s_" + c] == sp.S(c, i) - sp.S(c, 1)) for c in comps]
        r += [("slot0_" + c, H(c, 0) == sp.m(0) * sp.o(c, 0)) for c in comps]
        r += [("slot0_m", H("m", 0) == sp.m(0)),
              ("mass_j", z3.Implies(between(1, j, i), H("m", j) == sp.m(j))),
              ("mass_frame_j", z3.Implies(z3.And(j >= i, j >= 1), H("m", j) == z3.Select(old["m"], j)))]
        return r
    v.loop(fn, 0, invariant=inv0, variant=lambda L: Na - L.i)

    def inv1(L):
        i = L.i
        return [("range", z3.And(1 <= i, i <= N))] + slot0_post(sp, H, Na, comps) + \
               [(nm, z3.Implies(j < i, f)) for nm, f in bary_post(sp, H, j, N, Na, comps) if nm != "mass"] + \
               [("mass_j", z3.Implies(between(1, j, Na), H("m", j) == sp.m(j))),
                ("mass_frame_j", z3.Implies(z3.And(j >= Na, j >= 1), H("m", j) == z3.Select(old["m"], j)))]
    v.loop(fn, 1, invariant=inv1, variant=lambda L: N - L.i)
    v.call(fn, parts.ptr, pb.ptr, N, Na)
    prove_all(v, "", slot0_post(sp, H, Na, comps))
    v.assume(1 <= j, j < N)
    prove_all(v, "", bary_post(sp, H, j, N, Na, comps))
    v.prove("mass.test_unchanged", z3.Implies(j >= Na, H("m", j) == z3.Select(old["m"], j)))
    frame(v, pb, old, comps + ("m",), N)


BARY_INV = {"posvel": POS + VEL, "pos": POS, "acc": ACC}


def bary_inverse_task(variant, c):
    fn = PRE + "barycentric_to_inertial_" + variant
    comps = (c,)

    @P.task("barycentric.barycentric_to_inertial_%s.roundtrip.%s" % (variant, c), fn=fn)
    def _(v):
        N, Na, parts, pb = setup(v, ["P", "B"])
        O = free_arrays("O", comps)
        Om = z3.Array("O.m", I, R)
        sp = Spec(O, Om)
        old = arrays(parts, FIELDS)
        H = frozen(arrays(pb, comps + ("m",)))
        cur = mem(parts)
        j = v.int("j")
        sp.define(v, comps)
        v.assume(sp.M(Na) != 0, sp.m(0) != 0)
        assume_all(v, slot0_post(sp, H, Na, comps))
        assume_all(v, bary_post(sp, H, j, N, Na, comps))
        h = Once()

        def var(L):
            if h.first():
                activate(L, fn + ".loop0", bary_post(sp, H, L.i, N, Na, comps))
            return N - L.i

        def upto(f, i):
            """prefix sum up to min(i, N_active)"""
            return z3.If(i <= Na, f(i), f(Na))

        def inv(L):
            i = L.i
            sp.at(L, i, comps)
            assume_all(L, bary_post(sp, H, i, N, Na, comps))
            if h.head:
                cut(L, fn + ".loop0.written." + c, cur(c, i - 1) == sp.o(c, i - 1))
            return [("range", z3.And(1 <= i, i <= N)),
                    ("s_m", L.s_m == upto(sp.M, i) - sp.M(1)),
                    ("s_" + c, L["s_" + c] == upto(lambda n: sp.S(c, n), i) - sp.S(c, 1)),
                    ("slot0_" + c, cur(c, 0) == H("m", 0) * H(c, 0)),
                    ("slot0_m", cur("m", 0) == H("m", 0)),
                    ("elem_" + c, z3.Implies(between(1, j, i), cur(c, j) == sp.o(c, j))),
                    ("mass_j", z3.Implies(z3.And(1 <= j, j < i, j < Na), cur("m", j) == sp.m(j))),
                    ("mass_frame_j", z3.Implies(z3.And(1 <= j, z3.Or(j >= i, j >= Na)), cur("m", j) == z3.Select(old["m"], j)))]
        v.loop(fn, 0, invariant=inv, variant=var)
        v.call(fn, parts.ptr, pb.ptr, N, Na)
        v.prove("recovered.slot0." + c, cur(c, 0) == sp.o(c, 0))
        v.prove("recovered.slot0.m", cur("m", 0) == sp.m(0))
        v.assume(1 <= j, j < N)
        v.prove("recovered." + c, cur(c, j) == sp.o(c, j))
        if c == BARY_INV[variant][0]:
            v.prove("mass.active_from_transformed_set", z3.Implies(j < Na, cur("m", j) == sp.m(j)))
            v.prove("mass.test_unchanged", z3.Implies(j >= Na, cur("m", j) == z3.Select(old["m"], j)))
            frame(v, parts, old, BARY_INV[variant] + ("m",), N)
    return _


for _variant in BARY_INV:
    for _c in BARY_INV[_variant]:
        bary_inverse_task(_variant, _c)


# =====================================================================================================
# in-place democratic heliocentric transformations of MERCURIUS and TRACE
#   forward : q_k = x_k - x_0, w_k = v_k - COM_v(N_active) for EVERY k (slot 0 becomes (0, v_0 - COM_v)); the centre of
#             mass goes to ri_<integrator>.com_pos / com_vel instead of slot 0; masses untouched
#   inverse : recovers O from (q_k, w_k)_{k>=1}, com_pos, com_vel and the masses; ignores slot 0
INPLACE = {"mercurius": "src/integrator_mercurius.c", "trace": "src/integrator_trace.c"}
XYZ = {"x": "x", "y": "y", "z": "z", "vx": "x", "vy": "y", "vz": "z"}


def fld(L, name, f):
    """field f of the struct-valued local `name`"""
    return L.eng._lazy_field(L[name], f, L.st)


def inplace_post(sp, H, k, N, Na, comps):
    r = []
    for c in comps:
        ref = sp.o(c, 0) if c in POS else sp.com(c, Na)
        r.append(("dh." + c, z3.Implies(between(0, k, N), H(c, k) == sp.o(c, k) - ref)))
    return r


def inplace_setup(v, integ):
    N = v.int("N")
    nact, tpt = v.int("N_active_field"), v.int("testparticle_type")
    parts = v.array(T, N, "P")
    r, rp = v.struct_obj("struct reb_simulation", "r")
    r.N, r.N_active, r.testparticle_type, r.particles = N, nact, tpt, parts.ptr
    Na = z3.If(z3.Or(nact == -1, tpt == 1), N, nact)          # what the property calls the active/test split
    v.assume(1 <= Na, Na <= N)
    ri = getattr(r, "ri_" + integ)
    return N, Na, parts, r, rp, ri


def inplace_forward_task(integ):
    fn = "reb_integrator_%s_inertial_to_dh" % integ
    comps = POS + VEL

    @P.task("inplace.%s_inertial_to_dh" % integ, fn=fn, files=[INPLACE[integ]])
    def _(v):
        N, Na, parts, r, rp, ri = inplace_setup(v, integ)
        old = arrays(parts, FIELDS)
        sp = Spec(old, old["m"])
        H = mem(parts)
        j = v.int("j")
        sp.define(v, comps)
        v.assume(sp.M(Na) != 0)

        def inv0(L):
            i = L.i
            sp.at(L, i, comps)
            return [("range", z3.And(0 <= i, i <= Na)), ("mtot", L.mtot == sp.M(i))] + \
                   [("com_" + c, fld(L, "com_pos" if c in POS else "com_vel", XYZ[c]) == sp.S(c, i)) for c in comps]
        v.loop(fn, 0, invariant=inv0, variant=lambda L: Na - L.i)

        def inv1(L):                       # downwards, slot 0 last (it is read by every iteration)
            i = L.i
            r_ = [("range", z3.And(-1 <= i, i <= N - 1))]
            for c in comps:
                r_.append(("done_" + c, z3.Implies(z3.And(i < j, j < N), inplace_post(sp, H, j, N, Na, (c,))[0][1])))
                r_.append(("todo_" + c, z3.Implies(z3.And(0 <= j, j <= i), H(c, j) == sp.o(c, j))))
                if c in POS:
                    r_.append(("slot0_" + c, z3.Implies(i >= 0, H(c, 0) == sp.o(c, 0))))
            return r_
        v.loop(fn, 1, invariant=inv1, variant=lambda L: L.i + 1)
        v.call(fn, rp)
        for c in comps:
            got = getattr(ri.com_pos if c in POS else ri.com_vel, XYZ[c])
            v.prove("com." + c, got == sp.com(c, Na))
        v.assume(0 <= j, j < N)
        prove_all(v, "", inplace_post(sp, H, j, N, Na, comps))
        frame(v, parts, old, comps, N)
    return _


def inplace_inverse_task(integ, c):
    fn = "reb_integrator_%s_dh_to_inertial" % integ
    comps = (c,)

    @P.task("inplace.%s_dh_to_inertial.roundtrip.%s" % (integ, c), fn=fn, files=[INPLACE[integ]])
    def _(v):
        N, Na, parts, r, rp, ri = inplace_setup(v, integ)
        old = arrays(parts, FIELDS)
        O = free_arrays("O", comps)
        sp = Spec(O, old["m"])
        H = frozen(old)
        cur = mem(parts)
        j = v.int("j")
        sp.define(v, comps)
        v.assume(sp.M(Na) != 0, sp.m(0) != 0)
        # hypothesis = forward post-condition
        v.assume(getattr(ri.com_pos if c in POS else ri.com_vel, XYZ[c]) == sp.com(c, Na))
        assume_all(v, inplace_post(sp, H, j, N, Na, comps))
        h = Once()

        def var0(L):
            if h.first():
                activate(L, fn + ".loop0", inplace_post(sp, H, L.i, N, Na, comps))
            return Na - L.i

        def inv0(L):
            i = L.i
            sp.at(L, i, comps)
            assume_all(L, inplace_post(sp, H, i, N, Na, comps))
            ref = sp.o(c, 0) if c in POS else sp.com(c, Na)
            return [("range", z3.And(1 <= i, i <= Na)), ("temp_m", fld(L, "temp", "m") == sp.M(i) - sp.M(1)),
                    ("temp_" + c, fld(L, "temp", c) == sp.S(c, i) - sp.S(c, 1) - (sp.M(i) - sp.M(1)) * ref)]
        v.loop(fn, 0, invariant=inv0, variant=var0)

        def inv1(L):
            i = L.i
            r_ = [("range", z3.And(1 <= i, i <= N)),
                  ("elem_" + c, z3.Implies(between(1, j, i), cur(c, j) == sp.o(c, j))),
                  ("todo_" + c, z3.Implies(j >= i, cur(c, j) == H(c, j)))]
            if c in POS:
                r_.append(("slot0_" + c, cur(c, 0) == sp.o(c, 0)))
            return r_
        v.loop(fn, 1, invariant=inv1, variant=lambda L: N - L.i)
        v.call(fn, rp)
        v.prove("recovered.slot0." + c, cur(c, 0) == sp.o(c, 0))
        v.assume(1 <= j, j < N)
        v.prove("recovered." + c, cur(c, j) == sp.o(c, j))
        if c == "x":
            frame(v, parts, old, POS + VEL, N)
    return _


for _integ in INPLACE:
    inplace_forward_task(_integ)
    for _c in POS + VEL:
        inplace_inverse_task(_integ, _c)


# =====================================================================================================
# reb_simulation_move_to_hel (tools.c): heliocentric frame for the real particles, variational ones untouched
@P.task("tools.reb_simulation_move_to_hel", fn="reb_simulation_move_to_hel", files=["src/tools.c"])
def _(v):
    fn = "reb_simulation_move_to_hel"
    comps = POS + VEL
    N, Nvar = v.int("N"), v.int("N_var")
    parts = v.array(T, N, "P")
    r, rp = v.struct_obj("struct reb_simulation", "r")
    r.N, r.N_var, r.particles = N, Nvar, parts.ptr
    Nreal = N - Nvar
    v.assume(N >= 0, Nvar >= 0, Nvar <= N)
    old = arrays(parts, FIELDS)
    H = mem(parts)
    j = v.int("j")

    def inv(L):
        i = L.i
        r_ = [("range", z3.And(1 <= i, i <= Nreal))]
        for c in comps:
            r_ += [("hel_" + c, fld(L, "hel", c) == z3.Select(old[c], 0)),
                   ("done_" + c, z3.Implies(between(1, j, i), H(c, j) == z3.Select(old[c], j) - z3.Select(old[c], 0))),
                   ("todo_" + c, z3.Implies(z3.Or(j >= i, j < 1), H(c, j) == z3.Select(old[c], j)))]
        return r_
    v.loop(fn, 0, invariant=inv, variant=lambda L: Nreal - L.i)
    v.call(fn, rp)
    v.assume(0 <= j, j < N)
    for c in comps:
        v.prove("real_particles." + c, z3.Implies(j < Nreal, H(c, j) == z3.Select(old[c], j) - z3.Select(old[c], 0)))
        v.prove("variational_untouched." + c, z3.Implies(j >= Nreal, H(c, j) == z3.Select(old[c], j)))
    frame(v, parts, old, comps, N)


# reb_simulation_move_to_com / reb_simulation_com / reb_particle_com_of_pair: body contracts of the C20 frames pack, re-registered
# for this property by contracts/C12_shared.py (tasks frame_change.frames.*); the shifts of the variational particles by the
# derivatives of the centre of mass belong to C16/C20 and are not part of C12
P.not_decided.append("rounding: all statements are over the reals; 'returns the original positions and velocities to "
                     "rounding error' is proved as exact equality in real arithmetic, no floating-point error bound")
P.not_decided.append("unsigned wrap-around is not modelled by the engine (C integers are mathematical integers); for the two "
                     "downward loops of jacobi_to_inertial_* the invariant range_nowrap proves 0 <= i at every decrement "
                     "under N_active>=1, N>=N_active (for N_active=0 the counter N_active-1 wraps: outside the property's "
                     "quantifier and excluded by the precondition)")


# =====================================================================================================
# the variants agree with one another: lemmas stated over the contracts (post-conditions) proved above
@P.task("variants_agree", fn=None)
def _(v):
    N, Na = v.int("N"), v.int("N_active")
    k = v.int("k")
    v.assume(1 <= Na, Na <= N, 0 <= k, k < N)
    O = free_arrays("O", ALL)
    sp = Spec(O, z3.Array("O.m", I, R))

    def res(name):
        return frozen(free_arrays(name, ALL + ("m",)))
    A, B, C = res("A"), res("B"), res("C")

    def full(post, H, comps, with_m=True, **kw):
        """contract of a forward variant on components comps at an arbitrary slot k (slot 0 included)"""
        return [z3.Implies(k == 0, f) for _n, f in slot0_post(sp, H, Na, comps, with_m=with_m)] + \
               [f for _n, f in post(sp, H, k, N, Na, comps, **kw)]
    # Jacobi: posvelacc (A) == posvel (B) on positions/velocities/mass slot 0, == acc (C) on accelerations
    hy = full(jacobi_post, A, POS + VEL + ACC) + full(jacobi_post, B, POS + VEL) + full(jacobi_post, C, ACC, with_m=False)
    for c in POS + VEL:
        v.lemma("jacobi.posvelacc_vs_posvel." + c, hy, A(c, k) == B(c, k))
    v.lemma("jacobi.posvelacc_vs_posvel.total_mass", hy, z3.Implies(k == 0, A("m", k) == B("m", k)))
    for c in ACC:
        v.lemma("jacobi.posvelacc_vs_acc." + c, hy, A(c, k) == C(c, k))
    # inverse variants: every variant recovers O on its components, so any two agree where they overlap
    for system, variants in (("jacobi", ("posvel", "pos")), ("democraticheliocentric", ("posvel", "pos")),
                             ("whds", ("posvel", "pos")), ("barycentric", ("posvel", "pos"))):
        hy = [A(c, k) == sp.o(c, k) for c in POS + VEL] + [B(c, k) == sp.o(c, k) for c in POS]
        for c in POS:
            v.lemma("%s.to_inertial_%s_vs_%s.%s" % (system, variants[0], variants[1], c), hy, A(c, k) == B(c, k))
    # WHDS and democratic heliocentric carry the same positions and slot 0 (whds_to_inertial_pos calls the DH routine)
    hy = full(dh_post, A, POS + VEL) + full(whds_post, B, POS + VEL)
    for c in POS:
        v.lemma("whds_vs_dh.positions." + c, hy, A(c, k) == B(c, k))
    for c in VEL:
        v.lemma("whds_vs_dh.slot0_and_test_particles." + c, hy, z3.Implies(z3.Or(k == 0, k >= Na), A(c, k) == B(c, k)))
    # all four systems carry the same slot 0
    hy = full(jacobi_post, A, POS + VEL) + full(bary_post, B, POS + VEL) + full(dh_post, C, POS + VEL)
    for c in POS + VEL + ("m",):
        v.lemma("slot0_same_in_all_systems." + c, hy, z3.Implies(k == 0, z3.And(A(c, k) == B(c, k), B(c, k) == C(c, k))))
