"""C16 (WHFast tangent map, word level): with first-order variational particles, every interaction step of a WHFast step
(kernel and symplectic correctors included) is preceded -- since the last Kepler drift -- by the Jacobi->inertial position
transform of BOTH the real particles and the variational particles, followed by the force evaluation.  Otherwise the
variational kick uses stale variational positions and the variational particles are no longer the derivative of the map."""
import z3
from engine.api import Pack
from engine import opword
from engine.mem import Ptr, StructObj, ArrObj
from engine.csym import const_int, as_int
from contracts import _words as W
from contracts.C01_order import wh_cfg

P = Pack("C16", W.WH_FILES, "WHFast tangent map: variational positions fresh before each kick")
PACKS = [P]
P.assume("the variational force is evaluated by reb_simulation_update_acceleration from the inertial positions of the "
         "variational particles (C16 force contracts)")

TRANSFORMS = ("reb_particles_transform_jacobi_to_inertial_pos", "reb_particles_transform_jacobi_to_inertial_posvel")


def setup(v, corr, kernel="DEFAULT"):
    cfg = wh_cfg("JACOBI", kernel, corr, 0)
    r, rp, dt = W.make_sim(v, cfg)
    vidx = v.int("var_index")
    nvar = v.int("N_var")
    # bookkeeping invariant of add_variation (C16_bookkeeping): the variational block lies inside the particle array
    v.assume(vidx >= 1, nvar >= 1, vidx + nvar <= r.N, vidx == r.N - nvar)
    r.N_var = nvar
    r.N_var_config = 1
    t = v.eng.ctype("struct reb_variational_configuration")
    vc = StructObj(t, {})
    vc.fields.update(order=z3.IntVal(1), index=vidx, testparticle=z3.IntVal(-1), index_1st_order_a=z3.IntVal(0),
                     index_1st_order_b=z3.IntVal(0), lrescale=z3.RealVal(0))
    arr = ArrObj(t, 1, "list", "VC")
    arr.items = [vc]
    v.st.mem.add(arr)
    r.var_config = Ptr(arr.id, (z3.IntVal(0),), False)
    r.force_is_velocity_dependent = 0

    def mk(name):
        def f(e, st, args, n):
            p = args[0]
            which = "real"
            if isinstance(p, Ptr) and p.path and const_int(p.path[-1]) != 0:
                which = "var"
            st.trace = st.trace + [("!T:" + which, None, 0)]
            parts, pj = v.word_arrays
            e.havoc(st, {(parts._a.id, None)}, "prim_T")
            return None
        return f
    for nm in TRANSFORMS:
        v.eng.trace_prims[nm] = mk(nm)
    return r, rp


def stale(word):
    """indices of I letters not preceded (since the last K/J drift) by T:real, T:var and then F"""
    bad = []
    real = var = force = False
    for idx, (l, c, k) in enumerate(word):
        if l in ("K", "J") and c != 0:
            real = var = force = False
        elif l == "!T:real" or l == "!reb_integrator_whfast_to_inertial":
            real, force = True, False
        elif l == "!T:var":
            var, force = True, False
        elif l == "!reb_simulation_update_acceleration":
            force = real and var
        elif l == "I" and not force:
            bad.append(idx)
    return bad


for corr in (0, 3, 5, 7, 11, 17):
    def mk(corr=corr):
        @P.task("whfast.tangent.corrector%d.variational_positions_fresh" % corr, fn="reb_whfast_corrector_Z")
        def _(v):
            r, rp = setup(v, corr)
            word = W.run(v, rp, ["reb_integrator_whfast_part1", "F", "reb_integrator_whfast_part2"])
            errs = [l for (l, c, k) in word if l == "!reb_simulation_error"]
            v.ground("accepted", not errs, opword.fmt_word(word)[:200])
            bad = stale(word)
            v.ground("every_kick_sees_fresh_real_and_variational_positions", not bad,
                     "interaction steps at word positions %s use positions that were not transformed to the inertial frame "
                     "for real AND variational particles since the last drift" % bad)
            v.ground("word_has_kicks", any(l == "I" for (l, c, k) in word), "")
    mk()
