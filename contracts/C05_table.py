"""C05 (table part): the binary field descriptor table, as the compiler evaluates it, is well formed against
the real layout of struct reb_simulation, and is complete: every member of the simulation structure is either
persisted, reconstructed by the loader, or explicitly classified (callback / scratch / wall-clock) below.

Exhaustive ground obligations computed on every run from (a) the LLVM IR constant of
reb_binary_field_descriptor_list (offsetof values as the compiler sees them) and (b) the record layout derived
from clang's AST of rebound.h.  A new member of reb_simulation (or of an integrator sub-structure) that is not
added to the table fails `.complete.<member>` until someone decides what it is.
"""
import z3
from engine.api import Pack
from engine import layout, cfront

P = Pack("C05", ["src/output.c"], "descriptor table well-formedness and completeness")
PACKS = [P]

# ---- classification of members that are deliberately NOT in the table (each entry is an assumption) ----------
CALLBACKS = {  # user must re-attach (the property says so) or opaque user data
    "additional_forces", "pre_timestep_modifications", "post_timestep_modifications", "heartbeat", "key_callback",
    "coefficient_of_restitution", "collision_resolve", "free_particle_ap", "extras_cleanup", "extras",
    "ri_trace.S", "ri_trace.S_peri", "ri_mercurius.L",
    "odes", "N_odes", "N_allocated_odes", "ode_warnings", "ri_bs.nbody_ode", "ri_bs.user_ode_needs_nbody",
}
RECONSTRUCTED = {  # assigned by reb_input_fields / reb_simulation_init after reading
    "N_allocated": "set to N by the loader", "tree_root": "tree rebuilt by the loader",
    "ri_whfast512.recalculate_constants": "set to 1 by the loader", "tree_needs_update": "tree rebuilt by the loader",
}
SCRATCH = {  # (re)computed inside every step before being read, or lazily rebuilt when their counter is 0
    "particle_lookup_table", "N_lookup", "N_allocated_lookup", "gravity_cs", "N_allocated_gravity_cs",
    "collisions", "N_allocated_collisions", "ri_whfast.p_temp", "ri_whfast.N_allocated_tmp",
    "ri_ias15.map", "ri_ias15.N_allocated_map",
    "ri_mercurius.mode", "ri_mercurius.encounter_N", "ri_mercurius.encounter_N_active", "ri_mercurius.tponly_encounter",
    "ri_mercurius.N_allocated", "ri_mercurius.N_allocated_additional_forces", "ri_mercurius.particles_backup",
    "ri_mercurius.particles_backup_additional_forces", "ri_mercurius.encounter_map",
    "ri_trace.mode", "ri_trace.encounter_N", "ri_trace.encounter_N_active", "ri_trace.N_allocated",
    "ri_trace.N_allocated_additional_forces", "ri_trace.tponly_encounter", "ri_trace.particles_backup",
    "ri_trace.particles_backup_kepler", "ri_trace.particles_backup_additional_forces", "ri_trace.encounter_map",
    "ri_trace.com_pos.x", "ri_trace.com_pos.y", "ri_trace.com_pos.z", "ri_trace.com_vel.x", "ri_trace.com_vel.y",
    "ri_trace.com_vel.z", "ri_trace.current_Ks", "ri_trace.current_C", "ri_trace.force_accept",
    "ri_bs.sequence", "ri_bs.cost_per_step", "ri_bs.cost_per_time_unit", "ri_bs.optimal_step", "ri_bs.coeff",
}
WALLCLOCK_UI = {  # timing, messages, display/server handles, warning latches, file name of the archive
    "messages", "display_data", "server_data", "walltime_last_step", "walltime_last_steps_sum", "walltime_last_steps_N",
    "simulationarchive_filename", "var_rescale_warning", "ri_whfast.recalculate_coordinates_but_not_synchronized_warning",
}
# members whose classification is an open question (candidates, see DESIGN.md 5): classified with the stated reason
REVIEWED = {
    "ri_bs.dt_proposed": "read across steps only in the user-ODE branch of reb_integrator_part2 (user ODE state is not persisted by design)",
}
for s_, why in (("callback/opaque user pointer (re-attached by the user)", CALLBACKS), ("scratch, recomputed before use", SCRATCH),
                ("wall-clock/UI/message state", WALLCLOCK_UI)):
    P.assume("not persisted, classified as %s: %s" % (s_, ", ".join(sorted(why))))
for k, w in sorted(RECONSTRUCTED.items()):
    P.assume("not persisted, reconstructed: %s (%s)" % (k, w))
for k, w in sorted(REVIEWED.items()):
    P.assume("not persisted, reviewed: %s -- %s" % (k, w))
P.assume("layout: x86-64 SysV as computed from clang's AST (cross-checked against clang -fdump-record-layouts in C18)")
P.not_decided += ["user ODE state and REBOUNDx `extras` (not persisted by design)",
                  "bit-identical continuation as such (needs a determinism argument over every integrator: only the "
                  "persistence frame is decided here)"]

DTYPE_SIZE = {"REB_DOUBLE": 8, "REB_INT": 4, "REB_UINT": 4, "REB_UINT32": 4, "REB_INT64": 8, "REB_UINT64": 8,
              "REB_VEC3D": 24}


def kind_ok(dname, t):
    if dname == "REB_DOUBLE":
        return t.kind == "float" and t.bits == 64
    if dname == "REB_INT":
        return (t.kind == "int" and t.bits == 32 and t.signed) or t.kind == "enum"
    if dname in ("REB_UINT", "REB_UINT32"):
        return (t.kind == "int" and t.bits == 32 and not t.signed) or t.kind == "enum"
    if dname == "REB_INT64":
        return t.kind == "int" and t.bits == 64 and t.signed
    if dname == "REB_UINT64":
        return t.kind == "int" and t.bits == 64 and not t.signed
    if dname == "REB_VEC3D":
        return t.kind == "struct" and t.name == "reb_vec3d"
    return False


def replay_member(o, repo):
    """native replay of `.complete.<member>`: poke a non-default byte pattern into the member of a real simulation,
    copy it with the real reb_simulation_copy (= save_to_stream + input_fields) and compare the member."""
    import ctypes, re
    from engine import native
    m = re.search(r"\.complete\.(.+)$", o["name"])
    if not m:
        return None, {"reason": "no native replay for this clause"}
    member = m.group(1)
    tu = cfront.tu("src/output.c", repo)
    offs = {p: (off, tu._size_align(t)[0]) for (p, off, t) in layout.members(tu, "reb_simulation")}
    if member not in offs:
        return None, {"reason": "member not found"}
    off, size = offs[member]
    lib = ctypes.CDLL(native.build_lib(repo))
    lib.reb_simulation_create.restype = ctypes.c_void_p
    lib.reb_simulation_copy.restype = ctypes.c_void_p
    lib.reb_simulation_copy.argtypes = [ctypes.c_void_p]
    r = lib.reb_simulation_create()
    size = min(size, 4)
    orig = ctypes.string_at(r + off, size)
    poke = bytes([2] + [0] * (size - 1))
    if poke == orig:
        poke = bytes([1] + [0] * (size - 1))
    ctypes.memmove(r + off, poke, size)
    c = lib.reb_simulation_copy(r)
    got = ctypes.string_at(c + off, size)
    info = {"call": "reb_simulation_copy", "member": member, "offset": off, "written": poke.hex(), "default": orig.hex(),
            "read_back_from_copy": got.hex()}
    return got != poke, info


@P.task("table", fn="reb_simulation_save_to_stream", replay=replay_member)
def _(v):
    tu = v.eng.tu0
    rows = layout.descriptor_table(cfront.REPO)
    dnames = {val: name for name, val in tu.enums.items() if name.startswith("REB_") and name in (
        "REB_DOUBLE", "REB_INT", "REB_UINT", "REB_UINT32", "REB_INT64", "REB_UINT64", "REB_VEC3D", "REB_PARTICLE",
        "REB_POINTER", "REB_POINTER_ALIGNED", "REB_DP7", "REB_OTHER", "REB_FIELD_END", "REB_PARTICLE4",
        "REB_POINTER_FIXED_SIZE")}
    v.ground("dtype_enum_resolved", len(dnames) >= 13, str(sorted(dnames.items())))
    mem_flat = layout.members(tu, "reb_simulation", flatten=True)
    mem_top = layout.members(tu, "reb_simulation", flatten=False)
    by_off = {}
    for (p, o, t) in mem_flat:
        by_off.setdefault(o, (p, t))
    # members at any nesting level addressed as a whole (reb_vec3d, reb_dp7, arrays)
    whole = {}

    def collect(structname, prefix, base):
        off = 0
        for (n, q, _i) in tu.records[structname]:
            t = tu.ctype(q)
            s, a = tu._size_align(t)
            off = (off + a - 1) // a * a
            whole[(base + off, prefix + n)] = t
            if t.kind == "struct" and t.name in tu.records and t.name != "pthread_mutex_t":
                collect(t.name, prefix + n + ".", base + off)
            off += s
    collect("reb_simulation", "", 0)
    total = tu.sizeof(tu.ctype("struct reb_simulation"))
    types = [r[0] for r in rows]
    v.ground("types_unique", len(types) == len(set(types)), "duplicate ids: %s" % sorted({t for t in types if types.count(t) > 1}))
    names = [r[2] for r in rows]
    v.ground("names_unique", len(names) == len(set(names)), "")
    v.ground("terminated_by_END", dnames.get(rows[-1][1]) == "REB_FIELD_END" and
             all(dnames.get(r[1]) != "REB_FIELD_END" for r in rows[:-1]), "")
    persisted = set()      # byte ranges [a,b)
    counters = set()
    for (typ, dt, name, off, offN, esz) in rows:
        d = dnames.get(dt, "?%d" % dt)
        tag = "d%d_%s" % (typ, name.replace(" ", "_"))
        if d in ("REB_OTHER", "REB_FIELD_END"):
            continue
        cands = [(p, t) for ((o, p), t) in whole.items() if o == off]
        v.ground("%s.offset_is_member" % tag, bool(cands), "offset %d is not the start of any member" % off)
        if not cands:
            continue
        # pick the candidate named like the descriptor if possible, else the outermost one
        cand = None
        for (p, t) in cands:
            if p == name:
                cand = (p, t)
        if cand is None:
            cand = sorted(cands, key=lambda x: -tu._size_align(x[1])[0])[0] if d in ("REB_VEC3D", "REB_DP7", "REB_PARTICLE4") else \
                sorted(cands, key=lambda x: tu._size_align(x[1])[0])[0]
        mpath, mt = cand
        msize = tu._size_align(mt)[0]
        if d in DTYPE_SIZE:
            v.ground("%s.size" % tag, DTYPE_SIZE[d] == msize, "dtype %s writes %d bytes, member %s has %d" % (d, DTYPE_SIZE[d], mpath, msize))
            v.ground("%s.kind" % tag, kind_ok(d, mt), "dtype %s vs C type %r of %s" % (d, mt, mpath))
            persisted.add((off, off + DTYPE_SIZE[d]))
        elif d == "REB_PARTICLE4":
            v.ground("%s.size" % tag, msize == 4 * tu.sizeof(tu.ctype("struct reb_particle")), "member %s size %d" % (mpath, msize))
            persisted.add((off, off + msize))
        elif d in ("REB_POINTER", "REB_POINTER_ALIGNED", "REB_POINTER_FIXED_SIZE"):
            v.ground("%s.is_pointer" % tag, mt.kind == "ptr", "member %s has type %r" % (mpath, mt))
            if mt.kind == "ptr" and mt.to.kind != "void":
                try:
                    psz = tu.sizeof(mt.to)
                except Exception:
                    psz = None
                v.ground("%s.element_size" % tag, psz == esz, "element_size %d vs sizeof(pointee %r)=%s" % (esz, mt.to, psz))
            persisted.add((off, off + 8))
            if d != "REB_POINTER_FIXED_SIZE":
                cN = [(p, t) for ((o, p), t) in whole.items() if o == offN and t.kind == "int" and t.bits == 32]
                v.ground("%s.counter_is_int32" % tag, bool(cN), "offset_N %d" % offN)
                if cN:
                    counters.add(cN[0][0])
                    persisted.add((offN, offN + 4))
        elif d == "REB_DP7":
            v.ground("%s.is_dp7" % tag, mt.kind == "struct" and mt.name == "reb_dp7" and esz == 56, "%r esz=%d" % (mt, esz))
            persisted.add((off, off + msize))
            cN = [(p, t) for ((o, p), t) in whole.items() if o == offN and t.kind == "int" and t.bits == 32]
            v.ground("%s.counter_is_int32" % tag, bool(cN), "offset_N %d" % offN)
            if cN:
                persisted.add((offN, offN + 4))
        else:
            v.ground("%s.dtype_known" % tag, False, "dtype %s" % d)
        v.ground("%s.in_struct" % tag, 0 <= off < total, "")
    # no two value descriptors overlap
    rng = sorted(r for r in persisted)
    overlap = [(a, b) for i, (a, b) in enumerate(rng) for (c, d2) in rng[i + 1:] if c < b and (a, b) != (c, d2)]
    v.ground("no_overlapping_fields", not [x for x in overlap if x[1] - x[0] != 4], str(overlap[:5]))
    # completeness
    classified = CALLBACKS | SCRATCH | WALLCLOCK_UI | set(RECONSTRUCTED) | set(REVIEWED)
    seen = set()
    for (p, o, t) in mem_flat:
        s = tu._size_align(t)[0]
        is_p = any(a <= o and o + s <= b for (a, b) in persisted)
        seen.add(p)
        if is_p:
            v.ground("complete.%s" % p, True, "persisted")
            v.ground("classification_not_stale.%s" % p, p not in classified, "member is persisted AND classified as not persisted")
        else:
            v.ground("complete.%s" % p, p in classified,
                     "member %s (%r) is neither persisted by the descriptor table nor reconstructed/classified: "
                     "a step may read state that save/load loses" % (p, t))
    for c in sorted(classified - seen):
        v.ground("classification_exists.%s" % c, False, "classified member does not exist in struct reb_simulation any more")


# ---------------------------------------------------------------------------------------------- loader fix-ups
@P.task("loader.fixups_write_only_reconstructed_members", fn="reb_input_fields", files=["src/input.c"])
def _(v):
    """After the last field has been read (label finish_fields) the loader may assign only what it must RECONSTRUCT: members that
    hold addresses (var_config[].sim, particles[].c/.ap/.sim), counters that are defined by what was read (N_allocated), the
    tree, and request flags listed as reconstructed.  Any other member of the simulation was either read from the stream or
    keeps the default of a fresh simulation; a fix-up that overwrites a persisted member (e.g. recomputes max_radius0/1 from
    the particles) makes the restored simulation differ from the saved one."""
    from engine import frames
    tu, fn = v.eng.find_function("reb_input_fields")
    body = tu.body(fn)
    label = [n for n in frames.walk(body) if n.get("kind") == "LabelStmt" and n.get("name") == "finish_fields"]
    v.ground("finish_section_found", len(label) == 1, "LabelStmt finish_fields: %d" % len(label))
    if len(label) != 1:
        return
    # statements of the function body from the label to the end
    top = [c for c in body.get("inner", ()) if isinstance(c, dict)]
    k = next((i for i, c in enumerate(top) if c.get("kind") == "LabelStmt" and c.get("name") == "finish_fields"), None)
    v.ground("finish_section_is_top_level", k is not None, "")
    if k is None:
        return
    section = top[k:]

    def path(n):
        """r->a.b[i].c  ->  'a.b.*.c' (None if not rooted at the parameter r)"""
        n = frames.strip_casts(n)
        kd = n.get("kind")
        if kd == "MemberExpr":
            base = path(n["inner"][0])
            return None if base is None else (base + "." + n["name"] if base else n["name"])
        if kd == "ArraySubscriptExpr":
            base = path(n["inner"][0])
            return None if base is None else base + ".*"
        if kd == "DeclRefExpr":
            return "" if n.get("referencedDecl", {}).get("name") == "r" else None
        if kd == "UnaryOperator" and n.get("opcode") == "*":
            return path(n["inner"][0])
        return None
    written = set()
    for s_ in section:
        for n in frames.walk(s_):
            if n.get("kind") in ("BinaryOperator", "CompoundAssignOperator") and str(n.get("opcode", "")).endswith("="):
                if n.get("opcode") in ("==", "!=", "<=", ">="):
                    continue
                pth = path(n["inner"][0])
                if pth:
                    written.add(pth)
            if n.get("kind") == "UnaryOperator" and n.get("opcode") in ("++", "--"):
                pth = path(n["inner"][0])
                if pth:
                    written.add(pth)
    allowed = set(RECONSTRUCTED) | {"var_config.*.sim", "particles.*.c", "particles.*.ap", "particles.*.sim"}
    extra = sorted(written - allowed)
    v.ground("only_reconstructed_members_assigned", not extra,
             "assigned after finish_fields: %s; not in the reconstructed list: %s" % (sorted(written), extra))
    calls = sorted({frames.callee_name(n) for s_ in section for n in frames.walk(s_) if n.get("kind") == "CallExpr"} - {None})
    v.ground("only_tree_helpers_called", set(calls) <= {"reb_tree_delete", "reb_tree_add_particle_to_tree"}, "calls after finish_fields: %s" % calls)
