"""C01 (continued): operator words of LEAPFROG, SEI, EOS, MERCURIUS, SABA with correctors and the WHFast
MODIFIEDKICK / LAZY kernels, extracted from the REAL part1 / part2 / synchronize bodies, satisfy the order
conditions of their advertised (generalised) order.  Same technique as C01_order.py; particle loops become letters
through a proved per-particle body contract (contracts/_wordloops.py).

Advertised orders: docs/integrators.md (LEAPFROG "second order", SEI "second order", MERCURIUS = Wisdom-Holman in
democratic heliocentric coordinates away from encounters (Rein et al. 2019), EOS table of phi0/phi1 methods (Rein 2019),
SABAC n: O(eps dt^2n + eps^2 dt^4) (Laskar & Robutel 2001), WHFast kernels (Rein, Tamayo & Brown 2019)).
"""
from fractions import Fraction
import z3
from engine.api import Pack
from engine import opword
from contracts import _words as W
from contracts import _wordloops as WL

P = Pack("C01", W.WH_FILES, "order conditions of operator words (leapfrog, SEI, EOS, MERCURIUS, correctors, kernels)")
PACKS = [P]
P.assume("particle loops are summarised by their per-particle body contract: the loop visits exactly [lo,N) once each "
         "(header obligations) and iteration i writes element i only (frame obligations), so the loop equals the letter "
         "applied to every particle; the letter's dt-coefficient is read off the PROVED affine form of the body")
P.assume("a kick letter I(c) is the exact flow exp(c*dt*B) only if the accelerations are those of the current positions: "
         "checked per word as 'forces_fresh' (a force evaluation after the last position-changing letter)")

ONE = Fraction(1)
HALF = Fraction(1, 2)


# ====================================================================== LEAPFROG
def leapfrog_word(v, steps=1):
    r, rp, dt, N, parts = WL.make_plain_sim(v, {"integrator": "REB_INTEGRATOR_LEAPFROG"})
    LL = WL.LoopLetters(v, dt, N, {"P": parts})

    def classify(B):
        ups = WL.affine_updates(B)
        return WL.kick_drift_letters(B, ups, "P", "P", "P")
    LL.attach("reb_integrator_leapfrog_part1", 0, classify, lo=0)
    LL.attach("reb_integrator_leapfrog_part2", 0, classify, lo=0)
    word = []
    for _ in range(steps):
        word = W.run(v, rp, ["reb_integrator_leapfrog_part1", "F", "reb_integrator_leapfrog_part2"])
    return r, rp, dt, word


LEAP_MAP = {"D": "A", "I": "B"}


@P.task("leapfrog.order", fn="reb_integrator_leapfrog_part2")
def _(v):
    r, rp, dt, word = leapfrog_word(v)
    phys = WL.physical(word)
    v.ground("word_shape", [l for (l, c, k) in phys] == ["D", "I", "D"], WL.fmt(word))
    v.ground("forces_fresh", not WL.force_fresh(word, {"D"}, {"I"}), WL.fmt(word))
    exps = WL.exponents_map(word, LEAP_MAP)
    W.check_order(v, "order(2, 2)", exps, (2, 2), {"A": ONE, "B": ONE})


# ====================================================================== SEI (shearing sheet, Rein & Tremaine 2011)
P.assume("SEI: trigonometric identities used as hypotheses of the operator_H012 body contract: sin^2+cos^2=1, "
         "double angle sin(2u)=2 sin u cos u, cos(2u)=cos^2 u - sin^2 u at u = OMEGA*(-dt/4) (and OMEGAZ), "
         "sin(-u)=-sin u, cos(-u)=cos u; preconditions OMEGA != 0, OMEGAZ != 0 (divisions) and cos(OMEGA*dt/4) != 0, "
         "cos(OMEGAZ*dt/4) != 0 (tan defined: the step is not an odd multiple of the epicyclic period)")
P.assume("SEI: ri_sei invariant `lastdt == dt  =>  sindt = sin(OMEGA*(-dt/2)), tandt = tan(OMEGA*(-dt/4))` (same for z): "
         "established by reb_integrator_sei_init (task sei.init.contract), part1 re-runs init whenever lastdt != dt "
         "(task sei.part1.reinit); a user changing OMEGA without reb_integrator_sei_reset breaks it (usage rule)")


def hill_flow(x, y, z, vx, vy, vz, Om, Omz, S, C, Sz, Cz, tau):
    """Exact flow of the unperturbed shearing-sheet Hamiltonian H0 (Hill's equations  x'' = 2 Om y' + 3 Om^2 x,
    y'' = -2 Om x', z'' = -Omz^2 z) over a time tau, S = sin(Om tau), C = cos(Om tau), Sz, Cz likewise for Omz.
    Written from the maths (guiding centre xc = 2 (vy + 2 Om x)/Om is conserved); checked against the ODE with sympy in
    task sei.H012.flow_spec.  Only + - * / so that it evaluates on z3 terms and on sympy symbols alike."""
    Cc = vy + 2 * Om * x                   # conserved
    xc = 2 * Cc / Om
    x1 = xc + (x - xc) * C + (vx / Om) * S
    vx1 = -(x - xc) * Om * S + vx * C
    vy1 = Cc - 2 * Om * x1
    y1 = y - 3 * Cc * tau - 2 * (x - xc) * S - 2 * vx * (1 - C) / Om
    z1 = z * Cz + (vz / Omz) * Sz
    vz1 = -z * Omz * Sz + vz * Cz
    return {"x": x1, "y": y1, "z": z1, "vx": vx1, "vy": vy1, "vz": vz1}


@P.task("sei.H012.flow_spec", fn="operator_H012")
def _(v):
    """the specification map really is the H0 flow: d/dtau spec = Hill vector field (spec), spec(tau=0) = identity"""
    import sympy as sp
    x, y, z, vx, vy, vz, Om, Omz, tau = sp.symbols("x y z vx vy vz Om Omz tau")
    f = hill_flow(x, y, z, vx, vy, vz, Om, Omz, sp.sin(Om * tau), sp.cos(Om * tau), sp.sin(Omz * tau), sp.cos(Omz * tau), tau)
    rhs = {"x": f["vx"], "y": f["vy"], "z": f["vz"],
           "vx": 2 * Om * f["vy"] + 3 * Om ** 2 * f["x"], "vy": -2 * Om * f["vx"], "vz": -Omz ** 2 * f["z"]}
    start = {"x": x, "y": y, "z": z, "vx": vx, "vy": vy, "vz": vz}
    for k in ("x", "y", "z", "vx", "vy", "vz"):
        d = sp.simplify(sp.diff(f[k], tau) - rhs[k])
        v.ground("ode." + k, d == 0, "d/dtau spec.%s - field = %s" % (k, d))
        d0 = sp.simplify(f[k].subs(tau, 0) - start[k])
        v.ground("initial." + k, d0 == 0, "spec.%s(0) - %s = %s" % (k, k, d0))


def sei_angles(v, Om, Omz, dt):
    """trig symbols of the four angles + the identity hypotheses listed in P.assume"""
    eng = v.eng
    out = {}
    hyps = []
    for nm, om in (("xy", Om), ("z", Omz)):
        a1 = om * (-dt / 4)
        a2 = om * (-dt / 2)
        s1, c1 = eng.trig_pair(a1)
        s2, c2 = eng.trig_pair(a2)
        t1 = eng.uf("tan", z3.RealSort(), z3.RealSort())(z3.simplify(a1))
        hyps += [s1 * s1 + c1 * c1 == 1, s2 == 2 * s1 * c1, c2 == c1 * c1 - s1 * s1, c1 != 0]
        out[nm] = dict(a1=a1, a2=a2, s1=s1, c1=c1, s2=s2, c2=c2, t1=t1)
    return out, hyps


def sei_invariant(ri, ang):
    """ri_sei cache invariant in polynomial form (what the body contract of operator_H012 needs)"""
    return [ri.sindt == ang["xy"]["s2"], ri.tandt == ang["xy"]["s2"] / (1 + ang["xy"]["c2"]), 1 + ang["xy"]["c2"] != 0,
            ang["xy"]["s2"] * ang["xy"]["s2"] + ang["xy"]["c2"] * ang["xy"]["c2"] == 1,
            ri.sindtz == ang["z"]["s2"], ri.tandtz == ang["z"]["s2"] / (1 + ang["z"]["c2"]), 1 + ang["z"]["c2"] != 0,
            ang["z"]["s2"] * ang["z"]["s2"] + ang["z"]["c2"] * ang["z"]["c2"] == 1]


@P.task("sei.init.contract", fn="reb_integrator_sei_init")
def _(v):
    r, rp = v.struct_obj("struct reb_simulation", "r")
    dt, Om, Omz = v.real("dt"), v.real("Om"), v.real("Omz")
    r.dt = dt
    r.ri_sei.OMEGA = Om
    r.ri_sei.OMEGAZ = Omz
    v.assume(Om != 0, Omz != 0, Omz != -1)
    ang, hyps = sei_angles(v, Om, Omz, dt)
    v.assume(*hyps)
    v.call("reb_integrator_sei_init", rp)
    ri = r.ri_sei
    v.prove("lastdt", ri.lastdt == dt)
    v.prove("omegaz_kept", ri.OMEGAZ == Omz)
    v.prove("sindt_is_sin_of_minus_half_step", ri.sindt == ang["xy"]["s2"])
    v.prove("sindtz_is_sin_of_minus_half_step", ri.sindtz == ang["z"]["s2"])
    v.prove("tandt_is_tan_of_minus_quarter_step", ri.tandt == ang["xy"]["t1"])
    v.prove("tandtz_is_tan_of_minus_quarter_step", ri.tandtz == ang["z"]["t1"])
    for k, g in enumerate(sei_invariant(ri, ang)):
        v.prove("invariant.%d" % k, g)


@P.task("sei.init.omegaz_default", fn="reb_integrator_sei_init")
def _(v):
    """OMEGAZ == -1 (the default of reb_simulation_init) means 'use OMEGA'"""
    r, rp = v.struct_obj("struct reb_simulation", "r")
    dt, Om = v.real("dt"), v.real("Om")
    r.dt = dt
    r.ri_sei.OMEGA = Om
    r.ri_sei.OMEGAZ = -1
    v.call("reb_integrator_sei_init", rp)
    v.prove("omegaz_set_to_omega", r.ri_sei.OMEGAZ == Om)
    v.prove("same_cache", z3.And(r.ri_sei.sindtz == r.ri_sei.sindt, r.ri_sei.tandtz == r.ri_sei.tandt))


def sei_word(v, steps=1, lastdt_is_dt=True):
    cfg = {"integrator": "REB_INTEGRATOR_SEI"}
    r, rp, dt, N, parts = WL.make_plain_sim(v, cfg, notes=WL.PLAIN_NOTES + (["reb_integrator_sei_init"] if not lastdt_is_dt else []))
    Om, Omz = v.real("Om"), v.real("Omz")
    ri = r.ri_sei
    ri.OMEGA, ri.OMEGAZ = Om, Omz
    v.assume(Om != 0, Omz != 0)
    ang, hyps = sei_angles(v, Om, Omz, dt)
    if lastdt_is_dt:
        ri.lastdt = dt
        sd, td, sdz, tdz = v.real("sindt"), v.real("tandt"), v.real("sindtz"), v.real("tandtz")
        ri.sindt, ri.tandt, ri.sindtz, ri.tandtz = sd, td, sdz, tdz
        v.assume(*sei_invariant(ri, ang))
    LL = WL.LoopLetters(v, dt, N, {"P": parts})
    F6 = ("x", "y", "z", "vx", "vy", "vz")
    tau = dt / 2

    def spec(B, kick):
        p = {f: B.pre(parts, f) for f in F6 + ("ax", "ay", "az")}
        vx, vy, vz = p["vx"], p["vy"], p["vz"]
        if kick:
            vx, vy, vz = vx + dt * p["ax"], vy + dt * p["ay"], vz + dt * p["az"]
        # S = sin(Om tau) = -sin(Om*(-tau)),  C = cos(Om tau) = cos(Om*(-tau))
        return hill_flow(p["x"], p["y"], p["z"], vx, vy, vz, Om, Omz, -ang["xy"]["s2"], ang["xy"]["c2"],
                         -ang["z"]["s2"], ang["z"]["c2"], tau)

    def mk(kick):
        def classify(B):
            want = spec(B, kick)
            for f in F6:
                B.prove(("kick_then_" if kick else "") + "H0_flow_half_step." + f, B.post(parts, f) == want[f], order=("polyid", "z3"))
            others = sorted(l for (oid, l) in B.written if l[0] not in F6)
            B.ground("nothing_else_written", not others, str(others))
            return ([("I", ONE, 1)] if kick else []) + [("H", HALF, 1)]
        return classify
    LL.attach("reb_integrator_sei_part1", 0, mk(False), lo=0)
    LL.attach("reb_integrator_sei_part2", 0, mk(True), lo=0)
    word = []
    for _ in range(steps):
        word = W.run(v, rp, ["reb_integrator_sei_part1", "F", "reb_integrator_sei_part2"])
    return r, rp, dt, word


SEI_MAP = {"H": "A", "I": "B"}


@P.task("sei.order", fn="reb_integrator_sei_part2", timeout=300)
def _(v):
    r, rp, dt, word = sei_word(v)
    phys = WL.physical(word)
    v.ground("word_shape", [l for (l, c, k) in phys] == ["H", "I", "H"], WL.fmt(word))
    v.ground("forces_fresh", not WL.force_fresh(word, {"H"}, {"I"}), WL.fmt(word))
    exps = WL.exponents_map(word, SEI_MAP)
    W.check_order(v, "order(2, 2)", exps, (2, 2), {"A": ONE, "B": ONE})


@P.task("sei.part1.reinit", fn="reb_integrator_sei_part1")
def _(v):
    """part1 re-computes the cache exactly when lastdt != dt, before the first operator is applied"""
    r, rp, dt, N, parts = WL.make_plain_sim(v, {"integrator": "REB_INTEGRATOR_SEI"},
                                            notes=WL.PLAIN_NOTES + ["reb_integrator_sei_init"])
    ld = v.real("lastdt")
    r.ri_sei.lastdt = ld
    Om, Omz = v.real("Om"), v.real("Omz")
    r.ri_sei.OMEGA, r.ri_sei.OMEGAZ = Om, Omz
    v.assume(Om != 0, Omz != 0)
    LL = WL.LoopLetters(v, dt, N, {"P": parts})
    LL.attach("reb_integrator_sei_part1", 0, lambda B: [("H", HALF, 1)], lo=0)
    word = W.run(v, rp, ["reb_integrator_sei_part1"])
    names = [l for (l, c, k) in word]
    has_init = "!reb_integrator_sei_init" in names
    v.prove("init_called_iff_dt_changed", (ld != dt) if has_init else (ld == dt))
    v.ground("init_before_operator", (not has_init) or names.index("!reb_integrator_sei_init") < names.index("H"), str(names))


# ====================================================================== EOS (Rein 2019)
P.assume("EOS: drift_shell0(a) is the exact flow exp(a*dt*A) of the outer 'A' part and interaction_shell0(y,0) the exact kick "
         "exp(y*dt*B); for the inner splitting drift_shell1(a) = exp(a*dt*A') (free drift, body contract proved here) and "
         "interaction_shell1(y,0) = exp(y*dt*B') (kick by the central body)")
P.assume("EOS modified kicks: reb_calculate_and_apply_jerk(r,v) / the jerk branch of interaction_shell1 add "
         "dv = 2 v (da/dq) a = v grad|a|^2, which is the flow of v*[B,[A,B]] for A = p d/dq, B = a(q) d/dp "
         "([B,[A,B]] = 2 (a.d/dq) a d/dp; operator products in application order): the letter M(y,v) is "
         "exp(y B + v [B,[A,B]]) with weight exactly 1 on the code's v.  The jerk bodies themselves are not under contract here")
P.assume("PMLF4 / PMLF6 (Blanes, Casas & Ros 1999) are Runge-Kutta-Nystrom type methods: their order conditions are stated "
         "modulo [B,[B,[A,B]]] = 0 (kinetic energy quadratic in the momenta, B a position-dependent kick); a bidegree class "
         "whose free-algebra residual is not rounding-small is accepted only if every linear functional annihilating the "
         "two-sided ideal generated by [B,[B,[A,B]]] vanishes on it within the rounding envelope")

P.assume("tolerance of the EOS order conditions: first-order propagated uncertainty of the table literals; a literal printed "
         "with d >= 13 significant digits stands for a real number within one unit of its last digit (rounded or truncated), "
         "i.e. K * 2^-53 relative with K computed from the REAL source text per scheme (LF6 11, LF8 70, PLF7_6_4 146, PMLF4 38, "
         "PMLF6 55; "
         "4 for the tables printed with >= 17 digits); with the 4-ulp envelope of C01_order.py the 15/16-digit tables LF6 and "
         "PMLF6 exceed it by factors <= 3 at lengths 4..6 (residuals 1e-17..4e-16): a precision-of-literals effect, not an order defect")

EOS_TYPES = ["LF", "LF4", "LF6", "LF8", "LF4_2", "LF8_6_4", "PLF7_6_4", "PMLF4", "PMLF6"]
EOS_ORDER = {   # docs/integrators.md, table of phi0/phi1 methods
    "LF": (2, 2), "LF4": (4, 4), "LF6": (6, 6), "LF8": (8, 8), "LF4_2": (4, 2), "LF8_6_4": (8, 6, 4),
    "PLF7_6_4": (7, 6, 4), "PMLF4": (4, 4), "PMLF6": (6, 6),
}
Z_IDEAL = None


def z_ideal():
    global Z_IDEAL
    if Z_IDEAL is None:
        alg = opword.FreeAlg(lambda w: True)
        Z_IDEAL = alg.comm({"B": ONE}, WL.bab_commutator(ONE))      # [B,[B,[A,B]]]
    return Z_IDEAL


def eos_K(*types):
    """tolerance factor from the printed precision of the real table literals of the schemes involved"""
    K, rows = Fraction(4), []
    for t in types:
        if t == "LF":
            continue
        k, r = WL.literal_tolerance_factor("src/integrator_eos.c", "^" + t.lower() + "_")
        K, rows = max(K, k), rows + r
    return K, rows


def eos_cfg(phi0, phi1="LF", n=1, safe=1, sync=1):
    return {"integrator": "REB_INTEGRATOR_EOS", "ri_eos.phi0": "REB_EOS_" + phi0, "ri_eos.phi1": "REB_EOS_" + phi1,
            "ri_eos.n": n, "ri_eos.safe_mode": safe, "ri_eos.is_synchronized": sync, "gravity": "REB_GRAVITY_BASIC"}


def eos_outer_sim(v, phi0, safe=1, sync=1):
    """shell-0 operators as letters: D(a) = drift_shell0, I(y) / M(y,v) = interaction_shell0"""
    dtsym = {}
    r, rp, dt, N, parts = WL.make_plain_sim(v, eos_cfg(phi0, safe=safe, sync=sync),
                                            prims={"reb_integrator_eos_drift_shell0": ("D", 1)})
    v.eng.trace_prims["reb_integrator_eos_interaction_shell0"] = WL.modkick_recorder(dt)
    return r, rp, dt


EOS_MAP = {"D": "A", "I": "B", "M": WL.modkick_exponent(ONE)}
EOS_STEP = ["reb_integrator_eos_part1", "F", "reb_integrator_eos_part2"]


def eos_outer_task(phi0):
    s = EOS_ORDER[phi0]

    @P.task("eos.outer.%s" % phi0.lower(), fn="reb_integrator_eos_part2", timeout=900)
    def _(v):
        r, rp, dt = eos_outer_sim(v, phi0)
        word = W.run(v, rp, EOS_STEP)
        phys = WL.physical(word)
        v.ground("nonempty", len(phys) >= 3, WL.fmt(word))
        v.prove("ends_synchronized", r.ri_eos.is_synchronized == 1)
        exps = WL.exponents_map(word, EOS_MAP)
        K, rows = eos_K(phi0)
        v.ground("tolerance", True, "K = %s ulp from the literals of the scheme's tables: %s" % (K, sorted(rows, key=lambda t: -t[3])[:3]))
        WL.check_order_mod(v, "order%s" % (s,), exps, s, {"A": ONE, "B": ONE},
                           ideal_gen=z_ideal() if phi0.startswith("PM") else None, K=K)
    return _


for _t in EOS_TYPES:
    eos_outer_task(_t)


# ---------------------------------------------------------------------- EOS inner splitting (phi1) inside drift_shell0
def eos_inner_sim(v, phi1, n):
    r, rp, dt, N, parts = WL.make_plain_sim(v, eos_cfg("LF", phi1=phi1, n=n),
                                            prims={"reb_integrator_eos_drift_shell1": ("D", 1)})
    v.eng.trace_prims["reb_integrator_eos_interaction_shell1"] = WL.modkick_recorder(dt)
    return r, rp, dt


def eos_inner_task(phi1, n):
    s = EOS_ORDER[phi1]

    @P.task("eos.inner.%s.n%d" % (phi1.lower(), n), fn="reb_integrator_eos_drift_shell0", timeout=900)
    def _(v):
        r, rp, dt = eos_inner_sim(v, phi1, n)
        v.call("reb_integrator_eos_drift_shell0", rp, dt)       # one outer drift of length dt = n sub-steps of dt/n
        word = list(v.st.trace)
        phys = WL.physical(word)
        kicks = [w for w in phys if w[0] in ("I", "M")]
        per = {"LF": 1, "LF4": 3, "LF6": 9, "LF8": 17, "LF4_2": 2, "LF8_6_4": 7, "PLF7_6_4": 3, "PMLF4": 1, "PMLF6": 3}[phi1]
        proc = {"PLF7_6_4": 12, "PMLF4": 6, "PMLF6": 12}.get(phi1, 0)
        v.ground("force_evaluations", len(kicks) == per * n + proc,
                 "%d kicks = %d sub-steps x %d (docs: number of force evaluations) + %d in the processors" % (len(kicks), n, per, proc))
        exps = WL.exponents_map(word, EOS_MAP)
        K, rows = eos_K(phi1)
        WL.check_order_mod(v, "order%s" % (s,), exps, s, {"A": ONE, "B": ONE},
                           ideal_gen=z_ideal() if phi1.startswith("PM") else None, K=K)
    return _


for _t in EOS_TYPES:
    eos_inner_task(_t, 2)
eos_inner_task("LF", 1)
eos_inner_task("LF4", 3)
eos_inner_task("PMLF4", 3)


@P.task("eos.drift_shell1.body", fn="reb_integrator_eos_drift_shell1")
def _(v):
    """the innermost drift is a particle loop: x_i += a*v_i for all i in [0,N), nothing else (letter D(a))"""
    r, rp, dt, N, parts = WL.make_plain_sim(v, eos_cfg("LF"))
    LL = WL.LoopLetters(v, dt, N, {"P": parts})
    LL.attach("reb_integrator_eos_drift_shell1", 0,
              lambda B: WL.kick_drift_letters(B, WL.affine_updates(B), "P", "P", "P"), lo=0)
    c = Fraction(3, 7)
    v.call("reb_integrator_eos_drift_shell1", rp, dt * z3.RealVal("3/7"))
    v.ground("letter", WL.physical(v.st.trace) == [("D", c, 1)], WL.fmt(v.st.trace))


@P.task("eos.interaction_shell0.kick_loop", fn="reb_integrator_eos_interaction_shell0")
def _(v):
    """shell-0 interaction = force evaluation, optional jerk, then the kick loop v_i += y*a_i for all i (letter I(y));
    the jerk is applied after the force evaluation and before the kick"""
    for vjerk in (0, 1):
        v.st.trace = []
        r, rp, dt, N, parts = WL.make_plain_sim(v, eos_cfg("LF"))
        v.assume(dt != 0)                     # v = c*dt^3 != 0 (the code tests v != 0.)
        LL = WL.LoopLetters(v, dt, N, {"P": parts})
        LL.attach("reb_integrator_eos_interaction_shell0", 0,
                  lambda B: WL.kick_drift_letters(B, WL.affine_updates(B), "P", "P", "P"), lo=0)
        v.call("reb_integrator_eos_interaction_shell0", rp, dt * z3.RealVal("5/9"), dt * dt * dt * z3.RealVal(vjerk))
        names = [l for (l, c, k) in v.st.trace]
        want = ["!reb_simulation_update_acceleration"] + (["!reb_calculate_and_apply_jerk"] if vjerk else []) + ["I"]
        v.ground("sequence.v%d" % vjerk, names == want, str(names))
        v.ground("letter.v%d" % vjerk, WL.physical(v.st.trace) == [("I", Fraction(5, 9), 1)], WL.fmt(v.st.trace))
        v.prove("gravity_settings.v%d" % vjerk, z3.And(r.gravity == v.enumc("REB_GRAVITY_BASIC"), r.gravity_ignore_terms == 2))


# ====================================================================== MERCURIUS (Rein et al. 2019), encounter-free word
P.assume("MERCURIUS letters: I(c) = reb_integrator_mercurius_interaction_step (kick, body contract proved here: v_i += c dt a_i "
         "for i in [1,N)), J = jump_step, K = kepler_step (exact Kepler flow for every i in [1,N), C03), C = com_step (acts on "
         "ri_mercurius.com_pos only: commutes with everything), E = reb_mercurius_encounter_step.  Away from close encounters "
         "(encounter_N < 2) E is the identity (proved: task mercurius.encounter_step.no_encounter) and the scheme is the "
         "Wisdom-Holman map in democratic heliocentric coordinates: second order = all words over {A,B,J} through length 2")
P.not_decided += [
    "MERCURIUS with close encounters: E(dt) replaces the Kepler step of the particles in encounter by an IAS15 integration of "
    "the K + (1-L)-weighted interaction (adaptive, convergence-type); only its position in the word is recorded",
    "EOS: truncation error of the inner splitting inside the outer scheme (two-parameter error analysis of Rein 2019); the outer "
    "check takes drift_shell0 as an exact flow, the inner check is per phi1 with n = 1,2,3",
    "bodies of reb_calculate_and_apply_jerk / reb_whfast_calculate_jerk / the force loops of interaction_shell1 "
    "(identification of the jerk kick with [B,[A,B]] is an assumption here)",
    "EOS inner sub-stepping for symbolic n: the `for i<n` loop of drift_shell0 is unrolled for n = 1, 2, 3 (constant trip count), "
    "no word-level invariant for general n",
    "Taylor lemma for the lazy implementer's kick (remainder of bidegree L>=5, >=3 B): assumed, see P.assume",
    "SEI with velocity-dependent additional forces (the source comment says the scheme is then first order): kick letter assumes "
    "position-only accelerations",
    "WHFast MODIFIEDKICK / LAZY kernels combined with corrector2: no advertised order",
]

MERC_PRIMS = {"reb_integrator_mercurius_interaction_step": ("I", 1), "reb_integrator_mercurius_jump_step": ("J", 1),
              "reb_integrator_mercurius_com_step": ("C", 1), "reb_integrator_mercurius_kepler_step": ("K", 1),
              "reb_mercurius_encounter_step": ("E", 1)}
MERC_NOTES = WL.PLAIN_NOTES + ["reb_integrator_mercurius_inertial_to_dh", "reb_integrator_mercurius_dh_to_inertial",
                               "reb_mercurius_encounter_predict"]
MERC_STEP = ["reb_integrator_mercurius_part1", "F", "reb_integrator_mercurius_part2"]


def merc_sim(v, safe=1, sync=1, prims=MERC_PRIMS, recalc=0):
    cfg = {"integrator": "REB_INTEGRATOR_MERCURIUS", "ri_mercurius.safe_mode": safe, "ri_mercurius.is_synchronized": sync,
           "ri_mercurius.recalculate_coordinates_this_timestep": recalc, "ri_mercurius.recalculate_r_crit_this_timestep": 0,
           "gravity": "REB_GRAVITY_MERCURIUS", "collision": "REB_COLLISION_NONE", "ri_mercurius.mode": 0}
    r, rp, dt, N, parts = WL.make_plain_sim(v, cfg, prims=prims, notes=MERC_NOTES)
    rim = r.ri_mercurius
    rim.N_allocated_dcrit = N
    rim.N_allocated = N
    backup = v.array("struct reb_particle", N, "PB")
    rim.particles_backup = backup.ptr
    return r, rp, dt, N, parts


MERC_MAP = {"I": "B", "J": "J", "K": "A", "C": None, "E": None}


def merc_fresh(word):
    return WL.force_fresh(word, {"K", "J", "E"}, {"I"})


@P.task("mercurius.order", fn="reb_integrator_mercurius_part2", timeout=300)
def _(v):
    r, rp, dt, N, parts = merc_sim(v)
    word = W.run(v, rp, MERC_STEP)
    phys = WL.physical(word)
    v.ground("word_shape", [l for (l, c, k) in phys] == ["I", "J", "C", "K", "E", "J", "I"], WL.fmt(word))
    names = [l for (l, c, k) in word]
    v.ground("to_dh_before_first_letter", "!reb_integrator_mercurius_inertial_to_dh" in names and
             names.index("!reb_integrator_mercurius_inertial_to_dh") < names.index("I"), str(names))
    v.ground("to_inertial_after_last_letter", names[-1] == "!reb_integrator_mercurius_dh_to_inertial", str(names))
    v.ground("predict_between_kepler_and_encounter", names.index("K") < names.index("!reb_mercurius_encounter_predict") < names.index("E"), str(names))
    v.ground("forces_fresh", not merc_fresh(word), WL.fmt(word))
    ctot = sum((c for (l, c, k) in phys if l == "C"), Fraction(0))
    v.ground("com_drift_total", ctot == 1, str(ctot))
    ke = [(l, c) for (l, c, k) in phys if l in ("K", "E")]
    v.ground("encounter_step_same_interval_as_kepler", ke == [("K", ONE), ("E", ONE)], str(ke))
    v.prove("ends_synchronized", r.ri_mercurius.is_synchronized == 1)
    exps = WL.exponents_map(word, MERC_MAP)
    W.check_order(v, "order(2, 2)", exps, (2, 2), {"A": ONE, "B": ONE, "J": ONE}, letters_b="BJ")


@P.task("mercurius.interaction_step.body", fn="reb_integrator_mercurius_interaction_step")
def _(v):
    prims = {k: val for k, val in MERC_PRIMS.items() if "interaction" not in k}
    r, rp, dt, N, parts = merc_sim(v, prims=prims)
    LL = WL.LoopLetters(v, dt, N, {"P": parts})
    LL.attach("reb_integrator_mercurius_interaction_step", 0,
              lambda B: WL.kick_drift_letters(B, WL.affine_updates(B), "P", "P", "P"), lo=1)
    v.call("reb_integrator_mercurius_interaction_step", rp, dt * z3.RealVal("3/7"))
    v.ground("letter", WL.physical(v.st.trace) == [("I", Fraction(3, 7), 1)], WL.fmt(v.st.trace))


@P.task("mercurius.com_step.body", fn="reb_integrator_mercurius_com_step")
def _(v):
    prims = {k: val for k, val in MERC_PRIMS.items() if "com_step" not in k}
    r, rp, dt, N, parts = merc_sim(v, prims=prims)
    rim = r.ri_mercurius
    a = v.real("a")
    p0 = [rim.com_pos.x, rim.com_pos.y, rim.com_pos.z]
    w0 = [rim.com_vel.x, rim.com_vel.y, rim.com_vel.z]
    v.st.log = set()
    v.call("reb_integrator_mercurius_com_step", rp, a)
    log = sorted(v.st.log, key=str)
    v.st.log = None
    p1 = [rim.com_pos.x, rim.com_pos.y, rim.com_pos.z]
    for k, nm in enumerate("xyz"):
        v.prove("com_pos." + nm, p1[k] == p0[k] + a * w0[k])
    v.ground("writes_only_com_pos", all(leaf and leaf[:2] == ("ri_mercurius", "com_pos") for (oid, leaf) in log), str(log))


@P.task("mercurius.encounter_step.no_encounter", fn="reb_mercurius_encounter_step")
def _(v):
    prims = {k: val for k, val in MERC_PRIMS.items() if "encounter_step" not in k}
    r, rp, dt, N, parts = merc_sim(v, prims=prims)
    en = v.int("encounter_N")
    v.assume(en >= 0, en < 2)
    r.ri_mercurius.encounter_N = en
    v.st.log = set()
    v.call("reb_mercurius_encounter_step", rp, dt)
    log = sorted(v.st.log, key=str)
    v.st.log = None
    v.ground("identity_without_encounter", not log and not v.st.trace, "writes %s trace %s" % (log, v.st.trace))


# ====================================================================== SABA correctors (CM, CL) and WHFast kernels MODIFIEDKICK / LAZY
P.assume("jerk identification (WHFast/SABA): reb_whfast_calculate_jerk leaves j = (da/dq) a in p_jh[].a{x,y,z} (Jacobi), so a velocity "
         "kick dv = c*dt^3*j is the flow of (c/2)*dt^3*[B,[A,B]] ([B,[A,B]] = 2 (a.d/dq) a d/dp).  The body of "
         "reb_whfast_calculate_jerk is NOT under contract here; what is checked is that with this single weight 1/2 all four "
         "reb_saba_cc entries and the dt^2/12 of the MODIFIEDKICK kernel satisfy their order conditions")
P.assume("lazy implementer's kick (WHFast LAZY kernel, SABA CL correctors; Wisdom, Holman & Touma 1996 eq. 10.6): "
         "a(q + c dt^2 a(q)) = a + c dt^2 (da/dq) a + O(dt^4 a^3); the remainder has >= 3 letters B and length >= 5 and is outside "
         "every advertised bidegree (s1,4,3) / (2n,4): the lazy kick is interpreted as the modified kick with the same weights.  "
         "The Taylor lemma itself is not proved here; the structure (shift of p_j positions by c dt^2 a_jacobi for i in [1,N), force "
         "re-evaluation at the shifted positions, kick, positions restored from the copy) is proved from the loop bodies")

from contracts.C01_order import wh_cfg, saba_cfg, wh_order      # noqa: E402  (configuration builders of the base pack)

TRIPLES = {"x": ("x", "y", "z"), "v": ("vx", "vy", "vz"), "a": ("ax", "ay", "az")}
LEAF2TRIPLE = {(f,): (t, k) for t, fs in TRIPLES.items() for k, f in enumerate(fs)}


def vector_form(B, ups):
    """{(array, 'x'|'v'|'a'): {(array, 'x'|'v'|'a'): (c, k)}} if every written leaf belongs to a vector triple, the three
    components are written with the same coefficients and only from the same component of the sources; else None"""
    if ups is None:
        return None
    out = {}
    ok = True
    for (arr, leaf), srcs in ups.items():
        if leaf not in LEAF2TRIPLE:
            ok = False
            continue
        t, comp = LEAF2TRIPLE[leaf]
        form = {}
        for src, ck in srcs.items():
            if src is None or src[1] not in LEAF2TRIPLE or LEAF2TRIPLE[src[1]][1] != comp:
                ok = False
                continue
            form[(src[0], LEAF2TRIPLE[src[1]][0])] = ck
        prev = out.setdefault((arr, t), (form, {comp}))
        if prev[0] != form:
            ok = False
        prev[1].add(comp)
    ok &= all(comps == {0, 1, 2} for (_f, comps) in out.values())
    B.ground("vector_form", ok, "same update in x,y,z components: %s" % {k: val[0] for k, val in out.items()})
    return {k: val[0] for k, val in out.items()} if ok else None


def corrector_sim(v, cfg):
    r, rp, dt = W.make_sim(v, cfg)
    parts, pj = v.word_arrays
    pt = v.array("struct reb_particle", r.N, "PT")
    r.ri_whfast.p_temp = pt.ptr
    r.ri_whfast.N_allocated_tmp = r.N
    LL = WL.LoopLetters(v, dt, r.N, {"P": parts, "PJ": pj, "PT": pt})
    U, Z0 = (ONE, 0), None

    def expect(B, want, letter):
        vf = vector_form(B, WL.affine_updates(B))
        good = vf is not None and set(vf) == set(want) and all(set(vf[k]) == set(want[k]) and
                                                              all(want[k][s] is None or vf[k][s] == want[k][s] for s in want[k]) for k in want)
        B.ground("shape", good, "proved affine form %s, contract shape %s" % (vf, want))
        return vf if good else None

    def cm_scale(B):      # particles[i].a = dt^2 * jerk[i]
        vf = expect(B, {("P", "a"): {("PJ", "a"): None}}, "Q")
        return [("Q",) + vf[("P", "a")][("PJ", "a")]] if vf else [("?", None, 0)]

    def mk_add(B):        # particles[i].a += c dt^2 * jerk[i]
        vf = expect(B, {("P", "a"): {("P", "a"): U, ("PJ", "a"): None}}, "Qa")
        return [("Qa",) + vf[("P", "a")][("PJ", "a")]] if vf else [("?", None, 0)]

    def shift(B):         # p_j[i].x += c dt^2 * p_temp[i].a
        vf = expect(B, {("PJ", "x"): {("PJ", "x"): U, ("PT", "a"): None}}, "S")
        return [("S",) + vf[("PJ", "x")][("PT", "a")]] if vf else [("?", None, 0)]

    def restore(B):       # p_j[i].x = p_temp[i].x
        vf = expect(B, {("PJ", "x"): {("PT", "x"): U}}, "R")
        return [("R", None, 0)] if vf else [("?", None, 0)]

    def lazy_comm(B):     # p_j[i].v += c dt (a_new - a_old);  p_j[i].x = p_temp[i].x
        vf = expect(B, {("PJ", "v"): {("PJ", "v"): U, ("PJ", "a"): None, ("PT", "a"): None}, ("PJ", "x"): {("PT", "x"): U}}, "Lc")
        if not vf:
            return [("?", None, 0)]
        cn, co = vf[("PJ", "v")][("PJ", "a")], vf[("PJ", "v")][("PT", "a")]
        B.ground("difference_of_accelerations", cn[1] == 1 and co == (-cn[0], 1), "new %s old %s" % (cn, co))
        return [("Lc", cn[0], 1), ("R", None, 0)]
    LL.attach("reb_saba_corrector_step", 0, cm_scale, lo=0)
    LL.attach("reb_saba_corrector_step", 1, shift, lo=1)
    LL.attach("reb_saba_corrector_step", 2, lazy_comm, lo=1)
    # WHFast part2: loop 0 = MODIFIEDKICK, loops 1,2 = LAZY (anchored by structure below)
    LL.attach("reb_integrator_whfast_part2", 0, mk_add, lo=0)
    LL.attach("reb_integrator_whfast_part2", 1, shift, lo=1)
    LL.attach("reb_integrator_whfast_part2", 2, restore, lo=1)
    return r, rp, dt


JW = HALF          # weight of [B,[A,B]] per unit of the WHFast jerk (see P.assume)
T_POS = "!reb_particles_transform_jacobi_to_inertial_pos"
T_ACC = "!reb_particles_transform_inertial_to_jacobi_acc"
FORCE = "!reb_simulation_update_acceleration"
JERK = "!reb_whfast_calculate_jerk"
MEMCPY_NOTE = None


def fuse(v, word, tag):
    """Replace the corrector / kernel letter groups by single letters, checking the note sequence around them:
       [F.. JERK Q(1,dt^2) I(cc)]                       -> X(cc)            pure jerk kick  exp(cc*JW*dt^3 [B,[A,B]])
       [JERK Qa(c,dt^2) I(y)]                           -> M(y, y*c*JW)     modified kick
       [T_ACC S(c,dt^2) T_POS FORCE I(y) R]             -> M(y, y*c*JW)     lazy modified kick
       [T_POS FORCE T_ACC S(c) T_POS FORCE T_ACC Lc(g) R] -> X(g*c)         lazy pure commutator
    Returns the fused word; ground obligations `<tag>.fuse.*` record each group."""
    out = []
    i = 0
    n = len(word)
    cnt = 0
    while i < n:
        l, c, k = word[i]
        if l == "Q":
            ok = (c, k) == (ONE, 2) and i >= 1 and word[i - 1][0] == JERK and i + 1 < n and word[i + 1][0] == "I"
            pre = [w[0] for w in word[max(0, i - 3):i]]
            ok &= pre == [T_POS, FORCE, JERK]
            v.ground("%s.fuse.%d.modified_kick_corrector" % (tag, cnt), ok, WL.fmt(word[max(0, i - 3):i + 2]))
            out.append(("X", word[i + 1][1], 3) if ok else ("?", None, 0))
            i += 2
            cnt += 1
            continue
        if l == "Qa":
            ok = k == 2 and i >= 1 and word[i - 1][0] == JERK and i + 1 < n and word[i + 1][0] == "I"
            v.ground("%s.fuse.%d.modified_kick" % (tag, cnt), ok, WL.fmt(word[max(0, i - 2):i + 2]))
            y = word[i + 1][1] if ok else None
            out.append(("M", (y, y * c * JW), 0) if ok else ("?", None, 0))
            i += 2
            cnt += 1
            continue
        if l == "S":
            seq = [w[0] for w in word[i:i + 7]]
            if seq[:5] == ["S", T_POS, FORCE, "I", "R"]:
                ok = k == 2 and i >= 1 and word[i - 1][0] == T_ACC
                v.ground("%s.fuse.%d.lazy_kick" % (tag, cnt), ok, WL.fmt(word[max(0, i - 1):i + 5]))
                y = word[i + 3][1]
                out.append(("M", (y, y * c * JW), 0) if ok else ("?", None, 0))
                i += 5
            elif seq[:6] == ["S", T_POS, FORCE, T_ACC, "Lc", "R"]:
                pre = [w[0] for w in word[max(0, i - 3):i]]
                ok = k == 2 and pre == [T_POS, FORCE, T_ACC]
                v.ground("%s.fuse.%d.lazy_corrector" % (tag, cnt), ok, WL.fmt(word[max(0, i - 3):i + 6]))
                out.append(("X", word[i + 4][1] * c, 3) if ok else ("?", None, 0))
                i += 6
            else:
                v.ground("%s.fuse.%d.unrecognised_shift_group" % (tag, cnt), False, WL.fmt(word[i:i + 7]))
                out.append(("?", None, 0))
                i += 1
            cnt += 1
            continue
        out.append(word[i])
        i += 1
    v.ground("%s.fuse.no_stray_loop_letters" % tag, not any(w[0] in ("Q", "Qa", "S", "R", "Lc", "?") for w in out), WL.fmt(out))
    return out


def x_exponent(c, k):
    return WL.bab_commutator(c * JW)


CORR_MAP = {"K": "A", "I": "B", "J": None, "C": None, "M": WL.modkick_exponent(ONE), "X": x_exponent}

SABAC = {}
for _n in (1, 2, 3, 4):
    SABAC["REB_SABA_CM_%d" % _n] = (2 * _n, 4)
    SABAC["REB_SABA_CL_%d" % _n] = (2 * _n, 4)
SABA_STEP = ["reb_integrator_saba_part1", "F", "reb_integrator_saba_part2"]
WH_STEP = ["reb_integrator_whfast_part1", "F", "reb_integrator_whfast_part2"]


def sabac_task(tname, s):
    @P.task("sabac.%s" % tname[9:].lower(), fn="reb_saba_corrector_step", timeout=900)
    def _(v):
        r, rp, dt = corrector_sim(v, saba_cfg(tname))
        raw = W.run(v, rp, SABA_STEP)
        errs = [l for (l, c, k) in raw if l == "!reb_simulation_error"]
        v.ground("accepted", not errs, WL.fmt(raw))
        word = fuse(v, raw, "step")
        phys = WL.physical(word)
        xs = [w for w in phys if w[0] == "X"]
        v.ground("corrector_at_both_ends", len(xs) == 2 and phys[0][0] == "X" and phys[-1][0] == "X" and xs[0][1] == xs[1][1],
                 WL.fmt(phys))
        ctot, ktot = W.com_total(word)
        v.ground("com_drift_total", ctot == ktot, "sum C = %s, sum K = %s" % (ctot, ktot))
        core = [w for w in word if w[0] != "X"]
        v.ground("forces_fresh", not W.force_fresh(core), str(W.force_fresh(core)))
        exps = WL.exponents_map(word, CORR_MAP)
        WL.check_order_mod(v, "order%s" % (s,), exps, s, {"A": ONE, "B": ONE}, ideal_gen=z_ideal(), on_log=True)
        v.prove("gravity_jacobi_forced", r.gravity == v.enumc("REB_GRAVITY_JACOBI"))
    return _


for _tn, _s in SABAC.items():
    sabac_task(_tn, _s)


def whkernel_task(kernel, corr):
    s = wh_order(kernel, corr, 0)

    @P.task("whkernel.%s.c%d" % (kernel.lower(), corr), fn="reb_integrator_whfast_part2", timeout=900)
    def _(v):
        r, rp, dt = corrector_sim(v, wh_cfg("JACOBI", kernel, corr, 0))
        raw = W.run(v, rp, WH_STEP)
        errs = [l for (l, c, k) in raw if l == "!reb_simulation_error"]
        v.ground("accepted", not errs, WL.fmt(raw))
        word = fuse(v, raw, "step")
        ms = [w for w in WL.physical(word) if w[0] == "M"]
        v.ground("one_modified_kick", len(ms) == 1 and ms[0][1] == (ONE, Fraction(1, 24)), WL.fmt(ms))
        ctot, ktot = W.com_total(word)
        v.ground("com_drift_total", ctot == 1 and ktot == 1, "sum C = %s, sum K = %s" % (ctot, ktot))
        exps = WL.exponents_map(word, CORR_MAP)
        WL.check_order_mod(v, "order%s" % (s,), exps, s, {"A": ONE, "B": ONE}, ideal_gen=z_ideal())
    return _


for _k in ("MODIFIEDKICK", "LAZY"):
    for _c in (0, 3, 5, 7, 11, 17):
        whkernel_task(_k, _c)
