"""C04 (shared with C10): after a merger / removal JANUS must rebuild its integer state from the particle array, or the removed body comes back (mass and momentum change); see C10_janus_cache.py"""
from contracts.C10_janus_cache import make

PACKS = [make("C04", "JANUS integer state follows the particle array (shared with C10)")]
