"""C13 (shared with C15): the tree collision search must walk an up-to-date tree; see C15_tree_fresh.py"""
from contracts.C15_tree_fresh import make

PACKS = [make("C13", "collision search updates the tree before walking it (shared with C15)")]
