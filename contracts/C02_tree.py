"""C02 (tree, local node contract): reb_calculate_acceleration_for_particle_from_cell on one node.

  inner node   descends (one recursive call per non-NULL child, nothing added) iff  w^2 > theta^2 * |d|^2  with |d| the
               GEOMETRIC distance to the cell's centre of mass (softening does not enter the opening test);
               otherwise adds the softened monopole  -G m d / (|d|^2 + eps^2)^{3/2}  and does not descend.
  leaf         adds the softened pair term of the leaf's particle, except for the particle itself.
Hence with theta = 0 every node with w > 0 is opened and only leaves contribute.  The recursion over the whole tree
(structural induction) and the multipole error bound are not decided.
"""
import z3
from engine.api import Pack
from engine.csym import Contract, as_int
from engine.mem import Ptr, NULL, Opaque

P = Pack("C02", ["src/gravity.c"], "tree force: node contract")
PACKS = [P]
P.assume("doubles as reals; sqrt axiomatised per occurrence")
P.not_decided += ["tree walk as a whole (structural induction over the recursion), multipole error bound for finite opening angle"]

FN = "reb_calculate_acceleration_for_particle_from_cell"


def setup(v, leaf):
    eng = v.eng
    r, rp = v.struct_obj("struct reb_simulation", "r")
    N = v.int("N")
    parts = v.array("struct reb_particle", N, "P")
    r.particles = parts.ptr
    r.N = N
    pt = v.int("pt")
    v.assume(0 <= pt, pt < N)
    node, nodep = v.struct_obj("struct reb_treecell", "node")
    gb = v.struct("struct reb_vec6d", "gb")
    kids = []
    calls = []
    for o in range(8):
        c, cp = v.struct_obj("struct reb_treecell", "child%d" % o)
        present = z3.Bool("child%d_present" % o)
        node.oct[o] = Ptr(cp.obj, (), z3.Not(present))
        kids.append((cp, present))

    # the specified term is defined: the particle does not sit exactly on the cell's centre of mass unless softened
    v.assume((gb.x - node.mx) * (gb.x - node.mx) + (gb.y - node.my) * (gb.y - node.my) + (gb.z - node.mz) * (gb.z - node.mz)
             + r.softening * r.softening > 0)

    def rec(e, st, args, n):
        calls.append((args[2], list(st.pc)))
        st.trace = st.trace + [("descend", args[2].obj if isinstance(args[2], Ptr) else None, args[1])]
        return None
    return r, rp, parts, pt, node, nodep, gb, kids, rec


@P.task("tree.node.inner", fn=FN)
def _(v):
    r, rp, parts, pt, node, nodep, gb, kids, rec = setup(v, False)
    v.assume(as_int(node.pt) < 0)
    a0 = {c: parts.array(c) for c in ("ax", "ay", "az")}
    # first call executes the real body; recursive calls are recorded
    state = {"depth": 0}
    tu, fn = v.eng.find_function(FN)

    def contract(e, st, args, n):
        if state["depth"] == 0:
            state["depth"] = 1
            try:
                return e.exec_function(st, tu, fn, args)
            finally:
                state["depth"] = 0
        return rec(e, st, args, n)
    v.eng.contracts[FN] = Contract(FN, contract)
    v.eng.guarded_traces = False
    v.eng.call(v.st, FN, [rp, pt, nodep, v.unwrap(gb)])
    dx, dy, dz = gb.x - node.mx, gb.y - node.my, gb.z - node.mz
    d2 = dx * dx + dy * dy + dz * dz
    open_spec = node.w * node.w > r.opening_angle2 * d2
    desc = [t for t in v.st.trace if t[0] == "descend"]
    k = v.int("k")
    v.assume(0 <= k, k < r.N)
    cur = {c: parts.array(c) for c in ("ax", "ay", "az")}
    if desc:
        v.prove("descends_only_if_geometric_opening_test", open_spec)
        v.ground("one_call_per_present_child", len(desc) == len({t[1] for t in desc}), str(desc)[:200])
        for (cp, present) in kids:
            called = any(t[1] == cp.obj for t in desc)
            v.prove("child_%d.called_iff_present" % cp.obj, present if called else z3.Not(present))
        for c in ("ax", "ay", "az"):
            v.prove("opened_node_adds_nothing." + c, z3.Select(cur[c], k) == z3.Select(a0[c], k))
    else:
        some_child = z3.Or(*[p for (_c, p) in kids])
        v.prove("not_descending_implies_closed_or_childless", z3.Or(z3.Not(open_spec), z3.Not(some_child)))
        eps2 = r.softening * r.softening
        s = v.eng.uf("sqrt", z3.RealSort(), z3.RealSort())(z3.simplify(d2 + eps2))
        for c, d in (("ax", dx), ("ay", dy), ("az", dz)):
            add = z3.If(open_spec, 0, -r.G * node.m * d / (s * s * s))
            v.prove("monopole." + c, z3.Select(cur[c], pt) == z3.Select(a0[c], pt) + add)
            v.prove("others_untouched." + c, z3.Implies(k != pt, z3.Select(cur[c], k) == z3.Select(a0[c], k)))


@P.task("tree.node.leaf", fn=FN)
def _(v):
    r, rp, parts, pt, node, nodep, gb, kids, rec = setup(v, True)
    v.assume(as_int(node.pt) >= 0)
    a0 = {c: parts.array(c) for c in ("ax", "ay", "az")}
    v.eng.call(v.st, FN, [rp, pt, nodep, v.unwrap(gb)])
    dx, dy, dz = gb.x - node.mx, gb.y - node.my, gb.z - node.mz
    d2 = dx * dx + dy * dy + dz * dz
    eps2 = r.softening * r.softening
    s = v.eng.uf("sqrt", z3.RealSort(), z3.RealSort())(z3.simplify(d2 + eps2))
    cur = {c: parts.array(c) for c in ("ax", "ay", "az")}
    self_ = z3.And(as_int(node.remote) == 0, as_int(node.pt) == pt)
    k = v.int("k")
    v.assume(0 <= k, k < r.N)
    for c, d in (("ax", dx), ("ay", dy), ("az", dz)):
        v.prove("leaf_term." + c, z3.Select(cur[c], pt) == z3.Select(a0[c], pt) + z3.If(self_, 0, -r.G * node.m * d / (s * s * s)))
        v.prove("others_untouched." + c, z3.Implies(k != pt, z3.Select(cur[c], k) == z3.Select(a0[c], k)))
