"""C04: conservation laws -- the diagnostics return the mathematically defined quantities, the centre-of-mass
sub-steps move the centre of mass uniformly, IAS15's compensated summation is exact in the reals, and a merging
collision conserves the mass and momentum of the pair.

Sums over a symbolic number of particles are specified by recurrences on uninterpreted prefix-sum functions
(KIN, POT/ROW, LX.., M, SX..): `acc == S(i)` is the loop invariant, the recurrence instance S(i+1) = S(i) + term(i) is the
definition of S.  R-mode (doubles as reals), Z-mode (C ints as integers).
Pair antisymmetry of the forces (sum m a = 0) belongs to C02.
"""
import z3
from engine.api import Pack
from engine.mem import Ptr, NULL, Opaque, FuncRef, StructObj, ArrObj
from engine.csym import as_int, as_real, as_bool, const_int, simp

P = Pack("C04", ["src/tools.c"], "conservation laws")
PACKS = [P]
P.assume("machine arithmetic treated as mathematical (doubles as reals, C integers as integers); 'to rounding error' and the "
         "size of the energy error are not decided")
P.assume("simulation well-formed: 0 <= N_var <= N <= N_allocated (length of the particle block), -1 <= N_active <= N - N_var")
P.assume("prefix sums are defined by recurrences on uninterpreted functions: KIN(0)=0, KIN(i+1)=KIN(i)+m_i |v_i|^2/2; "
         "ROW(a,b)=0 for b<=a+1, ROW(a,b+1)=ROW(a,b)-G m_a m_b/D(a,b) for b>a; POT(0)=0, POT(a+1)=POT(a)+ROW(a,N_interact); "
         "D(a,b)>=0 with D(a,b)^2=|x_a-x_b|^2; LX/LY/LZ(i+1)=L*(i)+m_i (x_i x v_i)_*; M(first)=0, M(i+1)=M(i)+m_i; "
         "S_f(first)=0, S_f(i+1)=S_f(i)+m_i f_i for f in x,y,z,vx,vy,vz,ax,ay,az.  Only the instances at the loop counters are used.")
P.assume("energy: positions of interacting particles pairwise distinct (the potential is otherwise undefined)")
P.assume("centre of mass: masses non-negative (with a negative running total reb_particle_com_of_pair leaves the "
         "mass-weighted sums undivided: outside the property's domain)")

R, Z = z3.RealSort(), z3.IntSort()
XV = ("x", "y", "z", "vx", "vy", "vz")
XVA = XV + ("ax", "ay", "az")


class Sim:
    pass


def mk_sim(v, nactive=True):
    s = Sim()
    s.r, s.rp = v.struct_obj("struct reb_simulation", "r")
    s.N, s.Nalloc, s.Nvar, s.Nact = v.int("N"), v.int("N_allocated"), v.int("N_var"), v.int("N_active")
    s.parts = v.array("struct reb_particle", s.Nalloc, "P")
    r = s.r
    r.N, r.N_allocated, r.N_var, r.N_active = s.N, s.Nalloc, s.Nvar, s.Nact
    r.particles = s.parts.ptr
    v.assume(0 <= s.Nvar, s.Nvar <= s.N, s.N <= s.Nalloc, -1 <= s.Nact, s.Nact <= s.N - s.Nvar)
    s.leaves = sorted(s.parts.obj.leaf_types, key=str)
    s.old = {f: s.parts.array(*f) for f in s.leaves}
    s.a = lambda f, i: z3.Select(s.old[(f,)], i)
    return s


def cur(s):
    return {f: s.parts.array(*f) for f in s.leaves}


def lname(f):
    return ".".join(str(x) for x in f)


def prove_particles_untouched(v, s, tag="frame.particles"):
    n = cur(s)
    v.prove(tag, z3.And(*[n[f] == s.old[f] for f in s.leaves]))
    v.prove(tag + ".N", z3.And(s.r.N == s.N, s.r.N_var == s.Nvar, s.r.N_active == s.Nact))


# ============================================================================ reb_simulation_energy
for tp in (0, 1):
    @P.task("energy.testparticle_type%d" % tp, fn="reb_simulation_energy")
    def _(v, tp=tp):
        """E = sum_{i<N_interact} m_i v_i^2/2 - G sum_{i<N_active, i<j<N_interact} m_i m_j/|x_i-x_j| + energy_offset with
        N_active' = N-N_var if N_active==-1 else N_active and N_interact = N_active' (type 0) or N-N_var (type 1)."""
        s = mk_sim(v)
        r = s.r
        r.testparticle_type = z3.IntVal(tp)
        G, off = r.G, r.energy_offset
        a = s.a
        Nreal = s.N - s.Nvar
        Nact = z3.If(s.Nact == -1, Nreal, s.Nact)
        Nint = Nact if tp == 0 else Nreal
        KIN = z3.Function("KIN", Z, R)
        POT = z3.Function("POT", Z, R)
        ROW = z3.Function("ROW", Z, Z, R)
        D = z3.Function("D", Z, Z, R)
        v.assume(KIN(0) == 0, POT(0) == 0)

        def kin_term(i):
            return a("m", i) * (a("vx", i) * a("vx", i) + a("vy", i) * a("vy", i) + a("vz", i) * a("vz", i)) / 2

        def d2(i, j):
            return sum((a(f, i) - a(f, j)) * (a(f, i) - a(f, j)) for f in "xyz")

        def inv0(L):
            i = L.i
            L.st.assume(z3.Implies(i >= 0, KIN(i + 1) == KIN(i) + kin_term(i)))
            return [("range", z3.And(0 <= i, i <= Nint)), ("kinetic", L.e_kin == KIN(i)), ("potential", L.e_pot == 0)]

        def inv1(L):
            i = L.i
            L.st.assume(z3.Implies(i >= 0, z3.And(ROW(i, i + 1) == 0,
                                                   POT(i + 1) == POT(i) + z3.If(Nint > i + 1, ROW(i, Nint), 0))))
            return [("range", z3.And(0 <= i, i <= Nact)), ("potential", L.e_pot == POT(i)), ("kinetic", L.e_kin == KIN(Nint))]

        def inv2(L):
            i, j = L.i, L.j
            L.st.assume(z3.Implies(z3.And(0 <= i, i < j), z3.And(
                D(i, j) >= 0, D(i, j) * D(i, j) == d2(i, j), d2(i, j) != 0,
                ROW(i, j + 1) == ROW(i, j) - G * a("m", i) * a("m", j) / D(i, j))))
            return [("range", z3.And(i + 1 <= j, j <= z3.If(Nint > i + 1, Nint, i + 1), 0 <= i, i < Nact)),
                    ("potential", L.e_pot == POT(i) + ROW(i, j)), ("kinetic", L.e_kin == KIN(Nint))]
        v.loop("reb_simulation_energy", 0, invariant=inv0, variant=lambda L: Nint - L.i)
        v.loop("reb_simulation_energy", 1, invariant=inv1, variant=lambda L: Nact - L.i)
        v.loop("reb_simulation_energy", 2, invariant=inv2, variant=lambda L: z3.If(Nint > L.i + 1, Nint, L.i + 1) - L.j)
        e = v.call("reb_simulation_energy", s.rp)
        v.prove("value", e == KIN(Nint) + POT(Nact) + off)
        prove_particles_untouched(v, s)


# ============================================================================ reb_simulation_angular_momentum
@P.task("angular_momentum", fn="reb_simulation_angular_momentum")
def _(v):
    """L = sum_{i<N-N_var} m_i x_i x v_i."""
    s = mk_sim(v)
    a = s.a
    Nreal = s.N - s.Nvar
    LS = {c: z3.Function("L" + c.upper(), Z, R) for c in "xyz"}
    v.assume(*[LS[c](0) == 0 for c in "xyz"])

    def term(c, i):
        x, y, z_, vx, vy, vz, m = (a(f, i) for f in ("x", "y", "z", "vx", "vy", "vz", "m"))
        return {"x": m * (y * vz - z_ * vy), "y": m * (z_ * vx - x * vz), "z": m * (x * vy - y * vx)}[c]

    def inv(L):
        i = L.i
        for c in "xyz":
            L.st.assume(z3.Implies(i >= 0, LS[c](i + 1) == LS[c](i) + term(c, i)))
        acc = L["L"]
        return [("range", z3.And(0 <= i, i <= Nreal))] + [("sum." + c, v.eng._lazy_field(acc, c, L.st) == LS[c](i)) for c in "xyz"]
    v.loop("reb_simulation_angular_momentum", 0, invariant=inv, variant=lambda L: Nreal - L.i)
    out = v.call("reb_simulation_angular_momentum", s.rp)
    for c in "xyz":
        v.prove("value." + c, out[c] == LS[c](Nreal))
    prove_particles_untouched(v, s)


# ============================================================================ centre of mass
@P.task("com_of_pair", fn="reb_particle_com_of_pair")
def _(v):
    """mass-weighted mean of positions, velocities and accelerations; total mass; zero-total-mass branch."""
    p1, p2 = v.struct("struct reb_particle", "p1"), v.struct("struct reb_particle", "p2")
    pre = {f: (p1[f], p2[f]) for f in XVA}
    m1, m2 = p1.m, p2.m
    keep = {f: p1[f] for f in ("r", "last_collision", "hash")}
    out = v.call("reb_particle_com_of_pair", p1, p2)
    v.prove("mass", out.m == m1 + m2)
    for f in XVA:
        a, b = pre[f]
        v.prove("weighted." + f, z3.Implies(m1 + m2 > 0, out.m * out[f] == m1 * a + m2 * b))
        v.prove("massless." + f, z3.Implies(z3.And(m1 == 0, m2 == 0), out[f] == 0))
        v.prove("nonpositive_total_is_undivided." + f, z3.Implies(m1 + m2 <= 0, out[f] == m1 * a + m2 * b))
    v.prove("other_members_of_p1", z3.And(*[out[f] == keep[f] for f in keep]))


def com_loop(v, s, first, last):
    """invariant of the loop of reb_simulation_com_range; returns the prefix-sum functions"""
    a = s.a
    M = z3.Function("M", Z, R)
    S = {f: z3.Function("S_" + f, Z, R) for f in XVA}
    v.assume(M(first) == 0, *[S[f](first) == 0 for f in XVA])
    k = z3.Int("k_m")
    v.assume(z3.ForAll([k], z3.Implies(z3.And(0 <= k, k < s.N), z3.Select(s.old[("m",)], k) >= 0)))

    def inv(L):
        i = L.i
        L.st.assume(z3.Implies(i >= first, z3.And(M(i + 1) == M(i) + a("m", i),
                                                  *[S[f](i + 1) == S[f](i) + a("m", i) * a(f, i) for f in XVA])))
        com = L.com
        g = lambda f: v.eng._lazy_field(com, f, L.st)
        out = [("range", z3.And(first <= i, i <= z3.If(last > first, last, first))),
               ("mass", g("m") == M(i)), ("mass_nonneg", g("m") >= 0)]
        for f in XVA:
            out.append(("weighted." + f, g("m") * g(f) == S[f](i)))
            out.append(("massless." + f, z3.Implies(g("m") == 0, g(f) == 0)))
        return out
    v.loop("reb_simulation_com_range", 0, invariant=inv, variant=lambda L: z3.If(last > first, last, first) - L.i)
    return M, S


@P.task("com_range", fn="reb_simulation_com_range", z3_ms=60000)
def _(v):
    """running value = centre of mass of the prefix: m_tot = sum m_i and m_tot * f_com = sum m_i f_i for every component."""
    s = mk_sim(v)
    first, last = v.int("first"), v.int("last")
    v.assume(0 <= first, last <= s.N)
    M, S = com_loop(v, s, first, last)
    out = v.call("reb_simulation_com_range", s.rp, first, last)
    end = z3.If(last > first, last, first)
    v.prove("mass", out.m == M(end))
    for f in XVA:
        v.prove("weighted." + f, out.m * out[f] == S[f](end))
    prove_particles_untouched(v, s)


@P.task("com", fn="reb_simulation_com", z3_ms=60000)
def _(v):
    """reb_simulation_com = centre of mass of the N - N_var real particles."""
    s = mk_sim(v)
    first, last = z3.IntVal(0), s.N - s.Nvar
    M, S = com_loop(v, s, first, last)
    out = v.call("reb_simulation_com", s.rp)
    v.prove("mass", out.m == M(last))
    for f in XVA:
        v.prove("weighted." + f, out.m * out[f] == S[f](last))
    prove_particles_untouched(v, s)


# ============================================================================ centre-of-mass sub-steps
@P.task("whfast_com_step", fn="reb_whfast_com_step", files=["src/integrator_whfast.c"])
def _(v):
    """slot 0 of the Jacobi/heliocentric set is the centre of mass: x0 += dt v0 (uniform motion), nothing else changes."""
    s = mk_sim(v)
    pj = v.array("struct reb_particle", s.Nalloc, "PJ")
    s.r.ri_whfast.p_jh = pj.ptr
    v.assume(s.Nalloc >= 1)
    leaves = sorted(pj.obj.leaf_types, key=str)
    old = {f: pj.array(*f) for f in leaves}
    dt = v.real("dt")
    v.call("reb_whfast_com_step", s.rp, dt)
    new = {f: pj.array(*f) for f in leaves}
    k = v.int("k")
    for c in "xyz":
        v.prove("uniform." + c, z3.Select(new[(c,)], 0) == z3.Select(old[(c,)], 0) + dt * z3.Select(old[("v" + c,)], 0))
        v.prove("others." + c, z3.Implies(k != 0, z3.Select(new[(c,)], k) == z3.Select(old[(c,)], k)))
    for f in leaves:
        if f not in (("x",), ("y",), ("z",)):
            v.prove("frame." + lname(f), new[f] == old[f])
    prove_particles_untouched(v, s)


for integ, fn, fld, fil in (("mercurius", "reb_integrator_mercurius_com_step", "ri_mercurius", "src/integrator_mercurius.c"),
                            ("trace", "reb_integrator_trace_com_step", "ri_trace", "src/integrator_trace.c")):
    @P.task(integ + "_com_step", fn=fn, files=[fil])
    def _(v, fn=fn, fld=fld):
        """com_pos += dt * com_vel; com_vel and the particles untouched."""
        s = mk_sim(v)
        ri = s.r[fld]
        p0 = [ri.com_pos[c] for c in "xyz"]
        v0 = [ri.com_vel[c] for c in "xyz"]
        dt = v.real("dt")
        v.call(fn, s.rp, dt)
        ri = s.r[fld]
        for a, c in enumerate("xyz"):
            v.prove("uniform." + c, ri.com_pos[c] == p0[a] + dt * v0[a])
            v.prove("velocity_kept." + c, ri.com_vel[c] == v0[a])
        prove_particles_untouched(v, s)


# ============================================================================ IAS15 compensated summation
@P.task("ias15_add_cs", fn="add_cs", files=["src/integrator_ias15.c"])
def _(v):
    """in the reals: *p' = *p + inp - *csp and *csp' = 0 (the compensation term is exactly the rounding error, which is 0)."""
    p0, c0, inp = v.real("p"), v.real("cs"), v.real("inp")
    pc, pp = v.cell("double", "p_cell", p0)
    cc, cp = v.cell("double", "cs_cell", c0)
    v.call("add_cs", pp, cp, inp)
    v.prove("sum", v.st.mem.get(pc.id).value == p0 + inp - c0)
    v.prove("compensation_zero", v.st.mem.get(cc.id).value == 0)


# ============================================================================ merging collision (pair level)
from contracts import C13_collisions as C13


for tag, order in C13.ORDERS:
    @P.task("merge.mass_momentum." + tag, fn="reb_collision_resolve_merge", files=["src/collision.c"])
    def _(v, order=order):
        """mass and momentum of the pair end up in the surviving (lower-index) particle, every other particle is untouched
        and the higher index is the one reported for removal: total mass and total momentum are unchanged by a merger."""
        s = C13.mk_sim(v)
        c, p1, p2 = C13.mk_collision(v, s, order)
        s.r.track_energy_offset = 0
        C13.merge_pre(v, s, p1, p2)
        ret = v.call("reb_collision_resolve_merge", s.rp, c)
        o, n = s.old, C13.cur(s)
        lo, hi = (p1, p2) if order == "p1<p2" else (p2, p1)
        sel = C13.sel
        v.prove("mass", sel(n, "m", lo) == sel(o, "m", lo) + sel(o, "m", hi))
        for f in ("vx", "vy", "vz"):
            v.prove("momentum." + f, sel(n, "m", lo) * sel(n, f, lo) == sel(o, "m", lo) * sel(o, f, lo) + sel(o, "m", hi) * sel(o, f, hi))
        for f in ("x", "y", "z"):
            v.prove("centre_of_mass." + f, sel(n, "m", lo) * sel(n, f, lo) == sel(o, "m", lo) * sel(o, f, lo) + sel(o, "m", hi) * sel(o, f, hi))
        k = v.int("k")
        for f in ("m", "vx", "vy", "vz", "x", "y", "z"):
            v.prove("others." + f, z3.Implies(k != lo, z3.Select(n[(f,)], k) == z3.Select(o[(f,)], k)))
        v.prove("removes_higher", z3.And(ret == (2 if order == "p1<p2" else 1), hi == (p2 if order == "p1<p2" else p1)))


# ============================================================================ leapfrog sub-steps (per particle)
P.assume("leapfrog sub-steps are stated per particle; total momentum / uniform centre-of-mass motion follow by summation "
         "(drift: velocities untouched; kick: sum m dv = dt sum m a, zero by C02's antisymmetry)")


def lf_inv(v, s, dt, kick):
    k = z3.Int("k_lf")
    o = s.old
    S = lambda f, i: z3.Select(o[(f,)], i)

    def want(cur_, i):
        out = []
        for c in "xyz":
            vnew = S("v" + c, i) + dt * S("a" + c, i) if kick else S("v" + c, i)
            out.append(z3.Select(cur_[("v" + c,)], i) == vnew)
            out.append(z3.Select(cur_[(c,)], i) == S(c, i) + dt / 2 * vnew)
        return z3.And(*out)

    def inv(L):
        i = L.i
        c_ = cur(s)
        done = z3.ForAll([k], z3.Implies(z3.And(0 <= k, k < i), want(c_, k)))
        todo = z3.ForAll([k], z3.Implies(k >= i, z3.And(*[z3.Select(c_[(f,)], k) == S(f, k) for f in XV])))
        frame = z3.And(*[c_[f] == o[f] for f in s.leaves if not (len(f) == 1 and f[0] in XV)])
        return [("range", z3.And(0 <= i, i <= s.N)), ("done", done), ("todo", todo), ("frame", frame)]
    return inv, want


for part, kick in (("part1", False), ("part2", True)):
    @P.task("leapfrog_" + part, fn="reb_integrator_leapfrog_" + part, files=["src/integrator_leapfrog.c"])
    def _(v, part=part, kick=kick):
        """part1: x += dt/2 v (drift, velocities and masses untouched); part2: v += dt a then x += dt/2 v."""
        s = mk_sim(v)
        dt = s.r.dt
        t0 = s.r.t
        inv, want = lf_inv(v, s, dt, kick)
        v.loop("reb_integrator_leapfrog_" + part, 0, invariant=inv, variant=lambda L: s.N - L.i)
        v.call("reb_integrator_leapfrog_" + part, s.rp)
        j = v.int("j")
        v.assume(0 <= j, j < s.N)
        v.prove("each_particle", want(cur(s), j))
        v.prove("masses_untouched", cur(s)[("m",)] == s.old[("m",)])
        v.prove("time", s.r.t == t0 + dt / 2)


# ============================================================================ not decided
P.not_decided.append("size and non-drift of the energy error, 'to rounding error' (dynamics / floating point): not decided")
P.not_decided.append("per-integrator conservation beyond the sub-steps stated here: kicks need sum m a = 0 (C02), Kepler and jump "
                     "steps (C03/C12), synchronisation words (C09); angular-momentum conservation of kicks/drifts/Kepler steps is "
                     "not stated in this pack")
P.not_decided.append("reb_simulation_com under MPI (compiled out); reb_simulation_move_to_com / move_to_hel (belong to C12)")
