"""C09: deferred synchronisation never changes the physics -- word level.

For n >= 1 steps:  W_first . W_mid^(n-1) . W_sync  ==  W_safe^n   modulo the merge laws X(a)X(b)=X(a+b), X(0)=id,
C commuting with everything.  By induction over n it suffices to compare two finite words, both extracted from the
REAL part1/part2/synchronize functions in the respective flag states:
   base:  W_first . W_sync == W_safe          step:  W_mid . W_sync == W_sync . W_safe
plus: synchronize is idempotent, and with keep_unsynchronized it restores p_jh and leaves is_synchronized = 0.
"""
from fractions import Fraction
import z3
from engine.api import Pack
from engine import opword
from contracts import _words as W
from contracts.C01_order import wh_cfg, wh_allowed, saba_cfg, SABA, COORDS

P = Pack("C09", W.WH_FILES, "safe mode == unsafe + synchronize (operator words)")
PACKS = [P]
P.assume("merge law K(a)K(b)=K(a+b) is the group property of the exact Kepler flow (C03); for kicks it follows from frozen positions")
P.assume("to_inertial/from_inertial at step boundaries are mutually inverse (C12) so safe-mode re-derivation of Jacobi "
         "coordinates does not change the state")
P.assume("force evaluations and coordinate transforms between letters are recomputations that do not alter p_jh (frame checked in C12/C02)")
P.not_decided += ["WHFast512 (not compiled)", "accumulated rounding differences between merged and split drifts ('up to rounding error')",
                  "MERCURIUS with close encounters (adaptive encounter sub-integration); the encounter-free MERCURIUS and EOS word equivalences are in C09_sync_more"]


def norm(word):
    return W.reduce_word(W.commute_C(W.reduce_word(word)))


def fmt(word):
    return opword.fmt_word(word)[:400]


def run_cfg(v, cfg, fns, tag):
    r, rp, dt = W.make_sim(v, cfg)
    return r, rp, W.run(v, rp, fns)


def whfast_equiv(coord, kernel, corr, corr2):
    base = "whfast.%s.%s.c%d.c2_%d" % (coord.lower(), kernel.lower(), corr, corr2)
    P1, P2, SY = "reb_integrator_whfast_part1", "reb_integrator_whfast_part2", "reb_integrator_whfast_synchronize"

    @P.task(base + ".safe_vs_unsafe", fn=SY, timeout=600)
    def _(v):
        # W_safe: synchronized start, safe mode
        r, rp, dt = W.make_sim(v, wh_cfg(coord, kernel, corr, corr2, safe=1, sync=1))
        w_safe = W.run(v, rp, [P1, "F", P2])
        v.prove("safe.ends_synchronized", r.ri_whfast.is_synchronized == 1)
        v.st.trace = []
        # first unsafe step from a synchronized state
        r1, rp1, dt1 = W.make_sim(v, wh_cfg(coord, kernel, corr, corr2, safe=0, sync=1))
        w_first = W.run(v, rp1, [P1, "F", P2])
        v.prove("unsafe.first.ends_unsynchronized", r1.ri_whfast.is_synchronized == 0)
        v.st.trace = []
        w_mid = W.run(v, rp1, [P1, "F", P2])          # continues in the state left by the first step
        v.prove("unsafe.mid.ends_unsynchronized", r1.ri_whfast.is_synchronized == 0)
        v.st.trace = []
        w_sync = W.run(v, rp1, [SY])
        v.prove("sync.sets_flag", r1.ri_whfast.is_synchronized == 1)
        v.st.trace = []
        w_sync2 = W.run(v, rp1, [SY])
        v.ground("sync.idempotent", not W.physical(w_sync2), "second synchronize executes: %s" % fmt(w_sync2))
        a, b = norm(w_first + w_sync), norm(w_safe)
        v.ground("base.first_plus_sync_eq_safe", a == b, "lhs=%s | rhs=%s" % (fmt(a), fmt(b)))
        a, b = norm(w_mid + w_sync), norm(w_sync + w_safe)
        v.ground("step.mid_plus_sync_eq_sync_plus_safe", a == b, "lhs=%s | rhs=%s" % (fmt(a), fmt(b)))
        for nm, w in (("safe", w_safe), ("first", w_first), ("mid", w_mid)):
            bad = W.force_fresh(w)
            v.ground("forces_fresh." + nm, not bad, str(bad))

    @P.task(base + ".keep_unsynchronized", fn=SY, timeout=600)
    def _(v):
        cfg = wh_cfg(coord, kernel, corr, corr2, safe=0, sync=0)
        cfg["ri_whfast.keep_unsynchronized"] = 1
        r, rp, dt = W.make_sim(v, cfg)
        parts, pj = v.word_arrays
        F = ("x", "y", "z", "vx", "vy", "vz", "m", "ax", "ay", "az")
        before = {f: pj.array(f) for f in F}
        w = W.run(v, rp, ["reb_integrator_whfast_synchronize"])
        v.ground("executes_the_sync_word", bool(W.physical(w)), fmt(w))
        v.prove("flag_stays_unsynchronized", r.ri_whfast.is_synchronized == 0)
        k = v.int("k")
        v.assume(0 <= k, k < r.N)
        pj_now = r.ri_whfast.p_jh
        for f in F:
            v.prove("p_jh_restored." + f, pj.leaf(k, f) == z3.Select(before[f], k))
        # a second call computes from the same restored cache: same word
        v.st.trace = []
        w2 = W.run(v, rp, ["reb_integrator_whfast_synchronize"])
        v.ground("second_call_same_word", norm(w2) == norm(w), "%s | %s" % (fmt(w), fmt(w2)))


for coord in COORDS:
    for kernel in ("DEFAULT", "COMPOSITION"):
        for corr in (0, 3, 17):
            for corr2 in (0, 1):
                if not wh_allowed(coord, kernel, corr, corr2):
                    continue
                if corr2 and corr == 3:
                    continue
                whfast_equiv(coord, kernel, corr, corr2)


def saba_equiv(tname):
    P1, P2, SY = "reb_integrator_saba_part1", "reb_integrator_saba_part2", "reb_integrator_saba_synchronize"

    @P.task("saba.%s.safe_vs_unsafe" % tname[9:].lower(), fn=SY, timeout=600)
    def _(v):
        r, rp, dt = W.make_sim(v, saba_cfg(tname, safe=1, sync=1))
        w_safe = W.run(v, rp, [P1, "F", P2])
        v.prove("safe.ends_synchronized", r.ri_saba.is_synchronized == 1)
        v.st.trace = []
        r1, rp1, dt1 = W.make_sim(v, saba_cfg(tname, safe=0, sync=1))
        w_first = W.run(v, rp1, [P1, "F", P2])
        v.st.trace = []
        w_mid = W.run(v, rp1, [P1, "F", P2])
        v.prove("unsafe.ends_unsynchronized", r1.ri_saba.is_synchronized == 0)
        v.st.trace = []
        w_sync = W.run(v, rp1, [SY])
        v.prove("sync.sets_flag", r1.ri_saba.is_synchronized == 1)
        v.st.trace = []
        w_sync2 = W.run(v, rp1, [SY])
        v.ground("sync.idempotent", not W.physical(w_sync2), fmt(w_sync2))
        a, b = norm(w_first + w_sync), norm(w_safe)
        v.ground("base.first_plus_sync_eq_safe", a == b, "lhs=%s | rhs=%s" % (fmt(a), fmt(b)))
        a, b = norm(w_mid + w_sync), norm(w_sync + w_safe)
        v.ground("step.mid_plus_sync_eq_sync_plus_safe", a == b, "lhs=%s | rhs=%s" % (fmt(a), fmt(b)))


for tname in SABA:
    saba_equiv(tname)
