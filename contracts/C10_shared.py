"""C10 (shared lemma): JANUS reverses bit for bit only if the accelerations are a pure function of the (integer-grid)
positions: the force routine must start every evaluation from zeroed accumulators and zeroed compensation terms.  The C02
contracts for BASIC and COMPENSATED gravity contain exactly these obligations (`.zeroed`, `kahan.cs_stays_zero`, frames);
they are re-registered here so that the C10 check fails when force evaluations start to depend on their history."""
from engine.api import Pack, Task
from contracts import C02_gravity as G

P = Pack("C10", G.P.files, "force evaluation is a pure function of positions (shared with C02)")
PACKS = [P]
P.assumptions += ["shared with C02: " + a for a in G.P.assumptions]
P.trusted += G.P.trusted
for t in G.P.tasks:
    if t.name in ("basic.onebox", "compensated"):
        P.tasks.append(Task(P, "force_purity." + t.name, t.fn, t.func, files=G.P.files, timeout=t.timeout, order=t.order, z3_ms=t.z3_ms, polyid_s=t.polyid_s))

# reversibility also needs the FIRST force evaluation of a step to use the integrator's own pair filter, whatever integrator ran
# before (a stale filter makes the first stage differ from its mirror image in the backward pass)
from contracts import C02_modes as M
for t in M.P.tasks:
    P.tasks.append(Task(P, "force_purity." + t.name, t.fn, t.func, files=t.files or M.P.files, timeout=t.timeout))

# symmetric schemes reverse only if the Kepler solver is an odd function of dt, including its bisection fall-back (the hyperbolic
# bracket for dt < 0): the solver contract of C03 is re-registered
from contracts import C03_kepler as K3
for t in K3.P.tasks:
    if t.name == "kepler_solver.fg":
        P.tasks.append(Task(P, "kepler_reverses." + t.name, t.fn, t.func, files=t.files or K3.P.files, timeout=t.timeout, order=t.order, z3_ms=t.z3_ms, polyid_s=t.polyid_s))
