"""C02 (every force routine computes the specified pair sum *for the integrator that calls it*): the pair filter
r->gravity_ignore_terms (and, for the hybrid integrators, r->gravity) is part of the force specification of an integrator,
not a user setting: WHFast / SABA / EOS switch star-planet terms off because their Kepler step accounts for them.  A
simulation may change integrator at any time, so every integrator must establish its own filter in part1 instead of
inheriting the previous integrator's.

Structural contract (whole-library write summaries of engine/frames.py, computed from the real sources): the transitive
write set of every reb_integrator_<X>_part1 reachable from the dispatcher reb_integrator_part1 contains
`gravity_ignore_terms`, unless every value the integrator's part1/part2 closure assigns to r->gravity names a force routine
that does not read the filter (MERCURIUS, TRACE, JACOBI, NONE).  (Found as a genuine defect by a native probe: BS did not -- WHFast, then BS: relative
energy error 1.4; repaired by a fix: commit.)  Path sensitivity (assigned on every path) is not decided by this task."""
from engine.api import Pack
from engine import frames

P = Pack("C02", ["src/integrator.c"], "every integrator establishes its own pair filter")
PACKS = [P]
P.not_decided += ["pair-filter task: that the filter is assigned on EVERY path through part1 (only 'assigned somewhere in the "
                  "transitive closure of part1' is decided), and that its value is the one the integrator's splitting needs "
                  "(the values enter the C02 force contracts as the symbolic gravity_ignore_terms)"]


@P.task("pair_filter.every_part1_establishes_it")
def _(v):
    L = frames.Lib()
    disp = L.function("reb_integrator_part1")
    v.ground("dispatcher_found", disp is not None, "")
    if disp is None:
        return
    tu, fn = disp
    callees = sorted({frames.callee_name(n) for n in frames.walk(fn) if n.get("kind") == "CallExpr"} - {None})
    part1s = [c for c in callees if c.startswith("reb_integrator_") and c.endswith("_part1")]
    v.ground("dispatcher_calls_part1_functions", len(part1s) >= 10, str(part1s))
    part2s = [c[:-1] + "2" for c in part1s]
    S = frames.Summaries(L)
    S.compute(part1s + part2s)
    OWN = {"REB_GRAVITY_MERCURIUS", "REB_GRAVITY_TRACE", "REB_GRAVITY_JACOBI", "REB_GRAVITY_NONE"}   # routines that do not read the filter

    def gravity_values(names, own_file):
        """enumerators assigned to a member called `gravity` in those of the named functions that are defined in the
        integrator's own source file (reb_calculate_acceleration's fall-back `gravity = BASIC` when no tree exists is not
        the integrator's choice)"""
        out = set()
        for nm in names:
            got = L.function(nm)
            if got is None or got[0].path != own_file:
                continue
            for n in frames.walk(got[1]):
                if n.get("kind") == "BinaryOperator" and n.get("opcode") == "=":
                    lhs, rhs = frames.strip_casts(n["inner"][0]), frames.strip_casts(n["inner"][1])
                    if lhs.get("kind") == "MemberExpr" and lhs.get("name") == "gravity":
                        out.add((rhs.get("referencedDecl") or {}).get("name") or frames.expr_text(rhs))
        return out
    for f, f2 in zip(part1s, part2s):
        s, s2 = S.sum.get(f), S.sum.get(f2)
        v.ground("%s.analysed" % f, s is not None and s2 is not None, "")
        if s is None or s2 is None:
            continue
        tops = {p.split(".")[0] for p in s.param_paths(0)}
        if tops <= {"messages", "status"}:
            # stub of an integrator that is not compiled in (WHFast512 without AVX512: raises an error and returns)
            v.ground("%s.is_error_stub_without_force_evaluation" % f, "reb_simulation_update_acceleration" not in s.calls, str(sorted(s.calls))[:300])
            continue
        own_file = L.function(f)[0].path
        gv = gravity_values({f, f2} | set(s.calls) | set(s2.calls), own_file)
        # reb_simulation_step evaluates the forces between part1 and part2 with the generic routine unless part1 switched
        # it off (gravity = NONE, as EOS does); only then is it enough to set the filter later, before the integrator's own
        # force calls in part2
        if "REB_GRAVITY_NONE" in gravity_values({f} | set(s.calls), own_file):
            tops |= {p.split(".")[0] for p in s2.param_paths(0)} & {"gravity_ignore_terms"}
        owns = bool(gv) and gv <= OWN
        # an integrator whose steps only ever run its own force routine (one that does not read the filter) is exempt; every
        # other integrator -- including one that switches to REB_GRAVITY_BASIC for a sub-integration -- must set the filter
        v.ground("%s.assigns_gravity_ignore_terms_unless_it_only_uses_its_own_force_routine" % f,
                 "gravity_ignore_terms" in tops or "" in tops or owns,
                 "members written by part1 (transitively; plus the filter if part2 writes it): %s; values assigned to r->gravity during part1/part2: %s" % (sorted(tops)[:30], sorted(gv)))
