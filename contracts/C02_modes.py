"""C02 (every force routine computes the specified pair sum *for the integrator that calls it*): the pair filter
r->gravity_ignore_terms (and, for the hybrid integrators, r->gravity) is part of the force specification of an integrator,
not a user setting: WHFast / SABA / EOS switch star-planet terms off because their Kepler step accounts for them.  A
simulation may change integrator at any time, so every integrator must establish its own filter in part1 instead of
inheriting the previous integrator's.

Structural contract (whole-library write summaries of engine/frames.py, computed from the real sources): the transitive
write set of every reb_integrator_<X>_part1 reachable from the dispatcher reb_integrator_part1 contains
`gravity_ignore_terms` or `gravity`.  (Found as a genuine defect by a native probe: BS did not -- WHFast, then BS: relative
energy error 1.4; repaired by a fix: commit.)  Path sensitivity (assigned on every path) is not decided by this task."""
from engine.api import Pack
from engine import frames

P = Pack("C02", ["src/integrator.c"], "every integrator establishes its own pair filter")
PACKS = [P]
P.not_decided += ["pair-filter task: that the filter is assigned on EVERY path through part1 (only 'assigned somewhere in the "
                  "transitive closure of part1' is decided), and that its value is the one the integrator's splitting needs "
                  "(the values enter the C02 force contracts as the symbolic gravity_ignore_terms)"]


@P.task("pair_filter.every_part1_establishes_it")
def _(v):
    L = frames.Lib()
    disp = L.function("reb_integrator_part1")
    v.ground("dispatcher_found", disp is not None, "")
    if disp is None:
        return
    tu, fn = disp
    callees = sorted({frames.callee_name(n) for n in frames.walk(fn) if n.get("kind") == "CallExpr"} - {None})
    part1s = [c for c in callees if c.startswith("reb_integrator_") and c.endswith("_part1")]
    v.ground("dispatcher_calls_part1_functions", len(part1s) >= 10, str(part1s))
    S = frames.Summaries(L)
    S.compute(part1s)
    for f in part1s:
        s = S.sum.get(f)
        v.ground("%s.analysed" % f, s is not None, "")
        if s is None:
            continue
        tops = {p.split(".")[0] for p in s.param_paths(0)}
        if tops <= {"messages", "status"}:
            # stub of an integrator that is not compiled in (WHFast512 without AVX512: raises an error and returns)
            v.ground("%s.is_error_stub_without_force_evaluation" % f, "reb_simulation_update_acceleration" not in s.calls, str(sorted(s.calls))[:300])
            continue
        v.ground("%s.assigns_gravity_ignore_terms_or_gravity" % f, bool(tops & {"gravity_ignore_terms", "gravity", ""}),
                 "members of the simulation written (transitively): %s" % sorted(tops)[:40])
