"""C09: with keep_unsynchronized = 1 a synchronisation is an OUTPUT operation: it produces synchronised inertial particles but
must leave the integrator's own state -- the cached coordinates p_jh of EVERY particle the Kepler / COM / corrector steps touch,
real and variational -- exactly as it was, so that later steps do not depend on whether an output was taken.

Contract on the real reb_integrator_whfast_synchronize (memory level: malloc / memcpy / free through the heap model; the Kepler,
COM, corrector and transformation primitives havoc p_jh and the particles), for symbolic N, N_var, any kernel / coordinates:
    keep_unsynchronized == 1 and is_synchronized == 0  ==>  p_jh'[k] == p_jh[k] for every 0 <= k < N (all leaves),
    is_synchronized' == 0, and the scratch copy is freed."""
import z3
from engine.api import Pack, Task
from engine.csym import as_int
from engine.mem import Ptr

FILES = ["src/integrator_whfast.c"]
FN = "reb_integrator_whfast_synchronize"
P = Pack("C09", FILES, "keep_unsynchronized: synchronize restores the cached coordinates of all particles")
PACKS = [P]
P.assume("keep/restore task: reb_integrator_whfast_init returns 0 without touching p_jh (N_allocated == N: task "
         "whfast_init.cache_follows_N); the Kepler / COM / corrector / transformation primitives write p_jh and particles only")


@P.task("whfast.synchronize.keep_unsynchronized_restores_every_cached_particle", fn=FN)
def _(v):
    eng = v.eng
    r, rp = v.struct_obj("struct reb_simulation", "r")
    N, Nv = v.int("N"), v.int("N_var")
    v.assume(N >= 1, Nv >= 0, Nv < N)
    r.N, r.N_var, r.N_var_config = N, Nv, 0
    r.N_active = v.int("N_active")
    r.testparticle_type = v.int("testparticle_type")
    parts = v.array("struct reb_particle", N, "P")
    r.particles = parts.ptr
    pj = v.array("struct reb_particle", N, "PJ")
    w = lambda f, val: eng.write(v.st, Ptr(rp.obj, ("ri_whfast", f)), val)
    w("p_jh", pj.ptr)
    w("keep_unsynchronized", z3.IntVal(1))
    w("is_synchronized", z3.IntVal(0))
    w("N_allocated", N)
    w("kernel", v.int("kernel"))
    w("coordinates", v.int("coordinates"))
    w("corrector", v.int("corrector"))
    w("corrector2", v.int("corrector2"))
    kern = as_int(eng.read(v.st, Ptr(rp.obj, ("ri_whfast", "kernel"))))
    v.assume(z3.And(kern >= 0, kern <= 3))
    coords = as_int(eng.read(v.st, Ptr(rp.obj, ("ri_whfast", "coordinates"))))
    v.assume(z3.And(coords >= 0, coords <= 3))
    before = {leaf: pj.array(*leaf) for leaf in sorted(pj.obj.leaf_types, key=str)}
    v.contract("reb_integrator_whfast_init", lambda e, st, args, n: z3.IntVal(0))

    def prim(e, st, args, n):
        e.havoc(st, {(pj.obj.id, None), (parts.obj.id, None)}, "prim")
        return None
    for nm in ("reb_whfast_kepler_step", "reb_whfast_com_step", "reb_whfast_apply_corrector", "reb_whfast_apply_corrector2",
               "reb_particles_transform_jacobi_to_inertial_posvel", "reb_particles_transform_democraticheliocentric_to_inertial_posvel",
               "reb_particles_transform_whds_to_inertial_posvel", "reb_particles_transform_barycentric_to_inertial_posvel"):
        v.contract(nm, prim)
    eng.havoc_calls |= {"reb_simulation_error"}
    v.call(FN, rp)
    k = v.int("k")
    v.assume(0 <= k, k < N)
    arr = v.st.mem.get(pj.obj.id)
    for leaf, a0 in before.items():
        now = eng._leaf_array(arr, leaf)
        v.prove("cached_particle_restored.%s" % ".".join(map(str, leaf)), z3.Select(now, k) == z3.Select(a0, k))
    v.prove("stays_unsynchronised", as_int(eng.read(v.st, Ptr(rp.obj, ("ri_whfast", "is_synchronized")))) == 0)
    p_now = eng.read(v.st, Ptr(rp.obj, ("ri_whfast", "p_jh")))
    v.ground("cache_pointer_unchanged", isinstance(p_now, Ptr) and p_now.obj == pj.obj.id, str(p_now))


SABA_FILES = ["src/integrator_saba.c"]


def saba_task(v, saba_type):
    """same contract for reb_integrator_saba_synchronize (SABA shares ri_whfast.p_jh); one task per scheme type (the
    coefficient tables are indexed by the type)"""
    eng = v.eng
    r, rp = v.struct_obj("struct reb_simulation", "r")
    N = v.int("N")
    v.assume(N >= 1)
    r.N, r.N_var, r.N_var_config = N, 0, 0
    parts = v.array("struct reb_particle", N, "P")
    r.particles = parts.ptr
    pj = v.array("struct reb_particle", N, "PJ")
    eng.write(v.st, Ptr(rp.obj, ("ri_whfast", "p_jh")), pj.ptr)
    eng.write(v.st, Ptr(rp.obj, ("ri_saba", "keep_unsynchronized")), z3.IntVal(1))
    eng.write(v.st, Ptr(rp.obj, ("ri_saba", "is_synchronized")), z3.IntVal(0))
    eng.write(v.st, Ptr(rp.obj, ("ri_saba", "type")), z3.IntVal(saba_type))
    before = {leaf: pj.array(*leaf) for leaf in sorted(pj.obj.leaf_types, key=str)}

    def prim(e, st, args, n):
        e.havoc(st, {(pj.obj.id, None), (parts.obj.id, None)}, "prim")
        return None
    for nm in ("reb_whfast_kepler_step", "reb_whfast_com_step", "reb_saba_corrector_step", "reb_particles_transform_jacobi_to_inertial_posvel"):
        v.contract(nm, prim)
    eng.const_globals = {"reb_saba_c", "reb_saba_d", "reb_saba_cc"}
    v.call("reb_integrator_saba_synchronize", rp)
    k = v.int("k")
    v.assume(0 <= k, k < N)
    arr = v.st.mem.get(pj.obj.id)
    for leaf, a0 in before.items():
        v.prove("cached_particle_restored.%s" % ".".join(map(str, leaf)), z3.Select(eng._leaf_array(arr, leaf), k) == z3.Select(a0, k))
    v.prove("stays_unsynchronised", as_int(eng.read(v.st, Ptr(rp.obj, ("ri_saba", "is_synchronized")))) == 0)


for _t in (0, 1, 2, 3, 4, 5, 6, 7, 8, 9, 0x100, 0x101, 0x102, 0x103, 0x200, 0x201, 0x202, 0x203):
    P.tasks.append(Task(P, "saba.type_0x%x.synchronize.keep_unsynchronized_restores_every_cached_particle" % _t,
                        "reb_integrator_saba_synchronize", (lambda v, _t=_t: saba_task(v, _t)), files=SABA_FILES))


# =====================================================================================================
# WHFast part2 with variational particles: part2 always synchronises (MEGNO needs x, v, a at the same time) and, with
# keep_unsynchronized = 1, afterwards puts the cached coordinates back to the unsynchronised state.  The centre of mass of each
# set of variational particles is advanced by part1 (first half) and by this block of part2 (second half) -- outside the
# Kepler / COM primitives -- so the second half must survive the restore; everything else in p_jh must be exactly the state
# after the kernel.  (Found as a genuine defect: the restore also undid the second half, the variational particles lagged by
# dt/2 * v_com per step; repaired by a fix: commit.)
# =====================================================================================================
PART2 = "reb_integrator_whfast_part2"


def part2_var_task(v):
    from engine.mem import StructObj, ArrObj
    eng = v.eng
    r, rp = v.struct_obj("struct reb_simulation", "r")
    N, Nv, vidx = v.int("N"), v.int("N_var"), v.int("var_index")
    v.assume(N >= 3, Nv >= 1, vidx == N - Nv, vidx >= 2)
    r.N, r.N_var, r.N_var_config = N, Nv, 1
    r.N_active = z3.IntVal(-1)
    r.testparticle_type = z3.IntVal(0)
    r.calculate_megno = z3.IntVal(0)
    dt, t0 = v.real("dt"), v.real("t")
    r.dt, r.t = dt, t0
    t = eng.ctype("struct reb_variational_configuration")
    vc = StructObj(t, {})
    vc.fields.update(order=z3.IntVal(1), index=vidx, testparticle=z3.IntVal(-1), index_1st_order_a=z3.IntVal(0),
                     index_1st_order_b=z3.IntVal(0), lrescale=z3.RealVal(0))
    arr = ArrObj(t, 1, "list", "VC")
    arr.items = [vc]
    v.st.mem.add(arr)
    r.var_config = Ptr(arr.id, (z3.IntVal(0),), False)
    parts = v.array("struct reb_particle", N, "P")
    r.particles = parts.ptr
    pj = v.array("struct reb_particle", N, "PJ")
    w = lambda f, val: eng.write(v.st, Ptr(rp.obj, ("ri_whfast", f)), val)
    w("p_jh", pj.ptr)
    w("keep_unsynchronized", z3.IntVal(1))
    w("safe_mode", z3.IntVal(0))
    w("is_synchronized", z3.IntVal(0))
    w("N_allocated", N)
    w("kernel", z3.IntVal(0))            # variational particles require the default kernel and Jacobi coordinates (checked by init)
    w("coordinates", z3.IntVal(0))
    w("corrector", z3.IntVal(0))
    w("corrector2", z3.IntVal(0))
    S = {}
    leaves = sorted(pj.obj.leaf_types, key=str)

    def kernel_prim(e, st, args, n):
        e.havoc(st, {(pj.obj.id, None)}, "kernel")
        a = st.mem.get(pj.obj.id)
        S["after_kernel"] = {leaf: e._leaf_array(a, leaf) for leaf in leaves}
        return None
    for nm in ("reb_whfast_interaction_step", "reb_whfast_jump_step"):
        v.contract(nm, kernel_prim)

    def transform(e, st, args, n):
        e.havoc(st, {(parts.obj.id, None)}, "transform")       # frame of the transformations: C12
        return None
    v.contract("reb_particles_transform_jacobi_to_inertial_posvel", transform)

    def synchronize(e, st, args, n):
        # contract of reb_integrator_whfast_synchronize (task whfast.synchronize.* above and C09_sync): writes p_jh and particles;
        # keep_unsynchronized != 0: p_jh restored, flag kept; == 0: is_synchronized := 1
        keep = as_int(e.read(st, Ptr(rp.obj, ("ri_whfast", "keep_unsynchronized"))))
        e.havoc(st, {(parts.obj.id, None)}, "sync")
        if e.decide(st, keep == 0):
            e.havoc(st, {(pj.obj.id, None)}, "sync")
            e.write(st, Ptr(rp.obj, ("ri_whfast", "is_synchronized")), z3.IntVal(1))
        return None
    v.contract("reb_integrator_whfast_synchronize", synchronize)
    eng.havoc_calls |= {"reb_simulation_error"}
    v.call(PART2, rp)
    v.ground("kernel_reached", "after_kernel" in S, "")
    if "after_kernel" not in S:
        return
    k = v.int("k")
    v.assume(0 <= k, k < N)
    a = v.st.mem.get(pj.obj.id)
    A = S["after_kernel"]
    half = dt / 2
    for leaf in leaves:
        now = z3.Select(eng._leaf_array(a, leaf), k)
        was = z3.Select(A[leaf], k)
        name = ".".join(map(str, leaf))
        if leaf in (("x",), ("y",), ("z",)):
            vel = z3.Select(A[("v" + leaf[0],)], k)
            v.prove("cached.%s.is_state_after_kernel_with_variational_com_at_end_of_step" % name,
                    now == z3.If(k == vidx, was + half * vel, was))
        else:
            v.prove("cached.%s.is_state_after_kernel" % name, now == was)
    v.prove("stays_unsynchronised", as_int(eng.read(v.st, Ptr(rp.obj, ("ri_whfast", "is_synchronized")))) == 0)
    v.prove("keep_flag_restored", as_int(eng.read(v.st, Ptr(rp.obj, ("ri_whfast", "keep_unsynchronized")))) == 1)
    v.prove("time_advanced_by_half_a_step", r.t == t0 + half)


P.tasks.append(Task(P, "whfast.part2.variational.keep_unsynchronized_state_is_the_state_after_the_kernel", PART2, part2_var_task, files=FILES))
