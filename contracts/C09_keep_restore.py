"""C09: with keep_unsynchronized = 1 a synchronisation is an OUTPUT operation: it produces synchronised inertial particles but
must leave the integrator's own state -- the cached coordinates p_jh of EVERY particle the Kepler / COM / corrector steps touch,
real and variational -- exactly as it was, so that later steps do not depend on whether an output was taken.

Contract on the real reb_integrator_whfast_synchronize (memory level: malloc / memcpy / free through the heap model; the Kepler,
COM, corrector and transformation primitives havoc p_jh and the particles), for symbolic N, N_var, any kernel / coordinates:
    keep_unsynchronized == 1 and is_synchronized == 0  ==>  p_jh'[k] == p_jh[k] for every 0 <= k < N (all leaves),
    is_synchronized' == 0, and the scratch copy is freed."""
import z3
from engine.api import Pack, Task
from engine.csym import as_int
from engine.mem import Ptr

FILES = ["src/integrator_whfast.c"]
FN = "reb_integrator_whfast_synchronize"
P = Pack("C09", FILES, "keep_unsynchronized: synchronize restores the cached coordinates of all particles")
PACKS = [P]
P.assume("keep/restore task: reb_integrator_whfast_init returns 0 without touching p_jh (N_allocated == N: task "
         "whfast_init.cache_follows_N); the Kepler / COM / corrector / transformation primitives write p_jh and particles only")


@P.task("whfast.synchronize.keep_unsynchronized_restores_every_cached_particle", fn=FN)
def _(v):
    eng = v.eng
    r, rp = v.struct_obj("struct reb_simulation", "r")
    N, Nv = v.int("N"), v.int("N_var")
    v.assume(N >= 1, Nv >= 0, Nv < N)
    r.N, r.N_var, r.N_var_config = N, Nv, 0
    r.N_active = v.int("N_active")
    r.testparticle_type = v.int("testparticle_type")
    parts = v.array("struct reb_particle", N, "P")
    r.particles = parts.ptr
    pj = v.array("struct reb_particle", N, "PJ")
    w = lambda f, val: eng.write(v.st, Ptr(rp.obj, ("ri_whfast", f)), val)
    w("p_jh", pj.ptr)
    w("keep_unsynchronized", z3.IntVal(1))
    w("is_synchronized", z3.IntVal(0))
    w("N_allocated", N)
    w("kernel", v.int("kernel"))
    w("coordinates", v.int("coordinates"))
    w("corrector", v.int("corrector"))
    w("corrector2", v.int("corrector2"))
    kern = as_int(eng.read(v.st, Ptr(rp.obj, ("ri_whfast", "kernel"))))
    v.assume(z3.And(kern >= 0, kern <= 3))
    coords = as_int(eng.read(v.st, Ptr(rp.obj, ("ri_whfast", "coordinates"))))
    v.assume(z3.And(coords >= 0, coords <= 3))
    before = {leaf: pj.array(*leaf) for leaf in sorted(pj.obj.leaf_types, key=str)}
    v.contract("reb_integrator_whfast_init", lambda e, st, args, n: z3.IntVal(0))

    def prim(e, st, args, n):
        e.havoc(st, {(pj.obj.id, None), (parts.obj.id, None)}, "prim")
        return None
    for nm in ("reb_whfast_kepler_step", "reb_whfast_com_step", "reb_whfast_apply_corrector", "reb_whfast_apply_corrector2",
               "reb_particles_transform_jacobi_to_inertial_posvel", "reb_particles_transform_democraticheliocentric_to_inertial_posvel",
               "reb_particles_transform_whds_to_inertial_posvel", "reb_particles_transform_barycentric_to_inertial_posvel"):
        v.contract(nm, prim)
    eng.havoc_calls |= {"reb_simulation_error"}
    v.call(FN, rp)
    k = v.int("k")
    v.assume(0 <= k, k < N)
    arr = v.st.mem.get(pj.obj.id)
    for leaf, a0 in before.items():
        now = eng._leaf_array(arr, leaf)
        v.prove("cached_particle_restored.%s" % ".".join(map(str, leaf)), z3.Select(now, k) == z3.Select(a0, k))
    v.prove("stays_unsynchronised", as_int(eng.read(v.st, Ptr(rp.obj, ("ri_whfast", "is_synchronized")))) == 0)
    p_now = eng.read(v.st, Ptr(rp.obj, ("ri_whfast", "p_jh")))
    v.ground("cache_pointer_unchanged", isinstance(p_now, Ptr) and p_now.obj == pj.obj.id, str(p_now))


SABA_FILES = ["src/integrator_saba.c"]


def saba_task(v, saba_type):
    """same contract for reb_integrator_saba_synchronize (SABA shares ri_whfast.p_jh); one task per scheme type (the
    coefficient tables are indexed by the type)"""
    eng = v.eng
    r, rp = v.struct_obj("struct reb_simulation", "r")
    N = v.int("N")
    v.assume(N >= 1)
    r.N, r.N_var, r.N_var_config = N, 0, 0
    parts = v.array("struct reb_particle", N, "P")
    r.particles = parts.ptr
    pj = v.array("struct reb_particle", N, "PJ")
    eng.write(v.st, Ptr(rp.obj, ("ri_whfast", "p_jh")), pj.ptr)
    eng.write(v.st, Ptr(rp.obj, ("ri_saba", "keep_unsynchronized")), z3.IntVal(1))
    eng.write(v.st, Ptr(rp.obj, ("ri_saba", "is_synchronized")), z3.IntVal(0))
    eng.write(v.st, Ptr(rp.obj, ("ri_saba", "type")), z3.IntVal(saba_type))
    before = {leaf: pj.array(*leaf) for leaf in sorted(pj.obj.leaf_types, key=str)}

    def prim(e, st, args, n):
        e.havoc(st, {(pj.obj.id, None), (parts.obj.id, None)}, "prim")
        return None
    for nm in ("reb_whfast_kepler_step", "reb_whfast_com_step", "reb_saba_corrector_step", "reb_particles_transform_jacobi_to_inertial_posvel"):
        v.contract(nm, prim)
    eng.const_globals = {"reb_saba_c", "reb_saba_d", "reb_saba_cc"}
    v.call("reb_integrator_saba_synchronize", rp)
    k = v.int("k")
    v.assume(0 <= k, k < N)
    arr = v.st.mem.get(pj.obj.id)
    for leaf, a0 in before.items():
        v.prove("cached_particle_restored.%s" % ".".join(map(str, leaf)), z3.Select(eng._leaf_array(arr, leaf), k) == z3.Select(a0, k))
    v.prove("stays_unsynchronised", as_int(eng.read(v.st, Ptr(rp.obj, ("ri_saba", "is_synchronized")))) == 0)


for _t in (0, 1, 2, 3, 4, 5, 6, 7, 8, 9, 0x100, 0x101, 0x102, 0x103, 0x200, 0x201, 0x202, 0x203):
    P.tasks.append(Task(P, "saba.type_0x%x.synchronize.keep_unsynchronized_restores_every_cached_particle" % _t,
                        "reb_integrator_saba_synchronize", (lambda v, _t=_t: saba_task(v, _t)), files=SABA_FILES))
