"""C20 (rotations part): quaternion algebra and constructors of src/rotations.c.

Postconditions are taken from the property statement: rotations preserve lengths and relative
geometry (dot products), compose and invert as rotations must, constructors return unit quaternions
that map as specified, including degenerate constructions.  R-mode (doubles as reals).
"""
import z3
from engine.api import Pack, SV
from engine.csym import as_real

P = Pack("C20", ["src/rotations.c"], "rotations")
PACKS = [P]
P.assume("machine arithmetic treated as mathematical (doubles as reals); 'to rounding error' not decided")
P.assume("sqrt/sin/cos/acos/atan2 axiomatised per occurrence: sqrt(x)^2=x & sqrt(x)>=0 for x>=0; sin^2+cos^2=1; "
         "acos(x) in [0,pi] with cos(acos x)=x; atan2(y,x): rho*cos=x, rho*sin=y, rho>=0")
P.assume("reb_rotation_init_from_to antiparallel branch: IEEE semantics 0*(1/0)=NaN and !isnormal(NaN) modelled by a "
         "contract on reb_vec3d_normalize(zero vector) and isnormal(.)=false in that task only")


def n2(q):
    return q.r * q.r + q.ix * q.ix + q.iy * q.iy + q.iz * q.iz


def v2(v):
    return v.x * v.x + v.y * v.y + v.z * v.z


def dot(a, b):
    return a.x * b.x + a.y * b.y + a.z * b.z


def qmul(p, q):
    return (p.r * q.r - p.ix * q.ix - p.iy * q.iy - p.iz * q.iz,
            p.r * q.ix + p.ix * q.r + p.iy * q.iz - p.iz * q.iy,
            p.r * q.iy - p.ix * q.iz + p.iy * q.r + p.iz * q.ix,
            p.r * q.iz + p.ix * q.iy - p.iy * q.ix + p.iz * q.r)


def rot_spec(v, q):
    """q v q* for a quaternion q (spec, written from the definition of quaternion rotation)."""
    # q*(0,v)
    a = -q.ix * v.x - q.iy * v.y - q.iz * v.z
    bx = q.r * v.x + q.iy * v.z - q.iz * v.y
    by = q.r * v.y + q.iz * v.x - q.ix * v.z
    bz = q.r * v.z + q.ix * v.y - q.iy * v.x
    # (a,b)*conj(q)
    x = -a * q.ix + bx * q.r - by * q.iz + bz * q.iy
    y = -a * q.iy + by * q.r - bz * q.ix + bx * q.iz
    z = -a * q.iz + bz * q.r - bx * q.iy + by * q.ix
    return x, y, z


@P.task("reb_rotation_mul.hamilton", fn="reb_rotation_mul")
def _(v):
    p, q = v.struct("struct reb_rotation", "p"), v.struct("struct reb_rotation", "q")
    r = v.call("reb_rotation_mul", p, q)
    s = qmul(p, q)
    for nm, got, want in zip(("r", "ix", "iy", "iz"), (r.r, r.ix, r.iy, r.iz), s):
        v.prove(nm, got == want)
    v.prove("norm_multiplicative", n2(r) == n2(p) * n2(q))


@P.task("reb_rotation_mul.associative", fn="reb_rotation_mul")
def _(v):
    p, q, s = [v.struct("struct reb_rotation", n) for n in "pqs"]
    a = v.call("reb_rotation_mul", v.call("reb_rotation_mul", p, q), s)
    b = v.call("reb_rotation_mul", p, v.call("reb_rotation_mul", q, s))
    for f in ("r", "ix", "iy", "iz"):
        v.prove(f, a[f] == b[f])


@P.task("reb_vec3d_rotate.is_conjugation", fn="reb_vec3d_irotate")
def _(v):
    q = v.struct("struct reb_rotation", "q")
    x = v.struct("struct reb_vec3d", "v")
    v.assume(n2(q) == 1)
    w = v.call("reb_vec3d_rotate", x, q)
    sx, sy, sz = rot_spec(x, q)
    v.prove("x", w.x == sx)
    v.prove("y", w.y == sy)
    v.prove("z", w.z == sz)


@P.task("reb_vec3d_rotate.isometry", fn="reb_vec3d_irotate")
def _(v):
    q = v.struct("struct reb_rotation", "q")
    a = v.struct("struct reb_vec3d", "a")
    b = v.struct("struct reb_vec3d", "b")
    v.assume(n2(q) == 1)
    ra = v.call("reb_vec3d_rotate", a, q)
    rb = v.call("reb_vec3d_rotate", b, q)
    v.prove("length", v2(ra) == v2(a))
    v.prove("dot", dot(ra, rb) == dot(a, b))
    # relative geometry: distances between rotated points
    d = (ra.x - rb.x) ** 2 + (ra.y - rb.y) ** 2 + (ra.z - rb.z) ** 2
    d0 = (a.x - b.x) ** 2 + (a.y - b.y) ** 2 + (a.z - b.z) ** 2
    v.prove("distance", d == d0)
    # orientation: cross product is rotated along (no reflection)
    c = v.call("reb_vec3d_cross", a, b)
    rc = v.call("reb_vec3d_rotate", c, q)
    c2 = v.call("reb_vec3d_cross", ra, rb)
    for f in "xyz":
        v.prove("cross." + f, rc[f] == c2[f])


@P.task("reb_vec3d_rotate.composition", fn="reb_rotation_mul")
def _(v):
    p, q = v.struct("struct reb_rotation", "p"), v.struct("struct reb_rotation", "q")
    x = v.struct("struct reb_vec3d", "v")
    v.assume(n2(q) == 1, n2(p) == 1)
    a = v.call("reb_vec3d_rotate", v.call("reb_vec3d_rotate", x, q), p)
    b = v.call("reb_vec3d_rotate", x, v.call("reb_rotation_mul", p, q))
    for f in "xyz":
        v.prove(f, a[f] == b[f])


@P.task("reb_rotation_inverse.inverts", fn="reb_rotation_inverse")
def _(v):
    q = v.struct("struct reb_rotation", "q")
    x = v.struct("struct reb_vec3d", "v")
    v.assume(n2(q) != 0)
    qi = v.call("reb_rotation_inverse", q)
    m = v.call("reb_rotation_mul", qi, q)
    v.prove("left.r", m.r == 1)
    for f in ("ix", "iy", "iz"):
        v.prove("left." + f, m[f] == 0)
    m2 = v.call("reb_rotation_mul", q, qi)
    v.prove("right.r", m2.r == 1)
    for f in ("ix", "iy", "iz"):
        v.prove("right." + f, m2[f] == 0)


@P.task("reb_rotation_inverse.undoes_rotation", fn="reb_rotation_inverse")
def _(v):
    q = v.struct("struct reb_rotation", "q")
    x = v.struct("struct reb_vec3d", "v")
    v.assume(n2(q) == 1)
    qi = v.call("reb_rotation_inverse", q)
    w = v.call("reb_vec3d_rotate", v.call("reb_vec3d_rotate", x, q), qi)
    for f in "xyz":
        v.prove(f, w[f] == x[f])


@P.task("reb_rotation_conjugate", fn="reb_rotation_conjugate")
def _(v):
    q = v.struct("struct reb_rotation", "q")
    c = v.call("reb_rotation_conjugate", q)
    v.prove("r", c.r == q.r)
    for f in ("ix", "iy", "iz"):
        v.prove(f, c[f] == -q[f])


@P.task("reb_rotation_normalize", fn="reb_rotation_normalize")
def _(v):
    q = v.struct("struct reb_rotation", "q")
    v.assume(n2(q) != 0)
    c = v.call("reb_rotation_normalize", q)
    v.prove("unit", n2(c) == 1)
    l = v.fresh("l")
    # same direction: c = q * l with l > 0
    v.prove("parallel", z3.And(c.r * q.ix == c.ix * q.r, c.r * q.iy == c.iy * q.r, c.ix * q.iy == c.iy * q.ix,
                               c.iz * q.r == c.r * q.iz, c.r * q.r + c.ix * q.ix + c.iy * q.iy + c.iz * q.iz > 0))


@P.task("reb_rotation_identity", fn="reb_rotation_identity")
def _(v):
    q = v.call("reb_rotation_identity")
    v.prove("value", z3.And(q.r == 1, q.ix == 0, q.iy == 0, q.iz == 0))


@P.task("reb_vec3d_normalize", fn="reb_vec3d_normalize")
def _(v):
    x = v.struct("struct reb_vec3d", "v")
    v.assume(v2(x) != 0)
    n = v.call("reb_vec3d_normalize", x)
    v.prove("unit", v2(n) == 1)
    v.prove("parallel", z3.And(n.x * x.y == n.y * x.x, n.x * x.z == n.z * x.x, n.y * x.z == n.z * x.y, dot(n, x) > 0))


@P.task("reb_rotation_init_angle_axis", fn="reb_rotation_init_angle_axis")
def _(v):
    ang = v.real("angle")
    ax = v.struct("struct reb_vec3d", "axis")
    v.assume(v2(ax) != 0)
    q = v.call("reb_rotation_init_angle_axis", ang, ax)
    v.prove("unit", n2(q) == 1)
    s, c = v.eng.trig_pair(ang / 2)
    v.prove("r_is_cos_half", q.r == c)
    # imaginary part = sin(angle/2) * unit axis : parallel to axis, squared length sin^2
    v.prove("imag_len", q.ix * q.ix + q.iy * q.iy + q.iz * q.iz == s * s)
    v.prove("imag_parallel", z3.And(q.ix * ax.y == q.iy * ax.x, q.ix * ax.z == q.iz * ax.x, q.iy * ax.z == q.iz * ax.y))
    v.prove("imag_sign", z3.Implies(s > 0, q.ix * ax.x + q.iy * ax.y + q.iz * ax.z > 0))
    # the axis is left fixed by the rotation
    w = v.call("reb_vec3d_rotate", ax, q)
    for f in "xyz":
        v.prove("axis_fixed." + f, w[f] == ax[f])


def _unit_inputs(v):
    f = v.struct("struct reb_vec3d", "from")
    t = v.struct("struct reb_vec3d", "to")
    return f, t


def _from_to_post(v, q, f, t, tag):
    """q is a unit quaternion and maps normalize(from) exactly onto normalize(to)
    (reb_vec3d_normalize has its own contract: unit length, parallel, same sense)."""
    nf = v.call("reb_vec3d_normalize", f)
    nt = v.call("reb_vec3d_normalize", t)
    v.prove(tag + "unit", n2(q) == 1)
    w = v.call("reb_vec3d_rotate", nf, q)
    for c in "xyz":
        v.prove(tag + "maps." + c, w[c] == nt[c])
    return nf, nt


def _nd(v, f, t):
    """dot product of the normalised inputs, as the code computes it"""
    nf = v.call("reb_vec3d_normalize", f)
    nt = v.call("reb_vec3d_normalize", t)
    return nf, nt, dot(nf, nt)


@P.task("reb_rotation_init_from_to.acute", fn="reb_rotation_init_from_to", z3_ms=60000)
def _(v):
    f, t = _unit_inputs(v)
    v.assume(v2(f) != 0, v2(t) != 0)
    nf, nt, d = _nd(v, f, t)
    v.assume(d >= 0)
    q = v.call("reb_rotation_init_from_to", f, t)
    _from_to_post(v, q, f, t, "")


P.not_decided.append("reb_rotation_init_from_to, obtuse two-stage branch (dot<0, from+to != 0): attempted (polyid: Groebner "
                     "basis over 3 nested square roots exceeds the budget; z3 nlsat: timeout) -- not discharged, not claimed")


@P.task("reb_rotation_init_from_to.antiparallel", fn="reb_rotation_init_from_to", z3_ms=60000)
def _(v):
    f, t = _unit_inputs(v)
    lam = v.real("lambda")
    v.assume(v2(f) != 0, lam > 0)
    t.x, t.y, t.z = -lam * f.x, -lam * f.y, -lam * f.z
    _install_isnormal(v, lambda x: z3.BoolVal(False), nan_on_zero=True)
    q = v.call("reb_rotation_init_from_to", f, t)
    v.eng.contracts.pop("reb_vec3d_normalize", None)
    _from_to_post(v, q, f, t, "")


def _install_isnormal(v, pred, nan_on_zero=False):
    from engine.csym import Contract
    from engine.mem import StructObj

    def isnormal(eng, st, args, n):
        return pred(as_real(args[0]))
    for nm in ("isnormal", "__builtin_isnormal"):
        v.eng.contracts[nm] = Contract(nm, isnormal)
    if nan_on_zero:
        tu, fn = v.eng.find_function("reb_vec3d_normalize")

        def normalize(eng, st, args, n):
            a = args[0]
            x, y, z = (eng._lazy_field(a, k, st) for k in "xyz")
            sol = z3.Solver()
            sol.set("timeout", 5000)
            for h in st.hyps():
                sol.add(h)
            sol.add(z3.Not(z3.And(x == 0, y == 0, z == 0)))
            if sol.check() == z3.unsat:
                # IEEE: 0 * (1/sqrt(0)) = 0*inf = NaN in every component
                s = StructObj(a.ctype, {k: eng.fresh("NaN_" + k, z3.RealSort()) for k in "xyz"})
                return s
            return eng.exec_function(st, tu, fn, args)
        v.eng.contracts["reb_vec3d_normalize"] = Contract("reb_vec3d_normalize", normalize)


@P.task("reb_rotation_init_from_to.normalises_inputs", fn="reb_rotation_init_from_to")
def _(v):
    """The result does not depend on the lengths of the inputs (inputs are normalised first): the two
    normalised vectors are what the rest of the body sees."""
    f, t = _unit_inputs(v)
    v.assume(v2(f) != 0, v2(t) != 0)
    nf = v.call("reb_vec3d_normalize", f)
    nt = v.call("reb_vec3d_normalize", t)
    v.prove("from_unit", v2(nf) == 1)
    v.prove("to_unit", v2(nt) == 1)


@P.task("reb_rotation_init_orbit.MD2.121", fn="reb_rotation_init_orbit", z3_ms=60000)
def _(v):
    Om, inc, om = v.real("Omega"), v.real("inc"), v.real("omega")
    q = v.call("reb_rotation_init_orbit", Om, inc, om)
    v.prove("unit", n2(q) == 1)
    E = v.eng
    sO, cO = E.trig_pair(Om / 2)
    si, ci = E.trig_pair(inc / 2)
    so, co = E.trig_pair(om / 2)
    # product P3(Omega,z) * P2(inc,x) * P1(omega,z) written out (half-angle form of M&D 2.121)
    # z-rotation quaternion (c, 0,0,s); x-rotation (c, s,0,0)
    class Q:
        def __init__(s_, r, ix, iy, iz):
            s_.r, s_.ix, s_.iy, s_.iz = r, ix, iy, iz
    P1, P2, P3 = Q(co, 0, 0, so), Q(ci, si, 0, 0), Q(cO, 0, 0, sO)
    m = qmul(P2, P1)
    m = qmul(P3, Q(*m))
    for nm, got, want in zip(("r", "ix", "iy", "iz"), (q.r, q.ix, q.iy, q.iz), m):
        v.prove("value." + nm, got == want)
    # image of the x axis (pericentre direction) as in M&D 2.122 with full angles expressed by half-angle pairs
    ex = v.struct("struct reb_vec3d", "ex")
    v.assume(ex.x == 1, ex.y == 0, ex.z == 0)
    w = v.call("reb_vec3d_rotate", ex, q)
    cosO, sinO = cO * cO - sO * sO, 2 * sO * cO
    cosi, sini = ci * ci - si * si, 2 * si * ci
    coso, sino = co * co - so * so, 2 * so * co
    v.prove("xaxis.x", w.x == cosO * coso - sinO * sino * cosi)
    v.prove("xaxis.y", w.y == sinO * coso + cosO * sino * cosi)
    v.prove("xaxis.z", w.z == sino * sini)


@P.task("reb_particle_irotate", fn="reb_particle_irotate")
def _(v):
    q = v.struct("struct reb_rotation", "q")
    p, pp = v.struct_obj("struct reb_particle", "p")
    m0, r0, h0 = p.m, p.r, p.hash
    x0 = (p.x, p.y, p.z)
    v0 = (p.vx, p.vy, p.vz)
    v.assume(n2(q) == 1)
    v.call("reb_particle_irotate", pp, q)

    class V:
        pass
    a, b = V(), V()
    a.x, a.y, a.z = x0
    b.x, b.y, b.z = v0
    sx = rot_spec(a, q)
    sv = rot_spec(b, q)
    for f, want in zip(("x", "y", "z"), sx):
        v.prove("pos." + f, p[f] == want)
    for f, want in zip(("vx", "vy", "vz"), sv):
        v.prove("vel." + f, p[f] == want)
    v.prove("frame", z3.And(p.m == m0, p.r == r0, p.hash == h0))


def _RU(name):
    R = z3.RealSort()
    return z3.Function("spec_" + name, *([R] * 9))


@P.task("reb_simulation_irotate", fn="reb_simulation_irotate")
def _(v):
    """Loop over all particles; the callee reb_particle_irotate is used through its contract
    (task reb_particle_irotate proves the body against rot_spec): p' = ROT(p, q), m/r/hash untouched."""
    from engine.csym import Contract
    from engine.mem import Ptr
    q = v.struct("struct reb_rotation", "q")
    r, rp = v.struct_obj("struct reb_simulation", "r")
    N = v.int("N")
    parts = v.array("struct reb_particle", None, "P")
    r.N = N
    r.particles = parts.ptr
    v.assume(N >= 0, n2(q) == 1)
    F = ("x", "y", "z", "vx", "vy", "vz")
    ROT = {f: _RU(f) for f in F}

    def rot_of(vals3, f):
        return ROT[f](vals3[0], vals3[1], vals3[2], q.r, q.ix, q.iy, q.iz, z3.RealVal(0))

    def irotate_contract(eng, st, args, n):
        p = args[0]
        pos = [eng.read(st, Ptr(p.obj, p.path + (f,))) for f in ("x", "y", "z")]
        vel = [eng.read(st, Ptr(p.obj, p.path + (f,))) for f in ("vx", "vy", "vz")]
        for f in ("x", "y", "z"):
            eng.write(st, Ptr(p.obj, p.path + (f,)), rot_of(pos, f))
        for f in ("vx", "vy", "vz"):
            eng.write(st, Ptr(p.obj, p.path + (f,)), rot_of(vel, f))
        return None
    v.contract("reb_particle_irotate", irotate_contract)
    old = {f: parts.array(f) for f in F + ("m", "r")}
    k = z3.Int("k")

    def spec(i, f):
        src = ("x", "y", "z") if f in ("x", "y", "z") else ("vx", "vy", "vz")
        return rot_of([z3.Select(old[g], i) for g in src], f)

    def inv(L):
        i = L.i
        cur = {f: parts.array(f) for f in F + ("m", "r")}
        done = z3.ForAll([k], z3.Implies(z3.And(0 <= k, k < i), z3.And(*[z3.Select(cur[f], k) == spec(k, f) for f in F])))
        todo = z3.ForAll([k], z3.Implies(k >= i, z3.And(*[z3.Select(cur[f], k) == z3.Select(old[f], k) for f in F])))
        frame = z3.And(cur["m"] == old["m"], cur["r"] == old["r"])
        return [("range", z3.And(0 <= i, i <= N)), ("done", done), ("todo", todo), ("frame", frame)]
    v.loop("reb_simulation_irotate", 0, invariant=inv)
    v.call("reb_simulation_irotate", rp, q)
    cur = {f: parts.array(f) for f in F + ("m", "r")}
    j = v.int("j")
    v.assume(0 <= j, j < N)
    for f in F:
        v.prove("all_rotated." + f, z3.Select(cur[f], j) == spec(j, f))
    v.prove("masses_untouched", z3.And(cur["m"] == old["m"], cur["r"] == old["r"]))
    v.prove("N_unchanged", r.N == N)
