"""C03, BOUNDED stand-in (never counted as proved): the clause 'for hyperbolic orbits, long steps, both signs of the step; never
NaN' is a statement about IEEE arithmetic (overflow of the Stiefel functions, NaN comparisons in the bisection) that the R-mode
contracts of C03_kepler.py cannot decide.  This pack runs the natively compiled *current* tree over a fixed grid of two-body
problems and compares one WHFast step with the closed-form Kepler solution.

bound: e in {0, 0.3, 0.9, 0.999, 1.01, 1.5, 2, 10} x true anomaly in {0, -1, 1, 2.5} (inside the asymptotes) x
       |n dt| in {1e-8, 1e-3, 0.3, 1.7, 40, 100, 3000} (3000 = 477 periods; the property's range ends at 1e3 periods) x both signs x coordinates {jacobi, democraticheliocentric},
       |a| = 1, G = M = 1; tolerance |r - r_ref| <= 1e-8 r (1 + |n dt|), |E1 - E0| <= 1e-9 |E0| (energy of the test particle).
Each failing grid point is reported under a class id so that the known finding (hyperbolic, at or before pericentre for
dt>0 / at or after pericentre for dt<0, |n dt| >= 40) is told apart from any other failure."""
from engine.api import Pack
from engine import cfront

P = Pack("C03", ["src/integrator_whfast.c"], "Kepler propagation: bounded native sweep (IEEE behaviour of the solver)")
PACKS = [P]
P.assume("bounded stand-in: a finite grid of inputs run natively; nothing is proved by it")

_HARNESS = r'''
import sys, os, json, math, warnings
workdir = sys.argv[1]
sys.path.insert(0, workdir)
import rebound
warnings.simplefilter("ignore")

def reference(a, e, f, dt):
    """closed-form two-body solution (mu = 1): radius after dt, starting at true anomaly f"""
    n = math.sqrt(1. / abs(a) ** 3)
    if e < 1.:
        E0 = 2. * math.atan2(math.sqrt(1. - e) * math.sin(f / 2.), math.sqrt(1. + e) * math.cos(f / 2.))
        M = E0 - e * math.sin(E0) + n * dt
        E = M + e * math.sin(M)
        for _ in range(300):
            d = (E - e * math.sin(E) - M) / (1. - e * math.cos(E))
            d = max(-1., min(1., d))
            E -= d
        return a * (1. - e * math.cos(E))
    H0 = 2. * math.atanh(math.sqrt((e - 1.) / (e + 1.)) * math.tan(f / 2.))
    M = e * math.sinh(H0) - H0 + n * dt
    H = math.asinh(M / e)
    for _ in range(300):
        H -= (e * math.sinh(H) - H - M) / (e * math.cosh(H) - 1.)
    return abs(a) * (e * math.cosh(H) - 1.)

fails, tried = [], 0
for coords in ("jacobi", "democraticheliocentric"):
    for e in (0., 0.3, 0.9, 0.999, 1.01, 1.5, 2., 10.):
        a = 1. if e < 1. else -1.
        for f in (0., -1., 1., 2.5):
            if e > 1. and abs(f) >= math.acos(-1. / e) - 0.05:
                continue
            for ndt in (1e-8, 1e-3, 0.3, 1.7, 40., 100., 3000.):
                for sgn in (1., -1.):
                    dt = sgn * ndt
                    sim = rebound.Simulation()
                    sim.add(m=1.)
                    sim.add(m=0., a=a, e=e, f=f)
                    sim.integrator = "whfast"
                    sim.ri_whfast.coordinates = coords
                    sim.dt = dt
                    p = sim.particles[1]
                    E0 = 0.5 * (p.vx ** 2 + p.vy ** 2 + p.vz ** 2) - 1. / math.sqrt(p.x ** 2 + p.y ** 2 + p.z ** 2)
                    sim.step()
                    p = sim.particles[1]
                    tried += 1
                    rr = math.sqrt(p.x ** 2 + p.y ** 2 + p.z ** 2)
                    E1 = 0.5 * (p.vx ** 2 + p.vy ** 2 + p.vz ** 2) - 1. / rr if rr > 0 else float("nan")
                    rref = reference(a, e, f, dt)
                    ok = (rr == rr) and abs(rr - rref) <= 1e-8 * rref * (1. + ndt) and abs(E1 - E0) <= 1e-9 * abs(E0)
                    if not ok:
                        towards = (f * sgn <= 0.)
                        cls = "hyperbolic_long_step_towards_pericentre" if (e > 1. and ndt >= 40. and towards) else \
                              "other.e%g.f%g.ndt%g.sgn%+d.%s" % (e, f, ndt, int(sgn), coords)
                        fails.append({"class": cls, "coordinates": coords, "e": e, "f": f, "dt": dt, "r": rr, "r_reference": rref,
                                      "energy_before": E0, "energy_after": E1})
print(json.dumps({"grid_points": tried, "failures": fails}))
'''


def _sweep(repo):
    import tempfile, shutil, subprocess, os, json, glob
    from engine import native
    d = tempfile.mkdtemp(prefix="verif-c03-")
    try:
        so = native.build_lib(repo)
        shutil.copytree(os.path.join(repo, "rebound"), os.path.join(d, "rebound"), ignore=shutil.ignore_patterns("tests", "__pycache__"))
        for old in glob.glob(os.path.join(d, "librebound*.so")):
            os.remove(old)
        shutil.copy(so, os.path.join(d, "librebound.cpython-312-x86_64-linux-gnu.so"))
        open(os.path.join(d, "harness.py"), "w").write(_HARNESS)
        p = subprocess.run(["/venv/bin/python", os.path.join(d, "harness.py"), d], capture_output=True, text=True, timeout=1200)
        try:
            return json.loads(p.stdout.strip().split("\n")[-1])
        except Exception:
            return {"error": (p.stdout + p.stderr)[-600:]}
    finally:
        shutil.rmtree(d, True)


@P.bounded_check("native_sweep_one_whfast_step_vs_closed_form", "8 eccentricities x 4 phases x 7 step lengths x 2 signs x 2 coordinate systems")
def _(tier, seed):
    r = _sweep(cfront.REPO)
    if r.get("error"):
        r["result"] = "error"
        return r
    by = {}
    for w in r["failures"]:
        by.setdefault(w["class"], []).append(w)
    r["result"] = "violation" if by else "held"
    r["witnesses"] = [{"id": k, "count": len(v), "example": v[0]} for k, v in sorted(by.items())]
    r["failures"] = len(r["failures"])
    return r


_.quick = True
