"""C11 (core): orbital elements <-> Cartesian state, src/tools.c.

Forward map reb_particle_from_orbit_err, anomaly conversions reb_mod2pi / reb_M_to_E / reb_E_to_f /
reb_M_to_f, inverse map reb_orbit_from_particle_err (with acos2), Pal coordinates.

The specification side is written from celestial mechanics (Murray & Dermott, Solar System Dynamics,
ch. 2: conic r = a(1-e^2)/(1+e cos f), vis-viva, h = sqrt(mu a (1-e^2)) * unit normal of the orbital
plane (sin i sin Omega, -sin i cos Omega, cos i), eccentricity vector e * (pericentre direction), Kepler's
equation), not from the code.  R-mode: doubles as reals; every angle theta enters only through its
(sin theta, cos theta) pair with sin^2+cos^2=1.
"""
import z3
from fractions import Fraction
from engine.api import Pack, SV
from engine.csym import as_real

P = Pack("C11", ["src/tools.c", "src/particle.c"], "orbital elements <-> Cartesian")
PACKS = [P]
P.assume("machine arithmetic treated as mathematical (doubles as reals); 'to rounding error' not decided; "
         "behaviour within MIN_REL_ERROR of thresholds in floating point not decided")
P.assume("sqrt/sin/cos/acos/acosh/atan2/cbrt/log/fmod axiomatised per occurrence: sqrt(x)^2=x & sqrt(x)>=0 for x>=0; "
         "sin^2+cos^2=1; cosh^2-sinh^2=1 & cosh>=1; acos(x) in [0,pi] with cos(acos x)=x, sin(acos x)>=0; "
         "fmod(a,b)=a-q*b with integer q, |r|<|b|, sign of a")
P.assume("NaN does not exist in R-mode: every division, sqrt, acos, acosh, log carries a definedness obligation "
         "instead; nan(\"\") results on rejection paths are an unconstrained real and the error code is what is checked")

TINY = Fraction(1e-308)


def R(x):
    return z3.RealVal(x)


# ============================================================================ forward map
def _forward_inputs(v):
    G = v.real("G")
    prim = v.struct("struct reb_particle", "primary")
    m, a, e = v.real("m"), v.real("a"), v.real("e")
    inc, Om, om, f = v.real("inc"), v.real("Omega"), v.real("omega"), v.real("f")
    errc, errp = v.cell("int", "err", z3.IntVal(0))
    return G, prim, m, a, e, inc, Om, om, f, errc, errp


def _documented_rejection(v, prim, a, e, f):
    """The documented invalid inputs of reb_particle_from_orbit (rebound.h / tools.c error strings 1..6)."""
    sf, cf = v.eng.trig_pair(f)
    return z3.Or(e == 1, e < 0, z3.And(e > 1, a > 0), z3.And(e < 1, a < 0), e * cf <= -1, prim.m < R(TINY)), cf


@P.task("from_orbit.reject_iff_documented", fn="reb_particle_from_orbit_err")
def _(v):
    """err != 0 exactly on the documented rejections; each code on its own condition (first match wins)."""
    G, prim, m, a, e, inc, Om, om, f, errc, errp = _forward_inputs(v)
    v.eng.check_defined = False            # definedness has its own task (accepting path)
    v.call("reb_particle_from_orbit_err", G, prim, m, a, e, inc, Om, om, f, errp)
    err = v.read(errp)
    bad, cf = _documented_rejection(v, prim, a, e, f)
    v.prove("err_nonzero_iff_invalid", (err != 0) == bad)
    c1 = e == 1
    c2 = z3.And(z3.Not(c1), e < 0)
    c3 = z3.And(z3.Not(c1), z3.Not(e < 0), e > 1, a > 0)
    c4 = z3.And(z3.Not(c1), z3.Not(e < 0), e < 1, a < 0)
    ok4 = z3.And(z3.Not(c1), z3.Not(e < 0), z3.Not(z3.And(e > 1, a > 0)), z3.Not(z3.And(e < 1, a < 0)))
    c5 = z3.And(ok4, e * cf <= -1)
    c6 = z3.And(ok4, z3.Not(e * cf <= -1), prim.m < R(TINY))
    for k, c in enumerate((c1, c2, c3, c4, c5, c6), 1):
        v.prove("code%d" % k, (err == k) == c)
    v.prove("code_range", z3.And(err >= 0, err <= 6))


def cut(v, name, fact, **kw):
    """Cut rule: state `fact` as an obligation of its own, then use it as a hypothesis of later obligations on
    this path (sound: if the cut is not discharged the run fails on it)."""
    v.prove(name, fact, **kw)
    v.assume(fact)


PZ = ("polyid", "z3")      # polynomial identities: ideal membership first (z3's NRA only as fallback / for counter-models)


def _sqrt_apps(v):
    """sqrt applications introduced by the executed code on this path (found in the path hypotheses y*y == x)."""
    out, seen = [], set()

    def walk(t):
        if t.get_id() in seen:
            return
        seen.add(t.get_id())
        if z3.is_app(t):
            if t.decl().name() == "m_sqrt":
                out.append(t)
            for c in t.children():
                walk(c)
    for h in v.st.pc:
        walk(h)
    return out


def _valid_classical(v, G, prim, m, a, e, f, branch):
    """Valid classical elements (complement of the documented rejections), split bound / unbound."""
    sf, cf = v.eng.trig_pair(f)
    v.assume(G >= 0, m >= 0, prim.m >= R(TINY), e >= 0, e != 1)
    if branch == "bound":
        v.assume(e < 1, a >= 0)
    else:
        v.assume(e > 1, a <= 0)
    v.assume(e * cf > -1)
    return sf, cf


P.assume("from_orbit: gravitational constant G >= 0 and particle mass m >= 0 are preconditions (negative total mass "
         "G(m+M)<0 gives sqrt of a negative number without an error code: outside 'valid elements', noted for the lead)")

for _branch in ("bound", "unbound"):
    @P.task("from_orbit.accept.%s.defined" % _branch, fn="reb_particle_from_orbit_err")
    def _(v, branch=_branch):
        """Every input that is not a documented rejection is accepted (err stays 0) and every division / sqrt on
        the accepting path is defined.  EXPECTED TO FAIL on the unchanged tree (genuine defects): a == 0 is not
        rejected (division by a), and e*cos(f) == -1 exactly passes the test `e*cos(f) < -1` (division by
        1+e*cos f)."""
        G, prim, m, a, e, inc, Om, om, f, errc, errp = _forward_inputs(v)
        _valid_classical(v, G, prim, m, a, e, f, branch)
        v.call("reb_particle_from_orbit_err", G, prim, m, a, e, inc, Om, om, f, errp)
        v.prove("accepted", v.read(errp) == 0)


def _rot_zxz(vec, sO, cO, si, ci, so, co):
    """P3(Omega about z) * P2(inc about x) * P1(omega about z) applied to a vector of the orbital plane frame
    (Murray & Dermott 2.119-2.121)."""
    x, y, z = vec
    x, y, z = co * x - so * y, so * x + co * y, z            # P1: rotation by omega about z
    x, y, z = x, ci * y - si * z, si * y + ci * z            # P2: rotation by inc about x
    x, y, z = cO * x - sO * y, sO * x + cO * y, z            # P3: rotation by Omega about z
    return x, y, z


def _cross(a, b):
    return (a[1] * b[2] - a[2] * b[1], a[2] * b[0] - a[0] * b[2], a[0] * b[1] - a[1] * b[0])


def _dot(a, b):
    return a[0] * b[0] + a[1] * b[1] + a[2] * b[2]


for _branch in ("bound", "unbound"):
    @P.task("from_orbit.relations.%s" % _branch, fn="reb_particle_from_orbit_err", polyid_s=20)
    def _(v, branch=_branch):
        G, prim, m, a, e, inc, Om, om, f, errc, errp = _forward_inputs(v)
        sf, cf = _valid_classical(v, G, prim, m, a, e, f, branch)
        # the two inputs the code fails to reject (see from_orbit.accept.*.defined) are excluded here
        v.assume(a != 0, e * cf != -1)
        p = v.call("reb_particle_from_orbit_err", G, prim, m, a, e, inc, Om, om, f, errp)
        E = v.eng
        sO, cO = E.trig_pair(Om)
        so, co = E.trig_pair(om)
        si, ci = E.trig_pair(inc)
        mu = G * (m + prim.m)
        d = (p.x - prim.x, p.y - prim.y, p.z - prim.z)
        w = (p.vx - prim.vx, p.vy - prim.vy, p.vz - prim.vz)
        r = a * (1 - e * e) / (1 + e * cf)                      # conic equation, M&D 2.20
        v.prove("accepted", v.read(errp) == 0)
        v.prove("frame.m", p.m == m)
        v.prove("frame.acc", z3.And(p.ax == 0, p.ay == 0, p.az == 0))
        cut(v, "semilatus_positive", a * (1 - e * e) > 0)
        v.prove("r_positive", r > 0)
        v.prove("distance", _dot(d, d) == r * r, order=PZ)
        v.prove("vis_viva", _dot(w, w) == mu * (2 / r - 1 / a), order=PZ)
        # position and velocity: orbital-plane vectors (M&D 2.19, 2.36) rotated by M&D 2.119-2.121
        Vs = E.math1(v.st, "sqrt", mu / (a * (1 - e * e)))
        cut(v, "speed_scale_nonneg", Vs >= 0)
        sq = _sqrt_apps(v)
        for k, y in enumerate(sq):
            if not y.eq(Vs):
                cut(v, "speed_scale_sq.%d" % k, y * y == Vs * Vs, order=PZ)
                cut(v, "speed_scale.%d" % k, y == Vs, order=("z3",))
        pos = _rot_zxz((r * cf, r * sf, 0), sO, cO, si, ci, so, co)
        vel = _rot_zxz((-Vs * sf, Vs * (e + cf), 0), sO, cO, si, ci, so, co)
        for k, c in enumerate("xyz"):
            v.prove("position." + c, d[k] == pos[k], order=PZ)
            v.prove("velocity." + c, w[k] == vel[k], order=PZ)
        # specific angular momentum: h = sqrt(mu a (1-e^2)) * (sin i sin Omega, -sin i cos Omega, cos i)  (M&D 2.26, 2.123 ff)
        h = _cross(d, w)
        nhat = (si * sO, -si * cO, ci)
        Hs = E.math1(v.st, "sqrt", mu * a * (1 - e * e))
        t = a * (1 - e * e) * Vs
        cut(v, "h.magnitude_sq", t * t == Hs * Hs, order=PZ)
        cut(v, "h.magnitude_sign", t >= 0, order=("z3",))
        cut(v, "h.magnitude", t == Hs, order=("z3",))
        for k, c in enumerate("xyz"):
            cut(v, "h.parallel." + c, h[k] == t * nhat[k], order=PZ)
            v.prove("h." + c, h[k] == Hs * nhat[k], order=PZ)
        # eccentricity vector (v x h)/mu - r/|r| = e * (pericentre direction)   (M&D 2.122 at f=0)
        peri = _rot_zxz((1, 0, 0), sO, cO, si, ci, so, co)
        vxh = _cross(w, h)
        for k, c in enumerate("xyz"):
            v.prove("ecc_vector." + c, vxh[k] * r - mu * d[k] == mu * r * e * peri[k], order=PZ)
        # ascending node: z x h is along (cos Omega, sin Omega, 0) with the sign of sin(inc)
        v.prove("node.x", -h[1] == Hs * si * cO, order=PZ)
        v.prove("node.y", h[0] == Hs * si * sO, order=PZ)


# ============================================================================ anomalies
import math as _math
PI = Fraction(_math.pi)            # the double nearest to pi: what "2 pi" means for a double-valued angle
PI2 = 2 * PI
EPS_KEPLER = Fraction(1e-16)
P.assume("documented angle range [0, 2pi) is read with 2pi = the double 2*M_PI (6.283185307179586...)")


def _true_inv(L):
    return [("trivial", z3.BoolVal(True))]


def _spy(v, fn):
    """Record the arguments of calls to `fn` (real body still executed): gives the contract access to the value a
    local had at that call site."""
    tu, f = v.eng.find_function(fn)
    seen = []

    def apply(eng, st, args, n):
        seen.append(args)
        return eng.exec_function(st, tu, f, args)
    v.contract(fn, apply)
    return seen


@P.task("mod2pi.range_and_congruence", fn="reb_mod2pi")
def _(v):
    x = v.real("f")
    y = v.call("reb_mod2pi", x)
    v.prove("range", z3.And(y >= 0, y < R(PI2)))
    v.prove("congruent_mod_2pi", z3.IsInt((y - x) / R(PI2)))
    v.prove("identity_on_range", z3.Implies(z3.And(x >= 0, x < R(PI2)), y == x))


@P.task("M_to_E.elliptic", fn="reb_M_to_E")
def _(v):
    """0 <= e < 1, any M.  Newton loop: arbitrary iteration (trivial invariant); definedness of every step;
    leaving through `break` gives Kepler's equation to 1e-16 for the value that is then reduced mod 2pi."""
    e, M = v.real("e"), v.real("M")
    v.assume(e >= 0, e < 1)
    v.loop("reb_M_to_E", 0, invariant=_true_inv)
    seen = _spy(v, "reb_mod2pi")
    E = v.call("reb_M_to_E", e, M)
    v.prove("range", z3.And(E >= 0, E < R(PI2)))
    if v.st.ghost.get("loop_exit_by_break"):
        M1 = v.call("reb_mod2pi", M)              # the reduced mean anomaly the iteration works with
        E0 = as_real(seen[1][0])                  # value of E when the loop was left (argument of the final reduction)
        sE, cE = v.eng.trig_pair(E0)
        res = E0 - e * sE - M1
        v.prove("break.kepler_residual", z3.And(res < R(EPS_KEPLER), -res < R(EPS_KEPLER)))
        v.prove("break.result_is_reduction", z3.And(z3.IsInt((E - E0) / R(PI2)), z3.IsInt((M1 - M) / R(PI2))))


@P.task("M_to_E.hyperbolic", fn="reb_M_to_E")
def _(v):
    """e > 1, any M including pericentre passage M = 0.  EXPECTED TO FAIL on the unchanged tree at the starting
    guess M/fabs(M) (def.div, tools.c:555): reb_M_to_E(1.5, 0.0) = NaN (confirmed natively)."""
    e, M = v.real("e"), v.real("M")
    v.assume(e > 1)
    v.loop("reb_M_to_E", 1, invariant=_true_inv)
    E = v.call("reb_M_to_E", e, M)
    if v.st.ghost.get("loop_exit_by_break"):
        sh = v.eng.uf("sinh", z3.RealSort(), z3.RealSort())(z3.simplify(E))
        res = E - e * sh + M
        v.prove("break.kepler_residual", z3.And(res < R(EPS_KEPLER), -res < R(EPS_KEPLER)))


for _br in ("elliptic", "hyperbolic"):
    @P.task("E_to_f.%s" % _br, fn="reb_E_to_f")
    def _(v, br=_br):
        e, E = v.real("e"), v.real("E")
        v.assume(e >= 0, e != 1, (e < 1) if br == "elliptic" else (e > 1))
        f = v.call("reb_E_to_f", e, E)
        v.prove("range", z3.And(f >= 0, f < R(PI2)))

    @P.task("M_to_f.%s" % _br, fn="reb_M_to_f")
    def _(v, br=_br):
        """Composition; definedness for all inputs of the documented domain (hyperbolic: same expected failure at
        M = 0 as M_to_E.hyperbolic)."""
        e, M = v.real("e"), v.real("M")
        v.assume(e >= 0, e != 1, (e < 1) if br == "elliptic" else (e > 1))
        v.loop("reb_M_to_E", 0 if br == "elliptic" else 1, invariant=_true_inv)
        f = v.call("reb_M_to_f", e, M)
        v.prove("range", z3.And(f >= 0, f < R(PI2)))

P.not_decided.append("reb_E_to_f: the half-angle relation tan(f/2) = sqrt((1+e)/(1-e)) tan(E/2) (resp. tanh for e>1) is not decided "
                     "(atan/tanh have no axioms in the engine); only definedness and the range [0,2pi) of the result are proved")
P.not_decided.append("reb_M_to_E: convergence of the Newton iteration (that the loop is left through `break` within 100 "
                     "steps for every (e,M)) is not decided; only the residual bound on exit through `break` is proved")


# ============================================================================ inverse map
from engine.mem import NULL


def _inverse_inputs(v, general_primary=False):
    """Inputs of reb_orbit_from_particle_err.  Unless general_primary, the primary is put at the origin at rest:
    the function reads positions and velocities only through the differences p - primary (proved by task
    from_particle.translation_invariant), so this loses no generality."""
    G = v.real("G")
    p = v.struct("struct reb_particle", "p")
    prim = v.struct("struct reb_particle", "primary")
    p.sim = NULL
    if not general_primary:
        for c in ("x", "y", "z", "vx", "vy", "vz"):
            setattr(prim, c, R(0))
    errc, errp = v.cell("int", "err", z3.IntVal(0))
    d = (p.x - prim.x, p.y - prim.y, p.z - prim.z)
    w = (p.vx - prim.vx, p.vy - prim.vy, p.vz - prim.vz)
    return G, p, prim, errp, d, w


ORBIT_FIELDS = ("d", "v", "h", "P", "n", "a", "e", "inc", "Omega", "omega", "pomega", "f", "M", "l", "theta", "T", "rhill",
                "pal_h", "pal_k", "pal_ix", "pal_iy")


@P.task("from_particle.translation_invariant", fn="reb_orbit_from_particle_err")
def _(v):
    """Every output (and the error code) for (p, primary) equals the output for (p - primary, primary moved to the
    origin at rest): justifies primary = origin at rest in the other from_particle tasks."""
    G, p, prim, errp, d, w = _inverse_inputs(v, general_primary=True)
    v.eng.check_defined = False
    p2 = v.struct("struct reb_particle", "p_rel")
    prim2 = v.struct("struct reb_particle", "primary_rel")
    p2.sim = NULL
    p2.m, prim2.m = p.m, prim.m
    for k, c in enumerate(("x", "y", "z")):
        setattr(p2, c, d[k])
        setattr(p2, "v" + c, w[k])
        setattr(prim2, c, R(0))
        setattr(prim2, "v" + c, R(0))
    errc2, errp2 = v.cell("int", "err2", z3.IntVal(0))
    o1 = v.call("reb_orbit_from_particle_err", G, p, prim, errp)
    o2 = v.call("reb_orbit_from_particle_err", G, p2, prim2, errp2)
    v.prove("err", v.read(errp) == v.read(errp2))
    from engine.csym import const_int
    if const_int(v.read(errp)) != 0:
        return                      # rejected: only the error code is meaningful (fields are NaN / not set)
    for f in ORBIT_FIELDS:
        v.prove(f, o1[f] == o2[f])
    for f in ("hvec", "evec"):
        for c in "xyz":
            v.prove(f + "." + c, getattr(o1[f], c) == getattr(o2[f], c))


@P.task("from_particle.errors", fn="reb_orbit_from_particle_err")
def _(v):
    G, p, prim, errp, d, w = _inverse_inputs(v)
    v.eng.check_defined = False
    o = v.call("reb_orbit_from_particle_err", G, p, prim, errp)
    err = v.read(errp)
    massless = prim.m <= R(TINY)
    ontop = _dot(d, d) <= R(TINY) * R(TINY)
    v.prove("code1_iff_primary_massless", (err == 1) == massless)
    v.prove("code2_iff_on_top_of_primary", (err == 2) == z3.And(z3.Not(massless), ontop))
    v.prove("no_other_code", z3.Or(err == 0, err == 1, err == 2))


def _no_error(v, G, p, prim, d):
    """Non-error condition of reb_orbit_from_particle_err (primary.m > TINY, distance > TINY) plus physical
    masses and G > 0.  Returns the distance (the engine's sqrt term, the same one the code computes)."""
    D = v.eng.math1(v.st, "sqrt", _dot(d, d))
    v.assume(G > 0, p.m >= 0, prim.m > R(TINY), D > R(TINY))
    return D


# ---- acos2: contract used at the 7 call sites of reb_orbit_from_particle_err ---------------------------------------
P.assume("acos2(num, denom, dis) with denom == 0 relies on IEEE semantics (x/0 = +-inf, 0/0 = NaN, comparisons with NaN "
         "false): result pi if num < 0 else 0, as its comment documents ('will return 0 if denom is exactly 0'); this "
         "case is modelled by the contract, the denom != 0 case is proved against the real body (task acos2.contract)")


def _acos2_spec(eng, st, num, den, dis, node=None):
    """acos of num/den in the quadrant selected by the sign of `dis`, clamped to {0, pi} outside (-1,1)."""
    c = num / den
    inner = z3.And(den != 0, c > -1, c < 1)
    st.guards.append(inner)
    try:
        y = eng.math1(st, "acos", c, node)
    finally:
        st.guards.pop()
    return z3.If(den != 0,
                 z3.If(z3.And(c > -1, c < 1), z3.If(dis < 0, -y, y), z3.If(c <= -1, R(PI), R(0))),
                 z3.If(num < 0, R(PI), R(0)))


def _use_acos2_contract(v):
    calls = []

    def apply(eng, st, args, n):
        num, den, dis = (as_real(a) for a in args)
        r = _acos2_spec(eng, st, num, den, dis, n)
        calls.append((num, den, dis, r))
        return r
    v.contract("acos2", apply)
    return calls


@P.task("acos2.contract", fn="acos2")
def _(v):
    num, den, dis = v.real("num"), v.real("denom"), v.real("disambiguator")
    v.assume(den != 0)
    pi = _pi_facts(v)
    got = v.call("acos2", num, den, dis)
    want = _acos2_spec(v.eng, v.st, num, den, dis)
    v.prove("equals_spec", got == want)
    v.prove("range", z3.And(got >= -pi, got <= pi))
    v.prove("nonneg_when_disambiguator_nonneg", z3.Implies(dis >= 0, got >= 0))


DEF_ORDER = ("z3quick", "z3slice", "z3", "cvc5")


def _acosh_by_contract(v):
    """acosh at tools.c:1106 through a contract: the call-site precondition (argument >= 1) is not generated here;
    the axioms of the result are only assumed under argument >= 1 (nothing is assumed about the undefined case)."""
    def apply(eng, st, args, n):
        x = as_real(args[0])
        old = eng.check_defined
        eng.check_defined = False
        st.guards.append(x >= 1)
        try:
            return eng.math1(st, "acosh", x, n)
        finally:
            st.guards.pop()
            eng.check_defined = old
    v.contract("acosh", apply)


P.not_decided.append("reb_orbit_from_particle_err, tools.c:1106 acosh((1-d/a)/e) for e >= 1: argument >= 1 holds over the "
                     "reals for non-radial states (e^2-1 = (X-1) h^2/(d mu), e^2 = X^2-(X-1)(r.v)^2/(d mu) with X = 1-d/a) but "
                     "is not discharged by z3/cvc5 within the budget; in floating point it is FALSE at/near pericentre "
                     "(argument rounds below 1 -> NaN M, l, T: natively reproduced, reported as defect)")


def _slice_first(v, order=None):
    """Engine-generated obligations of this path: try subsets of the hypotheses first (sound, see backends.z3_slices)."""
    for ob in v.eng.obligations:
        if ob.verdict is None and "order" not in ob.meta:
            ob.meta["order"] = order or DEF_ORDER


P.assume("pi: the symbolic real M_PI used by the acos/atan2 axioms satisfies PI_double < pi < PI_double + 2e-16 "
         "(PI_double = 3.141592653589793115997963..., pi - PI_double = 1.2246e-16)")


def _pi_facts(v):
    pi = v.eng.pi()
    v.assume(pi > R(PI), pi < R(PI) + R(Fraction(2, 10 ** 16)))
    return pi


def _hvec(d, w):
    return _cross(d, w)


@P.task("from_particle.defined.generic", fn="reb_orbit_from_particle_err", order=DEF_ORDER)
def _(v):
    """Definedness of every division / sqrt / acos on the non-error path for non-parabolic, non-radial, not exactly
    retrograde-planar states (acosh argument: see not_decided)."""
    G, p, prim, errp, d, w = _inverse_inputs(v)
    D = _no_error(v, G, p, prim, d)
    mu = G * (p.m + prim.m)
    h = _hvec(d, w)
    Hs = v.eng.math1(v.st, "sqrt", _dot(h, h))
    v.assume(_dot(w, w) * D != 2 * mu)                                # not parabolic
    v.assume(Hs > 0)                                                  # not radial
    v.assume(Hs + h[2] != 0)                                          # not exactly retrograde planar (hz = -|h|)
    _use_acos2_contract(v)
    _acosh_by_contract(v)
    o = v.call("reb_orbit_from_particle_err", G, p, prim, errp)
    v.prove("no_error", v.read(errp) == 0)
    _slice_first(v)


P.assume("from_particle definedness is proved for non-parabolic (v^2 != 2 mu/d), non-radial (h != 0) states; parabolic and "
         "radial states (e = 1, rejected as invalid by the forward map) return NaN fields without an error code "
         "(observed natively, reported to the lead as candidates, no obligation kept)")


@P.task("from_particle.defined.retrograde_planar", fn="reb_orbit_from_particle_err")
def _(v):
    """A valid orbit: motion in the xy plane, clockwise (inc = pi): G=1, M=1, m=0, r=(1,0,0), v=(0,-1.2,0), i.e.
    a=25/14, e=0.44 at pericentre.  EXPECTED TO FAIL on the unchanged tree at the Pal-coordinate block
    (tools.c:1184-1188: 1 + hz/h = 0 and h + hz = 0): pal_h, pal_k, pal_ix, pal_iy are NaN (confirmed natively)."""
    G, p, prim, errp, d, w = _inverse_inputs(v)
    v.eng.assume_after_check = False       # a failed check must not be assumed afterwards (it would make the path vacuous)
    vals = {"x": 1, "y": 0, "z": 0, "vx": 0, "vy": Fraction(-6, 5), "vz": 0, "m": 0}
    for k, x in vals.items():
        setattr(p, k, R(x))
    prim.m = R(1)
    _use_acos2_contract(v)
    _acosh_by_contract(v)
    o = v.call("reb_orbit_from_particle_err", R(1), p, prim, errp)
    v.prove("no_error", v.read(errp) == 0)
    v.prove("inc_is_pi", o.inc == R(PI))
    v.prove("a", o.a == R(Fraction(25, 14)))
    v.prove("e", o.e == R(Fraction(11, 25)))


@P.task("from_particle.ranges", fn="reb_orbit_from_particle_err")
def _(v):
    """Reported elements are in their ranges for every non-error input (definedness: from_particle.defined.*)."""
    G, p, prim, errp, d, w = _inverse_inputs(v)
    D = _no_error(v, G, p, prim, d)
    pi = _pi_facts(v)
    v.eng.check_defined = False
    _use_acos2_contract(v)
    _acosh_by_contract(v)
    o = v.call("reb_orbit_from_particle_err", G, p, prim, errp)
    v.prove("no_error", v.read(errp) == 0)
    v.prove("e_nonneg", o.e >= 0)
    v.prove("d_positive", o.d > 0)
    v.prove("v_nonneg", o.v >= 0)
    v.prove("h_nonneg", o.h >= 0)
    v.prove("inc_in_0_pi", z3.And(o.inc >= 0, o.inc <= pi))
    v.prove("Omega_in_mpi_pi", z3.And(o.Omega >= -pi, o.Omega <= pi))
    for f in ("f", "l", "M", "theta", "omega"):
        v.prove(f + "_in_0_2pi", z3.And(o[f] >= 0, o[f] < R(PI2)))
    _slice_first(v)


# ---- proof-structuring helpers (all sound by construction: they only weaken hypotheses or generalise) -------------
def _uf_atoms(t):
    out, seen, stack = set(), set(), [t]
    while stack:
        x = stack.pop()
        if x.get_id() in seen:
            continue
        seen.add(x.get_id())
        if z3.is_app(x) and x.num_args() > 0 and x.decl().kind() == z3.Z3_OP_UNINTERPRETED:
            out.add(x.get_id())
        stack.extend(x.children())
    return out


def focus(ob, extra=()):
    """Drop every hypothesis that mentions an uninterpreted application (sqrt(..), acos(..), fmod quotient ...) that
    does not occur in the goal (or in `extra` terms).  Dropping hypotheses is sound."""
    allowed = _uf_atoms(ob.goal)
    for t in extra:
        allowed |= _uf_atoms(t)
    ob.hyps = [h for h in ob.hyps if _uf_atoms(h) <= allowed]
    return ob


def generalize(v, ob, terms, prefix="gen"):
    """Replace the given terms by fresh variables in goal and hypotheses (largest first).  Sound: the original
    obligation is an instance of the generalised one."""
    terms = sorted([z3.simplify(t) for t in terms] + list(terms), key=lambda t: -_tsize(t))
    sub, seen = [], set()
    for t in terms:
        if t.get_id() in seen or z3.is_rational_value(t):
            continue
        seen.add(t.get_id())
        sub.append((t, v.eng.fresh(prefix, z3.RealSort())))
    both = {}
    for t, x in sub:                     # a term and its simplified form get the same variable
        both.setdefault(z3.simplify(t).get_id(), x)
    sub = [(t, both[z3.simplify(t).get_id()]) for t, x in sub]
    ob.hyps = [z3.substitute(h, *sub) for h in ob.hyps]
    ob.goal = z3.substitute(ob.goal, *sub)
    return ob


def only(v, ob, hyps):
    """Use exactly the given hypotheses, each of which must literally be a hypothesis of the current path
    (checked structurally), i.e. a subset of the path hypotheses: sound."""
    ids = {h.get_id() for h in v.st.pc}
    for h in hyps:
        if h.get_id() not in ids:
            raise AssertionError("only(): not a path hypothesis: %s" % str(h)[:200])
    ob.hyps = list(hyps)
    return ob


def axioms_of(v, app):
    """Path hypotheses that talk about the uninterpreted application `app` (and applications nested in it) only."""
    i, inside = app.get_id(), _uf_atoms(app)
    out = []
    for h in v.st.pc:
        at = _uf_atoms(h)
        if i in at and at <= inside:
            out.append(h)
    return out


def acos_axioms(v, y):
    """The (guarded) axioms of the acos application y on this path: cos(y)=x, sin(y)>=0, sin^2+cos^2=1, 0<=y<=pi."""
    RR = z3.RealSort()
    allowed = _uf_atoms(y) | {v.eng.uf("cos", RR, RR)(y).get_id(), v.eng.uf("sin", RR, RR)(y).get_id()}
    return [h for h in v.st.pc if y.get_id() in _uf_atoms(h) and _uf_atoms(h) <= allowed]


def _tsize(t, cap=5000):
    seen, stack, n = set(), [t], 0
    while stack and n < cap:
        x = stack.pop()
        if x.get_id() in seen:
            continue
        seen.add(x.get_id())
        n += 1
        stack.extend(x.children())
    return n


def small_hyps(ob, K=60):
    """Keep only hypotheses of term size <= K (dropping hypotheses is sound)."""
    ob.hyps = [h for h in ob.hyps if _tsize(h) <= K]
    return ob


def no_hyps(ob):
    """Goal valid on its own (pure case analysis over the If-structure of the result)."""
    ob.hyps = []
    return ob


@P.task("from_particle.relations.core", fn="reb_orbit_from_particle_err", polyid_s=20)
def _(v):
    """Defining relations of d, v, a, h, hvec, evec, e, n, P, rhill (M&D 2.134-2.138; vis-viva; e = v x h/mu - r/|r|;
    Kepler III), for non-parabolic, non-error states."""
    G, p, prim, errp, d, w = _inverse_inputs(v)
    D = _no_error(v, G, p, prim, d)
    mu = G * (p.m + prim.m)
    v.assume(_dot(w, w) * D != 2 * mu)                                     # not parabolic
    v.eng.check_defined = False
    _use_acos2_contract(v)
    _acosh_by_contract(v)
    o = v.call("reb_orbit_from_particle_err", G, p, prim, errp)
    h = _cross(d, w)
    v.prove("d", z3.And(o.d * o.d == _dot(d, d), o.d >= 0), order=("z3",))
    v.prove("v", z3.And(o.v * o.v == _dot(w, w), o.v >= 0), order=("z3",))
    focus(v.prove("a.vis_viva", _dot(w, w) == mu * (2 / o.d - 1 / o.a), order=PZ))
    for k, c in enumerate("xyz"):
        v.prove("hvec." + c, getattr(o.hvec, c) == h[k], order=PZ)
    v.prove("h", z3.And(o.h * o.h == _dot(h, h), o.h >= 0), order=("z3",))
    ev = [_cross(w, h)[k] / mu - d[k] / o.d for k in range(3)]
    for k, c in enumerate("xyz"):
        focus(v.prove("evec." + c, getattr(o.evec, c) == ev[k], order=PZ))
    oe = (o.evec.x, o.evec.y, o.evec.z)
    v.prove("e", z3.And(o.e * o.e == _dot(oe, oe), o.e >= 0), order=("z3",))
    # energy-eccentricity relation: h^2 = mu a (1-e^2)  (M&D 2.26 with p = h^2/mu = a(1-e^2))
    focus(v.prove("e.semilatus", _dot(h, h) == mu * o.a * (1 - o.e * o.e), order=PZ))
    # Kepler III: n^2 |a|^3 = mu, n has the sign of a, n P = 2 pi
    cut(v, "mu_positive", mu > 0, order=DEF_ORDER)
    focus(v.prove("a_nonzero", o.a != 0, order=("z3",)))
    v.assume(o.a != 0)
    # o.n = sign(a) * y with y = sqrt(|mu/a^3|): first the sign-free facts, then the two cases
    ysq = _find_apps(o.n, "m_sqrt")
    ysq = [t for t in ysq if t.get_id() not in {x.get_id() for x in _find_apps(o.a, "m_sqrt")}]
    v.ground("n.one_sqrt", len(ysq) == 1, "expected one sqrt in o.n besides the distance, found %d" % len(ysq))
    yn = ysq[0]
    for nm, cond, sgn in (("bound", o.a > 0, 1), ("unbound", o.a < 0, -1)):
        c1 = z3.Implies(cond, o.n == sgn * yn)
        generalize(v, focus(v.prove("n.kepler3.%s.sign" % nm, c1, order=("z3",)), extra=[yn]), [yn, mu, o.a])
        v.assume(c1)
        c2 = z3.Implies(cond, yn * yn * o.a * o.a * o.a == sgn * mu)
        generalize(v, focus(v.prove("n.kepler3.%s.square" % nm, c2, order=("z3",)), extra=[yn]), [yn, mu, o.a])
        v.assume(c2)
        fact = z3.Implies(cond, z3.And(sgn * o.n > 0, o.n * o.n * o.a * o.a * o.a == sgn * mu))
        small_hyps(generalize(v, focus(v.prove("n.kepler3." + nm, fact, order=("z3",)), extra=[yn]), [yn, o.n, mu, o.a]), 40)
        v.assume(fact)
    generalize(v, focus(v.prove("P", o.n * o.P == R(PI2), order=("z3",))), [o.n, o.a])
    # Hill radius a (m/(3M))^(1/3)
    focus(v.prove("rhill", o.rhill * o.rhill * o.rhill * 3 * prim.m == o.a * o.a * o.a * p.m, order=PZ))


P.assume("parity of the trigonometric / hyperbolic functions, instantiated only for the angle y that acos2 / the "
         "hyperbolic branch negate: cos(-y)=cos(y), sin(-y)=-sin(y), cosh(-y)=cosh(y), sinh(-y)=-sinh(y)")
MIN_ECC = Fraction(1e-8)
HALF_PI = Fraction(_math.pi / 2.)


def _parity(v, y, hyperbolic=False):
    """Assume parity for y; returns the applications involved (for `focus`)."""
    E = v.eng
    RR = z3.RealSort()
    ny = z3.simplify(-y)
    if hyperbolic:
        sh, ch = E.uf("sinh", RR, RR), E.uf("cosh", RR, RR)
        v.assume(ch(ny) == ch(y), sh(ny) == -sh(y))
        return [ch(ny), ch(y), sh(ny), sh(y)]
    sn, cs = E.uf("sin", RR, RR), E.uf("cos", RR, RR)
    v.assume(cs(ny) == cs(y), sn(ny) == -sn(y))
    return [cs(ny), cs(y), sn(ny), sn(y)]


def _find_apps(term, name):
    out, seen, stack = [], set(), [term]
    while stack:
        x = stack.pop()
        if x.get_id() in seen:
            continue
        seen.add(x.get_id())
        if z3.is_app(x) and x.decl().name() == name:
            out.append(x)
        stack.extend(x.children())
    return out


for _orb in ("elliptic", "hyperbolic"):
    @P.task("from_particle.relations.angles.%s" % _orb, fn="reb_orbit_from_particle_err")
    def _(v, orb=_orb):
        """inclination from h, eccentric anomaly / Kepler's equation, and the defining sums of the longitudes
        (pomega = Omega +- omega, theta = Omega +- (omega + f), l = pomega +- M; lower signs for retrograde orbits)."""
        G, p, prim, errp, d, w = _inverse_inputs(v)
        # the particle belongs to a simulation: its time is the reference of the pericentre passage T
        simo, simp_ = v.struct_obj("struct reb_simulation", "sim_of_p")
        t_sim = v.real("t_sim")
        simo.t = t_sim
        p.sim = simp_
        D = _no_error(v, G, p, prim, d)
        mu = G * (p.m + prim.m)
        v.assume(_dot(w, w) * D != 2 * mu)                                     # not parabolic
        pi = _pi_facts(v)
        v.eng.check_defined = False
        calls = _use_acos2_contract(v)
        _acosh_by_contract(v)
        seen = _spy(v, "reb_mod2pi")
        o = v.call("reb_orbit_from_particle_err", G, p, prim, errp)
        v.assume((o.e < 1) if orb == "elliptic" else (o.e > 1))
        raw = dict(zip(("f", "l", "M", "theta", "omega"), [as_real(a[0]) for a in seen]))
        RR = z3.RealSort()
        cosf, sinf = v.eng.uf("cos", RR, RR), v.eng.uf("sin", RR, RR)
        # --- inclination: cos(inc) = hz/h
        hz, hh = calls[0][0], calls[0][1]
        c = hz / hh
        yi = _find_apps(calls[0][3], "m_acos")
        ex = [f(y) for y in yi for f in (cosf, sinf)]
        focus(v.prove("inc.cos", z3.Implies(z3.And(hh != 0, c > -1, c < 1), cosf(z3.simplify(o.inc)) == c), order=("z3",)), extra=ex)
        focus(v.prove("inc.clamped", z3.And(z3.Implies(z3.And(hh != 0, c >= 1), o.inc == 0),
                                            z3.Implies(z3.And(hh != 0, c <= -1), o.inc == R(PI))), order=("z3",)))
        # --- reported angles are the reductions of the raw ones
        for k in ("f", "l", "M", "theta", "omega"):
            v.prove("reduced." + k, z3.IsInt((o[k] - raw[k]) / R(PI2)))
        # --- defining sums, exact on the unreduced values
        pro = o.inc < R(HALF_PI)
        sgn = z3.If(pro, R(1), R(-1))
        SL = ("z3slice", "z3", "cvc5")
        rets = [c_[3] for c_ in calls] + [o.inc, o.e, raw["M"]]
        for nm, fact in (("pomega", o.pomega == o.Omega + sgn * raw["omega"]),
                         ("theta", raw["theta"] == o.Omega + sgn * (raw["omega"] + raw["f"])),
                         ("l", z3.Implies(o.e > R(MIN_ECC), raw["l"] == o.pomega + sgn * raw["M"]))):
            generalize(v, no_hyps(v.prove(nm, fact, order=("z3",))), rets)
        # --- time of pericentre passage: M = |n| (t - T) with the UNREDUCED mean anomaly, for bound and unbound orbits alike
        # (t is the time of the simulation the particle belongs to; |n| because n carries the sign of a)
        absn = z3.If(o.n >= 0, o.n, -o.n)
        for nm_, cond_, sg_ in (("mean_motion_positive", o.n > 0, 1), ("mean_motion_negative", o.n < 0, -1)):
            # generalised over the atoms o.n is built from (n = a/|a| * sqrt(|mu/a^3|)), so that |n| inside T is rewritten consistently
            ysq_ = [t_ for t_ in _find_apps(o.n, "m_sqrt") if t_.get_id() not in {x_.get_id() for x_ in _find_apps(o.a, "m_sqrt")}]
            generalize(v, no_hyps(v.prove("T.pericentre_passage." + nm_, z3.Implies(cond_, sg_ * o.n * (t_sim - o.T) == raw["M"]),
                                          order=("z3",))), [raw["M"], t_sim] + ysq_[:1] + [o.a])
        # --- eccentric anomaly and Kepler's equation
        cut(v, "a_nonzero", o.a != 0, order=("z3",))
        focus(v.eng.obligations[-1])
        num, den, dis, Eret = calls[2]
        if orb == "elliptic":
            ys = _find_apps(Eret, "m_acos")
            ex = []
            for y in ys:
                ex += _parity(v, y)
            E_ = z3.simplify(Eret)
            cE, sE = cosf(E_), sinf(E_)
            inner = z3.And(den != 0, num / den > -1, num / den < 1)
            focus(v.prove("kepler.equation", raw["M"] == Eret - o.e * sE, order=("z3",)))
            # definition of the eccentric anomaly d = a (1 - e cos E), solved for cos E (a, e != 0):
            # cos E = num/den at the call site, and the call-site arguments are (1 - d/a) and e
            small_hyps(generalize(v, focus(v.prove("kepler.ecc_anomaly", z3.Implies(inner, cE == num / den),
                                                   order=("z3",)), extra=ex), [num / den, ys[0].arg(0), dis, o.e]), 30)
            v.prove("kepler.ecc_anomaly.args", z3.And(num == 1 - o.d / o.a, den == o.e), order=("z3",))
            generalize(v, focus(v.prove("kepler.branch", z3.Implies(inner, z3.If(dis < 0, sE <= 0, sE >= 0)), order=("z3",)),
                                extra=ex), [o.a, o.d, o.e, dis])
        else:
            ys = [t for t in _find_apps(raw["M"], "m_acosh")]
            v.ground("one_acosh", len(ys) == 1, "expected exactly one acosh application, found %d" % len(ys))
            y = ys[0]
            ex = _parity(v, y, hyperbolic=True)
            x = y.arg(0)
            vr = dis
            Eh = z3.If(vr < 0, -y, y)
            sh, ch = v.eng.uf("sinh", RR, RR), v.eng.uf("cosh", RR, RR)
            sE, cE = z3.If(vr < 0, sh(z3.simplify(-y)), sh(y)), z3.If(vr < 0, ch(z3.simplify(-y)), ch(y))
            focus(v.prove("kepler.equation", raw["M"] == o.e * sE - Eh, order=("z3",)), extra=ex)
            # definition of the hyperbolic eccentric anomaly d = a (1 - e cosh E), solved for cosh E
            small_hyps(generalize(v, focus(v.prove("kepler.ecc_anomaly", z3.Implies(x >= 1, cE == x),
                                                   order=("z3",)), extra=ex), [x, vr, o.e]), 30)
            v.prove("kepler.ecc_anomaly.args", x == (1 - o.d / o.a) / o.e, order=("z3",))
            generalize(v, focus(v.prove("kepler.branch", z3.Implies(x >= 1, z3.If(vr < 0, sE <= 0, sE >= 0)), order=("z3",)),
                                extra=ex), [o.a, o.d, o.e, vr])

P.not_decided.append("reb_orbit_from_particle_err, near-circular orbits (e <= MIN_ECC = 1e-8): l = theta -+ 2 e sin f is a "
                     "first-order approximation by design (M&D 2.93); l = pomega +- M is only claimed for e > MIN_ECC")


# ============================================================================ round trip  elements -> particle -> elements
def _forward_contract_facts(mu, a, e, trig, d, w, Hs):
    """Postconditions of reb_particle_from_orbit_err as proved by tasks from_orbit.relations.{bound,unbound}
    (clauses r_positive, semilatus_positive, distance, vis_viva, h.x/y/z, ecc_vector.x/y/z), restated for a particle
    at relative position d and velocity w."""
    (sO, cO), (si, ci), (so, co), (sf, cf) = trig
    r = a * (1 - e * e) / (1 + e * cf)
    h = _cross(d, w)
    nhat = (si * sO, -si * cO, ci)
    peri = _rot_zxz((1, 0, 0), sO, cO, si, ci, so, co)
    vxh = _cross(w, h)
    facts = [a * (1 - e * e) > 0, r > 0, _dot(d, d) == r * r, _dot(w, w) == mu * (2 / r - 1 / a)]
    facts += [h[k] == Hs * nhat[k] for k in range(3)]
    facts += [vxh[k] * r - mu * d[k] == mu * r * e * peri[k] for k in range(3)]
    return r, h, nhat, peri, facts


for _branch in ("bound", "unbound"):
    @P.task("roundtrip.classical.%s" % _branch, fn="reb_orbit_from_particle_err", polyid_s=20)
    def _(v, branch=_branch):
        """Modular round trip: a particle that satisfies the (proved) postconditions of reb_particle_from_orbit_err for
        elements (a, e, inc, Omega, omega, f) is read back by reb_orbit_from_particle_err with the same a, e, |h|,
        cos(inc) and (cos, sin) of Omega."""
        G, p, prim, errp, d, w = _inverse_inputs(v)
        a, e = v.real("a"), v.real("e")
        inc, Om, om, f = v.real("inc"), v.real("Omega"), v.real("omega"), v.real("f")
        E = v.eng
        trig = [E.trig_pair(x) for x in (Om, inc, om, f)]
        (sO, cO), (si, ci), (so, co), (sf, cf) = trig
        for s_, c_ in trig:
            v.assume(s_ * s_ + c_ * c_ == 1)
        mu = G * (p.m + prim.m)
        v.assume(G > 0, p.m >= 0, prim.m > R(TINY), e >= 0, e != 1)
        v.assume(*((e < 1, a > 0) if branch == "bound" else (e > 1, a < 0)))
        v.assume(e * cf > -1)
        Hs = E.math1(v.st, "sqrt", mu * a * (1 - e * e))
        r, h, nhat, peri, facts = _forward_contract_facts(mu, a, e, trig, d, w, Hs)
        v.assume(*facts)
        v.assume(r > R(TINY))                    # else the inverse map rejects the particle (error 2: on top of primary)
        v.eng.check_defined = False
        calls = _use_acos2_contract(v)
        _acosh_by_contract(v)
        o = v.call("reb_orbit_from_particle_err", G, p, prim, errp)
        from engine.csym import const_int
        if const_int(v.read(errp)) != 0:
            v.prove("accepted", z3.BoolVal(False), order=DEF_ORDER)     # an error path must be infeasible
            return
        RR = z3.RealSort()
        cosf, sinf = E.uf("cos", RR, RR), E.uf("sin", RR, RR)
        fr_pos, f_rpos, f_dist, f_visviva = facts[0], facts[1], facts[2], facts[3]
        f_h, f_ecc = facts[4:7], facts[7:10]
        trig_id = {nm: s_ * s_ + c_ * c_ == 1 for nm, (s_, c_) in zip(("Omega", "inc", "omega", "f"), trig)}

        def hyp(x):          # the path hypothesis structurally equal to x (assumed above)
            for h_ in v.st.pc:
                if h_.eq(x):
                    return h_
            raise AssertionError("not assumed: %s" % str(x)[:100])
        # distance
        generalize(v, only(v, v.prove("d_is_r", o.d == r, order=("z3",)), axioms_of(v, o.d) + [hyp(f_rpos), hyp(f_dist)]),
                   [r, _dot(d, d)])
        v.assume(o.d == r)
        d_is_r = v.st.pc[-1]
        # semi-major axis
        only(v, v.prove("a", o.a == a, order=PZ), [hyp(f_visviva), d_is_r])
        v.assume(o.a == a)
        # eccentricity vector and eccentricity
        oe = (o.evec.x, o.evec.y, o.evec.z)
        ev_facts = []
        for k, c in enumerate("xyz"):
            only(v, v.prove("evec." + c, oe[k] == e * peri[k], order=PZ), [hyp(f_ecc[k]), d_is_r])
            v.assume(oe[k] == e * peri[k])
            ev_facts.append(v.st.pc[-1])
        generalize(v, only(v, v.prove("evec_norm", _dot(oe, oe) == e * e, order=PZ),
                           ev_facts + [hyp(trig_id[k_]) for k_ in ("Omega", "inc", "omega")]), list(oe))
        v.assume(_dot(oe, oe) == e * e)
        evn = v.st.pc[-1]
        only(v, v.prove("e_def", z3.And(o.e * o.e == _dot(oe, oe), o.e >= 0), order=("z3",)), axioms_of(v, o.e))
        v.assume(o.e * o.e == _dot(oe, oe), o.e >= 0)
        generalize(v, only(v, v.prove("e", o.e == e, order=("z3",)), [v.st.pc[-2], v.st.pc[-1], evn, hyp(e >= 0)]),
                   [o.e, _dot(oe, oe)])
        v.assume(o.e == e)
        # angular momentum
        only(v, v.prove("h_sq", o.h * o.h == Hs * Hs, order=PZ),
             axioms_of(v, o.h) + [hyp(x) for x in f_h] + [hyp(trig_id[k_]) for k_ in ("Omega", "inc")])
        v.assume(o.h * o.h == Hs * Hs)
        generalize(v, only(v, v.prove("h", o.h == Hs, order=("z3",)), axioms_of(v, o.h) + axioms_of(v, Hs) + [v.st.pc[-1]]),
                   [o.h, Hs, _dot(h, h)])
        v.assume(o.h == Hs)
        h_is_Hs = v.st.pc[-1]
        mu_pos = [hyp(G > 0), hyp(p.m >= 0), hyp(prim.m > R(TINY))]
        only(v, v.prove("h_positive", Hs > 0, order=("z3",)), axioms_of(v, Hs) + [hyp(fr_pos)] + mu_pos)
        v.assume(Hs > 0)
        Hs_pos = v.st.pc[-1]
        # --- inclination: cos(o.inc) = cos(inc); o.inc in [0, pi] is from_particle.ranges
        hz, hh, _dis, inc_ret = calls[0]
        generalize(v, only(v, v.prove("inc.cosine_arg", hz / hh == ci, order=("z3",)), [hyp(f_h[2]), h_is_Hs, Hs_pos]), [Hs])
        v.assume(hz / hh == ci)
        carg = v.st.pc[-1]
        yi = _find_apps(inc_ret, "m_acos")
        ax = [h_ for y in yi for h_ in acos_axioms(v, y)]
        gens = [hz / hh] + [y.arg(0) for y in yi] + [hh]
        generalize(v, only(v, v.prove("inc.cos", z3.Implies(z3.And(ci > -1, ci < 1), cosf(z3.simplify(inc_ret)) == ci),
                                      order=("z3",)), ax + [carg, Hs_pos, h_is_Hs]), gens)
        generalize(v, only(v, v.prove("inc.poles", z3.And(z3.Implies(ci >= 1, o.inc == 0), z3.Implies(ci <= -1, o.inc == R(PI))),
                                      order=("z3",)), ax + [carg, Hs_pos, h_is_Hs]), gens)
        # --- ascending node, for sin(inc) > 0 (inc in (0, pi); for sin(inc) < 0 the node is reported at Omega + pi)
        nx, nn, ny, Om_ret = calls[1]
        sipos = si > 0
        only(v, v.prove("node.nx", nx == Hs * si * cO, order=PZ), [hyp(f_h[1])])
        only(v, v.prove("node.ny", ny == Hs * si * sO, order=PZ), [hyp(f_h[0])])
        v.assume(nx == Hs * si * cO, ny == Hs * si * sO)
        nxy = [v.st.pc[-2], v.st.pc[-1]]
        only(v, v.prove("node.n_sq", nn * nn == Hs * Hs * si * si, order=PZ), axioms_of(v, nn) + nxy + [hyp(trig_id["Omega"])])
        v.assume(nn * nn == Hs * Hs * si * si)
        generalize(v, only(v, v.prove("node.n", z3.Implies(sipos, nn == Hs * si), order=("z3",)),
                           [h_ for h_ in axioms_of(v, nn) if not z3.is_eq(h_)] + [v.st.pc[-1], Hs_pos]), [nn, Hs])
        v.assume(z3.Implies(sipos, nn == Hs * si))
        nfact = v.st.pc[-1]
        generalize(v, only(v, v.prove("node.cosine_arg", z3.Implies(sipos, nx / nn == cO), order=("z3",)),
                           [nxy[0], v.st.pc[-1], Hs_pos]), [nx, nn, Hs])
        v.assume(z3.Implies(sipos, nx / nn == cO))
        narg = v.st.pc[-1]
        generalize(v, only(v, v.prove("node.disambiguator", z3.Implies(sipos, (ny < 0) == (sO < 0)), order=("z3",)),
                           [nxy[1], Hs_pos]), [ny, Hs])
        v.assume(z3.Implies(sipos, (ny < 0) == (sO < 0)))
        ndis = v.st.pc[-1]
        yo = _find_apps(Om_ret, "m_acos")
        ax = [h_ for y in yo for h_ in acos_axioms(v, y)]
        npar = len(v.st.pc)
        for y in yo:
            _parity(v, y)
        par = v.st.pc[npar:]
        O_ = z3.simplify(Om_ret)
        gens = [nx / nn] + [y.arg(0) for y in yo] + [nn, ny]
        interior = z3.And(sipos, cO > -1, cO < 1)
        generalize(v, only(v, v.prove("node.cos", z3.Implies(interior, cosf(O_) == cO), order=("z3",)),
                           ax + par + [narg, ndis, nfact, Hs_pos]), gens)
        generalize(v, only(v, v.prove("node.sin", z3.Implies(interior, sinf(O_) == sO), order=("z3",)),
                           ax + par + [narg, ndis, nfact, Hs_pos, hyp(trig_id["Omega"])]), gens)

P.not_decided.append("round trip of omega, f (and M, l, theta) through reb_particle_from_orbit_err -> reb_orbit_from_particle_err: "
                     "needs the addition theorems for omega+f and the inverse of Kepler's equation; only a, e, |h|, cos(inc), "
                     "(cos,sin)(Omega) are proved to be read back (plus the defining relations of the other elements on the "
                     "inverse map alone)")
