"""C09 (deferred synchronisation never changes the physics): with safe_mode = 0 WHFast / SABA keep the Jacobi /
heliocentric coordinates p_jh between steps and only recompute them from the inertial particles when told to.  Any change
of the number of particles (add, remove, merge) invalidates that cache: index i of p_jh no longer belongs to particle i.
Contract on the real reb_integrator_whfast_init (called at the start of every WHFast and SABA step):

    returns 0  =>  ri_whfast.N_allocated' == N
                   and  (N_allocated != N  =>  recalculate_coordinates_this_timestep' == 1)      for growth AND shrinkage
                   and  (N_allocated == N  =>  recalculate_coordinates_this_timestep unchanged)

The same task is registered for C01 and C03 (a stale cache makes the next step propagate the wrong body: order 0)."""
import z3
from engine.api import Pack, Task

FILES = ["src/integrator_whfast.c"]
FN = "reb_integrator_whfast_init"


def task(v):
    r, rp = v.struct_obj("struct reb_simulation", "r")
    N, N_old = v.int("N"), v.int("N_allocated")
    v.assume(N >= 1, N_old >= 0)        # N == 0: realloc(p, 0) is implementation-defined (heap model: no claim)
    r.N, r.N_var_config = N, 0
    w = r.ri_whfast
    w.N_allocated = N_old
    flag0 = v.int("recalculate_coordinates_this_timestep")
    w.recalculate_coordinates_this_timestep = flag0
    # any option combination the function accepts or rejects: symbolic
    w.kernel, w.coordinates = v.int("kernel"), v.int("coordinates")
    w.corrector, w.corrector2 = v.int("corrector"), v.int("corrector2")
    w.keep_unsynchronized, w.safe_mode = v.int("keep_unsynchronized"), v.int("safe_mode")
    old = v.array("struct reb_particle", N_old, "PJ_old")
    w.p_jh = old.ptr
    v.eng.havoc_calls |= {"reb_simulation_error", "reb_simulation_warning"}
    ret = v.call(FN, rp)
    w = r.ri_whfast          # (views are bound to the state they were taken in: take a fresh one after the call)
    v.prove("accepted.cache_sized_for_N", z3.Implies(ret == 0, w.N_allocated == N))
    v.prove("accepted.cache_invalidated_when_N_changed", z3.Implies(z3.And(ret == 0, N_old != N), w.recalculate_coordinates_this_timestep == 1))
    v.prove("accepted.flag_untouched_when_N_unchanged", z3.Implies(z3.And(ret == 0, N_old == N), w.recalculate_coordinates_this_timestep == flag0))


def make(prop, why):
    P = Pack(prop, FILES, why)
    P.tasks.append(Task(P, "whfast_init.cache_follows_N", FN, task, files=FILES))
    return P


PACKS = [make("C09", "cached coordinates are rebuilt whenever the number of particles changed")]
