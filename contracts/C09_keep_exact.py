"""C09 x C08: a synchronisation that `keep_unsynchronized = 1` turns into an output-only synchronisation leaves the integrator
in its unsynchronised state (is_synchronized stays 0: the half drift of the last step is still pending, measured in the OLD
step length).  The exit logic of reb_simulation_integrate shortens the last step to hit tmax exactly
(reb_check_exit: `reb_simulation_synchronize(r); r->dt = tmax - r->t;`).  The step length may only change in a synchronised
state -- otherwise the pending half drift is executed with the new length.

Contract on the real reb_check_exit with reb_simulation_synchronize through the contract
    ri_whfast.is_synchronized' = (keep_unsynchronized ? is_synchronized : 1)                (proved at word level in C09_sync):
    on every return with r->dt changed, ri_whfast.is_synchronized == 1.

EXPECTED TO FAIL for keep_unsynchronized == 1 with a pending half step (known finding, natively reproduced by
tools/repro/C09_saba_keep_unsynchronized_exact_finish.py: WHFast / SABA, safe_mode 0, keep_unsynchronized 1,
integrate(5.32) with dt 0.05: x differs by 1.2e-2 / 9e-4 from the run with keep_unsynchronized 0)."""
import z3
from engine.api import Pack
from engine.csym import as_int
from engine.mem import Ptr
from contracts import C08_integrate as I

P = Pack("C09", I.P.files, "the step length changes only in a synchronised state")
PACKS = [P]
P.assume("keep/exact task: reb_simulation_synchronize for WHFast sets is_synchronized := 1 unless keep_unsynchronized != 0, in "
         "which case it leaves is_synchronized and the cached coordinates as they were (C09_sync: keep_unsynchronized.restores)")


@P.task("exact_finish.step_length_changes_only_when_synchronised", fn=I.CHECK)
def _(v):
    s = I.check_setup(v)
    r, rp = s.r, s.rp
    r.integrator = v.enumc("REB_INTEGRATOR_WHFAST")
    keep, sync0 = v.int("keep_unsynchronized"), v.int("is_synchronized")
    v.eng.write(v.st, Ptr(rp.obj, ("ri_whfast", "keep_unsynchronized")), keep)
    v.eng.write(v.st, Ptr(rp.obj, ("ri_whfast", "is_synchronized")), sync0)
    v.assume(z3.Or(keep == 0, keep == 1), z3.Or(sync0 == 0, sync0 == 1))

    def synchronize(eng, st, args, n):
        p = Ptr(rp.obj, ("ri_whfast", "is_synchronized"))
        cur = as_int(eng.read(st, p))
        k = as_int(eng.read(st, Ptr(rp.obj, ("ri_whfast", "keep_unsynchronized"))))
        eng.write(st, p, z3.If(k != 0, cur, z3.IntVal(1)))
        return None
    v.contract("reb_simulation_synchronize", synchronize)
    v.assume(s.status == s.E(I.RUNNING), s.N > 0, s.dt != 0)
    v.call(I.CHECK, rp, s.tmax, s.lfdp)
    synced = as_int(v.eng.read(v.st, Ptr(rp.obj, ("ri_whfast", "is_synchronized")))) == 1
    # split by the input the known finding is about, so that the finding cannot hide a different violation of the same rule
    v.prove("dt_changed_implies_synchronised.keep_unsynchronized_0", z3.Implies(z3.And(keep == 0, r.dt != s.dt), synced))
    v.prove("dt_changed_implies_synchronised.keep_unsynchronized_1", z3.Implies(z3.And(keep == 1, r.dt != s.dt), synced))


def sync_only_for_exact_finish(v):
    """reb_check_exit runs between two steps of every integration loop (also while a GUI / server client pauses the run).  It may
    synchronise only as part of shortening the last step (exact finish): a synchronisation at any other step boundary -- e.g. when
    a client pauses and resumes -- splits a combined drift of an unsynchronised integrator in two and changes the trajectory at
    rounding level, i.e. the result would depend on whether a request was served."""
    s = I.mk(v)                      # any status, including PAUSED / SCREENSHOT (the waiting loop: invariant of C08)
    s.lfd0 = v.real("last_full_dt")
    s.lfd, s.lfdp = v.cell("double", "last_full_dt", s.lfd0)
    v.assume(s.tmax != I.INF, s.status >= -10, s.status <= 7)
    r, rp = s.r, s.rp

    def synchronize(eng, st, args, n):
        st.trace = st.trace + [("synchronize",)]
        return None
    v.contract("reb_simulation_synchronize", synchronize)
    v.assume(s.N > 0, s.dt != 0)
    v.call(I.CHECK, rp, s.tmax, s.lfdp)
    n_sync = len([t for t in v.st.trace if t[0] == "synchronize"])
    v.ground("at_most_one_synchronisation", n_sync <= 1, "synchronize calls on this path: %d" % n_sync)
    if n_sync:
        v.prove("synchronises_only_to_shorten_the_last_step", z3.And(r.dt == s.tmax - s.t, s.exact == 1))


from engine.api import Task
P.tasks.append(Task(P, "check_exit.synchronises_only_for_exact_finish", I.CHECK, sync_only_for_exact_finish))
