"""C06 (Python layer): Simulation.save_to_file(filename, interval|walltime|step, delete_file=True) starts a FRESH archive.  The C
registration functions (reb_simulation_save_to_file_interval / _walltime / _step) re-arm the schedule -- so that the first
snapshot is the state at registration -- only when the cadence they are given differs from the one stored in the simulation
(C06 cadence tasks); the Python method therefore clears the three stored cadences before it registers.  That must not depend
on the state of the file system: with the same cadence as an earlier registration and a file that does not exist yet (new
name, or removed by the user) the archive would otherwise start with the NEXT scheduled snapshot and its first snapshot
would not be the state the simulation had when the archive was requested.

Contract, decided by running the real method body (compiled from its own AST node of rebound/simulation.py) on recording stubs
over the whole finite decision domain  delete_file x file exists x which of interval / walltime / step is given (None, 0, value):

  * exactly one cadence given and truthy: exactly one registration call, the matching one, with (self, filename, value);
    delete_file  => all three stored cadences are 0 at the time of that call, whether or not the file existed;
    !delete_file => the stored cadences are not written by the method;
  * no cadence given: exactly one immediate reb_simulation_save_to_file(self, filename), the stored cadences are not written;
  * more than one: AttributeError before any call into C;
  * the file is removed iff delete_file and it exists, and before any call into C."""
import ast
import itertools
import os
from engine.api import Pack

P = Pack("C06", [], "save_to_file(delete_file=True) always starts a fresh archive schedule")
PACKS = [P]
P.trust("Python statement execution: the method body is compiled from its own AST node and run by CPython on stubs that record "
        "attribute writes on self, calls into clibrebound and os.remove (exhaustive over 2 x 2 x 3^3 argument combinations)")
REPO = os.environ.get("VERIF_REPO", "/repo")
AUTO = ("simulationarchive_auto_interval", "simulationarchive_auto_walltime", "simulationarchive_auto_step")
REG = {"interval": "reb_simulation_save_to_file_interval", "walltime": "reb_simulation_save_to_file_walltime", "step": "reb_simulation_save_to_file_step"}


class _Self:
    def __init__(self, log):
        object.__setattr__(self, "_log", log)
        for a in AUTO:
            object.__setattr__(self, a, 7)      # an earlier registration with some cadence

    def __setattr__(self, k, val):
        self._log.append(("set", k, val))
        object.__setattr__(self, k, val)

    def process_messages(self):
        self._log.append(("process_messages",))


class _Clib:
    def __init__(self, log, me):
        self._log, self._me = log, me

    def __getattr__(self, name):
        def call(*args):
            self._log.append(("c", name, args, tuple(getattr(self._me, a) for a in AUTO)))
        return call


class _NS(dict):
    def __missing__(self, k):
        if k in __builtins__ if isinstance(__builtins__, dict) else hasattr(__builtins__, k):
            return (__builtins__[k] if isinstance(__builtins__, dict) else getattr(__builtins__, k))
        return lambda *a: a[0] if len(a) == 1 else a       # byref / c_char_p / c_double / c_uint64: transparent


@P.task("python.save_to_file.delete_file_starts_a_fresh_schedule")
def _(v):
    src = open(os.path.join(REPO, "rebound", "simulation.py")).read()
    mod = ast.parse(src)
    cls = next((n for n in mod.body if isinstance(n, ast.ClassDef) and n.name == "Simulation"), None)
    fn = next((n for n in (cls.body if cls else []) if isinstance(n, ast.FunctionDef) and n.name == "save_to_file"), None)
    v.ground("save_to_file_found", fn is not None, "")
    if fn is None:
        return
    want_args = ["self", "filename", "interval", "walltime", "step", "delete_file"]
    v.ground("signature", [a.arg for a in fn.args.args] == want_args, str([a.arg for a in fn.args.args]))
    fn.decorator_list = []
    code = compile(ast.Module([fn], []), "<Simulation.save_to_file>", "exec")
    bad = {k: [] for k in ("one_registration_with_the_given_cadence", "delete_file_clears_stored_cadences_before_registration",
                           "without_delete_file_stored_cadences_untouched", "immediate_save", "more_than_one_cadence_is_an_error",
                           "file_removed_iff_delete_file_and_exists_before_any_c_call")}
    n = 0
    for delete_file, exists in itertools.product((False, True), repeat=2):
        for vals in itertools.product((None, 0, 3), repeat=3):
            n += 1
            log = []
            me = _Self(log)

            class _Path:
                @staticmethod
                def isfile(f):
                    return exists

                @staticmethod
                def exists(f):
                    return exists

            class _Os:
                path = _Path

                @staticmethod
                def remove(f):
                    log.append(("remove", f))

                unlink = remove
            ns = _NS(os=_Os, clibrebound=_Clib(log, me))
            exec(code, ns)
            case = (delete_file, exists) + vals
            try:
                ns["save_to_file"](me, "f.bin", vals[0], vals[1], vals[2], delete_file)
                err = None
            except AttributeError as ex:
                err = ex
            except Exception as ex:              # the body needs something the stubs do not model
                bad["one_registration_with_the_given_cadence"].append((case, "%s: %s" % (type(ex).__name__, ex)))
                continue
            calls = [e for e in log if e[0] == "c"]
            sets = [e for e in log if e[0] == "set" and e[1] in AUTO]
            given = [k for k, x in zip(("interval", "walltime", "step"), vals) if x is not None]
            rm = [i for i, e in enumerate(log) if e[0] == "remove"]
            firstc = min([i for i, e in enumerate(log) if e[0] == "c"], default=len(log))
            if (len(rm) == 1) != (delete_file and exists) or len(rm) > 1 or any(i > firstc for i in rm):
                bad["file_removed_iff_delete_file_and_exists_before_any_c_call"].append((case, log[:4]))
            if len(given) > 1:
                if err is None or calls:
                    bad["more_than_one_cadence_is_an_error"].append((case, calls[:2]))
                continue
            if err is not None:
                bad["more_than_one_cadence_is_an_error"].append((case, "unexpected AttributeError: %s" % err))
                continue
            if not given:
                if [c[1] for c in calls] != ["reb_simulation_save_to_file"] or calls[0][2] != (me, b"f.bin") or sets:
                    bad["immediate_save"].append((case, calls[:2], sets[:2]))
                continue
            k = given[0]
            val = vals[("interval", "walltime", "step").index(k)]
            if val:
                if [c[1] for c in calls] != [REG[k]] or calls[0][2] != (me, b"f.bin", val):
                    bad["one_registration_with_the_given_cadence"].append((case, [(c[1], c[2][1:]) for c in calls][:3]))
                    continue
                if delete_file and calls[0][3] != (0, 0, 0):
                    bad["delete_file_clears_stored_cadences_before_registration"].append((case, "stored cadences at the call: %s" % (calls[0][3],)))
            elif calls:
                bad["one_registration_with_the_given_cadence"].append((case, [(c[1], c[2][1:]) for c in calls][:3]))
            if not delete_file and sets:
                bad["without_delete_file_stored_cadences_untouched"].append((case, sets[:2]))
    v.ground("domain_covered", n == 108, str(n))
    for k, w in bad.items():
        v.ground(k, not w, "wrong for (delete_file, file exists, interval, walltime, step): %s" % (w[:3],))
