"""C13 (shared lemma): the tree collision search prunes cells with r->max_radius0/1; a restored or copied simulation finds the
same collisions only if those members (and every other persisted member) come back from the stream.  The descriptor-table
contract of C05 (every descriptor's offset is the offset of the member it names) and the loader fix-up frame are
re-registered here."""
from engine.api import Pack, Task
from contracts import C05_table as T

P = Pack("C13", T.P.files, "collision search state survives save / load / copy (shared with C05)")
PACKS = [P]
P.assumptions += ["shared with C05: " + a for a in T.P.assumptions]
for t in T.P.tasks:
    P.tasks.append(Task(P, "restored_state." + t.name, t.fn, t.func, files=t.files or T.P.files, timeout=t.timeout, replay=t.replay))
