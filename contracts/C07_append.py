"""C07 / C06 (append protocol): reb_simulation_save_to_file, existing-file branch.

Whatever state the file is in (complete, or cut anywhere: symbolic length, nondeterministic short reads), when the function
appends it writes, in this order:
  1. the previous trailer IN PLACE: at 12 bytes before the append position, with `index` and `offset_prev` equal to what
     is on disk at that position and offset_next = size_diff + sizeof(header)          (so earlier snapshots stay chained)
  2. the delta (size_diff bytes) at the append position
  3. an END header (type END, size 0)
  4. the new trailer: index+1, offset_prev = size_diff + sizeof(header), offset_next = 0
Together with the reader's acceptance test (C07_archive_open: offset_prev + sizeof(trailer) == blob length) the appended blob
is accepted and every previously accepted blob still is.
"""
import z3
from engine.api import Pack
from engine import layout, cfront
from engine.csym import Contract, as_int, const_int, Unsupported, simp
from engine.mem import Ptr, Opaque, StructObj, Cell, ArrObj
from contracts.C07_archive_open import _replay_ownership

P = Pack("C07", ["src/simulationarchive.c", "src/output.c", "src/binarydiff.c"], "append protocol of reb_simulation_save_to_file")
PACKS = [P]
P.assume("fopen of an existing file in r+b mode succeeds (the code does not check it)")
P.assume("reb_simulation_save_to_stream / reb_binary_diff are used through their contracts (C05 writer.spec, C06 delta stream): they "
         "return buffers of some size >= 0")
P.not_decided += ["content equality of the appended delta with the live state (C06)", "int32 truncation of size_diff for deltas > 2 GiB"]

HDR, TRL = 16, 12


@P.task("append.trailer_protocol", fn="reb_simulation_save_to_file", timeout=1200, replay=_replay_ownership)
def _(v):
    eng = v.eng
    eng.fseek_regular_file = True          # the archive is a regular file opened with fopen
    tu = eng.tu0
    rows = layout.descriptor_table(cfront.REPO)
    ids = {name: typ for (typ, dt, name, off, offN, esz) in rows}
    END = ids["end"]
    r, rp = v.struct_obj("struct reb_simulation", "r")
    r.simulationarchive_version = 3
    fname = Opaque("str", '"archive.bin"')
    thefile = {}

    def fopen(e, st, args, n):
        p = e.new_file(st, "arch")
        thefile["id"] = p.obj
        st.assume(st.mem.get(p.obj).size >= 0)
        return p
    eng.contracts["fopen"] = Contract("fopen", fopen)

    def stat(e, st, args, n):
        return z3.IntVal(0)          # file exists: append branch
    eng.contracts["stat"] = Contract("stat", stat)

    def for_name(e, st, args, n):
        lit = (args[0].tag or "").strip('"')
        s = StructObj(e.ctype("struct reb_binary_field_descriptor"), {})
        s.fields["type"] = z3.IntVal(ids[lit])
        s.fields["dtype"] = e.fresh("dtype", z3.IntSort())
        s.fields["name"] = Opaque("fdname", tag=z3.IntVal(ids[lit]))
        return s
    eng.contracts["reb_binary_field_descriptor_for_name"] = Contract("for_name", for_name)
    size_new, size_diff = v.int("size_new"), v.int("size_diff")
    v.assume(size_new >= 64, size_diff >= 0)

    def save_to_stream(e, st, args, n):
        blk = e.new_raw_block(st, size_new, name="buf_new")
        e.write(st, args[1], blk, n)
        e.write(st, args[2], size_new, n)
        return None

    def binary_diff(e, st, args, n):
        blk = e.new_raw_block(st, size_diff, name="buf_diff")
        e.write(st, args[4], blk, n)
        e.write(st, args[5], size_diff, n)
        return z3.IntVal(1)
    eng.contracts["reb_simulation_save_to_stream"] = Contract("sts", save_to_stream)
    eng.contracts["reb_binary_diff"] = Contract("bd", binary_diff)
    # warnings / errors are recorded: a call that saves nothing must tell the user so
    def report(e, st, args, n):
        m = args[1]
        st.trace = st.trace + [("report", str(getattr(m, "tag", m))[:120])]
        return None
    eng.contracts["reb_simulation_warning"] = Contract("warning", report)
    eng.contracts["reb_simulation_error"] = Contract("error", report)

    def recovery_inv(L):
        # the recovery walk only ever records positions behind a completely read trailer
        fsz = L.st.mem.get(thefile["id"]).size
        return [("last_blob_inside_file", z3.And(L.last_blob >= TRL, L.last_blob <= fsz))]
    for (o, info) in v.loops_of("reb_simulation_save_to_file"):
        if "last_blob" in info["names"]:
            v.loop("reb_simulation_save_to_file", o, invariant=recovery_inv)
        else:
            v.loop("reb_simulation_save_to_file", o, invariant=lambda L: [("true", z3.BoolVal(True))])
    v.call("reb_simulation_save_to_file", rp, fname)
    writes = [t for t in v.st.trace if t[0] == "fwrite"]
    if not writes:
        # refused to append (recovery failed): nothing may have been written at all -- and every call that returns without
        # appending a snapshot must have reported that no snapshot was saved (property C06: one snapshot per call)
        reports = [t for t in v.st.trace if t[0] == "report"]
        v.ground("refusal_writes_nothing", True, "")
        v.ground("every_call_appends_a_snapshot_or_reports_that_none_was_saved",
                 any("No snapshot has been saved" in t[1] for t in reports), "reports on this path: %s" % [t[1] for t in reports])
        return
    v.ground("four_writes", len(writes) == 4, str([(str(w[2])[:40], str(w[3])) for w in writes]))
    if len(writes) != 4:
        return
    w_tr, w_diff, w_end, w_new = writes
    u32, i32 = eng.ctype("unsigned int"), eng.ctype("int")
    pos_tr = w_tr[2]
    W = w_diff[2]
    on_disk = lambda fld: eng.content("arch", ("reb_simulationarchive_blob", fld), i32, simp(pos_tr + tu.offsetof("reb_simulationarchive_blob", fld)))
    v.prove("old_trailer.rewritten_in_place_before_append_position", z3.And(pos_tr + TRL == W, w_tr[3] == TRL))
    old = w_tr[5]
    is_struct = lambda o, name: o is not None and getattr(getattr(o, "ctype", None), "name", None) == name and hasattr(o, "fields")
    # crash protocol: the previous trailer is completed FIRST (a cut afterwards leaves a trailer whose offset_next points over a
    # delta that fails the reader's END / checksum test and is discarded by reader and recovery walk alike); delta, END header and
    # the new trailer follow in stream order
    v.ground("old_trailer.is_a_trailer_struct", is_struct(old, "reb_simulationarchive_blob"), str(old)[:200])
    if not is_struct(old, "reb_simulationarchive_blob"):
        old = None
    if old is not None:
        v.prove("old_trailer.index_preserved", as_int(old.fields["index"]) == on_disk("index"))
        v.prove("old_trailer.offset_prev_preserved", as_int(old.fields["offset_prev"]) == on_disk("offset_prev"))
        v.prove("old_trailer.offset_next_points_over_the_new_delta", as_int(old.fields["offset_next"]) == size_diff + HDR)
    v.prove("delta.at_append_position", z3.And(w_diff[3] == size_diff, w_end[2] == W + size_diff))
    endh = w_end[5]
    v.ground("end_header.struct", is_struct(endh, "reb_binary_field"), str(endh)[:200])
    if is_struct(endh, "reb_binary_field"):
        v.prove("end_header.type_END_size_0", z3.And(as_int(endh.fields["type"]) == END, as_int(endh.fields["size"]) == 0, w_end[3] == HDR))
    new = w_new[5]
    v.ground("new_trailer.struct", is_struct(new, "reb_simulationarchive_blob"), str(new)[:200])
    if is_struct(new, "reb_simulationarchive_blob") and old is not None:
        v.prove("new_trailer.follows_END", z3.And(w_new[2] == W + size_diff + HDR, w_new[3] == TRL))
        v.prove("new_trailer.index_incremented", as_int(new.fields["index"]) == on_disk("index") + 1)
        v.prove("new_trailer.offset_prev_is_blob_length", as_int(new.fields["offset_prev"]) == size_diff + HDR)
        v.prove("new_trailer.offset_next_zero", as_int(new.fields["offset_next"]) == 0)
        # reader's acceptance test for the appended blob (C07_archive_open): offset_prev + sizeof(trailer) == end - start
        v.prove("appended_blob_passes_reader_checksum", as_int(new.fields["offset_prev"]) + TRL == (w_new[2] + TRL) - W)
