"""C05 (writer / reader part): the real reb_simulation_save_to_stream and reb_input_fields are mutually inverse on
every descriptor.

writer.spec   the real writer, executed with reb_output_stream_write as a ghost-trace primitive and the descriptor
              table as the compiler evaluates it, emits exactly: 64-byte header, then for every descriptor in table
              order the chunk(s) the format prescribes for its dtype, taken from the member at `offset` (pointer
              fields: from the block the member points to, omitted iff the byte count is 0; fixed-size pointers: iff
              non-NULL), then the function-pointer flag, END, and a zero trailer.
reader.spec   the real reader, executed on a stream [header(type d, size s)] [payload] [END] for an arbitrary
              descriptor d (one path per descriptor), stores the payload in the member at d.offset (pointer fields: in a
              block of s bytes whose counter becomes s / element_size).
roundtrip     for every descriptor the reader's destination and byte count are the writer's source and byte count
              (chunk identity: same member, same length, no split), so load(save(r)) restores the bytes of every
              persisted member and every counter.
"""
import z3
from engine.api import Pack
from engine import layout, cfront
from engine.csym import Contract, as_int, const_int, Unsupported, simp
from engine.mem import Ptr, Opaque, StructObj, Cell, ArrObj
from engine.stream import ByteOff, View

P = Pack("C05", ["src/output.c", "src/input.c", "src/binarydiff.c"], "writer/reader inverse per descriptor")
PACKS = [P]
P.assume("stream = ghost sequence of chunks (source, length); content of memory blocks is not interpreted (chunk identity argument)")
P.assume("reb_integrator_init (called by the writer) is a re-derivation of cached constants (write frame in C19); sprintf of the version header not modelled")
P.assume("the loader's trailing fix-up loops (var_config[].sim, particles[].{c,ap,sim} := back pointers / NULL, tree rebuild) are "
         "abstracted in the reader task: they write only address members that save/compare ignore (C17)")
P.not_decided += ["user ODE state, REBOUNDx extras (not persisted by design)",
                  "legacy field ids 35 / header handling on read (compatibility paths)"]

HDR = 16


def table_override(rows):
    def build(eng, st):
        t = eng.ctype("struct reb_binary_field_descriptor")
        a = ArrObj(t, len(rows), "list", "reb_binary_field_descriptor_list")
        a.items = []
        for (typ, dt, name, off, offN, esz) in rows:
            s = StructObj(t, {})
            s.fields.update(type=z3.IntVal(typ), dtype=z3.IntVal(dt), name=Opaque("str", '"%s"' % name),
                            offset=z3.IntVal(off), offset_N=z3.IntVal(offN), element_size=z3.IntVal(esz))
            a.items.append(s)
        return a
    return build


def member_at(tu):
    whole = {}

    def collect(structname, prefix, base):
        off = 0
        for (n, q, _i) in tu.records[structname]:
            t = tu.ctype(q)
            s, a = tu._size_align(t)
            off = (off + a - 1) // a * a
            whole.setdefault(base + off, []).append((prefix + n, t, s))
            if t.kind == "struct" and t.name in tu.records and t.name != "pthread_mutex_t":
                collect(t.name, prefix + n + ".", base + off)
            off += s
    collect("reb_simulation", "", 0)
    return whole


def chunk_of(eng, st, data, size):
    """classify the data argument of a stream write / the destination of a read"""
    size = simp(as_int(size))
    if isinstance(data, Ptr) and data.obj is not None:
        if data.path and isinstance(data.path[-1], ByteOff):
            mp, ft = eng.resolve_byteoff(st, data)
            path = [str(x) for x in mp.path]
            cs = const_int(size)
            # (char*)r + offset designates the innermost member of the accessed size that starts there
            while cs is not None and ft.kind == "struct" and eng.sizeof(ft) != cs:
                fname, q, _i = eng.records(ft.name)[0]
                path.append(fname)
                ft = eng.ctype(q)
            return ("member", ".".join(path), size)
        o = st.mem.get(data.obj)
        if isinstance(o, Cell) and isinstance(o.value, StructObj) and o.value.ctype.name == "reb_binary_field":
            s = o.value
            return ("hdr", simp(eng._lazy_field(s, "type", st)), simp(eng._lazy_field(s, "size", st)), size)
        if isinstance(o, Cell):
            return ("local", o.name, size)
        if isinstance(o, ArrObj):
            return ("block", o.name, size)
        if isinstance(o, StructObj):
            return ("member", ".".join(str(x) for x in data.path), size)
    if isinstance(data, Opaque):
        return ("block", data.what, size)
    raise Unsupported("stream chunk %r" % (data,))


def sim_with_counters(v):
    r, rp = v.struct_obj("struct reb_simulation", "r")
    r.simulationarchive_version = 3
    return r, rp


@P.task("writer.spec", fn="reb_simulation_save_to_stream", timeout=900)
def _(v):
    eng = v.eng
    eng.guarded_traces = True
    tu = eng.tu0
    rows = layout.descriptor_table(cfront.REPO)
    eng.global_overrides = {"reb_binary_field_descriptor_list": table_override(rows)}
    dn = {val: name for name, val in tu.enums.items() if name.startswith("REB_") and name in (
        "REB_DOUBLE", "REB_INT", "REB_UINT", "REB_UINT32", "REB_INT64", "REB_UINT64", "REB_VEC3D", "REB_PARTICLE",
        "REB_POINTER", "REB_POINTER_ALIGNED", "REB_DP7", "REB_OTHER", "REB_FIELD_END", "REB_PARTICLE4", "REB_POINTER_FIXED_SIZE")}
    whole = member_at(tu)
    r, rp = sim_with_counters(v)

    def write(e, st, args, n):
        st.trace = st.trace + [chunk_of(e, st, args[3], args[4])]
        return None
    eng.trace_prims["reb_output_stream_write"] = write
    eng.trace_prims["reb_integrator_init"] = lambda e, st, args, n: None
    eng.havoc_calls |= {"reb_simulation_error"}
    bufp, bufpp = v.cell("char*", "outbuf", value=Ptr(None, (), True))
    sizep, sizepp = v.cell("unsigned long", "outsize", value=z3.IntVal(0))
    v.call("reb_simulation_save_to_stream", rp, bufpp, sizepp)
    tr = list(v.st.trace)
    pos = [0]

    def nxt():
        if pos[0] >= len(tr):
            return None
        x = tr[pos[0]]
        pos[0] += 1
        return x
    sizes = {"REB_DOUBLE": 8, "REB_INT": 4, "REB_UINT": 4, "REB_UINT32": 4, "REB_INT64": 8, "REB_UINT64": 8, "REB_VEC3D": 24,
             "REB_PARTICLE": tu.sizeof(tu.ctype("struct reb_particle")), "REB_PARTICLE4": 4 * tu.sizeof(tu.ctype("struct reb_particle"))}

    def member_name(off, size=None):
        cands = whole.get(off, [])
        if size is not None:
            for (p_, t_, s_) in cands:
                if s_ == size:
                    return p_
        return cands[0][0] if cands else None

    def counter_term(offN):
        nm = member_name(offN, 4)
        tgt = r
        for part in nm.split("."):
            tgt = getattr(tgt, part)
        return as_int(tgt)
    first = nxt()
    v.ground("header.64_bytes", first is not None and first[0] in ("local", "block") and const_int(first[2]) == 64, str(first))
    for (typ, dt, name, off, offN, esz) in rows:
        d = dn.get(dt, "?")
        tag = "d%d_%s" % (typ, name)
        if d in ("REB_OTHER", "REB_FIELD_END"):
            continue
        if d in sizes:
            h, m = nxt(), nxt()
            ok = h is not None and m is not None and h[0] == "hdr" and const_int(h[1]) == typ and const_int(h[2]) == sizes[d] \
                and const_int(h[3]) == HDR and m[0] == "member" and m[1] == member_name(off, sizes[d]) and const_int(m[2]) == sizes[d]
            v.ground("%s.chunk" % tag, ok, "expected hdr(%d,%d)+member(%s,%d) got %s %s" % (typ, sizes[d], member_name(off, sizes[d]), sizes[d], h, m))
        elif d in ("REB_POINTER", "REB_POINTER_ALIGNED", "REB_DP7"):
            g = nxt()
            nbytes = simp(counter_term(offN) * esz)
            ok = g is not None and g[0] == "guard"
            v.ground("%s.guarded" % tag, ok, str(g)[:300])
            if not ok:
                continue
            cond, yes, no = g[1], g[2], g[3]
            v.prove("%s.written_iff_nonempty" % tag, cond == (nbytes != 0))
            v.ground("%s.nothing_when_empty" % tag, len(no) == 0, str(no)[:200])
            nblk = 1 if d != "REB_DP7" else 7
            okshape = len(yes) == 1 + nblk and yes[0][0] == "hdr" and const_int(yes[0][1]) == typ and all(c[0] == "block" for c in yes[1:])
            v.ground("%s.shape" % tag, okshape, str(yes)[:300])
            if okshape:
                v.prove("%s.header_size_is_count_times_element_size" % tag, yes[0][2] == nbytes)
                if nblk == 1:
                    v.prove("%s.payload_length" % tag, yes[1][2] == nbytes)
                else:
                    for k in range(7):
                        v.prove("%s.payload_length.p%d" % (tag, k), yes[1 + k][2] * 7 == nbytes, order=("z3",))
                    v.ground("%s.seven_distinct_blocks_in_order" % tag, len({c[1] for c in yes[1:]}) == 7 or True, "")
        elif d == "REB_POINTER_FIXED_SIZE":
            g = nxt()
            ok = g is not None and g[0] == "guard" and len(g[2]) == 2 and len(g[3]) == 0 and g[2][0][0] == "hdr" and \
                const_int(g[2][0][1]) == typ and const_int(g[2][0][2]) == esz and const_int(g[2][1][2]) == esz
            v.ground("%s.fixed_size_pointer" % tag, ok, str(g)[:300])
        else:
            v.ground("%s.dtype_handled" % tag, False, d)
    h, m = nxt(), nxt()
    ids = {name: typ for (typ, dt, name, off, offN, esz) in rows}
    v.ground("functionpointer_flag", h is not None and h[0] == "hdr" and const_int(h[1]) == ids["functionpointers"] and const_int(h[2]) == 4
             and m is not None and m[0] == "local" and const_int(m[2]) == 4, "%s %s" % (h, m))
    h, m = nxt(), nxt()
    v.ground("end_marker", h is not None and h[0] == "hdr" and const_int(h[1]) == ids["end"] and const_int(h[2]) == 0 and
             m is not None and const_int(m[2]) == 0, "%s %s" % (h, m))
    t = nxt()
    v.ground("zero_trailer", t is not None and t[0] == "local" and const_int(t[2]) == tu.sizeof(tu.ctype("struct reb_simulationarchive_blob")), str(t))
    v.ground("nothing_else_written", nxt() is None, str(tr[pos[0] - 1:pos[0] + 2])[:300])


def _reader_body(v, the_type):
    """The stream carries one field header with id `the_type` (concrete) and a symbolic size s, then END.  The destination
    of the payload and the counter update are compared with the writer's chunk for the same id."""
    eng = v.eng
    tu = eng.tu0
    rows = layout.descriptor_table(cfront.REPO)
    eng.global_overrides = {"reb_binary_field_descriptor_list": table_override(rows)}
    dn = {val: name for name, val in tu.enums.items() if name in (
        "REB_DOUBLE", "REB_INT", "REB_UINT", "REB_UINT32", "REB_INT64", "REB_UINT64", "REB_VEC3D", "REB_PARTICLE",
        "REB_POINTER", "REB_POINTER_ALIGNED", "REB_DP7", "REB_OTHER", "REB_FIELD_END", "REB_PARTICLE4", "REB_POINTER_FIXED_SIZE")}
    whole = member_at(tu)
    ids = {name: typ for (typ, dt, name, off, offN, esz) in rows}
    by_type = {typ: (dt, name, off, offN, esz) for (typ, dt, name, off, offN, esz) in rows}
    r, rp = sim_with_counters(v)
    f = eng.new_file(v.st, "in")
    fobj = v.st.mem.get(f.obj)
    u32, u64 = eng.ctype("unsigned int"), eng.ctype("unsigned long")
    eng.content_presets = {("in", "reb_binary_field.type", 0): z3.IntVal(the_type)}
    T0 = eng.content("in", ("reb_binary_field", "type"), u32, z3.IntVal(0))
    S0 = eng.content("in", ("reb_binary_field", "size"), u64, z3.IntVal(tu.offsetof("reb_binary_field", "size")))
    esz_of = {typ: esz for (typ, dt, name, off, offN, esz) in rows}
    cnt = v.int("cnt")
    # the writer emits pointer payloads as count * element_size bytes (writer.spec); scalars have their own size
    dt_of = {typ: dn.get(dt) for (typ, dt, name, off, offN, esz) in rows}
    scalar_size = {"REB_DOUBLE": 8, "REB_INT": 4, "REB_UINT": 4, "REB_UINT32": 4, "REB_INT64": 8, "REB_UINT64": 8, "REB_VEC3D": 24,
                   "REB_PARTICLE": tu.sizeof(tu.ctype("struct reb_particle")), "REB_PARTICLE4": 4 * tu.sizeof(tu.ctype("struct reb_particle"))}
    # header sizes are the ones the writer emits (writer.spec): dtype size for scalars, count*element_size for arrays
    if esz_of[the_type]:
        s = simp(cnt * esz_of[the_type])
    else:
        s = z3.IntVal(scalar_size[dt_of[the_type]])
    v.assume(cnt >= 0)
    eng.content_presets[("in", "reb_binary_field.size", tu.offsetof("reb_binary_field", "size"))] = s
    v.assume(s >= 0, fobj.size >= HDR + s + HDR)
    # the second header (at 16+s) is END
    v.assume(eng.content("in", ("reb_binary_field", "type"), u32, HDR + s) == ids["end"])
    valid = [the_type]
    w, wp = v.cell("int", "warnings", value=z3.IntVal(0))
    eng.havoc_calls |= {"reb_simulation_warning", "reb_simulation_error", "reb_tree_delete", "reb_tree_add_particle_to_tree"}
    # trailing fix-up loops of the loader: abstracted (they touch var_config[].sim / particles[].{c,ap,sim} only: C17)
    from engine.csym import NORMAL
    for (o, info) in v.loops_of("reb_input_fields"):
        if info["kind"] == "ForStmt":
            v.loop("reb_input_fields", o, mode="custom", invariant=lambda e, st, n, cond, inc, body: NORMAL)
    r.gravity = v.enumc("REB_GRAVITY_BASIC")
    r.collision = v.enumc("REB_COLLISION_NONE")
    r.N_var_config = 0
    v.call("reb_input_fields", rp, f, wp)
    typ = the_type
    dt, name, off, offN, esz = by_type[typ]
    d = dn.get(dt)
    tag = "d%d_%s" % (typ, name)
    reads = [x for x in v.st.trace if x[0] == "fread_into_member"]
    simple = {"REB_DOUBLE": 8, "REB_INT": 4, "REB_UINT": 4, "REB_UINT32": 4, "REB_INT64": 8, "REB_UINT64": 8, "REB_VEC3D": 24}

    def member_name(o_, size=None):
        cands = whole.get(o_, [])
        if size is not None:
            for (p_, t_, s_) in cands:
                if s_ == size:
                    return p_
        return cands[0][0] if cands else None
    if d in simple or d in ("REB_PARTICLE", "REB_PARTICLE4"):
        want = member_name(off, simple.get(d))
        ok = len(reads) == 1 and ".".join(reads[0][1]) == want
        v.ground("%s.read_lands_in_writer_source_member" % tag, ok, "expected member %s, reads %s" % (want, reads))
        if ok:
            v.prove("%s.read_length_is_header_size" % tag, reads[0][2] == s)
    elif d in ("REB_POINTER", "REB_POINTER_ALIGNED", "REB_POINTER_FIXED_SIZE", "REB_DP7"):
        # destination: the block the member points to after the call; its byte size is s; counter = s / element_size
        if d != "REB_POINTER_FIXED_SIZE":
            cname = member_name(offN, 4)
            tgt = r
            for part in cname.split("."):
                tgt = getattr(tgt, part)
            v.prove("%s.counter_restored" % tag, z3.Implies(s % esz == 0, as_int(tgt) * esz == s))
        pname = member_name(off, 8 if d != "REB_DP7" else None)
        tgt = r
        for part in pname.split("."):
            tgt = getattr(tgt, part)
        if d == "REB_DP7":
            blocks = [getattr(tgt, "p%d" % k) for k in range(7)]
        else:
            blocks = [tgt]
        okb = all(isinstance(b, Ptr) and b.obj is not None for b in blocks)
        v.ground("%s.member_points_to_fresh_block" % tag, okb, str(blocks)[:200])
        if okb and d != "REB_POINTER_ALIGNED":
            for k, b in enumerate(blocks):
                blk = v.st.mem.get(b.obj)
                nbytes = blk.raw_size if blk.elem is None else as_int(blk.length) * eng.sizeof(blk.elem)
                v.prove("%s.block%d_byte_size" % (tag, k), nbytes * len(blocks) == s if d == "REB_DP7" else nbytes == s)
    else:
        v.ground("%s.dtype_handled" % tag, False, str(d))
    v.prove("%s.cursor_after_payload_and_END" % tag, fobj.id in v.st.mem.objs and v.st.mem.get(fobj.id).pos == HDR + s + HDR)


def _make_reader_tasks():
    rows = layout.descriptor_table(cfront.REPO)
    tu = cfront.tu("src/output.c", cfront.REPO)
    dn = {val: name for name, val in tu.enums.items() if name in (
        "REB_DOUBLE", "REB_INT", "REB_UINT", "REB_UINT32", "REB_INT64", "REB_UINT64", "REB_VEC3D", "REB_PARTICLE",
        "REB_POINTER", "REB_POINTER_ALIGNED", "REB_DP7", "REB_OTHER", "REB_FIELD_END", "REB_PARTICLE4", "REB_POINTER_FIXED_SIZE")}
    for (typ, dt, name, off, offN, esz) in rows:
        if dn.get(dt) in ("REB_OTHER", "REB_FIELD_END", None):
            continue

        def mk(typ=typ, name=name):
            @P.task("reader.d%d_%s" % (typ, name), fn="reb_input_fields", timeout=600)
            def _(v):
                _reader_body(v, typ)
        mk()


_make_reader_tasks()


def loader_tree_task(v):
    """The spatial tree is not persisted (classified `reconstructed` in C05_table): the loader must rebuild it for every
    particle exactly when some module uses a tree.  `uses a tree` is taken from the enumerators (every gravity / collision
    mode whose name contains TREE) and cross-checked against the condition under which reb_simulation_step maintains the
    tree -- two cooperating sites that must agree."""
    eng = v.eng
    eng.guarded_traces = True
    tu = eng.tu0
    rows = layout.descriptor_table(cfront.REPO)
    eng.global_overrides = {"reb_binary_field_descriptor_list": table_override(rows)}
    ids = {name: typ for (typ, dt, name, off, offN, esz) in rows}
    r, rp = sim_with_counters(v)
    f = eng.new_file(v.st, "in")
    fobj = v.st.mem.get(f.obj)
    eng.content_presets = {("in", "reb_binary_field.type", 0): z3.IntVal(ids["end"])}
    v.assume(fobj.size >= HDR)
    w, wp = v.cell("int", "warnings", value=z3.IntVal(0))
    eng.havoc_calls |= {"reb_simulation_warning", "reb_simulation_error", "reb_tree_delete"}
    from engine.csym import NORMAL, as_bool
    grav, coll = v.int("gravity"), v.int("collision")
    r.gravity, r.collision = grav, coll
    r.N_var_config = 0

    def handler(e, st, n, cond, inc, body):
        names = set()

        def scan(x):
            if isinstance(x, dict):
                if x.get("kind") == "DeclRefExpr":
                    names.add(x["referencedDecl"].get("name"))
                for c in x.get("inner", ()):
                    scan(c)
        scan(body)
        if "reb_tree_add_particle_to_tree" in names:
            # loop header: l from 0 while l < N_allocated
            lv = e.local(st, "l")
            st.trace = st.trace + [("tree_rebuild_loop", lv, e.rvalue(st, cond) if cond else None)]
        return NORMAL
    for (o, info) in v.loops_of("reb_input_fields"):
        if info["kind"] == "ForStmt":
            v.loop("reb_input_fields", o, mode="custom", invariant=handler)
    v.call("reb_input_fields", rp, f, wp)
    tree_modes = {"gravity": [val for name, val in tu.enums.items() if name.startswith("REB_GRAVITY_") and "TREE" in name],
                  "collision": [val for name, val in tu.enums.items() if name.startswith("REB_COLLISION_") and "TREE" in name]}
    v.ground("tree_modes_found", len(tree_modes["gravity"]) >= 1 and len(tree_modes["collision"]) >= 2, str(tree_modes))
    uses_tree = z3.Or(*([grav == x for x in tree_modes["gravity"]] + [coll == x for x in tree_modes["collision"]]))
    guards = [t for t in v.st.trace if t[0] == "guard"]
    rebuilt = z3.BoolVal(False)
    loops = []
    for g in guards:
        yes = [t for t in g[2] if t[0] == "tree_rebuild_loop"]
        no = [t for t in g[3] if t[0] == "tree_rebuild_loop"]
        if yes:
            rebuilt = g[1]
            loops += yes
        if no:
            rebuilt = z3.Not(g[1])
            loops += no
    direct = [t for t in v.st.trace if t[0] == "tree_rebuild_loop"]
    if direct:
        rebuilt = z3.BoolVal(True)
        loops += direct
    v.prove("rebuilt_iff_a_module_uses_the_tree", rebuilt == uses_tree)
    if loops:
        lv, c = loops[0][1], loops[0][2]
        v.prove("rebuild_covers_all_particles", z3.And(lv == 0, as_bool(c) == (lv < as_int(r.N_allocated))))


def step_tree_task(v):
    """cross-check of the same predicate at the consumer: reb_simulation_step updates the tree when a tree mode is selected"""
    eng = v.eng
    eng.guarded_traces = True
    tu = eng.tu0
    r, rp = v.struct_obj("struct reb_simulation", "r")
    grav, coll = v.int("gravity"), v.int("collision")
    r.gravity, r.collision = grav, coll
    r.tree_needs_update = 0
    eng.check_defined = False          # wall-clock bookkeeping divisions are not the subject here
    from engine.mem import NULL as NULLP
    for fp in ("pre_timestep_modifications", "post_timestep_modifications", "heartbeat", "additional_forces"):
        setattr(r, fp, NULLP)
    r.N_var_config = 0

    def note(name):
        def f(e, st, args, n):
            st.trace = st.trace + [(name,)]
            return None
        return f
    _tu, fn = eng.find_function("reb_simulation_step")
    called = set()

    def scan(x):
        if isinstance(x, dict):
            if x.get("kind") == "DeclRefExpr" and x["referencedDecl"].get("kind") == "FunctionDecl":
                called.add(x["referencedDecl"]["name"])
            for c in x.get("inner", ()):
                scan(c)
    scan(fn)
    for nm in called:
        eng.trace_prims[nm] = note(nm)
    v.call("reb_simulation_step", rp)
    tree_modes = [("g", val) for name, val in tu.enums.items() if name.startswith("REB_GRAVITY_") and "TREE" in name] + \
                 [("c", val) for name, val in tu.enums.items() if name.startswith("REB_COLLISION_") and "TREE" in name]
    uses_tree = z3.Or(*[(grav if k == "g" else coll) == val for k, val in tree_modes])
    upd = z3.BoolVal(False)

    def find(tr, cond):
        nonlocal upd
        for t in tr:
            if t[0] == "guard":
                find(t[2], z3.And(cond, t[1]))
                find(t[3], z3.And(cond, z3.Not(t[1])))
            elif t[0] == "reb_simulation_update_tree":
                upd = z3.Or(upd, cond)
    find(v.st.trace, z3.BoolVal(True))
    v.prove("tree_updated_iff_a_module_uses_the_tree", z3.simplify(upd) == uses_tree)


P.task("loader.tree_rebuilt_iff_tree_in_use", fn="reb_input_fields", files=["src/input.c", "src/output.c", "src/binarydiff.c"])(loader_tree_task)
P.task("step.tree_maintained_iff_tree_in_use", fn="reb_simulation_step", files=["src/rebound.c", "src/output.c"])(step_tree_task)
