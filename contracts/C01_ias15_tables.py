"""C01 (IAS15, src/integrator_ias15.c): the tabulated constants h[8], rr[28], c[21], d[21], w[8] satisfy their
defining relations, and the code uses them through the index maps those relations require.

Specification side (Everhart 1985, "An efficient integrator that uses Gauss-Radau spacings"; Rein & Spiegel 2015,
MNRAS 446, 1424, section 2; nothing below is copied from the numbers or the generator in the code):

  nodes      h_0 = 0 < h_1 < ... < h_7 < 1 are the 8-point Gauss-Radau nodes on [0,1]: (x_i+1)/2 with x_i the roots of
             (P_7(x) + P_8(x))/(1+x) (Legendre P), together with the left end point.
  weights    Radau weights on [-1,1] ("interval length = 2" in the source comment): w_0 = 2/8^2,
             w_i = (1 - x_i)/(8^2 P_7(x_i)^2); equivalently sum_i w_i h_i^n = 2/(n+1) for n = 0..14 (degree of
             exactness 2*8-2 = 14; 15 equations for 7 nodes + 8 weights: the solution is unique, so the moment
             equations pin h and w).
  force      a(s) = a_0 + b_0 s + b_1 s^2 + ... + b_6 s^7           (monomial form, s = t/dt in [0,1])
                  = a_0 + g_0 Q_0(s) + g_1 Q_1(s) + ... + g_6 Q_6(s), Q_k(s) = prod_{i=0..k} (s - h_i)   (Newton form)
  g from samples   g_{n-1} = ((..((F_n/(h_n-h_0) - g_0)/(h_n-h_1) - g_1)..)/(h_n-h_{n-1}),  F_n = a(h_n) - a_0
                   (divided differences): the divisors are rr = h_n - h_m, n = 1..7, m = 0..n-1  (28 numbers)
  b from g   b_j = sum_{k>=j} c_{k,j} g_k,  c_{k,j} = coefficient of s^{j+1} in Q_k(s)  (c_{k,k} = 1;  21 numbers k=1..6, j<k)
  g from b   g_j = sum_{k>=j} d_{k,j} b_k,  s^{k+1} = sum_{j<=k} d_{k,j} Q_j(s)          (d_{k,k} = 1;  21 numbers)
             C and D are inverse unit triangular matrices.
  update     x(1) = x_0 + v_0 dt + dt^2 (a_0/2 + sum_k b_k/((k+2)(k+3))),  v(1) = v_0 + dt (a_0 + sum_k b_k/(k+2));
             predictor x(h_n), v(h_n): the same integrals up to s = h_n.
  new step   with ratio q = dt_new/dt_old the force polynomial continued beyond the old step, re-expanded about its end:
             e_j = q^{j+1} sum_{k>=j} binom(k+1, j+1) b_k.

Method.  Table entries are read from the initialisers in clang's AST (exact rationals of the doubles).  Reference values
are computed here with 60 significant digits (mpmath/sympy) from the definitions above.  Tolerances: an entry must be
the reference rounded to double up to one more unit: |entry - ref| <= 2^-52 |ref| + 2e-25 (the literals in the source carry
25 decimals, h and w 30+ digits); relations evaluated on the table doubles themselves (moments, C D = 1) are compared with
4 x the first-order rounding envelope of the doubles that enter.  The index maps (which rr / c / d entry is used where)
are NOT assumed: the statements of reb_integrator_ias15_step that use the tables are located in the AST and their
right-hand sides are evaluated symbolically (sympy, table entries as exact rationals, everything else as symbols), and the
resulting coefficients are compared with the specification's.

FINDING kept as a failing obligation (ias15.tables.h_w.w5.is_radau_weight): the literal w[5] =
0.347014795634501068709955597...  is wrong from the 16th significant digit; the Radau weight is
0.347014795634501280228675918...  (all other w and all h literals agree with the reference to 27+ digits).  As doubles:
0.34701479563450105 instead of 0.34701479563450127, 4 ulp low; sum(w) = 2 - 1.9e-16.  Confirmed natively by reading the
compiled table out of librebound (nm offset of the local symbol `w`).  w is only used for the MEGNO quadrature in IAS15,
so the effect is a relative error of ~1e-16 in dY per step: harmless, but the table does not satisfy its defining
relation to the accuracy of the other entries.  The moment equations (4 x rounding envelope, the DESIGN tolerance) still
hold with the wrong entry; only the entry-wise comparison sees it.
"""
import z3
from fractions import Fraction
from engine.api import Pack
from engine.csym import as_real, simp, const_int
from engine.mem import Ptr

IAS = "src/integrator_ias15.c"
STEP = "reb_integrator_ias15_step"
P = Pack("C01", [IAS], "IAS15: Gauss-Radau tables h, rr, c, d, w and their use")
PACKS = [P]
PZ = ("polyid", "z3")
U = Fraction(1, 2 ** 53)

P.assume("IAS15 tables: entries are the exact rationals of the doubles clang parsed from the initialisers; tolerance of a "
         "direct comparison |entry - ref| <= 2^-52 |ref| + 2e-25 (ref computed with 60 digits from the Gauss-Radau / "
         "Everhart definitions); relations evaluated on the doubles: 4 x first-order rounding envelope (2^-53 relative per "
         "entering double)")
P.assume("IAS15 use of the tables: located syntactically in reb_integrator_ias15_step (switch over the sub-step n, the "
         "g.pJ[k] = ... assignments, the add_cs(&b.pJ[k], &csb.pJ[k], tmp*c[..]) calls, the predictor expressions xk0/vk0, the "
         "final add_cs(&x0[k]..)/add_cs(&v0[k]..) calls) and evaluated as exact rational expressions; compensated summation "
         "add_cs(p, cs, x) is p += x in exact arithmetic (task ias15.add_cs proves (p - cs)' = (p - cs) + x on the real body)")
P.not_decided += [
    "IAS15: convergence of the predictor-corrector iteration, the adaptive step-size choice (all adaptive_mode values), "
    "min_dt, the 1e-16 / 12-iteration exits: dynamic, not decided by design",
    "IAS15: that 15th order follows from the Radau spacing (quadrature exactness 14 is proved for the tables; the "
    "order statement of Everhart's scheme is mathematics outside the code)",
    "IAS15: floating-point behaviour of the compensated summation (add_cs) and of the divided differences "
    "(cancellation in gk/rr - g): R-mode only",
]


# ============================================================================ reading the real tables
def table(v, name):
    """(declared length, [Fraction]) of a file-scope table of the real source"""
    d = v.eng.tu0.globals[name]
    decl_n = v.eng.tu0.node_type(d).n
    obj = v.eng.global_object(v.st, name)
    vals = []
    for x in obj.items:
        x = simp(x)
        vals.append(Fraction(x.numerator_as_long(), x.denominator_as_long()))
    return decl_n, vals


def reference():
    """Gauss-Radau nodes/weights and Everhart's c, d from the definitions, 60 digits (mpmath)"""
    import mpmath
    import sympy
    mpmath.mp.dps = 60
    n = 8
    x = sympy.symbols("x")
    poly = sympy.Poly(sympy.cancel((sympy.legendre(n - 1, x) + sympy.legendre(n, x)) / (1 + x)), x)
    co = [mpmath.mpf(sympy.Rational(c).p) / mpmath.mpf(sympy.Rational(c).q) for c in poly.all_coeffs()]
    xs = sorted(mpmath.polyroots(co, maxsteps=500, extraprec=400), key=lambda z: z.real)
    xs = [mpmath.mpf(z.real) for z in xs]
    h = [mpmath.mpf(0)] + [(z + 1) / 2 for z in xs]
    w = [mpmath.mpf(2) / (n * n)] + [(1 - z) / (n * n * mpmath.legendre(n - 1, z) ** 2) for z in xs]
    # Q_k(s) = prod_{i<=k} (s - h_i): coefficient lists, lowest degree first
    Q = []
    cur = [mpmath.mpf(1)]
    for k in range(7):
        nxt = [mpmath.mpf(0)] * (len(cur) + 1)
        for i, a in enumerate(cur):
            nxt[i + 1] += a
            nxt[i] -= h[k] * a
        cur = nxt
        Q.append(cur)                       # degree k+1
    c = {(k, j): Q[k][j + 1] for k in range(7) for j in range(k + 1)}
    # d: s^{k+1} in the Newton basis Q_0..Q_k (leading coefficients are 1): peel from the top
    d = {}
    for k in range(7):
        rem = [mpmath.mpf(0)] * (k + 2)
        rem[k + 1] = mpmath.mpf(1)
        for j in range(k, -1, -1):
            lead = rem[j + 1]
            d[(k, j)] = lead
            for i, a in enumerate(Q[j]):
                rem[i] -= lead * a
    return h, w, c, d


def to_frac(m):
    """mpmath number -> Fraction (exact value of the 60-digit float)"""
    import mpmath
    man, exp = int(m.man) * (-1 if m._mpf_[0] else 1), int(m.exp)
    return Fraction(man) * (Fraction(2) ** exp)


def close(entry, ref, extra=1):
    return abs(entry - ref) <= extra * 2 * U * abs(ref) + Fraction(2, 10 ** 25)


# ============================================================================ mini evaluator of C expressions (sympy)
class Ev:
    """exact evaluation of a side-effect free C expression: table entries with constant index -> Rational of the double,
    literals -> exact rationals, every other lvalue -> a symbol named by its source text without the index"""

    def __init__(self, v, tables, env=None):
        import sympy
        self.sp = sympy
        self.tables = tables
        self.env = env or {}
        self.used = []         # (table, index) in evaluation order

    def text(self, n):
        k = n["kind"]
        if k in ("ImplicitCastExpr", "ParenExpr", "CStyleCastExpr"):
            return self.text(n["inner"][0])
        if k == "DeclRefExpr":
            return n["referencedDecl"]["name"]
        if k == "MemberExpr":
            return self.text(n["inner"][0]) + ("->" if n.get("isArrow") else ".") + n["name"]
        if k == "ArraySubscriptExpr":
            return self.text(n["inner"][0])
        if k == "UnaryOperator" and n["opcode"] in ("&", "*"):
            return self.text(n["inner"][0])
        raise ValueError("text of " + k)

    def const_index(self, n):
        while n["kind"] in ("ImplicitCastExpr", "ParenExpr"):
            n = n["inner"][0]
        if n["kind"] == "IntegerLiteral":
            return int(n["value"])
        if n["kind"] == "DeclRefExpr" and n["referencedDecl"]["name"] in self.env:
            val = self.env[n["referencedDecl"]["name"]]
            return val if isinstance(val, int) else None
        return None

    def ev(self, n):
        sp = self.sp
        k = n["kind"]
        if k in ("ImplicitCastExpr", "ParenExpr", "CStyleCastExpr", "ConstantExpr"):
            return self.ev(n["inner"][0])
        if k == "FloatingLiteral":
            f = Fraction(float(n["value"]))
            return sp.Rational(f.numerator, f.denominator)
        if k == "IntegerLiteral":
            return sp.Integer(int(n["value"]))
        if k == "UnaryOperator" and n["opcode"] == "-":
            return -self.ev(n["inner"][0])
        if k == "BinaryOperator" and n["opcode"] in ("+", "-", "*", "/"):
            a, b = self.ev(n["inner"][0]), self.ev(n["inner"][1])
            return {"+": a + b, "-": a - b, "*": a * b, "/": a / b}[n["opcode"]]
        if k == "ArraySubscriptExpr":
            base = self.text(n["inner"][0])
            if base in self.tables:
                i = self.const_index(n["inner"][1])
                if i is None:
                    return sp.Symbol("%s[%s]" % (base, self.text(n["inner"][1])))
                self.used.append((base, i))
                f = self.tables[base][i]
                return sp.Rational(f.numerator, f.denominator)
            if base in self.env and not isinstance(self.env[base], int):
                return self.env[base]
            return sp.Symbol(base)
        if k in ("DeclRefExpr", "MemberExpr"):
            t = self.text(n)
            if t in self.env and not isinstance(self.env[t], int):
                return self.env[t]
            return sp.Symbol(t)
        raise ValueError("expression kind " + k)


def walk(x):
    if isinstance(x, dict):
        yield x
        for c in x.get("inner", ()):
            yield from walk(c)


def strip(n):
    while n["kind"] in ("ImplicitCastExpr", "ParenExpr", "CStyleCastExpr"):
        n = n["inner"][0]
    return n


def callee(n):
    y = strip(n["inner"][0])
    return y["referencedDecl"]["name"] if y["kind"] == "DeclRefExpr" else None


def switch_cases(fn):
    """{n: body node} of the switch over the sub-step in reb_integrator_ias15_step"""
    out = {}
    for x in walk(fn):
        if x.get("kind") == "SwitchStmt":
            for cse in walk(x):
                if cse.get("kind") == "CaseStmt":
                    val = cse["inner"][0]
                    val = int(val["value"]) if "value" in val else int(strip(val["inner"][0])["value"])
                    out[val] = cse["inner"][-1]
    return out


def assignments(body, ev, lhs_prefix):
    """[(lhs text, rhs node)] of `=` statements whose left side starts with lhs_prefix"""
    out = []
    for x in walk(body):
        if x.get("kind") == "BinaryOperator" and x.get("opcode") == "=":
            try:
                t = ev.text(x["inner"][0])
            except ValueError:
                continue
            if t.startswith(lhs_prefix):
                out.append((t, x["inner"][1]))
    return out


def load(v):
    T = {}
    L = {}
    for nm in ("h", "rr", "c", "d", "w"):
        L[nm], T[nm] = table(v, nm)
    tu, fn = v.eng.find_function(STEP)
    return T, L, fn


# ============================================================================ tasks
@P.task("ias15.tables.h_w", fn=STEP)
def _(v):
    """h = Gauss-Radau nodes on [0,1], w = Radau weights on [-1,1]: direct comparison with the 60-digit reference and
    the moment equations sum_i w_i h_i^n = 2/(n+1), n = 0..14, on the doubles themselves (sharp: fails at n = 15)."""
    T, L, fn = load(v)
    h, w = T["h"], T["w"]
    v.ground("lengths", L["h"] == 8 == len(h) and L["w"] == 8 == len(w), "h[%s], w[%s]" % (L["h"], L["w"]))
    rh, rw, rc, rd = reference()
    v.ground("h0_is_0", h[0] == 0, str(h[0]))
    v.ground("h_increasing_in_(0,1)", all(h[i] < h[i + 1] for i in range(7)) and h[7] < 1, str([float(x) for x in h]))
    for i in range(1, 8):
        ref = to_frac(rh[i])
        v.ground("h%d.is_radau_node" % i, close(h[i], ref), "h[%d]=%r, node %s, rel.err %.3g" % (i, float(h[i]), float(ref), float(abs(h[i] - ref) / ref)))
    for i in range(8):
        ref = to_frac(rw[i])
        v.ground("w%d.is_radau_weight" % i, close(w[i], ref), "w[%d]=%r, weight %s, rel.err %.3g" % (i, float(w[i]), float(ref), float(abs(w[i] - ref) / ref)))
    for n in range(0, 15):
        terms = [w[i] * h[i] ** n for i in range(8)]
        res = abs(sum(terms) - Fraction(2, n + 1))
        env = U * (n + 1) * sum(abs(t) for t in terms)
        v.ground("moment%02d" % n, res <= 4 * env, "sum w h^%d - 2/%d = %.3g, envelope %.3g" % (n, n + 1, float(res), float(env)))
    terms = [w[i] * h[i] ** 15 for i in range(8)]
    res = abs(sum(terms) - Fraction(2, 16))
    v.ground("moment15_fails(degree_of_exactness_is_14)", res > Fraction(1, 10 ** 9), "residual %.3g" % float(res))


def divided_difference_forms(v, T, fn):
    """per sub-step n: (linear form of the new g_{n-1} in gk and g_0..g_{n-2}, rr entries used in order)"""
    import sympy
    out = {}
    cases = switch_cases(fn)
    for n in sorted(cases):
        ev = Ev(v, T)
        asg = assignments(cases[n], ev, "g.p%d" % (n - 1))
        if len(asg) != 1:
            out[n] = None
            continue
        ev.used = []
        e = sympy.expand(ev.ev(asg[0][1]))
        out[n] = (e, list(ev.used))
    return out


@P.task("ias15.tables.rr", fn=STEP)
def _(v):
    """rr and its index map, derived from the code: in sub-step n the assignment g.p{n-1}[k] = (((gk/rr[..] - g.p0[k])/rr[..]
    ...)/rr[..] is evaluated exactly; it must be the (n-1)-th Newton divided difference at the Radau nodes: coefficient of gk
    = 1/prod_{i<n}(h_n - h_i), coefficient of g_m = -1/prod_{m<i<n}(h_n - h_i); the i-th divisor (from the inside) is
    h_n - h_i entry by entry; the 28 entries are each used exactly once."""
    import sympy
    T, L, fn = load(v)
    rh, rw, rc, rd = reference()
    H = [to_frac(x) for x in rh]
    v.ground("length", L["rr"] == 28 == len(T["rr"]), "rr[%s]" % L["rr"])
    forms = divided_difference_forms(v, T, fn)
    v.ground("switch_has_cases_1_to_7", sorted(forms) == list(range(1, 8)) and all(forms[n] is not None for n in forms), str(sorted(forms)))
    allused = []
    for n in range(1, 8):
        if forms.get(n) is None:
            continue
        e, used = forms[n]
        idx = [i for (t, i) in used if t == "rr"]
        allused += idx
        v.ground("substep%d.n_divisors" % n, len(idx) == n and all(t == "rr" for t, i in used), "rr indices %s" % idx)
        for m, i in enumerate(idx[:n]):
            ref = H[n] - H[m]
            v.ground("substep%d.divisor%d_is_h%d-h%d" % (n, m, n, m), close(T["rr"][i], ref),
                     "rr[%d]=%r, h_%d-h_%d=%s, rel.err %.3g" % (i, float(T["rr"][i]), n, m, float(ref), float(abs(T["rr"][i] - ref) / ref)))
            env = U * (T["h"][n] + T["h"][m] + T["rr"][i])
            v.ground("substep%d.divisor%d_vs_table_h" % (n, m), abs(T["rr"][i] - (T["h"][n] - T["h"][m])) <= 4 * env,
                     "rr[%d] - (h[%d]-h[%d]) = %.3g" % (i, n, m, float(T["rr"][i] - (T["h"][n] - T["h"][m]))))
        gk = sympy.Symbol("gk")
        syms = {s.name for s in e.free_symbols}
        v.ground("substep%d.depends_only_on_gk_and_lower_g" % n, syms == {"gk"} | {"g.p%d" % m for m in range(n - 1)}, str(sorted(syms)))
        prod = Fraction(1)
        for i in range(n):
            prod *= (H[n] - H[i])
        got = sympy.Poly(e, *sorted(e.free_symbols, key=str))
        cg = Fraction(int(sympy.Rational(e.coeff(gk)).p), int(sympy.Rational(e.coeff(gk)).q))
        v.ground("substep%d.coefficient_of_sample" % n, close(cg, 1 / prod, extra=n + 1), "coef(gk) %.17g, 1/prod %.17g" % (float(cg), float(1 / prod)))
        for m in range(n - 1):
            cm = sympy.Rational(e.coeff(sympy.Symbol("g.p%d" % m)))
            cm = Fraction(int(cm.p), int(cm.q))
            pr = Fraction(1)
            for i in range(m + 1, n):
                pr *= (H[n] - H[i])
            v.ground("substep%d.coefficient_of_g%d" % (n, m), close(cm, -1 / pr, extra=n + 1), "coef %.17g, spec %.17g" % (float(cm), float(-1 / pr)))
    v.ground("every_entry_used_exactly_once", sorted(allused) == list(range(28)), str(sorted(allused)))


def b_updates(v, T, fn):
    """{n: [(j, coefficient of tmp (Fraction), table entries used)]} from the add_cs(&(b.pJ[k]), &(csb.pJ[k]), tmp*c[..]) calls"""
    import sympy
    out = {}
    cases = switch_cases(fn)
    for n in sorted(cases):
        lst = []
        for x in walk(cases[n]):
            if x.get("kind") == "CallExpr" and callee(x) == "add_cs":
                ev = Ev(v, T)
                tgt = ev.text(x["inner"][1])
                if not tgt.startswith("b.p"):
                    continue
                cs = ev.text(x["inner"][2])
                ev.used = []
                e = sympy.expand(ev.ev(x["inner"][3]))
                tmp = sympy.Symbol("tmp")
                j = int(tgt[3:])
                if n == 1:
                    # first sub-step: the increment is written g.p0[k]-tmp directly
                    coef = e.coeff(sympy.Symbol("g.p0")) if e.free_symbols == {sympy.Symbol("g.p0"), tmp} and e.coeff(tmp) == -1 else None
                else:
                    coef = e.coeff(tmp) if e.free_symbols == {tmp} else None
                lst.append((j, coef, list(ev.used), cs == "csb.p%d" % j))
        out[n] = lst
    return out


def g_from_b(v, T, fn):
    """{j: (expanded expression of g.pj in b.p0..b.p6, entries used)} from the assignments before the predictor-corrector loop"""
    import sympy
    out = {}
    # the assignments g.pJ[k] = ... outside the switch
    sw = [x for x in walk(fn) if x.get("kind") == "SwitchStmt"]
    inside = {id(y) for s in sw for y in walk(s)}
    for x in walk(fn):
        if x.get("kind") == "BinaryOperator" and x.get("opcode") == "=" and id(x) not in inside:
            ev = Ev(v, T)
            try:
                t = ev.text(x["inner"][0])
            except ValueError:
                continue
            if t.startswith("g.p") and len(t) == 4:
                ev.used = []
                out.setdefault(int(t[3:]), []).append((sympy.expand(ev.ev(x["inner"][1])), list(ev.used)))
    return out


def fr(x):
    import sympy
    x = sympy.Rational(x)
    return Fraction(int(x.p), int(x.q))


@P.task("ias15.tables.c_d", fn=STEP)
def _(v):
    """c, d and their index maps, derived from the code.  c: in sub-step n >= 2 the change of g_{n-1} is added to b_j, j < n-1,
    with weight c[..] which must be the coefficient of s^{j+1} in Q_{n-1}(s) = s (s-h_1)..(s-h_{n-1}), and to b_{n-1} with
    weight 1, every j exactly once.  d: the statements g.pJ[k] = sum b.pK[k]*d[..] + b.pJ[k] must give g_j = sum_{k>=j}
    d_{k,j} b_k with d_{k,j} the Newton-basis coordinates of s^{k+1}.  Consistency on the table doubles alone: the two
    conversions extracted from the code are inverse to each other (C D = 1) up to rounding, and satisfy Everhart's
    recurrences c_{k,j} = c_{k-1,j-1} - h_k c_{k-1,j}, d_{k,j} = d_{k-1,j-1} + h_{j+1} d_{k-1,j} with the table's own h."""
    import sympy
    T, L, fn = load(v)
    rh, rw, rc, rd = reference()
    v.ground("lengths", L["c"] == 21 == len(T["c"]) and L["d"] == 21 == len(T["d"]), "c[%s] d[%s]" % (L["c"], L["d"]))
    # ---- c
    upd = b_updates(v, T, fn)
    Cm = {}
    usedc = []
    for n in range(1, 8):
        lst = upd.get(n, [])
        v.ground("c.substep%d.updates_b0_to_b%d_once_each" % (n, n - 1), sorted(j for (j, _c, _u, _ok) in lst) == list(range(n)),
                 str([j for (j, _c, _u, _ok) in lst]))
        v.ground("c.substep%d.compensation_cell_matches" % n, all(ok for (_j, _c, _u, ok) in lst), "add_cs(&b.pJ, &csb.pJ, ..)")
        for (j, coef, used, _ok) in lst:
            if coef is None:
                v.ground("c.substep%d.b%d.linear_in_the_change_of_g%d" % (n, j, n - 1), False, "increment is not coefficient * tmp")
                continue
            k = n - 1
            ref = to_frac(rc[(k, j)])
            cf = fr(coef)
            Cm[(k, j)] = cf
            usedc += [i for (t, i) in used if t == "c"]
            v.ground("c.substep%d.b%d.weight_is_c_%d_%d" % (n, j, k, j), close(cf, ref) and (j < k or cf == 1),
                     "weight %.17g (entries %s), coefficient of s^%d in Q_%d = %.17g, rel.err %.3g" %
                     (float(cf), used, j + 1, k, float(ref), float(abs(cf - ref) / abs(ref))))
    v.ground("c.every_entry_used_exactly_once", sorted(usedc) == list(range(21)), str(sorted(usedc)))
    # ---- d
    gb = g_from_b(v, T, fn)
    v.ground("d.g0_to_g6_assigned_once", sorted(gb) == list(range(7)) and all(len(x) == 1 for x in gb.values()), str({j: len(x) for j, x in gb.items()}))
    Dm = {}
    usedd = []
    for j in range(7):
        if j not in gb:
            continue
        e, used = gb[j][0]
        usedd += [i for (t, i) in used if t == "d"]
        syms = {s.name for s in e.free_symbols}
        v.ground("d.g%d.depends_on_b%d_to_b6" % (j, j), syms == {"b.p%d" % k for k in range(j, 7)}, str(sorted(syms)))
        for k in range(j, 7):
            cf = fr(e.coeff(sympy.Symbol("b.p%d" % k)))
            Dm[(k, j)] = cf
            ref = to_frac(rd[(k, j)])
            v.ground("d.g%d.weight_of_b%d_is_d_%d_%d" % (j, k, k, j), close(cf, ref) and (k > j or cf == 1),
                     "weight %.17g, Newton coordinate %.17g, rel.err %.3g" % (float(cf), float(ref), float(abs(cf - ref) / abs(ref))))
    v.ground("d.every_entry_used_exactly_once", sorted(usedd) == list(range(21)), str(sorted(usedd)))
    # ---- consistency on the doubles: b -> g -> b is the identity
    if len(Cm) == 28 and len(Dm) == 28:
        for j in range(7):
            for m in range(j, 7):
                # b_j = sum_k C[k,j] g_k,  g_k = sum_m D[m,k] b_m   =>  sum_{k=j..m} C[k,j] D[m,k] = delta_jm
                terms = [Cm[(k, j)] * Dm[(m, k)] for k in range(j, m + 1)]
                env = 2 * U * sum(abs(t) for t in terms)
                v.ground("roundtrip.b%d_from_b%d" % (j, m), abs(sum(terms) - (1 if j == m else 0)) <= 4 * env,
                         "sum = %.3g, envelope %.3g" % (float(sum(terms) - (1 if j == m else 0)), float(env)))
        h = T["h"]
        for k in range(1, 7):
            for j in range(0, k):
                lo = Cm[(k - 1, j - 1)] if j >= 1 else Fraction(0)
                hi = Cm[(k - 1, j)] if j <= k - 1 else Fraction(0)
                want = lo - h[k] * hi
                env = U * (abs(lo) + 3 * abs(h[k] * hi) + abs(Cm[(k, j)]))
                v.ground("recurrence.c_%d_%d" % (k, j), abs(Cm[(k, j)] - want) <= 4 * env, "c - (c' - h_%d c'') = %.3g" % (k, float(Cm[(k, j)] - want)))
                lo = Dm[(k - 1, j - 1)] if j >= 1 else Fraction(0)
                hi = Dm[(k - 1, j)]
                want = lo + h[j + 1] * hi
                env = U * (abs(lo) + 3 * abs(h[j + 1] * hi) + abs(Dm[(k, j)]))
                v.ground("recurrence.d_%d_%d" % (k, j), abs(Dm[(k, j)] - want) <= 4 * env, "d - (d' + h_%d d'') = %.3g" % (j + 1, float(Dm[(k, j)] - want)))


@P.task("ias15.integration_weights", fn=STEP)
def _(v):
    """The literal weights with which b enters positions and velocities are those of the integrated force polynomial:
    predictor xk0 / vk0 at s = h[n] (Horner form in the code, expanded here) and the final update at s = 1."""
    import sympy
    T, L, fn = load(v)
    s, dt, a0, v0 = sympy.Symbol("h[n]"), sympy.Symbol("r->dt"), sympy.Symbol("a0"), sympy.Symbol("v0")
    b = [sympy.Symbol("b.p%d" % k) for k in range(7)]
    xs = dt * s * v0 + dt ** 2 * (a0 * s ** 2 / 2 + sum(b[k] * s ** (k + 3) / ((k + 2) * (k + 3)) for k in range(7)))
    vs = dt * (a0 * s + sum(b[k] * s ** (k + 2) / (k + 2) for k in range(7)))
    for var, spec, cs in (("xk", xs, "csx"), ("vk", vs, "csv")):
        for comp in range(3):
            found = []
            for x in walk(fn):
                if x.get("kind") == "BinaryOperator" and x.get("opcode") == "=" and strip(x["inner"][0]).get("kind") == "DeclRefExpr" \
                        and strip(x["inner"][0])["referencedDecl"]["name"] == "%s%d" % (var, comp):
                    found.append(x["inner"][1])
            v.ground("predictor.%s%d.assigned_once" % (var, comp), len(found) == 1, "%d assignments" % len(found))
            if len(found) == 1:
                e = sympy.expand(Ev(v, T).ev(found[0]))
                v.ground("predictor.%s%d.is_integrated_force_polynomial" % (var, comp), sympy.expand(e - (spec - sympy.Symbol(cs))) == 0,
                         "difference %s" % str(sympy.expand(e - (spec - sympy.Symbol(cs))))[:200])
    # final update: sum of the increments given to add_cs(&x0[k], &csx[k], .) / add_cs(&v0[k], &csv[k], .)
    sw = [x for x in walk(fn) if x.get("kind") == "SwitchStmt"]
    inside = {id(y) for s_ in sw for y in walk(s_)}
    inc = {"x0": [], "v0": []}
    order = []
    for x in walk(fn):
        if x.get("kind") == "CallExpr" and callee(x) == "add_cs" and id(x) not in inside:
            ev = Ev(v, T)
            tgt = ev.text(x["inner"][1])
            if tgt in inc:
                inc[tgt].append(sympy.expand(ev.ev(x["inner"][3])))
                order.append(tgt)
    dd = sympy.Symbol("dt_done")
    xs1 = dd * v0 + dd ** 2 * (a0 / 2 + sum(b[k] / ((k + 2) * (k + 3)) for k in range(7)))
    vs1 = dd * (a0 + sum(b[k] / (k + 2) for k in range(7)))
    v.ground("final.x0.is_integrated_force_polynomial_at_1", sympy.expand(sum(inc["x0"]) - xs1) == 0, str(sympy.expand(sum(inc["x0"]) - xs1))[:200])
    v.ground("final.v0.is_integrated_force_polynomial_at_1", sympy.expand(sum(inc["v0"]) - vs1) == 0, str(sympy.expand(sum(inc["v0"]) - vs1))[:200])
    v.ground("final.positions_use_the_old_velocity", "v0" in order and "x0" in order and order.index("v0") > max(i for i, t in enumerate(order) if t == "x0"),
             "order of updates %s" % order)


@P.task("ias15.add_cs", fn="add_cs")
def _(v):
    """compensated summation in exact arithmetic: the represented value p - cs grows by the increment, the compensation is 0"""
    p, c, x = v.real("p"), v.real("cs"), v.real("inp")
    pa = v.array("double", 1, "pa", sym=False)
    ca = v.array("double", 1, "ca", sym=False)
    pa[0], ca[0] = p, c
    v.call("add_cs", pa.ptr, ca.ptr, x)
    v.prove("represented_value", pa[0] - ca[0] == p - c + x, order=PZ)
    v.prove("compensation_is_zero_in_R", ca[0] == 0, order=PZ)


@P.task("ias15.predict_next_step", fn="predict_next_step")
def _(v):
    """The real predict_next_step (N3 = 1, ratio <= 20): e_j = q^{j+1} sum_{k>=j} binom(k+1,j+1) b_k, i.e. as polynomials in s
    sum_j e_j s^{j+1} = sum_k b_k ((1 + q s)^{k+1} - 1) (the force polynomial continued past the step and re-expanded about
    its end in units of the new step), and the new b is e plus the last correction b_old - e_old."""
    q, s = v.real("ratio"), v.real("s")
    v.assume(q <= 20)
    names = ("_e", "_b", "e", "b")
    structs, arrs = {}, {}
    for nm in names:
        st_ = v.struct("struct reb_dpconst7", nm)
        arrs[nm] = []
        for k in range(7):
            a = v.array("double", 1, "%s_p%d" % (nm, k), sym=False)
            setattr(st_, "p%d" % k, a.ptr)
            arrs[nm].append(a)
        structs[nm] = st_
    eold = [arrs["_e"][k][0] for k in range(7)]
    bold = [arrs["_b"][k][0] for k in range(7)]
    v.call("predict_next_step", q, 1, structs["_e"], structs["_b"], structs["e"], structs["b"])
    enew = [arrs["e"][k][0] for k in range(7)]
    bnew = [arrs["b"][k][0] for k in range(7)]
    lhs = sum((enew[j] * s ** (j + 1) for j in range(1, 7)), enew[0] * s)
    rhs = sum((bold[k] * ((1 + q * s) ** (k + 1) - 1) for k in range(1, 7)), bold[0] * ((1 + q * s) - 1))
    v.prove("e_is_shifted_rescaled_force_polynomial", lhs == rhs, order=PZ)
    for j in range(7):
        v.prove("b%d_is_prediction_plus_last_correction" % j, bnew[j] == enew[j] + (bold[j] - eold[j]), order=PZ)


@P.task("ias15.substep_structure", fn=STEP)
def _(v):
    """Where the tables meet the force samples: sub-step n is evaluated at t_beginning + dt h[n] with the loop running over
    n = 1..7 (all Radau nodes but the first), the sample handed to the divided difference of sub-step n is at[k] - a0[k]
    (+ the compensation csa0), and the particle positions/velocities used for the force are x0 + xk / v0 + vk."""
    import sympy
    T, L, fn = load(v)
    # r->t = t_beginning + r->dt * h[n]
    hits = []
    for x in walk(fn):
        if x.get("kind") == "BinaryOperator" and x.get("opcode") == "=":
            ev = Ev(v, T)
            try:
                t = ev.text(x["inner"][0])
            except ValueError:
                continue
            if t == "r->t":
                try:
                    hits.append(sympy.expand(ev.ev(x["inner"][1])))
                except ValueError:
                    hits.append(None)
    want = sympy.Symbol("t_beginning") + sympy.Symbol("r->dt") * sympy.Symbol("h[n]")
    v.ground("substep_time_is_t0_plus_dt_h_n", any(e is not None and sympy.expand(e - want) == 0 for e in hits), str(hits))
    # the loop over n that contains the switch: for (int n=1; n<8; n++)
    loops = []
    for x in walk(fn):
        if x.get("kind") == "ForStmt" and any(y.get("kind") == "SwitchStmt" for y in walk(x)):
            init, _cv, cond, inc, body = x["inner"]
            decl = [y for y in walk(init) if y.get("kind") == "VarDecl"]
            lits = [int(y["value"]) for y in walk(init) if y.get("kind") == "IntegerLiteral"] + \
                   [int(y["value"]) for y in walk(cond) if y.get("kind") == "IntegerLiteral"]
            ops = [y.get("opcode") for y in walk(cond) if y.get("kind") == "BinaryOperator"] + \
                  [y.get("opcode") for y in walk(inc) if y.get("kind") == "UnaryOperator"]
            loops.append((decl[0]["name"] if decl else None, lits, ops))
    v.ground("substeps_run_over_n_1_to_7", loops and loops[-1] == ("n", [1, 8], ["<", "++"]), str(loops))
    cases = switch_cases(fn)
    for n in sorted(cases):
        init, incs = None, []
        for x in walk(cases[n]):
            if x.get("kind") == "VarDecl" and x.get("name") == "gk":
                ini = [c for c in x.get("inner", ()) if "Attr" not in c.get("kind", "")]
                init = sympy.expand(Ev(v, T).ev(ini[0])) if ini else None
            if x.get("kind") == "CallExpr" and callee(x) == "add_cs":
                ev = Ev(v, T)
                if ev.text(x["inner"][1]) == "gk":
                    incs.append(sympy.expand(ev.ev(x["inner"][3])))
        tot = (init if init is not None else sympy.Symbol("?")) + sum(incs)
        v.ground("substep%d.sample_is_force_minus_initial_force" % n,
                 sympy.expand(tot - (sympy.Symbol("at") - sympy.Symbol("a0") + sympy.Symbol("csa0"))) == 0, str(tot))
    # positions / velocities handed to the force routine
    for fld, var, base in (("x", "xk0", "x0"), ("y", "xk1", "x0"), ("z", "xk2", "x0"), ("vx", "vk0", "v0"), ("vy", "vk1", "v0"), ("vz", "vk2", "v0")):
        ok = False
        for x in walk(fn):
            if x.get("kind") == "BinaryOperator" and x.get("opcode") == "=":
                ev = Ev(v, T)
                try:
                    t = ev.text(x["inner"][0])
                    if t == "particles." + fld:
                        e = sympy.expand(ev.ev(x["inner"][1]))
                        if e == sympy.Symbol(var) + sympy.Symbol(base):
                            ok = True
                except ValueError:
                    pass
        v.ground("force_evaluated_at_predicted.%s" % fld, ok, "particles[mi].%s = %s + %s[..]" % (fld, var, base))
