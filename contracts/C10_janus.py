"""C10 (JANUS): step(-dt) after step(dt) restores the integer state bit for bit, for every supported order.

U-mode: every floating-point operation is an uninterpreted function of its operands; the only facts used are
those IEEE-754 guarantees: multiplication/division are odd in each argument, addition is commutative, the
int64<->double conversions are odd ((double)(-n) = -(double)n, (int64)(-x) = -(int64)x: C truncation).
Integers are mathematical (int64 overflow not modelled; with two's-complement wrap-around x+k-k = x holds as well).
"""
import z3
from fractions import Fraction
from engine.api import Pack
from engine import opword
from engine.csym import Contract, as_real, as_int
from engine.mem import Ptr

FILES = ["src/integrator_janus.c"]
P = Pack("C10", FILES, "JANUS bit-wise reversibility")
PACKS = [P]
P.assume("IEEE-754: x*(-y) = -(x*y), (-x)/y = -(x/y), x+y = y+x exactly; (double)(-n) = -(double)n; (int64_t)(-x) = -(int64_t)x; "
         "the compiler evaluates a source expression the same way each time (no value-changing contraction differences)")
P.assume("the JANUS scheme tables (file-scope, non-const) are never written (checked by C19 .globals) and hold their initialisers")
P.assume("reb_simulation_update_acceleration is a deterministic function of the particle array and settings (C02 read frame)")
P.not_decided += ["int64 overflow of the integer coordinates (range precondition)", "to_int rounding of user-supplied initial conditions"]

SCHEMES = ("s1odr2", "s5odr4", "s9odr6a", "s15odr8", "s33odr10c")
R, I = z3.RealSort(), z3.IntSort()


def umode(v):
    e = v.eng
    e.umode = True
    e.check_defined = False
    e.const_globals = set(SCHEMES)
    fm, fd, fa = e.uf("u_fmul", R, R, R), e.uf("u_fdiv", R, R, R), e.uf("u_fadd", R, R, R)
    i2f, f2i = e.uf("u_i2f", I, R), e.uf("f2i", R, I)
    a, b = z3.Reals("ax_a ax_b")
    n = z3.Int("ax_n")
    ax = [z3.ForAll([a, b], fm(-a, b) == -fm(a, b)), z3.ForAll([a, b], fm(a, -b) == -fm(a, b)),
          z3.ForAll([a, b], fd(-a, b) == -fd(a, b)), z3.ForAll([a, b], fa(a, b) == fa(b, a)),
          z3.ForAll([n], i2f(-n) == -i2f(n)), z3.ForAll([a], f2i(-a) == -f2i(a))]
    return ax, dict(fm=fm, fd=fd, fa=fa, i2f=i2f, f2i=f2i)


@P.task("janus.gg.palindromic", fn="gg")
def _(v):
    """gg(s, stage) == gg(s, stages-1-stage) for every real scheme and stage; index inside gamma[17]."""
    ax, U = umode(v)
    v.eng.umode = False
    for sname in SCHEMES:
        obj = v.eng.global_object(v.st, sname)
        s = v.read(Ptr(obj.id, ()))
        stages = z3.simplify(s.stages).as_long()
        order = z3.simplify(s.order).as_long()
        v.ground("%s.stages_order" % sname, (order, stages) in ((2, 1), (4, 5), (6, 9), (8, 15), (10, 33)), "order %d stages %d" % (order, stages))
        for st in range(stages):
            a = v.call("gg", s, z3.IntVal(st))
            b = v.call("gg", s, z3.IntVal(stages - 1 - st))
            v.prove("%s.stage%d" % (sname, st), a == b)


def elem_task(fn, which):
    @P.task("janus.%s.inverse" % fn, fn=fn)
    def _(v):
        """one call with argument a followed by one with -a restores p_int (element k arbitrary)"""
        ax, U = umode(v)
        r, rp = v.struct_obj("struct reb_simulation", "r")
        N = v.int("N")
        r.N = N
        pint = v.array("struct reb_particle_int", N, "PI")
        parts = v.array("struct reb_particle", N, "P")
        r.ri_janus.p_int = pint.ptr
        r.particles = parts.ptr
        a, sp, sv = v.real("a"), v.real("scale_pos"), v.real("scale_vel")
        F = ("x", "y", "z", "vx", "vy", "vz")
        before = {f: pint.array(f) for f in F}
        k = z3.Int("k")
        acc0 = {f: parts.array(f) for f in ("ax", "ay", "az")}

        def inv_for(call_arg):
            def inv(L):
                i = L.i
                cur = {f: pint.array(f) for f in F}
                upd = ("x", "y", "z") if which == "drift" else ("vx", "vy", "vz")
                src = ("vx", "vy", "vz") if which == "drift" else ("ax", "ay", "az")
                done, todo, frame = [], [], []
                for f, s in zip(upd, src):
                    if which == "drift":
                        inc = U["f2i"](U["fd"](U["fm"](U["fm"](call_arg, U["i2f"](z3.Select(inv.start[s], k))), sv), sp))
                    else:
                        inc = U["f2i"](U["fd"](U["fm"](call_arg, z3.Select(acc0[s], k)), sv))
                    done.append(z3.Select(cur[f], k) == z3.Select(inv.start[f], k) + inc)
                    todo.append(z3.Select(cur[f], k) == z3.Select(inv.start[f], k))
                for f in F:
                    if f not in upd:
                        frame.append(cur[f] == inv.start[f])
                return [("range", z3.And(0 <= i, i <= N)),
                        ("done", z3.ForAll([k], z3.Implies(z3.And(0 <= k, k < i), z3.And(*done)))),
                        ("todo", z3.ForAll([k], z3.Implies(k >= i, z3.And(*todo)))),
                        ("frame", z3.And(*frame))]
            return inv
        v.assume(N >= 0)
        v.assume(*ax)
        i1 = inv_for(a)
        i1.start = dict(before)
        v.loop(fn, 0, invariant=i1)
        if which == "drift":
            v.call(fn, rp, a, sp, sv)
        else:
            v.call(fn, rp, a, sv)
        mid = {f: pint.array(f) for f in F}
        i2 = inv_for(-a)
        i2.start = dict(mid)
        v.loop(fn, 0, invariant=i2)
        if which == "drift":
            v.call(fn, rp, -a, sp, sv)
        else:
            v.call(fn, rp, -a, sv)
        j = v.int("j")
        v.assume(0 <= j, j < N)
        for f in F:
            v.prove("restored." + f, pint.leaf(j, f) == z3.Select(before[f], j))
    return _


elem_task("drift", "drift")
elem_task("kick", "kick")


def step_task(order):
    @P.task("janus.step.inverse.order%d" % order, fn="reb_integrator_janus_part2", timeout=600)
    def _(v):
        """word of step(dt) followed by step(-dt): letters cancel pairwise from the middle outwards; every kick of
        the reverse step is preceded by to_double + force evaluation at the matching position."""
        ax, U = umode(v)
        r, rp = v.struct_obj("struct reb_simulation", "r")
        N = v.int("N")
        dt = v.real("dt")
        r.N, r.dt = N, dt
        r.ri_janus.order = order
        r.ri_janus.N_allocated = N
        r.ri_janus.recalculate_integer_coordinates_this_timestep = 0
        pint = v.array("struct reb_particle_int", N, "PI")
        parts = v.array("struct reb_particle", N, "P")
        r.ri_janus.p_int = pint.ptr
        r.particles = parts.ptr

        def rec(letter, idx):
            def f(eng, st, args, n):
                st.trace = st.trace + [(letter, args[idx] if idx is not None else None)]
            return f
        for nm, (l, i) in {"drift": ("D", 1), "kick": ("K", 1), "to_double": ("T", None), "to_int": ("TOINT", None),
                           "reb_simulation_update_acceleration": ("F", None), "reb_simulation_error": ("ERR", None)}.items():
            v.eng.trace_prims[nm] = rec(l, i)
        fns = ["reb_integrator_janus_part1", "F", "reb_integrator_janus_part2"]

        def step():
            v.st.trace = []
            v.call("reb_integrator_janus_part1", rp)
            v.st.trace = v.st.trace + [("F", None)]
            v.call("reb_integrator_janus_part2", rp)
            return list(v.st.trace)
        fwd = step()
        r.dt = -dt
        rev = step()
        v.ground("no_error_letters", not [x for x in fwd + rev if x[0] in ("ERR", "TOINT")], str([x[0] for x in fwd][:12]))
        pf = [x for x in fwd if x[0] in ("D", "K")]
        pr = [x for x in rev if x[0] in ("D", "K")]
        v.ground("same_shape", [x[0] for x in pf] == [x[0] for x in pr][::-1] and len(pf) == len(pr), "%d letters" % len(pf))
        stages = {2: 1, 4: 5, 6: 9, 8: 15, 10: 33}[order]
        v.ground("letter_count", len(pf) == 2 * stages + 1, "%d physical letters for %d stages" % (len(pf), stages))
        for i, (lr, ar) in enumerate(pr):
            lf, af = pf[len(pf) - 1 - i]
            v.lemma("cancel.%d.%s" % (i, lr), ax, as_real(ar) == -as_real(af))
        # every K of either step uses forces computed from the current integer state
        for nm, w in (("fwd", fwd), ("rev", rev)):
            ok, fresh_t, fresh_f = True, False, False
            for (l, a) in w:
                if l == "D":
                    fresh_t = fresh_f = False
                elif l == "T":
                    fresh_t, fresh_f = True, False
                elif l == "F":
                    fresh_f = fresh_t
                elif l == "K" and not fresh_f:
                    ok = False
            v.ground("forces_from_grid." + nm, ok, "to_double + update_acceleration precede each kick after the last drift")
    return _


for o in (2, 4, 6, 8, 10):
    step_task(o)
