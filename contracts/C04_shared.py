"""C04 (shared lemmas): conservation of momentum / energy by an integrator step rests on two facts that are proved on the real
code elsewhere and are re-registered here so that the C04 check itself fails when they break:
  * gravity: every visited pair is the specified pair, visited exactly once, and m_i*da_i + m_j*da_j = 0 for it
    (C02 accumulation-rule tasks for BASIC and COMPENSATED, incl. the gravity_ignore_terms handling the WH splittings rely on);
  * centre of mass: the uniform motion of the barycentre needs the centre-of-mass drift of a step to total dt in safe AND in
    unsynchronised mode (C09 safe/unsafe word equivalence for WHFast, all coordinate systems, and SABA).
"""
from engine.api import Pack, Task
from contracts import C02_gravity as G
from contracts import C09_sync as S
from contracts import C03_kepler as K

P = Pack("C04", sorted(set(G.P.files) | set(S.P.files) | set(K.P.files)), "conservation: shared gravity / synchronisation lemmas")
PACKS = [P]
P.assumptions += ["shared with C02: " + a for a in G.P.assumptions] + ["shared with C09: " + a for a in S.P.assumptions] + ["shared with C03: " + a for a in K.P.assumptions]
P.trusted += G.P.trusted

for t in G.P.tasks:
    if t.name in ("basic.onebox", "compensated"):
        P.tasks.append(Task(P, "gravity." + t.name, t.fn, t.func, files=G.P.files, timeout=t.timeout, order=t.order, z3_ms=t.z3_ms, polyid_s=t.polyid_s))
# hybrid integrators: the two parts of the split force must add up to the full force (otherwise energy is not conserved across
# an encounter), and the Kepler step of every coordinate system must use the mass parameter that the interaction step
# complements (otherwise the splitting does not sum to the Hamiltonian)
for t in G.P.tasks:
    if t.name.startswith("mercurius.") or t.name.startswith("trace."):
        P.tasks.append(Task(P, "gravity." + t.name, t.fn, t.func, files=G.P.files, timeout=t.timeout, order=t.order, z3_ms=t.z3_ms, polyid_s=t.polyid_s))
for t in K.P.tasks:
    if t.name.startswith("kepler_step.mass."):
        P.tasks.append(Task(P, "splitting." + t.name, t.fn, t.func, files=t.files or K.P.files, timeout=t.timeout, order=t.order, z3_ms=t.z3_ms, polyid_s=t.polyid_s))
for t in S.P.tasks:
    if t.name.endswith(".default.c0.c2_0.safe_vs_unsafe") or t.name in ("saba.1.safe_vs_unsafe", "saba.10_6_4.safe_vs_unsafe"):
        P.tasks.append(Task(P, "com_and_sync." + t.name, t.fn, t.func, files=S.P.files, timeout=t.timeout))
# the pair filter (gravity_ignore_terms) belongs to the integrator: an integrator that leaves a stale filter behind after a
# switch of integrator silently drops the star-planet (or star-star) terms from the force and energy is not conserved
from contracts import C02_modes as M
for t in M.P.tasks:
    P.tasks.append(Task(P, "gravity.modes." + t.name, t.fn, t.func, files=t.files or M.P.files, timeout=t.timeout))
P.assumptions += ["shared with C02: " + a for a in M.P.assumptions]
