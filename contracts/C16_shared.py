"""C16 (shared lemma): variational particles stay the derivatives of the real trajectory only if every operation that moves
the real particles applies the derivative of that move to them.  reb_simulation_move_to_com shifts first- and second-order
variational particles by the derivatives of the centre of mass (incl. the term from a varied total mass); its contracts
(C20 frames pack) are re-registered here."""
from engine.api import Pack, Task
from contracts import C20_frames as F

P = Pack("C16", F.P.files, "frame shifts apply their derivative to the variational particles (shared with C20)")
PACKS = [P]
P.assumptions += ["shared with C20: " + a for a in F.P.assumptions]
P.trusted += F.P.trusted
for t in F.P.tasks:
    if t.name.startswith("frames.move_to_com.") and "variation" in t.name:
        P.tasks.append(Task(P, "frame_shift." + t.name, t.fn, t.func, files=t.files or F.P.files, timeout=t.timeout, order=t.order, z3_ms=t.z3_ms, polyid_s=t.polyid_s))


# the tangent map of the WHFast Kepler step uses its own Stumpff routine (stumpff_cs: c0..c5); its series, argument reduction
# and quadrupling recurrences are under contract in C03 and re-registered here
from contracts import C03_kepler as K3
for t in K3.P.tasks:
    if t.name.startswith("stumpff_cs.") or t.name == "stumpff.algebraic_relations" or t.name.startswith("stiefel_Gs."):
        P.tasks.append(Task(P, "kepler_tangent_map." + t.name, t.fn, t.func, files=t.files or K3.P.files, timeout=t.timeout, order=t.order, z3_ms=t.z3_ms, polyid_s=t.polyid_s))


# the variational particles stay the derivative of the real trajectory under WHFast with keep_unsynchronized = 1 only if the cached
# coordinates part2 leaves behind carry the variational centre of mass at the END of the step (C09 keep/restore contract on the
# real reb_integrator_whfast_part2)
from contracts import C09_keep_restore as KR
P3 = Pack("C16", KR.FILES, "WHFast part2 keeps the variational centre of mass under keep_unsynchronized (shared with C09)")
PACKS.append(P3)
P3.assumptions += ["shared with C09: " + a for a in KR.P.assumptions]
for t in KR.P.tasks:
    if t.name.startswith("whfast.part2.variational."):
        P3.tasks.append(Task(P3, "keep_unsynchronized." + t.name, t.fn, t.func, files=t.files or KR.FILES, timeout=t.timeout))
