"""C16 (shared lemma): variational particles stay the derivatives of the real trajectory only if every operation that moves
the real particles applies the derivative of that move to them.  reb_simulation_move_to_com shifts first- and second-order
variational particles by the derivatives of the centre of mass (incl. the term from a varied total mass); its contracts
(C20 frames pack) are re-registered here."""
from engine.api import Pack, Task
from contracts import C20_frames as F

P = Pack("C16", F.P.files, "frame shifts apply their derivative to the variational particles (shared with C20)")
PACKS = [P]
P.assumptions += ["shared with C20: " + a for a in F.P.assumptions]
P.trusted += F.P.trusted
for t in F.P.tasks:
    if t.name.startswith("frames.move_to_com.") and "variation" in t.name:
        P.tasks.append(Task(P, "frame_shift." + t.name, t.fn, t.func, files=t.files or F.P.files, timeout=t.timeout, order=t.order, z3_ms=t.z3_ms, polyid_s=t.polyid_s))
