"""C09 (continued): safe mode == unsafe mode + synchronize, word level, for EOS, MERCURIUS, SABA with correctors and the
WHFast MODIFIEDKICK / LAZY kernels.  Same induction as C09_sync.py:

   base:  W_first . W_sync == W_safe          step:  W_mid . W_sync == W_sync . W_safe

(both sides extracted from the REAL part1/part2/synchronize in the respective flag states) which gives
W_first . W_mid^(n-1) . W_sync == W_safe^n for every n >= 1, modulo the merge laws X(a)X(b)=X(a+b), X(0)=id of letters that
are flows of one generator, and exact-inverse cancellation X(c)X(-c)=id for the others.
LEAPFROG and SEI have no unsynchronised state (synchronize is empty: obligations below)."""
from fractions import Fraction
import z3
from engine.api import Pack
from engine import opword
from contracts import _words as W
from contracts import _wordloops as WL
from contracts import C01_order_more as M1

P = Pack("C09", W.WH_FILES, "safe mode == unsafe + synchronize (EOS, MERCURIUS, correctors, kernels)")
PACKS = [P]
P.assume("EOS merge law D(a)D(b)=D(a+b) for drift_shell0: the shell-0 drift is (an approximation of) the flow of ONE autonomous "
         "generator; for the inner splitting with n sub-steps the merged drift D(2a) executes the inner scheme with step 2a/n "
         "instead of twice a/n: equal as exact flows, different truncation error (the property statement allows this: "
         "'up to the integrator's own error')")
P.assume("processor cancellation post . pre = id is by exact inverse letters X(c)X(-c) = id, no commutation assumed")

fmt = WL.fmt


def induction(v, name, w_safe, w_first, w_mid, w_sync, norm):
    a, b = norm(w_first + w_sync), norm(w_safe)
    v.ground(name + "base.first_plus_sync_eq_safe", a == b, "lhs=%s | rhs=%s" % (fmt(a), fmt(b)))
    a, b = norm(w_mid + w_sync), norm(w_sync + w_safe)
    v.ground(name + "step.mid_plus_sync_eq_sync_plus_safe", a == b, "lhs=%s | rhs=%s" % (fmt(a), fmt(b)))


# ====================================================================== EOS
def eos_norm(word):
    return WL.reduce_word(word, {"D", "I"})


def eos_equiv(phi0):
    SY = "reb_integrator_eos_synchronize"

    @P.task("eos.%s.safe_vs_unsafe" % phi0.lower(), fn=SY, timeout=600)
    def _(v):
        r, rp, dt = M1.eos_outer_sim(v, phi0, safe=1, sync=1)
        w_safe = W.run(v, rp, M1.EOS_STEP)
        v.prove("safe.ends_synchronized", r.ri_eos.is_synchronized == 1)
        v.st.trace = []
        r1, rp1, dt1 = M1.eos_outer_sim(v, phi0, safe=0, sync=1)
        w_first = W.run(v, rp1, M1.EOS_STEP)
        v.prove("unsafe.first.ends_unsynchronized", r1.ri_eos.is_synchronized == 0)
        v.st.trace = []
        w_mid = W.run(v, rp1, M1.EOS_STEP)
        v.prove("unsafe.mid.ends_unsynchronized", r1.ri_eos.is_synchronized == 0)
        v.st.trace = []
        w_sync = W.run(v, rp1, [SY])
        v.prove("sync.sets_flag", r1.ri_eos.is_synchronized == 1)
        v.ground("sync.is_final_drift_plus_postprocessor", bool(WL.physical(w_sync)) and WL.physical(w_sync)[0][0] == "D", fmt(w_sync))
        v.st.trace = []
        w_sync2 = W.run(v, rp1, [SY])
        v.ground("sync.idempotent", not WL.physical(w_sync2), fmt(w_sync2))
        induction(v, "", w_safe, w_first, w_mid, w_sync, eos_norm)
        # the merged drift D(2a) of an unsynchronised step = synchronising drift D(a) + first kernel drift D(a) of a fresh step
        d_first = [w for w in WL.physical(w_first) if w[0] == "D"]
        d_mid = [w for w in WL.physical(w_mid) if w[0] == "D"]
        d_sync = [w for w in WL.physical(w_sync) if w[0] == "D"]
        n_pre = len(d_first) - len(d_mid)            # drifts of the preprocessor (absent from an unsynchronised step)
        ok = bool(d_mid) and bool(d_sync) and 0 <= n_pre < len(d_first) and d_mid[0][1] == d_sync[0][1] + d_first[n_pre][1]
        v.ground("merged_drift_is_last_plus_first", ok, "mid drifts %s | sync drifts %s | first-step drifts %s" % (fmt(d_mid[:1]), fmt(d_sync[:1]), fmt(d_first)))


for _t in M1.EOS_TYPES:
    eos_equiv(_t)


# ====================================================================== LEAPFROG / SEI: nothing to synchronise
@P.task("leapfrog_sei.synchronize_is_identity", fn="reb_integrator_leapfrog_synchronize")
def _(v):
    for fn in ("reb_integrator_leapfrog_synchronize", "reb_integrator_sei_synchronize"):
        r, rp, dt, N, parts = WL.make_plain_sim(v, {})
        v.st.log = set()
        v.call(fn, rp)
        v.ground(fn.replace("reb_integrator_", "") + ".writes_nothing", not v.st.log, str(sorted(v.st.log, key=str)))
        v.ground(fn.replace("reb_integrator_", "") + ".no_letters", not v.st.trace, fmt(v.st.trace))
        v.st.log = None


# ====================================================================== MERCURIUS
P.assume("MERCURIUS kick merge I(a)I(b)=I(a+b): both kicks use accelerations of the same positions (no position-changing letter "
         "in between: checked as 'forces_fresh' + adjacency in the normalised word); inertial_to_dh / dh_to_inertial at step "
         "boundaries are mutually inverse (C12) so the safe-mode re-derivation of heliocentric coordinates does not change the state; "
         "C (com_step) acts on ri_mercurius.com_pos only and commutes with every other letter (body contract in C01)")


def merc_norm(word):
    w = WL.physical(word)
    ctot = sum((c for (l, c, k) in w if l == "C"), Fraction(0))
    rest = [x for x in w if x[0] != "C"]
    return ([("C", ctot, 1)] if ctot != 0 else []) + WL.reduce_word(rest, {"I", "J", "K"})


@P.task("mercurius.safe_vs_unsafe", fn="reb_integrator_mercurius_synchronize", timeout=600)
def _(v):
    SY = "reb_integrator_mercurius_synchronize"
    r, rp, dt, N, parts = M1.merc_sim(v, safe=1, sync=1)
    w_safe = W.run(v, rp, M1.MERC_STEP)
    v.prove("safe.ends_synchronized", r.ri_mercurius.is_synchronized == 1)
    v.prove("safe.requests_coordinate_recalculation", r.ri_mercurius.recalculate_coordinates_this_timestep == 1)
    v.st.trace = []
    r1, rp1, dt1, N1, parts1 = M1.merc_sim(v, safe=0, sync=1, recalc=1)     # state after a synchronize: recalc flag set
    w_first = W.run(v, rp1, M1.MERC_STEP)
    v.prove("unsafe.first.ends_unsynchronized", r1.ri_mercurius.is_synchronized == 0)
    v.prove("unsafe.first.clears_recalc_flag", r1.ri_mercurius.recalculate_coordinates_this_timestep == 0)
    v.st.trace = []
    w_mid = W.run(v, rp1, M1.MERC_STEP)
    v.prove("unsafe.mid.ends_unsynchronized", r1.ri_mercurius.is_synchronized == 0)
    names = [l for (l, c, k) in w_mid]
    v.ground("unsafe.mid.no_coordinate_transform", not any("inertial" in n for n in names), str(names))
    v.st.trace = []
    w_sync = W.run(v, rp1, [SY])
    v.prove("sync.sets_flag", r1.ri_mercurius.is_synchronized == 1)
    v.prove("sync.requests_coordinate_recalculation", r1.ri_mercurius.recalculate_coordinates_this_timestep == 1)
    v.ground("sync.evaluates_forces_then_half_kick_then_to_inertial",
             [l for (l, c, k) in w_sync] == ["!reb_simulation_update_acceleration", "I", "!reb_integrator_mercurius_dh_to_inertial"]
             and WL.physical(w_sync) == [("I", Fraction(1, 2), 1)], fmt(w_sync))
    v.st.trace = []
    w_sync2 = W.run(v, rp1, [SY])
    v.ground("sync.idempotent", not w_sync2, fmt(w_sync2))
    induction(v, "", w_safe, w_first, w_mid, w_sync, merc_norm)
    for nm, w in (("safe", w_safe), ("first+sync", w_first + w_sync), ("mid+sync", w_mid + w_sync)):
        bad = M1.merc_fresh(w)
        v.ground("forces_fresh." + nm, not bad, str(bad))
    # the kick that opens an unsynchronised step uses the forces evaluated between part1 and part2 at the positions left by the
    # previous step: same positions as the ones synchronize would use
    v.ground("unsafe.mid.opens_with_full_kick", WL.physical(w_mid)[:1] == [("I", Fraction(1), 1)], fmt(w_mid))


# ====================================================================== SABA with correctors, WHFast MODIFIEDKICK / LAZY kernels
P.assume("corrector merge X(a)X(b)=X(a+b): the corrector letter is the flow of ONE generator (jerk kick at frozen positions); the "
         "unsynchronised part1 applies it once with the doubled coefficient 2*cc, the word comparison shows that this equals the "
         "closing corrector of the previous step followed by the opening corrector of the next one")


def wh_norm(word):
    w = WL.physical(word)
    ctot = sum((c for (l, c, k) in w if l == "C"), Fraction(0))
    rest = [x for x in w if x[0] != "C"]
    return ([("C", ctot, 1)] if ctot != 0 else []) + WL.reduce_word(rest, {"K", "I", "X", "J"})


def fused_run(v, rp, fns, tag):
    raw = W.run(v, rp, fns)
    v.st.trace = []
    return M1.fuse(v, raw, tag)


def sabac_equiv(tname):
    SY = "reb_integrator_saba_synchronize"

    @P.task("sabac.%s.safe_vs_unsafe" % tname[9:].lower(), fn=SY, timeout=600)
    def _(v):
        r, rp, dt = M1.corrector_sim(v, M1.saba_cfg(tname, safe=1, sync=1))
        w_safe = fused_run(v, rp, M1.SABA_STEP, "safe")
        v.prove("safe.ends_synchronized", r.ri_saba.is_synchronized == 1)
        r1, rp1, dt1 = M1.corrector_sim(v, M1.saba_cfg(tname, safe=0, sync=1))
        w_first = fused_run(v, rp1, M1.SABA_STEP, "first")
        v.prove("unsafe.first.ends_unsynchronized", r1.ri_saba.is_synchronized == 0)
        w_mid = fused_run(v, rp1, M1.SABA_STEP, "mid")
        v.prove("unsafe.mid.ends_unsynchronized", r1.ri_saba.is_synchronized == 0)
        w_sync = fused_run(v, rp1, [SY], "sync")
        v.prove("sync.sets_flag", r1.ri_saba.is_synchronized == 1)
        w_sync2 = fused_run(v, rp1, [SY], "sync2")
        v.ground("sync.idempotent", not WL.physical(w_sync2), fmt(w_sync2))
        xs_mid = [w for w in WL.physical(w_mid) if w[0] == "X"]
        xs_sync = [w for w in WL.physical(w_sync) if w[0] == "X"]
        v.ground("unsafe.mid.doubled_corrector", len(xs_mid) == 1 and len(xs_sync) == 1 and xs_mid[0][1] == 2 * xs_sync[0][1]
                 and WL.physical(w_mid)[:1] == xs_mid, "mid %s sync %s" % (fmt(xs_mid), fmt(xs_sync)))
        v.ground("sync.is_corrector_only", [w[0] for w in WL.physical(w_sync)] == ["X"], fmt(w_sync))
        induction(v, "", w_safe, w_first, w_mid, w_sync, wh_norm)


for _tn in M1.SABAC:
    sabac_equiv(_tn)


def whkernel_equiv(kernel, corr):
    SY = "reb_integrator_whfast_synchronize"

    @P.task("whkernel.%s.c%d.safe_vs_unsafe" % (kernel.lower(), corr), fn=SY, timeout=600)
    def _(v):
        r, rp, dt = M1.corrector_sim(v, M1.wh_cfg("JACOBI", kernel, corr, 0, safe=1, sync=1))
        w_safe = fused_run(v, rp, M1.WH_STEP, "safe")
        v.prove("safe.ends_synchronized", r.ri_whfast.is_synchronized == 1)
        r1, rp1, dt1 = M1.corrector_sim(v, M1.wh_cfg("JACOBI", kernel, corr, 0, safe=0, sync=1))
        w_first = fused_run(v, rp1, M1.WH_STEP, "first")
        v.prove("unsafe.first.ends_unsynchronized", r1.ri_whfast.is_synchronized == 0)
        w_mid = fused_run(v, rp1, M1.WH_STEP, "mid")
        v.prove("unsafe.mid.ends_unsynchronized", r1.ri_whfast.is_synchronized == 0)
        w_sync = fused_run(v, rp1, [SY], "sync")
        v.prove("sync.sets_flag", r1.ri_whfast.is_synchronized == 1)
        w_sync2 = fused_run(v, rp1, [SY], "sync2")
        v.ground("sync.idempotent", not WL.physical(w_sync2), fmt(w_sync2))
        induction(v, "", w_safe, w_first, w_mid, w_sync, wh_norm)


for _k in ("MODIFIEDKICK", "LAZY"):
    for _c in (0, 3, 17):
        whkernel_equiv(_k, _c)
