"""C15 (shared lemma): 'tree-based searches see every particle' needs a tree whenever a module uses one -- also after a
restart or a copy, where the tree is rebuilt by the loader.  The loader / step contracts of C05 (tree rebuilt iff gravity TREE,
collision TREE or LINETREE is selected; tree maintained by every step iff in use) are re-registered here."""
from engine.api import Pack, Task
from contracts import C05_roundtrip as R

P = Pack("C15", R.P.files, "a tree exists whenever a module uses it (shared with C05)")
PACKS = [P]
P.assumptions += ["shared with C05: " + a for a in R.P.assumptions]
P.trusted += R.P.trusted
for t in R.P.tasks:
    if t.name in ("loader.tree_rebuilt_iff_tree_in_use", "step.tree_maintained_iff_tree_in_use"):
        P.tasks.append(Task(P, "tree_in_use." + t.name, t.fn, t.func, files=t.files or R.P.files, timeout=t.timeout, order=t.order, z3_ms=t.z3_ms, polyid_s=t.polyid_s))
