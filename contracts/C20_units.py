"""C20 (units part): rebound/units.py and the units code of rebound/simulation.py.

The Python text is the REAL file of the tree under analysis, parsed with `ast` on every run (engine/pysym.py, path
engine.cfront.REPO + "/rebound/units.py"); nothing is imported or copied.  Functions are executed symbolically:
  * symbolic-table mode: every VALUE of the module-level tables lengths_SI / times_SI / masses_SI and G_SI is a positive
    symbolic real named after its key, unit names are arbitrary strings constrained to be keys of the right table --
    what is proved holds for every unit triple and for any positive table contents;
  * ground mode: the real initialiser expressions evaluated with Python's own float arithmetic, compared entry by
    entry with the INDEPENDENT reference table typed below (an assumption) and checked exhaustively over all triples.
The specification side is dimensional analysis: a quantity of dimension L^a T^b M^c converts between unit systems
by  value * (L_old/L_new)^a * (T_old/T_new)^b * (M_old/M_new)^c  (unit sizes in SI); G has dimension L^3 T^-2 M^-1.
"""
import ast, math, itertools, os, re
from fractions import Fraction
import z3
from engine.api import Pack
from engine import cfront, pysym
from engine.pysym import STR, LOWER, selector

P = Pack("C20", [], "units (rebound/units.py, Simulation.units)")
PACKS = [P]
UNITS_PY = "rebound/units.py"
SIM_PY = "rebound/simulation.py"
PARTICLE_PY = "rebound/particle.py"
TABLES = ("lengths_SI", "times_SI", "masses_SI")

P.assume("Python semantics assumed by engine/pysym.py: floats are mathematical reals ('to rounding error' not decided); "
         "d[k] on a dict literal raises KeyError unless k is one of the literal's keys (obligation def.key) and otherwise "
         "yields the value written next to that key, the same one for the same key; x/y raises iff y == 0 (obligation "
         "def.div); strings are an uninterpreted sort with distinct literals distinct, s.lower() an uninterpreted function "
         "agreeing with Python's str.lower on every literal and idempotent; `s in d` is the disjunction of s == key; "
         "module-level tables and functions are not rebound or mutated at run time")
P.assume("symbolic-table mode: each value of lengths_SI / times_SI / masses_SI and G_SI is an arbitrary POSITIVE real "
         "(positivity of the real values is checked exhaustively in units.tables.*)")
P.assume("unit conversion specification = dimensional analysis: dimensions x,y,z,r: L; vx,vy,vz: L T^-1; ax,ay,az: "
         "L T^-2; m: M; G: L^3 T^-2 M^-1; period: T (units.py has no time conversion function: the converted period in "
         "the Kepler obligation is P*T_old/T_new by this rule)")
P.assume("REFERENCE TABLE (independent of the code, typed into this pack, an assumption): IAU 2012 B2 au = 149597870700 m; "
         "IAU 2015 B2 parsec = 648000/pi au; Julian year = 365.25 d, d = 86400 s; sidereal year = 365.256363004 d (J2000, "
         "IERS/Astronomical Almanac); yr2pi = sqrt(au^3/GM_sun) (its documented meaning: year/2pi of a planet at 1 au "
         "around 1 Msun); IAU 2015 B3 nominal GM_sun = 1.3271244e20, GM_earth = 3.986004e14, GM_jupiter = 1.2668653e17 "
         "m^3/s^2; DE430 (Folkner et al. 2014) GM Mercury 22031.78, Venus 324858.592 km^3/s^2; planet-only GM (the "
         "comment in units.py says NAIF xx99 = planet without moons) Mars 42828.3744 (DE430 system - Phobos - Deimos), "
         "Saturn 37931207.7 (Jacobson et al. 2006), Uranus 5793951.3 (Jacobson 2014), Neptune 6835100 +-10 (Jacobson "
         "2009), Pluto 869.6 +-1.8 (Brozovic et al. 2015) km^3/s^2; massist: the mass unit with G = 1 for au, day, i.e. "
         "G*massist = au^3/day^2; G = 6.67408e-11 (CODATA 2014, the value units.py documents as G_SI); mass of a body in "
         "kg = GM/G.  Tolerance 1e-6 relative, except where the reference's own published uncertainty is larger "
         "(Neptune 1.5e-6, Pluto 2.1e-3): then that uncertainty")
P.assume("clibrebound.reb_hash is a pure function of the string; c_char_p(s.encode('ascii')) passes the characters of s "
         "(all table keys are checked to be ASCII); assigning clibrebound.reb_hash.restype has no effect on values")
P.assume("hash values of the table keys: obtained by calling reb_hash of the natively compiled tree under analysis on "
         "every key (exhaustive, 39 keys): pairwise distinct and non-zero; used as hypothesis of hash_to_unit")
P.assume("`for p in self.particles` visits every particle once; the loop body is executed on one arbitrary particle "
         "object and checked to write only attributes of that particle")
P.not_decided += ["units: rounding error of the float conversions ('reversible to rounding error' is proved in exact real arithmetic)",
                  "units: time-valued data (Particle.last_collision, Simulation.t, dt and other dimensional settings) are not "
                  "converted by convert_particle_units; its docstring promises only G and the particles' cartesian elements "
                  "-- proved as a frame (last_collision untouched), whether they ought to be converted is not decided",
                  "units: CODATA 2018/2022 G = 6.67430e-11 differs from G_SI by 3.3e-5; because every astronomical mass unit is "
                  "GM/G_SI the products G*M (all that enters the dynamics) are independent of G_SI (proved: units.tables.GM_independent_of_G)"]


# ------------------------------------------------------------------------------------------------ reference table
AU = 149597870700.0
DAY = 86400.0
JYR = 365.25 * DAY
GM_SUN = 1.3271244e20
REF_G = 6.67408e-11
REF_LENGTHS = {"m": 1.0, "cm": 0.01, "km": 1000.0, "au": AU, "aus": AU, "pc": 648000.0 / math.pi * AU,
               "parsec": 648000.0 / math.pi * AU}
REF_TIMES = {"s": 1.0, "hr": 3600.0, "day": DAY, "days": DAY, "d": DAY, "yr": JYR, "year": JYR, "years": JYR, "yrs": JYR,
             "jyr": JYR, "sidereal_yr": 365.256363004 * DAY, "yr2pi": math.sqrt(AU ** 3 / GM_SUN), "kyr": JYR * 1e3,
             "myr": JYR * 1e6, "gyr": JYR * 1e9}
# GM in m^3/s^2 with the relative uncertainty of the reference where it exceeds 1e-6
REF_GM = {"msun": (GM_SUN, 0), "solarmass": (GM_SUN, 0), "sunmass": (GM_SUN, 0), "msolar": (GM_SUN, 0),
          "mmercury": (22031.78e9, 0), "mvenus": (324858.592e9, 0), "mearth": (3.986004e14, 0),
          "mmars": (42828.3744e9, 0), "mjupiter": (1.2668653e17, 0), "msaturn": (37931207.7e9, 0),
          "muranus": (5793951.3e9, 0), "mneptune": (6835100e9, 10.0 / 6835100), "mpluto": (869.6e9, 1.8 / 869.6),
          "massist": (AU ** 3 / DAY ** 2, 0)}
REF_MASSES = {"kg": (1.0, 0), "g": (1e-3, 0), "gram": (1e-3, 0)}
REF_MASSES.update({k: (gm / REF_G, u) for k, (gm, u) in REF_GM.items()})
TOL = 1e-6
# dimension table (L, T, M exponents) of the particle members and of G: the specification
DIMS = {"x": (1, 0, 0), "y": (1, 0, 0), "z": (1, 0, 0), "r": (1, 0, 0), "vx": (1, -1, 0), "vy": (1, -1, 0), "vz": (1, -1, 0),
        "ax": (1, -2, 0), "ay": (1, -2, 0), "az": (1, -2, 0), "m": (0, 0, 1)}
DIM_G = (3, -2, -1)
NOT_CARTESIAN = {"last_collision"}     # double members of Particle outside the documented scope of the conversion


# ------------------------------------------------------------------------------------------------ helpers
def units_module():
    return pysym.module(UNITS_PY)


def real_tables():
    return pysym.concrete_tables(units_module(), TABLES + ("G_SI",))


def interp(v, mod=None, symbolic=True, **kw):
    """interpreter over the real module; symbolic=True: table values / G_SI are positive symbolic reals"""
    um = units_module()
    it = pysym.Interp(mod or um, v, **kw)
    if symbolic:
        conc = real_tables()
        for t in TABLES:
            keys = conc[t].keys
            vals = [z3.Real("%s['%s']" % (t, k)) for k in keys]
            it.sym_globals[t] = pysym.DictV(keys, vals, t)
            it.global_hyps += [x > 0 for x in vals]
        g = z3.Real("G_SI")
        it.sym_globals["G_SI"] = g
        it.global_hyps.append(g > 0)
    return it


def keys_of(t):
    return real_tables()[t].keys


def is_key(it, s, table):
    return z3.Or(*[s == it.lit(k) for k in keys_of(table)])


def pw(x, n):
    r = z3.RealVal(1)
    for _ in range(abs(n)):
        r = r * x
    return r if n >= 0 else 1 / r


def dim_convert(value, dims, old, new):
    """dimensional-analysis conversion; old/new = (L, T, M) unit sizes in SI (terms)"""
    r = value
    for e, o, n_ in zip(dims, old, new):
        for _ in range(abs(e)):
            r = r * o / n_ if e > 0 else r * n_ / o
    return r


def usize(l=None, t=None, m=None):
    one = z3.RealVal(1)
    return (selector("lengths_SI")(l) if l is not None else one, selector("times_SI")(t) if t is not None else one,
            selector("masses_SI")(m) if m is not None else one)


class Shim:
    """state view for v.prove-like obligations with the interpreter's hypotheses"""

    def __init__(self, it, st):
        self.it, self.st = it, st

    def hyps(self):
        return self.it.hyps(self.st)


def prove(v, it, st, name, goal, **meta):
    ob = v.eng.oblige(Shim(it, st), v.task.name + "." + name, goal, "post")
    ob.meta.update(meta)
    return ob


def size_terms(goal):
    """applications of the table selectors (`lengths_SI[](k)` ...) and G_SI occurring in a term"""
    out, seen, stack = [], set(), [goal]
    while stack:
        t = stack.pop()
        if t.get_id() in seen:
            continue
        seen.add(t.get_id())
        if z3.is_app(t):
            nm = t.decl().name()
            if (nm.endswith("[]") and t.num_args() == 1) or (nm.startswith("G_SI") and t.num_args() == 0) or \
                    (t.num_args() == 0 and "_SI['" in nm):
                out.append(t)
                continue
            stack.extend(t.children())
    return sorted(out, key=lambda t: str(t))


def alg(v, it, st, name, goal, extra=()):
    """Algebraic clause: proved from the positivity of the unit sizes it mentions (plus `extra`, each proved or assumed
    by the caller) and nothing else -- keeps the nonlinear obligations small and solver-independent.  The positivity of
    each size is its own obligation under the full hypotheses of the symbolic run (key is in the table => value > 0)."""
    done = v.__dict__.setdefault("_pos_done", {})
    hyps = []
    for t in size_terms(z3.And(goal, *extra) if extra else goal):
        key = (id(st), t.get_id())
        if key not in done:
            done[key] = True
            prove(v, it, st, "unit_size_positive.%s" % re.sub(r"[^A-Za-z0-9_]+", "_", str(t)).strip("_"), t > 0)
        hyps.append(t > 0)
    return v.lemma(name, hyps + list(extra), goal)


def cover(v, it, st, name="cover.hypotheses_satisfiable"):
    s = z3.Solver()
    s.set("timeout", 5000)
    for h in it.hyps(st):
        s.add(h)
    v.ground(name, s.check() != z3.unsat, "hypotheses of the symbolic run are satisfiable (no vacuous proof)")


# ------------------------------------------------------------------------------------------------ (1) conversions
CONV = {"convert_length": ((1, 0, 0), "l"), "convert_mass": ((0, 0, 1), "m"), "convert_vel": ((1, -1, 0), "lt"),
        "convert_acc": ((1, -2, 0), "lt")}


def conv_task(fname, dims, kinds):
    @P.task("units.%s" % fname, fn="%s:%s" % (UNITS_PY, fname))
    def _(v):
        it = interp(v)
        x = z3.Real("x")
        st = pysym.State()
        U = {}
        for sysname in "abc":
            U[sysname] = {}
            for k in kinds:
                s = it.symstr("%s_%s" % (k, sysname))
                U[sysname][k] = s
                st.pc.append(is_key(it, s, {"l": "lengths_SI", "t": "times_SI", "m": "masses_SI"}[k]))

        def args(val, frm, to):
            if kinds == "lt":
                return [val, U[frm]["l"], U[frm]["t"], U[to]["l"], U[to]["t"]]
            return [val, U[frm][kinds], U[to][kinds]]

        def run(val, frm, to):
            nonlocal st
            o = it.call1(fname, args(val, frm, to), st=st)
            st = o.st
            return o.value

        def size(sysname):
            return usize(U[sysname].get("l"), U[sysname].get("t"), U[sysname].get("m"))
        ab = run(x, "a", "b")
        alg(v, it, st, "spec.dimensional", ab == dim_convert(x, dims, size("a"), size("b")))
        abc = run(ab, "b", "c")
        ac = run(x, "a", "c")
        alg(v, it, st, "transitive", abc == ac)
        aba = run(ab, "b", "a")
        alg(v, it, st, "inverse", aba == x)
        aa = run(x, "a", "a")
        alg(v, it, st, "identity", aa == x)
        cover(v, it, st)
    return _


for _f, (_d, _k) in CONV.items():
    conv_task(_f, _d, _k)


def triple(it, st, tag):
    l, t, m = it.symstr("l_" + tag), it.symstr("t_" + tag), it.symstr("m_" + tag)
    st.pc += [is_key(it, l, "lengths_SI"), is_key(it, t, "times_SI"), is_key(it, m, "masses_SI")]
    return l, t, m


# ------------------------------------------------------------------------------------------------ (2) G
@P.task("units.convert_G.formula", fn="%s:convert_G" % UNITS_PY)
def _(v):
    it = interp(v)
    st = pysym.State()
    l, t, m = triple(it, st, "new")
    o = it.call1("convert_G", [(l, t, m)], st=st)
    st = o.st
    gsi = it.sym_globals["G_SI"]
    one = z3.RealVal(1)
    alg(v, it, st, "dimensional", o.value == dim_convert(gsi, DIM_G, (one, one, one), usize(l, t, m)))
    L, T, M = usize(l, t, m)
    alg(v, it, st, "closed_form", o.value * L * L * L == gsi * M * T * T)
    alg(v, it, st, "positive", o.value > 0)
    # changing the unit system converts G like any other quantity of its dimension
    st2 = o.st
    l2, t2, m2 = triple(it, st2, "other")
    o2 = it.call1("convert_G", [(l2, t2, m2)], st=st2)
    alg(v, it, o2.st, "covariant", o2.value == dim_convert(o.value, DIM_G, usize(l, t, m), usize(l2, t2, m2)))
    cover(v, it, o2.st)


# ------------------------------------------------------------------------------------------------ (3) physics invariance
@P.task("units.kepler_invariance", fn="%s:convert_G" % UNITS_PY)
def _(v):
    """P^2 G M = 4 pi^2 a^3 in system 1  ==>  the same law holds for the converted a, M, G and the converted period;
    Newtonian acceleration G M / a^2 and circular speed 2 pi a / P convert as acceleration / velocity."""
    it = interp(v)
    st = pysym.State()
    u1 = triple(it, st, "1")
    u2 = triple(it, st, "2")
    a, M, Pd, pi = z3.Real("a"), z3.Real("M"), z3.Real("P"), z3.Real("pi")
    st.pc += [a > 0, M > 0, Pd > 0, pi > 3]

    def run(f, args):
        nonlocal st
        o = it.call1(f, args, st=st)
        st = o.st
        return o.value
    G1 = run("convert_G", [u1])
    G2 = run("convert_G", [u2])
    a2 = run("convert_length", [a, u1[0], u2[0]])
    M2 = run("convert_mass", [M, u1[2], u2[2]])
    P2 = dim_convert(Pd, (0, 1, 0), usize(*u1), usize(*u2))
    law1 = Pd * Pd * G1 * M == 4 * pi * pi * a * a * a
    st.pc.append(law1)
    phys = [law1, a > 0, M > 0, Pd > 0]
    alg(v, it, st, "kepler3", P2 * P2 * G2 * M2 == 4 * pi * pi * a2 * a2 * a2, phys)
    acc1 = G1 * M / (a * a)
    acc2 = run("convert_acc", [acc1, u1[0], u1[1], u2[0], u2[1]])
    alg(v, it, st, "newton_acceleration", acc2 * a2 * a2 == G2 * M2, phys)
    v1 = 2 * pi * a / Pd
    v2 = run("convert_vel", [v1, u1[0], u1[1], u2[0], u2[1]])
    alg(v, it, st, "circular_speed", v2 * P2 == 2 * pi * a2, phys)
    # vis-viva energy per unit mass  v^2/2 - G M / a  has dimension L^2 T^-2
    e1 = v1 * v1 / 2 - G1 * M / a
    alg(v, it, st, "specific_energy", v2 * v2 / 2 - G2 * M2 / a2 == dim_convert(e1, (2, -2, 0), usize(*u1), usize(*u2)), phys)
    cover(v, it, st)


# ------------------------------------------------------------------------------------------------ (4) ground checks
def rel(a, b):
    return abs(a - b) / abs(b)


@P.task("units.tables.reference", fn="%s:<tables>" % UNITS_PY)
def _(v):
    T = real_tables()
    v.eng.functions_seen["%s:<module tables>" % UNITS_PY] = (UNITS_PY, 23)
    v.ground("G_SI", rel(T["G_SI"], REF_G) <= TOL, "G_SI=%r reference %r" % (T["G_SI"], REF_G))
    for tname, ref in (("lengths_SI", {k: (x, 0) for k, x in REF_LENGTHS.items()}),
                       ("times_SI", {k: (x, 0) for k, x in REF_TIMES.items()}), ("masses_SI", REF_MASSES)):
        tab = T[tname]
        for k, val in zip(tab.keys, tab.values):
            if k not in ref:
                v.ground("%s.%s.has_reference" % (tname, k), False, "no reference entry for key %r: extend the reference table" % k)
                continue
            r, unc = ref[k]
            tol = max(TOL, unc)
            ok = isinstance(val, float) and math.isfinite(val) and val > 0 and rel(val, r) <= tol
            v.ground("%s.%s" % (tname, k), ok, "code %r reference %r rel.diff %.3g tol %.3g" % (val, r, rel(val, r) if val else -1, tol))
        for k in ref:
            v.ground("%s.%s.present" % (tname, k), k in tab.keys, "documented unit %r present in %s" % (k, tname))


@P.task("units.tables.keys", fn="%s:<tables>" % UNITS_PY)
def _(v):
    T = real_tables()
    K = {t: T[t].keys for t in TABLES}
    for t in TABLES:
        v.ground("%s.lowercase_ascii" % t, all(k == k.lower() and k.isascii() and k for k in K[t]),
                 "keys are lower-case ASCII (check_units lower-cases its input before the lookup): %s" % K[t])
        v.ground("%s.unique" % t, len(set(K[t])) == len(K[t]), "no duplicate key in the literal")
    for a, b in itertools.combinations(TABLES, 2):
        inter = sorted(set(K[a]) & set(K[b]))
        v.ground("disjoint.%s.%s" % (a, b), not inter, "a unit name denotes one kind only; common keys: %s" % inter)


@P.task("units.tables.G_all_triples", fn="%s:convert_G" % UNITS_PY)
def _(v):
    """convert_G of the real file on the real tables, Python float arithmetic, every (length,time,mass) triple."""
    T = real_tables()
    it = interp(v, symbolic=False)
    n = 0
    for l in T["lengths_SI"].keys:
        bad = []
        for t in T["times_SI"].keys:
            for m in T["masses_SI"].keys:
                o = it.call1("convert_G", [(l, t, m)])
                g = o.value
                n += 1
                ex = Fraction(T["G_SI"]) * Fraction(T["masses_SI"].get(m)) * Fraction(T["times_SI"].get(t)) ** 2 / Fraction(T["lengths_SI"].get(l)) ** 3
                if not (isinstance(g, float) and math.isfinite(g) and g > 0 and abs(Fraction(g) - ex) <= ex * Fraction(1, 10 ** 12)):
                    bad.append((l, t, m, g))
        v.ground("positive_finite.%s" % l, not bad, "G>0, finite, within 1e-12 of the exact rational value of the formula for "
                 "all %d (time,mass) pairs; failing: %s" % (len(T["times_SI"].keys) * len(T["masses_SI"].keys), bad[:5]))
    v.ground("count", n == len(T["lengths_SI"].keys) * len(T["times_SI"].keys) * len(T["masses_SI"].keys) and n > 0, "%d triples" % n)
    # documented G = 1 systems
    for (l, t, m) in (("au", "yr2pi", "msun"), ("au", "day", "massist")):
        if l in T["lengths_SI"].keys and t in T["times_SI"].keys and m in T["masses_SI"].keys:
            g = it.call1("convert_G", [(l, t, m)]).value
            v.ground("G_is_1.%s.%s.%s" % (l, t, m), abs(g - 1) <= TOL, "G=%r" % g)
        else:
            v.ground("G_is_1.%s.%s.%s" % (l, t, m), False, "documented unit missing")
    # SI consistency against the reference for every triple: G_code(l,t,m) vs G_ref*M_ref*T_ref^2/L_ref^3
    worst = (0, None)
    for l in T["lengths_SI"].keys:
        for t in T["times_SI"].keys:
            for m in T["masses_SI"].keys:
                if l in REF_LENGTHS and t in REF_TIMES and m in REF_MASSES:
                    g = it.call1("convert_G", [(l, t, m)]).value
                    gr = REF_G * REF_MASSES[m][0] * REF_TIMES[t] ** 2 / REF_LENGTHS[l] ** 3
                    d = rel(g, gr) / (7 * max(TOL, REF_MASSES[m][1]))
                    if d > worst[0]:
                        worst = (d, (l, t, m, g, gr))
    v.ground("consistent_with_SI_reference", worst[0] <= 1, "every triple: |G_code/G_ref - 1| <= 7*tol (1 for G, 1 for M, 2 for T, "
             "3 for L); worst ratio to the bound %.3g at %s" % worst)


@P.task("units.tables.GM_independent_of_G", fn="%s:<tables>" % UNITS_PY)
def _(v):
    """masses of astronomical bodies are GM/G_SI: evaluate the real initialisers with G_SI symbolic, G_SI*mass is
    the same for two different values of G_SI (so G*M in any unit system does not depend on the adopted G)."""
    um = units_module()
    vals = []
    for nm in ("g1", "g2"):
        it = pysym.Interp(um, v, tag=nm)
        g = z3.Real("G_SI_" + nm)
        it.sym_globals["G_SI"] = g
        it.global_hyps.append(g > 0)
        vals.append((it, g, it.global_value("masses_SI")))
    (it1, g1, d1), (it2, g2, d2) = vals
    st = pysym.State()
    st.pc += [g1 > 0, g2 > 0]
    n = 0
    for k in d1.keys:
        if k in REF_GM:
            a, b = d1.get(k), d2.get(k)
            if not (pysym.is_z3(a) and pysym.is_z3(b)):
                v.ground("%s.defined_through_G_SI" % k, False, "initialiser of %r does not depend on G_SI" % k)
                continue
            prove(v, it1, st, k, g1 * a == g2 * b)
            n += 1
    v.ground("count", n == len(REF_GM), "%d astronomical mass units" % n)


# ------------------------------------------------------------------------------------------------ (5) check_units
def kinds_of(it, s):
    return {"l": is_key(it, s, "lengths_SI"), "t": is_key(it, s, "times_SI"), "m": is_key(it, s, "masses_SI")}


@P.task("units.check_units.symbolic", fn="%s:check_units" % UNITS_PY)
def _(v):
    """three arbitrary strings: accepted iff, after lower-casing, they are one length, one time and one mass unit in
    some order; the result is (length, time, mass) lower-cased; wrong arity raises."""
    it = interp(v)
    u = [it.symstr("u%d" % i) for i in range(3)]
    low = [LOWER(x) for x in u]
    K = [kinds_of(it, s) for s in low]
    perms = list(itertools.permutations(range(3)))
    accept_spec = z3.Or(*[z3.And(K[p[0]]["l"], K[p[1]]["t"], K[p[2]]["m"]) for p in perms])
    outs = it.call("check_units", [tuple(u)])
    v.ground("paths", 1 <= len(outs) <= 64, "%d feasible paths" % len(outs))
    nret = 0
    for i, o in enumerate(outs):
        if o.kind == "return":
            nret += 1
            prove(v, it, o.st, "accept_only_if_one_of_each.%d" % i, accept_spec)
            r = o.value
            v.ground("result_is_triple.%d" % i, isinstance(r, tuple) and len(r) == 3, str(r))
            prove(v, it, o.st, "result_kinds.%d" % i, z3.And(is_key(it, r[0], "lengths_SI"), is_key(it, r[1], "times_SI"),
                                                             is_key(it, r[2], "masses_SI")))
            prove(v, it, o.st, "result_from_input.%d" % i, z3.And(*[z3.Or(*[r[j] == low[q] for q in range(3)]) for j in range(3)]))
        else:
            prove(v, it, o.st, "reject_only_if_not_one_of_each.%d" % i, z3.Not(accept_spec))
            v.ground("reject_is_exception.%d" % i, o.value.typ == "Exception", repr(o.value))
        v.ground("no_write.%d" % i, not o.st.writes, str(o.st.writes))
    v.ground("some_accepting_path", nret >= 6, "%d accepting paths (6 orders)" % nret)
    # arity
    for n in (0, 1, 2, 4):
        outs = it.call("check_units", [tuple(it.symstr("w%d_%d" % (n, i)) for i in range(n))])
        v.ground("arity_%d_raises" % n, len(outs) == 1 and outs[0].kind == "raise", str([(o.kind, o.value) for o in outs]))


def case_variants(k):
    out = {k, k.upper(), k.capitalize(), k.title(), k.swapcase()}
    out.add("".join(c.upper() if i % 2 else c for i, c in enumerate(k)))
    return sorted(out)


@P.task("units.check_units.exhaustive", fn="%s:check_units" % UNITS_PY)
def _(v):
    """the real function run on concrete strings with Python's own str.lower: every key of every table, in every
    position (all 6 orders), in several capitalisations, tuple and list and dict argument forms."""
    T = real_tables()
    it = interp(v, symbolic=False)
    L, Tm, M = (T[t].keys for t in TABLES)
    perms = list(itertools.permutations(range(3)))
    n = 0
    bad = []
    # every key of every table appears at least once with every capitalisation variant and every order
    triples = set()
    for i in range(max(len(L), len(Tm), len(M))):
        triples.add((L[i % len(L)], Tm[i % len(Tm)], M[i % len(M)]))
    for (l, t, m) in sorted(triples):
        for lv in case_variants(l):
            for tv in case_variants(t):
                for mv in case_variants(m):
                    src = (lv, tv, mv)
                    for p in perms:
                        arg = tuple(src[i] for i in p)
                        outs = it.call("check_units", [arg])
                        n += 1
                        if not (len(outs) == 1 and outs[0].kind == "return" and outs[0].value == (l, t, m)):
                            bad.append((arg, [(o.kind, o.value) for o in outs]))
    v.ground("accepts_any_order_any_case", not bad, "%d calls; failing: %s" % (n, bad[:3]))
    # full product of keys in canonical case, all 6 orders
    n2, bad2 = 0, []
    for l in L:
        for t in Tm:
            for m in M:
                for p in perms:
                    src = (l, t, m)
                    outs = it.call("check_units", [tuple(src[i] for i in p)])
                    n2 += 1
                    if not (len(outs) == 1 and outs[0].kind == "return" and outs[0].value == (l, t, m)):
                        bad2.append((src, p))
    v.ground("all_triples_all_orders", not bad2 and n2 == 6 * len(L) * len(Tm) * len(M), "%d calls; failing: %s" % (n2, bad2[:3]))
    # list and dict forms
    l, t, m = L[-1], Tm[-1], M[-1]
    o = it.call("check_units", [[m.upper(), l.upper(), t.upper()]])
    v.ground("list_argument", len(o) == 1 and o[0].kind == "return" and o[0].value == (l, t, m), str([(x.kind, x.value) for x in o]))
    o = it.call("check_units", [{"mass": m, "time": t, "length": l}])
    v.ground("dict_argument", len(o) == 1 and o[0].kind == "return" and o[0].value == (l, t, m), str([(x.kind, x.value) for x in o]))
    # rejections: two of a kind, unknown unit, wrong arity
    rej = [(L[0], L[1 % len(L)], M[0]), (L[0], Tm[0], Tm[1]), (M[0], M[1], M[2]), (L[0], Tm[0], "furlong"), (L[0], Tm[0]),
           (L[0], Tm[0], M[0], M[1]), ()]
    badr = []
    for arg in rej:
        outs = it.call("check_units", [arg])
        if not (len(outs) == 1 and outs[0].kind == "raise"):
            badr.append(arg)
    v.ground("rejects", not badr, "rejected: %d of %d; wrongly accepted: %s" % (len(rej) - len(badr), len(rej), badr))


# ------------------------------------------------------------------------------------------------ hash_to_unit
REBHASH = z3.Function("reb_hash", STR, z3.IntSort())


def ext_reb_hash(it, st, args, n):
    return REBHASH(it.as_str(args[0]))


def ext_identity(it, st, args, n):
    return args[0]


EXTERNALS = {"clibrebound.reb_hash": ext_reb_hash, "c_char_p": ext_identity}
_NATIVE = {}


def native_hashes(keys):
    """reb_hash of the natively compiled tree under analysis on every key"""
    repo = cfront.REPO
    if repo not in _NATIVE:
        import ctypes
        from engine import native
        lib = ctypes.CDLL(native.build_lib(repo))
        lib.reb_hash.restype = ctypes.c_uint32
        lib.reb_hash.argtypes = [ctypes.c_char_p]
        _NATIVE[repo] = lib
    lib = _NATIVE[repo]
    return {k: int(lib.reb_hash(k.encode("ascii"))) for k in keys}


@P.task("units.hash_to_unit", fn="%s:hash_to_unit" % UNITS_PY)
def _(v):
    """hash_to_unit(reb_hash(u)) == u for every key u of the three real tables, None for a hash of no key."""
    T = real_tables()
    allkeys = [k for t in TABLES for k in T[t].keys]
    H = native_hashes(allkeys)
    v.ground("native.hashes_distinct", len(set(H.values())) == len(allkeys), "%d keys, %d distinct reb_hash values (native)" %
             (len(allkeys), len(set(H.values()))))
    v.ground("native.hashes_nonzero", all(h != 0 for h in H.values()), "no key hashes to 0 (0 means 'units not set')")
    it = interp(v, externals=EXTERNALS)
    inj = [z3.Distinct(*[REBHASH(it.lit(k)) for k in allkeys])]
    bad = []
    for k in allkeys:
        outs = it.call("hash_to_unit", [REBHASH(it.lit(k))], pre=inj)
        if not (len(outs) == 1 and outs[0].kind == "return" and outs[0].value == k):
            bad.append((k, [(o.kind, o.value) for o in outs]))
    v.ground("roundtrip_every_key", not bad, "%d keys; failing: %s" % (len(allkeys), bad[:3]))
    h = z3.Int("h")
    outs = it.call("hash_to_unit", [h], pre=[z3.And(*[h != REBHASH(it.lit(k)) for k in allkeys])])
    v.ground("unknown_hash_gives_None", len(outs) == 1 and outs[0].kind == "return" and outs[0].value is None,
             str([(o.kind, o.value) for o in outs]))


# ------------------------------------------------------------------------------------------------ (6) simulation.py
def contract_hash_to_unit(it, st, args, n):
    """uses the result of task units.hash_to_unit: hash_to_unit(reb_hash(u)) = u for every table key u"""
    h = args[0]
    if pysym.is_z3(h) and z3.is_app(h) and h.decl().eq(REBHASH):
        s = h.arg(0)
        it.oblige(st, "hash_to_unit.callsite.pre@%s" % it._where(st, n),
                  z3.Or(is_key(it, s, "lengths_SI"), is_key(it, s, "times_SI"), is_key(it, s, "masses_SI")), "pre")
        return s
    raise pysym.PyUnsupported("hash_to_unit of a value that is not a reb_hash(...) term: %r" % (h,))


def sim_interp(v):
    sm = pysym.module(SIM_PY)
    it = interp(v, mod=sm, externals=EXTERNALS, contracts={"hash_to_unit": contract_hash_to_unit})
    return it, sm


def particle_fields(sm=None):
    """names of the c_double members of Particle._fields_ (assigned at the end of the real particle.py)"""
    out = []
    for node in ast.walk(pysym.module(PARTICLE_PY).tree):
        if isinstance(node, ast.Assign) and ast.unparse(node.targets[0]) == "Particle._fields_" and isinstance(node.value, ast.List):
            names = [(e.elts[0].value, ast.unparse(e.elts[1])) for e in node.value.elts]
            out.append([n_ for n_, t in names if t == "c_double"])
    return out


def new_sim(it, st, sm, N=None):
    cls = sm.classes["Simulation"]
    attrs = {"N": N if N is not None else z3.Int("self.N"), "G": z3.Real("self.G0"),
             "python_unit_l": z3.Int("self.hl0"), "python_unit_t": z3.Int("self.ht0"), "python_unit_m": z3.Int("self.hm0")}
    return it.new_object(st, "self", cls, attrs)


@P.task("units.Simulation.update_units", fn="%s:Simulation.update_units" % SIM_PY)
def _(v):
    it, sm = sim_interp(v)
    st = pysym.State()
    l, t, m = triple(it, st, "new")
    this = new_sim(it, st, sm)
    outs = it.call("update_units", [this, (l, t, m)], st=st, cls="Simulation")
    v.ground("single_normal_path", len(outs) == 1 and outs[0].kind == "return", str([(o.kind, o.value) for o in outs]))
    o = outs[0]
    one = z3.RealVal(1)
    alg(v, it, o.st, "G_recomputed", o.attr(this, "G") == dim_convert(it.sym_globals["G_SI"], DIM_G, (one, one, one), usize(l, t, m)))
    prove(v, it, o.st, "hash_l", o.attr(this, "python_unit_l") == REBHASH(l))
    prove(v, it, o.st, "hash_t", o.attr(this, "python_unit_t") == REBHASH(t))
    prove(v, it, o.st, "hash_m", o.attr(this, "python_unit_m") == REBHASH(m))
    v.ground("frame", sorted(set(o.st.writes)) == sorted(("self", a) for a in ("G", "python_unit_l", "python_unit_m", "python_unit_t")),
             "writes: %s; external attribute stores ignored: %s" % (sorted(set(o.st.writes)), o.st.ext_stores))
    cover(v, it, o.st)
    # the `units` property read back: names of the units just set, under the right headings
    g = it.call("get:units", [this], st=o.st, cls="Simulation")
    ok = len(g) == 1 and g[0].kind == "return" and isinstance(g[0].value, pysym.DictV) and sorted(g[0].value.keys) == ["length", "mass", "time"]
    v.ground("getter.shape", ok, str([(x.kind, x.value) for x in g])[:200])
    if ok:
        d = g[0].value
        prove(v, it, g[0].st, "getter.roundtrip", z3.And(d.get("length") == l, d.get("time") == t, d.get("mass") == m))
        v.ground("getter.no_write", g[0].st.writes == o.st.writes, "getter writes nothing")


@P.task("units.Simulation.units.setter", fn="%s:Simulation.units" % SIM_PY)
def _(v):
    """sim.units = (three names in any order, any case): G and the three hashes set for the (length,time,mass) reading;
    with particles present: AttributeError and nothing written; not one of each kind: Exception, nothing written."""
    it, sm = sim_interp(v)
    for pi, p in enumerate(itertools.permutations("ltm")):
        st = pysym.State()
        u = [it.symstr("u%d_%s" % (i, "".join(p))) for i in range(3)]
        low = {}
        for i, k in enumerate(p):
            low[k] = LOWER(u[i])
            st.pc.append(is_key(it, low[k], {"l": "lengths_SI", "t": "times_SI", "m": "masses_SI"}[k]))
        this = new_sim(it, st, sm)
        outs = it.call("set:units", [this, tuple(u)], st=st, cls="Simulation")
        tag = "order_" + "".join(p)
        v.ground(tag + ".two_paths", sorted(o.kind for o in outs) == ["raise", "return"], str([(o.kind, o.value) for o in outs]))
        one = z3.RealVal(1)
        for o in outs:
            if o.kind == "return":
                prove(v, it, o.st, tag + ".only_when_empty", o.attr(this, "N") <= 0)
                alg(v, it, o.st, tag + ".G", o.attr(this, "G") == dim_convert(it.sym_globals["G_SI"], DIM_G, (one, one, one),
                                                                              usize(low["l"], low["t"], low["m"])))
                prove(v, it, o.st, tag + ".hashes", z3.And(o.attr(this, "python_unit_l") == REBHASH(low["l"]),
                                                           o.attr(this, "python_unit_t") == REBHASH(low["t"]),
                                                           o.attr(this, "python_unit_m") == REBHASH(low["m"])))
                cover(v, it, o.st, tag + ".cover")
            else:
                prove(v, it, o.st, tag + ".raises_only_with_particles", o.attr(this, "N") > 0)
                v.ground(tag + ".raise_is_AttributeError_no_write", o.value.typ == "AttributeError" and not o.st.writes,
                         "%r writes %s" % (o.value, o.st.writes))
    # not one of each kind: rejected before anything is written
    st = pysym.State()
    u = [it.symstr("x%d" % i) for i in range(3)]
    K = [kinds_of(it, LOWER(s)) for s in u]
    st.pc.append(z3.Not(z3.Or(*[z3.And(K[q[0]]["l"], K[q[1]]["t"], K[q[2]]["m"]) for q in itertools.permutations(range(3))])))
    this = new_sim(it, st, sm)
    outs = it.call("set:units", [this, tuple(u)], st=st, cls="Simulation")
    v.ground("invalid.rejected_no_write", bool(outs) and all(o.kind == "raise" and o.value.typ == "Exception" and not o.st.writes for o in outs),
             "%d paths: %s" % (len(outs), sorted({(o.kind, o.value.typ if o.kind == "raise" else None) for o in outs})))


@P.task("units.Simulation.convert_particle_units", fn="%s:Simulation.convert_particle_units" % SIM_PY)
def _(v):
    """every particle member converted with its dimension, G recomputed, hashes updated; converting back restores."""
    it, sm = sim_interp(v)
    fields = particle_fields(sm)
    v.ground("Particle._fields_.found", len(fields) >= 1 and all(f == fields[0] for f in fields), "double members: %s" % (fields[:1],))
    dbl = fields[0] if fields else []
    for f in dbl:
        v.ground("dimension_known.%s" % f, f in DIMS or f in NOT_CARTESIAN, "double member %s of Particle has an entry in the "
                 "dimension table of the specification (or is listed as outside the cartesian data)" % f)
    for f in DIMS:
        v.ground("member_exists.%s" % f, f in dbl, "specification member %s is a double member of Particle" % f)
    one = z3.RealVal(1)
    for p in itertools.permutations("ltm"):
        tag = "order_" + "".join(p)
        st = pysym.State()
        old = triple(it, st, "old")
        u = [it.symstr("n%d_%s" % (i, "".join(p))) for i in range(3)]
        new = {}
        for i, k in enumerate(p):
            new[k] = LOWER(u[i])
            st.pc.append(is_key(it, new[k], {"l": "lengths_SI", "t": "times_SI", "m": "masses_SI"}[k]))
        newt = (new["l"], new["t"], new["m"])
        st.pc += [REBHASH(s) != 0 for s in old + newt]       # ground-checked natively for every key (units.hash_to_unit)
        parts = []

        def make(it_, st_):
            r = it_.new_object(st_, "p%d" % len(parts), None, {f: z3.Real("p%d.%s0" % (len(parts), f)) for f in dbl})
            parts.append(r)
            return r
        this = new_sim(it, st, sm)
        st.heap[this.id].update({"python_unit_l": REBHASH(old[0]), "python_unit_t": REBHASH(old[1]), "python_unit_m": REBHASH(old[2]),
                                 "particles": pysym.SeqAny(make, "self.particles")})
        outs = it.call("convert_particle_units", [this] + u, st=st, cls="Simulation")
        v.ground(tag + ".single_normal_path", len(outs) == 1 and outs[0].kind == "return" and len(parts) == 1,
                 str([(o.kind, o.value) for o in outs]))
        o = outs[0]
        p0 = parts[0]
        for f in dbl:
            init = z3.Real("p0.%s0" % f)
            if f in DIMS:
                alg(v, it, o.st, "%s.member.%s" % (tag, f), o.attr(p0, f) == dim_convert(init, DIMS[f], usize(*old), usize(*newt)))
            else:
                v.ground("%s.untouched.%s" % (tag, f), ("p0", f) not in o.st.writes and o.attr(p0, f).eq(init), "not written")
        wp = sorted({a for (ob_, a) in o.st.writes if ob_ == "p0"})
        v.ground(tag + ".particle_frame", wp == sorted(DIMS), "particle attributes written: %s" % wp)
        ws = sorted({a for (ob_, a) in o.st.writes if ob_ == "self"})
        v.ground(tag + ".sim_frame", ws == ["G", "python_unit_l", "python_unit_m", "python_unit_t"], "simulation attributes written: %s" % ws)
        alg(v, it, o.st, tag + ".G", o.attr(this, "G") == dim_convert(it.sym_globals["G_SI"], DIM_G, (one, one, one), usize(*newt)))
        prove(v, it, o.st, tag + ".hashes", z3.And(o.attr(this, "python_unit_l") == REBHASH(new["l"]),
                                                   o.attr(this, "python_unit_t") == REBHASH(new["t"]),
                                                   o.attr(this, "python_unit_m") == REBHASH(new["m"])))
        cover(v, it, o.st, tag + ".cover")
        if p == ("l", "t", "m"):
            # and back: reversible
            st2 = o.st
            parts2 = []

            def make2(it_, st_):
                parts2.append(p0)
                return p0
            st2.heap[this.id]["particles"] = pysym.SeqAny(make2, "self.particles")
            outs2 = it.call("convert_particle_units", [this, old[1], old[2], old[0]], st=st2, cls="Simulation")
            v.ground("roundtrip.single_normal_path", len(outs2) == 1 and outs2[0].kind == "return", str([(x.kind, x.value) for x in outs2]))
            o2 = outs2[0]
            # check_units lower-cases the names it is given: for table keys that is the identity
            lo = tuple(LOWER(q) for q in old)
            loeq = []
            for nm, q, ql in zip("ltm", old, lo):
                prove(v, it, o2.st, "roundtrip.lower_of_key_is_key." + nm, ql == q)
                loeq.append(ql == q)
            for f in DIMS:
                alg(v, it, o2.st, "roundtrip.member.%s" % f, o2.attr(p0, f) == z3.Real("p0.%s0" % f), loeq)
            alg(v, it, o2.st, "roundtrip.G", o2.attr(this, "G") == dim_convert(it.sym_globals["G_SI"], DIM_G, (one, one, one), usize(*lo)))
            cover(v, it, o2.st, "roundtrip.cover")
    # units not set -> AttributeError, nothing written
    st = pysym.State()
    this = new_sim(it, st, sm)
    st.heap[this.id]["python_unit_l"] = z3.IntVal(0)
    outs = it.call("convert_particle_units", [this, it.symstr("a"), it.symstr("b"), it.symstr("c")], st=st, cls="Simulation")
    v.ground("units_not_set.raises", len(outs) == 1 and outs[0].kind == "raise" and outs[0].value.typ == "AttributeError" and not outs[0].st.writes,
             str([(o.kind, o.value) for o in outs]))
