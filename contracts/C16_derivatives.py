"""C16 (element-derivative constructors): every reb_particle_derivative_<p>[_<q>] of src/derivatives.c returns the first
(second, mixed) partial derivative of the REAL element-to-Cartesian map with respect to the named element(s).

"Matches finite differences of the element-to-Cartesian map" is replaced by its exact counterpart:

    constructor(G, primary, po).c  ==  d F.c / d p      resp.   d^2 F.c / (d p d q)        c in x,y,z,vx,vy,vz,m

where F is the SYMBOLIC EXECUTION RESULT OF THE REAL FORWARD MAP in the same task
    reb_particle_from_pal(G, primary, m, a, lambda, k, h, ix, iy)                  (constructors that call reb_tools_particle_to_pal)
    reb_particle_from_orbit_err(G, primary, m, a, e, inc, Omega, omega, f, &err)   (constructors that call reb_orbit_from_particle)
converted to a sympy expression and DIFFERENTIATED BY SYMPY (nothing on the specification side is copied from
derivatives.c).  Which map a constructor belongs to is read off the real body (the extraction routine it calls).

Modelling
  * the extraction routines (reb_tools_particle_to_pal, reb_orbit_from_particle) are replaced by a contract that returns the
    element symbols a, lambda, k, h, ix, iy / a, e, inc, Omega, omega, f: the constructor is the derivative AT THE ELEMENTS
    THE EXTRACTION RETURNS (that extraction inverts the forward map is property C11, not C16);
  * reb_tools_solve_kepler_pal is replaced by its summary contract: it returns p = PAL_P(h,k,lambda), q = PAL_Q(h,k,lambda),
    the solution of Pal's generalised Kepler equations
        p = k sin(lambda+p) - h cos(lambda+p),     q = k cos(lambda+p) + h sin(lambda+p)
    (F = lambda + p is the eccentric longitude: F - k sin F + h cos F = lambda).  The derivatives of p and q with respect to
    h, k, lambda are obtained by sympy by implicit differentiation of these two equations (function `implicit_pal`).
  * sqrt/sin/cos atoms of the engine are mapped to sympy sqrt/sin/cos (so sympy differentiates through them); a square root
    of a product is split into the roots of its factors, each factor proved positive from the precondition by z3.

Decision procedure (stated per obligation as `ground`): difference of the two sides -> generators (one symbol per distinct
square root R_b with R_b^2 = b, one pair S,C per distinct trig argument with S^2 + C^2 = 1, p -> k S - h C, q -> k C + h S)
-> common denominator -> numerator expanded -> reduced by the relations (R^2 -> b, S^2 -> 1 - C^2; the relations have
pairwise coprime leading monomials, so they are a Groebner basis and the normal form is unique) -> must be the zero
polynomial EXACTLY (no numeric evaluation anywhere).
"""
import re
import z3
from engine.api import Pack
from engine import cfront
from engine.csym import as_real, as_int as as_int_
from engine.mem import Ptr, StructObj

P = Pack("C16", ["src/derivatives.c", "src/tools.c"], "variational equations: element-derivative constructors")
PACKS = [P]

P.assume("machine arithmetic treated as mathematical (doubles as reals)")
P.assume("derivatives: the engine's m_sqrt(x) (axioms y^2 = x, y >= 0) is the principal square root; m_sin/m_cos are sine "
         "and cosine (sympy's differentiation rules for sqrt, sin, cos are used); sqrt(prod f_i^n_i) = prod sqrt(f_i)^n_i "
         "is applied only when every factor f_i is proved positive from the precondition (obligation `.sqrt_factor_positive`)")
P.assume("derivatives: precondition (Pal map): G > 0, a > 0, m + primary.m > 0, h^2 + k^2 < 1, ix^2 + iy^2 < 4 (so that "
         "fabs(4-ix^2-iy^2) = 4-ix^2-iy^2), and the solver's q = e cos E satisfies q < 1")
P.assume("derivatives: precondition (orbit map, elliptic regime): G > 0, a > 0, 0 <= e < 1, primary.m >= 1e-308 (the map's own "
         "check), m + primary.m > 0, 1 + e cos f > 0")
P.assume("derivatives: reb_tools_particle_to_pal / reb_orbit_from_particle under contract: they return the element symbols; "
         "reb_tools_solve_kepler_pal under contract: returns the solution (p,q) of Pal's equations (see module docstring)")
P.trust("derivatives: sympy's symbolic differentiation (diff), rational-function arithmetic (together, expand, Poly) and "
        "factorisation (factor_list, used only to split square roots; each split is re-multiplied and compared) are trusted")

PREFIX = "reb_particle_derivative_"
PAL = ("a", "lambda", "k", "h", "ix", "iy")
ORB = ("a", "e", "inc", "Omega", "omega", "f")
KNOWN = set(PAL) | set(ORB) | {"m"}
COMPS = ("x", "y", "z", "vx", "vy", "vz", "m")
REST = ("ax", "ay", "az", "r", "last_collision")
NAMES = sorted(n for n in cfront.tu("src/derivatives.c").functions if n.startswith(PREFIX))
R = z3.RealSort()
PAL_P = z3.Function("PAL_P", R, R, R, R)
PAL_Q = z3.Function("PAL_Q", R, R, R, R)


def parse_params(name):
    toks = name[len(PREFIX):].split("_")
    return toks if all(t in KNOWN for t in toks) and 1 <= len(toks) <= 2 else None


# ------------------------------------------------------------------------------------------------ sympy side
_SP = {}


def spmod():
    """sympy objects shared by the tasks of one process: Pal's implicit functions with their derivative rules"""
    if _SP:
        return _SP
    import sympy as sp
    h, k, lam, p, q = sp.symbols("h k lambda p_ q_", real=True)
    dp, dq = sp.symbols("dp_ dq_")
    E1 = p - k * sp.sin(lam + p) + h * sp.cos(lam + p)
    E2 = q - k * sp.cos(lam + p) - h * sp.sin(lam + p)
    rules = {}
    for n, var in enumerate((h, k, lam)):
        # total derivative of E1(h,k,lam,p(.)) and E2(h,k,lam,p(.),q(.)) with respect to var must vanish
        t1 = sp.diff(E1, var) + sp.diff(E1, p) * dp
        t2 = sp.diff(E2, var) + sp.diff(E2, p) * dp + sp.diff(E2, q) * dq
        sol = sp.solve([t1, t2], [dp, dq], dict=True)
        assert len(sol) == 1
        # the denominator 1 - k cos(lam+p) - h sin(lam+p) is 1 - q (second equation)
        rules[n + 1] = (sol[0][dp], sol[0][dq])

    class Pf(sp.Function):
        nargs = 3

        def fdiff(self, argindex=1):
            return _inst(rules[argindex][0], self.args)

    class Qf(sp.Function):
        nargs = 3

        def fdiff(self, argindex=1):
            return _inst(rules[argindex][1], self.args)

    def _inst(expr, args):
        hh, kk, ll = args
        hs, ks, ls = sp.Dummy(), sp.Dummy(), sp.Dummy()
        e = expr.subs({h: hs, k: ks, lam: ls}, simultaneous=True)
        e = e.subs({p: Pf(hs, ks, ls), q: Qf(hs, ks, ls)}, simultaneous=True)
        return e.subs({hs: hh, ks: kk, ls: ll}, simultaneous=True)
    _SP.update({"sp": sp, "Pf": Pf, "Qf": Qf, "rules": rules})
    return _SP


class Conv:
    """z3 term -> sympy expression (with true sqrt / sin / cos / Pf / Qf nodes) for the terms of one task"""

    def __init__(self, v, pre):
        self.v, self.pre = v, list(pre)
        self.M = spmod()
        self.sp = self.M["sp"]
        self.cache = {}
        self.syms = {}             # name -> (Symbol, z3 const)
        self.sol = z3.Solver()
        self.sol.set("timeout", 5000)
        for h in self.pre:
            self.sol.add(h)
        self.pos_checked = {}
        self.recorded = set()

    def entails(self, c):
        self.sol.push()
        self.sol.add(z3.Not(c))
        r = self.sol.check() == z3.unsat
        self.sol.pop()
        return r

    def sym(self, e):
        name = e.decl().name()
        if name not in self.syms:
            self.syms[name] = (self.sp.Symbol(name, real=True), e)
        return self.syms[name][0]

    def back(self, e):
        """sympy polynomial in the input symbols -> z3 (for positivity checks)"""
        from contracts.C16_variational import to_z3
        return to_z3(e, {n: z for n, (s, z) in self.syms.items()})

    def positive(self, f, record=True):
        key = self.sp.srepr(f)
        if key not in self.pos_checked:
            self.pos_checked[key] = self.entails(self.back(f) > 0)
        ok = self.pos_checked[key]
        if ok and record and key not in self.recorded:
            self.recorded.add(key)
            self.v.ground("sqrt_factor_positive.%d" % len(self.recorded), True,
                          "factor %s of a square-root argument is positive under the precondition (z3: unsat of the negation)" % f)
        return ok

    def split_sqrt(self, A):
        """sqrt(A) as a product of square roots of positive factors"""
        sp = self.sp
        num, den = sp.fraction(sp.together(A))
        out = sp.Integer(1)
        sign = 1
        chk = sp.Integer(1)
        for part, pw in ((num, 1), (den, -1)):
            c, facs = sp.factor_list(part)
            if c < 0:
                sign, c = -sign, -c
            items = [(c, 1)] if c != 1 else []
            for f, n in facs:
                if not self.positive(f):
                    if self.positive(-f):
                        f = -f
                        if n % 2:
                            sign = -sign
                    else:
                        raise ValueError("cannot decide the sign of the factor %s of a sqrt argument" % f)
                items.append((f, n))
            for f, n in items:
                out = out * sp.sqrt(f) ** (n * pw)
                chk = chk * f ** (n * pw)
        if sign != 1 or sp.simplify(chk - A) != 0:
            raise ValueError("sqrt split failed for %s" % A)
        return out

    def __call__(self, e):
        key = e.get_id()
        hit = self.cache.get(key)
        if hit is None:
            hit = self.cache[key] = (self._conv(e), e)
        return hit[0]

    def _conv(self, e):
        sp = self.sp
        if z3.is_rational_value(e):
            return sp.Rational(e.numerator_as_long(), e.denominator_as_long())
        if z3.is_int_value(e):
            return sp.Integer(e.as_long())
        if not z3.is_app(e):
            raise ValueError("unsupported term %s" % e)
        k = e.decl().kind()
        ch = e.children()
        if k == z3.Z3_OP_ADD:
            return sp.Add(*[self(c) for c in ch])
        if k == z3.Z3_OP_SUB:
            r = self(ch[0])
            for c in ch[1:]:
                r = r - self(c)
            return r
        if k == z3.Z3_OP_MUL:
            return sp.Mul(*[self(c) for c in ch])
        if k == z3.Z3_OP_UMINUS:
            return -self(ch[0])
        if k == z3.Z3_OP_DIV:
            return self(ch[0]) / self(ch[1])
        if k == z3.Z3_OP_TO_REAL:
            return self(ch[0])
        if k == z3.Z3_OP_POWER and z3.is_rational_value(ch[1]) and ch[1].denominator_as_long() == 1:
            return self(ch[0]) ** int(ch[1].numerator_as_long())
        if k == z3.Z3_OP_ITE:
            if self.entails(ch[0]):
                return self(ch[1])
            if self.entails(z3.Not(ch[0])):
                return self(ch[2])
            raise ValueError("undecided conditional %s" % ch[0])
        if k == z3.Z3_OP_UNINTERPRETED:
            name = e.decl().name()
            if e.num_args() == 0:
                return self.sym(e)
            if name == "m_sqrt":
                return self.split_sqrt(self(ch[0]))
            if name == "m_sin":
                return sp.sin(self(ch[0]))
            if name == "m_cos":
                return sp.cos(self(ch[0]))
            if name == "PAL_P":
                return self.M["Pf"](*[self(c) for c in ch])
            if name == "PAL_Q":
                return self.M["Qf"](*[self(c) for c in ch])
        raise ValueError("unsupported atom %s" % e.decl().name())


class Generators:
    """rewrites an expression with sqrt / sin / cos / Pf / Qf nodes into a rational function of plain symbols and decides
    equality to zero modulo the defining relations"""

    def __init__(self, M):
        self.M, self.sp = M, M["sp"]
        self.roots = {}       # srepr(base) -> (R symbol, base)
        self.trig = {}        # srepr(arg)  -> (S, C, arg)

    def root(self, base):
        key = self.sp.srepr(base)
        if key not in self.roots:
            self.roots[key] = (self.sp.Symbol("R%d" % len(self.roots), positive=True), base)
        return self.roots[key][0]

    def pair(self, arg):
        arg = self.sp.expand(arg)
        key = self.sp.srepr(arg)
        if key not in self.trig:
            n = len(self.trig)
            self.trig[key] = (self.sp.Symbol("S%d" % n, real=True), self.sp.Symbol("C%d" % n, real=True), arg)
        return self.trig[key]

    def rewrite(self, e):
        sp = self.sp
        Pf, Qf = self.M["Pf"], self.M["Qf"]
        if e.has(sp.Derivative):
            raise ValueError("unevaluated derivative left in %s" % e)

        def rw(x):
            if x.is_Atom:
                return x
            if x.func == sp.sin:
                return self.pair(x.args[0])[0]
            if x.func == sp.cos:
                return self.pair(x.args[0])[1]
            if x.func in (Pf, Qf):
                hh, kk, ll = x.args
                S, C, _ = self.pair(ll + Pf(hh, kk, ll))
                hh, kk = rw(hh), rw(kk)
                return kk * S - hh * C if x.func == Pf else kk * C + hh * S
            if x.is_Pow and x.exp.is_Rational and x.exp.q == 2:
                return self.root(x.base) ** int(x.exp.p)
            if x.is_Pow and not x.exp.is_Integer:
                raise ValueError("unsupported power %s" % x)
            return x.func(*[rw(a) for a in x.args])
        return rw(e)

    def is_zero(self, e):
        """exact decision: the numerator of e over a common denominator, reduced by R^2 -> base, S^2 -> 1 - C^2, is the zero
        polynomial.  Arithmetic is done in the sparse polynomial ring QQ[generators] (sympy.polys.rings); denominators are
        kept as products of powers of the atomic denominators that occur (no gcd needed: only the numerator is tested)."""
        sp = self.sp
        from sympy.polys.rings import ring
        from sympy.polys.domains import QQ
        from sympy.polys.orderings import lex
        g = self.rewrite(e)
        rels = []
        done = set()
        while True:
            todo = [(k, v) for k, v in list(self.roots.items()) if k not in done]
            if not todo:
                break
            for k, (Rs, base) in todo:
                done.add(k)
                rels.append((Rs, self.rewrite(base)))
        trig = list(self.trig.values())
        syms = set(g.free_symbols)
        for _r, b in rels:
            syms |= b.free_symbols
        trig = [(S, C, a_) for S, C, a_ in trig if S in syms or C in syms]
        for S, C, _a in trig:
            syms |= {S, C}
        rels = [(r, b) for r, b in rels if r in syms]
        lead = [r for r, _b in rels] + [S for S, _C, _a in trig]
        others = sorted(syms - set(lead), key=lambda x: x.name)
        gens = lead + others
        Rg = ring([x.name for x in gens], QQ, order=lex)[0]
        gmap = {x: Rg.gens[i] for i, x in enumerate(gens)}
        one = Rg.one
        cache = {}

        def scale(num, den, L):
            for atom, n in L.items():
                k = n - den.get(atom, 0)
                if k:
                    num = num * atom ** k
            return num

        def frac(x):
            hit = cache.get(x)
            if hit is not None:
                return hit
            if x.is_Rational:
                r = (Rg.ground_new(QQ(int(x.p), int(x.q))), {})
            elif x.is_Symbol:
                r = (gmap[x], {})
            elif x.is_Add:
                parts = [frac(a) for a in x.args]
                L = {}
                for _n, d in parts:
                    for atom, n in d.items():
                        if n > L.get(atom, 0):
                            L[atom] = n
                num = Rg.zero
                for n_, d in parts:
                    num = num + scale(n_, d, L)
                r = (num, L)
            elif x.is_Mul:
                num, den = one, {}
                for a in x.args:
                    n_, d = frac(a)
                    num = num * n_
                    for atom, k in d.items():
                        den[atom] = den.get(atom, 0) + k
                r = (num, den)
            elif x.is_Pow and x.exp.is_Integer:
                bn, bd = frac(x.base)
                n = int(x.exp)
                if n >= 0:
                    r = (bn ** n, {atom: k * n for atom, k in bd.items()})
                else:
                    n = -n
                    num = one
                    for atom, k in bd.items():
                        num = num * atom ** (k * n)
                    if bn.is_ground:
                        c = bn.LC if bn else None
                        if not c:
                            raise ValueError("division by the zero polynomial")
                        r = (num * Rg.ground_new(1 / c) ** n, {})
                    else:
                        r = (num, {bn: n})
            else:
                raise ValueError("unsupported node in rational expression: %s" % x.func)
            cache[x] = r
            return r
        num, _den = frac(g)
        G = []
        for Rs, b in rels:
            bn, bd = frac(b)
            if bd:
                raise ValueError("square-root base with a denominator: %s" % b)
            G.append(gmap[Rs] ** 2 - bn)
        for S, C, _a in trig:
            G.append(gmap[S] ** 2 + gmap[C] ** 2 - 1)
        rem = num.rem(G) if G and num else num
        return (not rem), (rem.as_expr() if rem and len(rem) < 40 else ("non-zero polynomial with %d terms" % len(rem) if rem else 0))


# ------------------------------------------------------------------------------------------------ the task
def install_contracts(v, E, box):
    eng = v.eng

    def to_pal(eng_, st, args, n):
        box["map"] = "pal"
        box["args"] = args[:3]
        for ptr, nm in zip(args[3:9], PAL):
            eng_.write(st, ptr, E[nm])
        return None
    v.contract("reb_tools_particle_to_pal", to_pal)

    def from_particle(eng_, st, args, n):
        box["map"] = "orbit"
        box["args"] = args[:3]
        t = eng_.ctype("struct reb_orbit")
        s = StructObj(t, {})
        for nm in ORB:
            s.fields[nm] = E[nm]
        return s
    v.contract("reb_orbit_from_particle", from_particle)

    def kepler_pal(eng_, st, args, n):
        h, k, lam = [z3.simplify(as_real(a)) for a in args[:3]]
        p, q = PAL_P(h, k, lam), PAL_Q(h, k, lam)
        st.assume(q < 1)
        eng_.write(st, args[3], p)
        eng_.write(st, args[4], q)
        return None
    v.contract("reb_tools_solve_kepler_pal", kepler_pal)


def constructor_task(name):
    params = parse_params(name)

    @P.task("derivative." + name[len(PREFIX):], fn=name, timeout=300)
    def _(v):
        v.ground("name_is_a_list_of_elements", params is not None,
                 "constructor name %s read as the element list %s (elements known: %s)" % (name, params, sorted(KNOWN)))
        if params is None:
            return
        G = v.real("G")
        primary = v.struct("struct reb_particle", "primary")
        po = v.struct("struct reb_particle", "po")
        m = v.real("m")
        po.m = m
        E = {nm: v.real(nm) for nm in sorted(set(PAL) | set(ORB))}
        E["m"] = m
        Mp = primary.m
        pre = [G > 0, E["a"] > 0, m + Mp > 0, Mp >= z3.RealVal("1e-308"),
               E["h"] * E["h"] + E["k"] * E["k"] < 1, E["ix"] * E["ix"] + E["iy"] * E["iy"] < 4,
               E["e"] >= 0, E["e"] < 1]
        v.assume(*pre)
        box = {}
        install_contracts(v, E, box)
        C = v.call(name, G, primary, po)
        v.ground("calls_one_extraction_routine", box.get("map") in ("pal", "orbit"),
                 "the constructor must obtain its elements from reb_tools_particle_to_pal or reb_orbit_from_particle")
        if box.get("map") is None:
            return
        # the extraction is applied to (G, po, primary) in this order
        a0, a1, a2 = box["args"]
        v.prove("extraction_arguments", z3.And(as_real(a0) == G, v.wrap(a1).m == m, v.wrap(a2).m == Mp,
                                               *[v.wrap(a1)[f] == po[f] for f in COMPS[:6]] +
                                               [v.wrap(a2)[f] == primary[f] for f in COMPS[:6]]))
        if box["map"] == "pal":
            ok_params = all(t in PAL or t == "m" for t in params)
            F = v.call("reb_particle_from_pal", G, primary, m, *[E[nm] for nm in PAL])
        else:
            ok_params = all(t in ORB or t == "m" for t in params)
            sf, cf = v.eng.trig_pair(E["f"])
            v.assume(1 + E["e"] * cf > 0, sf * sf + cf * cf == 1)
            err, errp = v.cell("int", "err", z3.IntVal(0))
            F = v.call("reb_particle_from_orbit_err", G, primary, m, *([E[nm] for nm in ORB] + [errp]))
            v.prove("forward_map.no_error_path", as_int_(v.read(errp)) == 0)
        v.ground("parameters_belong_to_the_map", ok_params, "parameters %s, map %s" % (params, box["map"]))
        if not ok_params:
            return
        for f in REST:
            v.prove("other_members_zero." + f, C[f] == 0)
        cv = Conv(v, list(v.st.pc))
        sp = cv.sp
        gens = Generators(cv.M)
        th = [sp.Symbol(t, real=True) for t in params]
        for comp in COMPS:
            try:
                cs = cv(C[comp])
                fs = cv(F[comp])
                dF = sp.diff(fs, *th)
                ok, rem = gens.is_zero(cs - dF)
                detail = "constructor == d%s F.%s / d(%s): normal form of the difference is %s" % (
                    len(th) > 1 and "^2" or "", comp, ",".join(params), "0" if ok else str(rem)[:300])
            except ValueError as ex:
                ok, detail = False, "not decided: %s" % ex
            v.ground("equals_derivative_of_forward_map." + comp, ok, detail)
    return _


P.not_decided += [
    "derivatives: that reb_tools_solve_kepler_pal meets its summary contract (Newton iteration on Pal's equations converges to "
    "the root for e < 0.3, reb_M_to_E branch otherwise) -- a convergence statement, C11/C03 territory; assumed",
    "derivatives: that the extraction routines invert the forward maps (so that the constructor differentiates at the elements "
    "of the particle handed in) is property C11; here the constructor is proved to be the derivative at the elements the "
    "extraction returns",
    "derivatives: hyperbolic regime of the classical-element constructors (a < 0, e > 1: same formulas, square roots of "
    "negative factor products) and the singular points e = 0, inc = 0 (the derivative formulas are proved as identities in the "
    "elements; whether the extracted omega, Omega, f are meaningful there is C11's coordinate-singularity question)",
    "derivatives: numerical agreement of the constructors with finite differences of the maps (rounding, step size): replaced "
    "by the exact identity; not decided as a numerical statement",
]

SKIP = {}          # constructors whose obligations do not discharge within the budget would be listed here BY NAME: none
for _n in NAMES:
    if _n not in SKIP:
        constructor_task(_n)
