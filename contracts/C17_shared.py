"""C17 (shared lemma): a copy is reb_input_fields(reb_simulation_save_to_stream(sim)); it evolves identically only if the
serialiser writes EVERY descriptor of the table, for every state of the simulation (no state-dependent omission).  The
writer contract of C05 (`writer.spec`: one well-formed field per descriptor, arrays written iff non-empty with
size = count * element size) is re-registered here."""
from engine.api import Pack, Task
from contracts import C05_roundtrip as R

P = Pack("C17", R.P.files, "the serialiser behind copy writes every descriptor (shared with C05)")
PACKS = [P]
P.assumptions += ["shared with C05: " + a for a in R.P.assumptions]
P.trusted += R.P.trusted
for t in R.P.tasks:
    if t.name == "writer.spec":
        P.tasks.append(Task(P, "copy_serialiser." + t.name, t.fn, t.func, files=t.files or R.P.files, timeout=t.timeout, order=t.order, z3_ms=t.z3_ms, polyid_s=t.polyid_s))


# a copy evolves like its source only if no state outside struct reb_simulation influences a step: the whole-library contract
# "no written process-global (or function-static) object except reb_sigint" of C19 is re-registered here
from contracts import C19_frames as F19
for t in F19.P.tasks:
    if t.name in ("sources", "globals"):
        P.tasks.append(Task(P, "no_hidden_shared_state." + t.name, t.fn, t.func, files=t.files or F19.P.files, timeout=t.timeout))
