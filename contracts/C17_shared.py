"""C17 (shared lemma): a copy is reb_input_fields(reb_simulation_save_to_stream(sim)); it evolves identically only if the
serialiser writes EVERY descriptor of the table, for every state of the simulation (no state-dependent omission).  The
writer contract of C05 (`writer.spec`: one well-formed field per descriptor, arrays written iff non-empty with
size = count * element size) is re-registered here."""
from engine.api import Pack, Task
from contracts import C05_roundtrip as R

P = Pack("C17", R.P.files, "the serialiser behind copy writes every descriptor (shared with C05)")
PACKS = [P]
P.assumptions += ["shared with C05: " + a for a in R.P.assumptions]
P.trusted += R.P.trusted
for t in R.P.tasks:
    if t.name == "writer.spec":
        P.tasks.append(Task(P, "copy_serialiser." + t.name, t.fn, t.func, files=t.files or R.P.files, timeout=t.timeout, order=t.order, z3_ms=t.z3_ms, polyid_s=t.polyid_s))


# a copy evolves like its source only if no state outside struct reb_simulation influences a step: the whole-library contract
# "no written process-global (or function-static) object except reb_sigint" of C19 is re-registered here
from contracts import C19_frames as F19
for t in F19.P.tasks:
    if t.name in ("sources", "globals"):
        P.tasks.append(Task(P, "no_hidden_shared_state." + t.name, t.fn, t.func, files=t.files or F19.P.files, timeout=t.timeout))


# "a simulation equals its own restored snapshot": incremental snapshots are produced by reb_binary_diff (output_option 0) with
# the SAME walk that decides equality (output_option 2); the restored state is the overlay of that delta, so the delta stream
# must be well formed for every pair of field sequences (C06 delta contract: every header is followed by exactly `size` payload
# bytes, a vanished field is emitted with size 0, the payload is the current one).  Re-registered here.
from contracts import C06_diff as D6
for t in D6.P.tasks:
    P.tasks.append(Task(P, "restored_snapshot_delta." + t.name, t.fn, t.func, files=t.files or D6.P.files, timeout=t.timeout))
P.assumptions += ["shared with C06: " + a for a in D6.P.assumptions]


# a copy is save + load through the descriptor table: it carries a member only if the descriptor that names it points at THAT
# member (a copy-pasted offset makes two descriptors write the same member; both streams go through the same table, so compare
# still says "equal" while the copy evolves differently).  The descriptor-table contract of C05 (every descriptor's offset is the
# offset of the member it names; every persisted member has a descriptor) and the loader fix-up frame are re-registered here.
from contracts import C05_table as T5
P5 = Pack("C17", T5.P.files, "every descriptor addresses the member it names (shared with C05)")
PACKS.append(P5)
P5.assumptions += ["shared with C05: " + a for a in T5.P.assumptions]
for t in T5.P.tasks:
    P5.tasks.append(Task(P5, "copy_table." + t.name, t.fn, t.func, files=t.files or T5.P.files, timeout=t.timeout, replay=t.replay))
