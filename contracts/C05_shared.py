"""C05 (shared lemma): a Simulationarchive snapshot after the first is stored as a delta against the first one; restoring it is
only bit-for-bit if the delta contains EVERY field whose content changed.  The completeness contract of the real
reb_binary_diff (C06: `emitted_iff_field_differs`, element loops compare every element) is re-registered here so that the C05
check fails when a changed field can be left out of a snapshot."""
from engine.api import Pack, Task
from contracts import C06_diff as D

P = Pack("C05", D.P.files, "delta snapshots contain every changed field (shared with C06)")
PACKS = [P]
P.assumptions += ["shared with C06: " + a for a in D.P.assumptions]
P.trusted += D.P.trusted
for t in D.P.tasks:
    if t.name.endswith("option0"):
        P.tasks.append(Task(P, "delta_complete." + t.name, t.fn, t.func, files=D.P.files, timeout=t.timeout, order=t.order, z3_ms=t.z3_ms, polyid_s=t.polyid_s))
