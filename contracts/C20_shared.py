"""C20 (shared lemma): a simulation set up from the same physical elements in different unit systems is the same physical system
only if every formula that turns an element into a state carries G (and the simulation time) in the dimensionally right place:
a from P (Kepler's third law) and M from the time of pericentre passage T.  The front-end contract of C11 is re-registered here."""
from engine.api import Pack, Task
from contracts import C11_parsers as PR

P = Pack("C20", PR.P.files, "element conversions carry G in the right place (shared with C11)")
PACKS = [P]
P.trusted += PR.P.trusted
for t in PR.P.tasks:
    if t.name == "parsers.dimensional_conversions":
        P.tasks.append(Task(P, "units." + t.name, t.fn, t.func, files=t.files or PR.P.files, timeout=t.timeout))
