"""C18 (Python mirror addresses the same bytes as the C structure): Variation.particles hands out a ctypes array that aliases
sim->particles[index .. index+N).  The C library reallocates that array whenever particles (or further variational sets) are
added, so the view must be derived from the CURRENT sim._particles on every access: a view computed once and kept addresses
freed memory after the next reallocation.

Contract, decided by running the real property body (compiled from its own AST node of rebound/variation.py) with CPython's real
ctypes on a stub simulation whose particle block is moved between two accesses, over the finite decision domain
testparticle in {-1, 0, 3} x index in {2, 5} x (N, N_var) in {(6,3), (9,4)}  x  block moved / block moved and N changed:

    address of the returned view == address of the CURRENT block + index * sizeof(Particle)
    length of the returned view  == 1 for a test-particle variation, N - N_var otherwise
on the first AND on the second access (the stub object accepts attribute writes, so a cached view is representable)."""
import ast
import ctypes
import itertools
import os
from engine.api import Pack

P = Pack("C18", [], "Variation.particles is a view of the current particle array")
PACKS = [P]
P.trust("Python statement execution: the property body is compiled from its own AST node and run by CPython with the real ctypes "
        "module on stub objects exposing _sim.contents.{N, N_var, _particles}, index, testparticle")
REPO = os.environ.get("VERIF_REPO", "/repo")


class _Particle(ctypes.Structure):
    _fields_ = [("x", ctypes.c_double * 7), ("p", ctypes.c_void_p * 3)]


class _Obj:
    pass


@P.task("python.variation_particles.view_of_the_current_block")
def _(v):
    src = open(os.path.join(REPO, "rebound", "variation.py")).read()
    mod = ast.parse(src)
    cls = next((n for n in mod.body if isinstance(n, ast.ClassDef) and n.name == "Variation"), None)
    fn = next((n for n in (cls.body if cls else []) if isinstance(n, ast.FunctionDef) and n.name == "particles"
               and any(getattr(d, "id", None) == "property" for d in n.decorator_list)), None)
    v.ground("property_found", fn is not None, "")
    if fn is None:
        return
    fn.decorator_list = []
    code = compile(ast.Module([fn], []), "<Variation.particles>", "exec")
    ns = {"ctypes": ctypes, "Particle": _Particle, "POINTER": ctypes.POINTER, "byref": ctypes.byref, "sizeof": ctypes.sizeof,
          "addressof": ctypes.addressof, "cast": ctypes.cast}
    exec(code, ns)
    get = ns["particles"]
    wrong = {"first_access": [], "after_the_block_moved": [], "after_the_block_moved_and_N_changed": []}
    n = 0
    Block = _Particle * 40
    for tp, index, (N, Nvar) in itertools.product((-1, 0, 3), (2, 5), ((6, 3), (9, 4))):
        for grow in (0, 2):
            n += 1
            b1, b2 = Block(), Block()
            sim = _Obj()
            sim.N, sim.N_var = N, Nvar
            sim._particles = ctypes.cast(ctypes.pointer(b1), ctypes.POINTER(_Particle))
            me = _Obj()
            me._sim = _Obj()
            me._sim.contents = sim
            me.index, me.testparticle = index, tp
            case = (tp, index, N, Nvar, grow)

            def ok(view, base, N_):
                want_len = 1 if tp >= 0 else N_ - Nvar
                return ctypes.addressof(view) == ctypes.addressof(base) + index * ctypes.sizeof(_Particle) and len(view) == want_len
            try:
                if not ok(get(me), b1, N):
                    wrong["first_access"].append(case)
                sim._particles = ctypes.cast(ctypes.pointer(b2), ctypes.POINTER(_Particle))
                sim.N = N + grow
                if not ok(get(me), b2, N + grow):
                    wrong["after_the_block_moved_and_N_changed" if grow else "after_the_block_moved"].append(case)
            except Exception as ex:
                wrong["first_access"].append((case, "%s: %s" % (type(ex).__name__, ex)))
    v.ground("domain_covered", n == 24, str(n))
    for k, w in wrong.items():
        v.ground(k, not w, "wrong for (testparticle, index, N, N_var, N growth): %s" % (w[:4],))
