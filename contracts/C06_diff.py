"""C06 (delta part): reb_binary_diff, the function that produces every appended archive snapshot, emits a
well-formed delta stream for ARBITRARY field sequences in the two serialisations (any history): every header it
appends is followed by exactly `size` payload bytes -- in particular a field that vanished (present in the
first blob, absent now) must be emitted with size 0 -- and the payload appended for a changed/new field is the
current one (taken from the second buffer at the position of that field).

Buffers are uninterpreted byte sequences (content functions of the position); loops get inductive invariants
over the ghost predicate "pos is a field boundary" (B1, B2: least predicates closed under the step
pos -> pos + sizeof(header) + size(pos), from 64; the closure axioms below are their definition).
"""
import z3
from engine.api import Pack
from engine import layout, cfront
from engine.csym import Contract, as_int, const_int, Unsupported
from engine.mem import Ptr, Opaque, StructObj, Cell
from engine.stream import View

P = Pack("C06", ["src/binarydiff.c", "src/output.c"], "delta stream well-formedness of reb_binary_diff")
PACKS = [P]
P.assume("buffers are arbitrary byte sequences; field headers are read through content functions of the byte position")
P.assume("B1/B2 (field boundary) are defined by closure: B(64); B(p) & header fits & type(p)!=END => B(p+16+size(p))")
P.assume("precondition: both buffers are END-terminated serialisations (every field boundary carries a complete header inside the buffer) -- established by reb_simulation_save_to_stream, which always appends END + trailer")
P.assume("output_option in {0,2}: the two modes the library itself uses (archive append, comparison); the printing modes "
         "1 and 3 are not under contract")
P.not_decided += ["index walk of the reader over arbitrary multi-blob histories: decided for the open path under truncation in C07 (archive_open), not for the random-access loader reb_simulation_create_from_simulationarchive_with_messages beyond the overlay of one delta on blob 0 (C06_overlay); cadence bookkeeping: per heartbeat call (C06_cadence), not as an induction over the run",
                  "int32 overflow of blob offsets for snapshots > 2 GiB"]

HDR = 16


def setup(v, option):
    eng = v.eng
    rows = layout.descriptor_table(cfront.REPO)
    ids = {name: typ for (typ, dt, name, off, offN, esz) in rows}
    END = ids["end"]
    wall = [typ for (typ, dt, name, off, offN, esz) in rows if name.startswith("walltime")]
    names = {typ: name for (typ, dt, name, off, offN, esz) in rows}
    size1, size2 = v.int("size1"), v.int("size2")
    b1 = eng.new_bytebuf(v.st, "buf1", size1)
    b2 = eng.new_bytebuf(v.st, "buf2", size2)
    u32 = eng.ctype("unsigned int")
    u64 = eng.ctype("unsigned long")
    T = {1: lambda p: eng.content("buf1", ("reb_binary_field", "type"), u32, p),
         2: lambda p: eng.content("buf2", ("reb_binary_field", "type"), u32, p)}
    soff = eng.tu0.offsetof("reb_binary_field", "size")
    S = {1: lambda p: eng.content("buf1", ("reb_binary_field", "size"), u64, p + soff),
         2: lambda p: eng.content("buf2", ("reb_binary_field", "size"), u64, p + soff)}
    B = {1: z3.Function("B1", z3.IntSort(), z3.BoolSort()), 2: z3.Function("B2", z3.IntSort(), z3.BoolSort())}
    p = z3.Int("p!ax")
    sizes = {1: size1, 2: size2}
    for k in (1, 2):
        v.assume(B[k](64))
        v.assume(z3.ForAll([p], z3.Implies(z3.And(B[k](p), p + HDR <= sizes[k], T[k](p) != END), B[k](p + HDR + S[k](p)))))
        v.assume(z3.ForAll([p], S[k](p) >= 0))          # size_t
        v.assume(z3.ForAll([p], z3.Implies(B[k](p), p >= 64)))
        # precondition (what reb_simulation_save_to_stream guarantees): the field sequence is terminated by an END
        # header inside the buffer, i.e. every field boundary is followed by a complete header
        v.assume(z3.ForAll([p], z3.Implies(B[k](p), p + HDR <= sizes[k])))
    v.assume(size1 >= 64, size2 >= 64)

    # reb_output_stream_write -> ghost trace
    def write(eng_, st, args, n):
        data, size = args[3], args[4]
        if isinstance(data, Ptr) and data.obj is not None:
            o = st.mem.get(data.obj)
            if isinstance(o, Cell) and isinstance(o.value, StructObj) and o.value.ctype.name == "reb_binary_field":
                s = o.value
                st.trace = st.trace + [("hdr", eng_._lazy_field(s, "type", st), eng_._lazy_field(s, "size", st), as_int(size))]
                return None
            if getattr(o, "is_bytes", False):
                pos = data.path[0].pos if isinstance(data.path[0], View) else as_int(data.path[0])
                st.trace = st.trace + [("payload", o.name, pos, as_int(size))]
                return None
        raise Unsupported("stream write of %r" % (data,))
    eng.trace_prims["reb_output_stream_write"] = write

    # descriptor lookups by type: name is an opaque handle carrying the type term
    def for_type(eng_, st, args, n):
        s = StructObj(eng_.ctype("struct reb_binary_field_descriptor"), {})
        s.fields["name"] = Opaque("fdname", tag=as_int(args[0]))
        s.fields["type"] = as_int(args[0])
        s.fields["dtype"] = eng_.fresh("dtype", z3.IntSort())
        return s
    eng.contracts["reb_binary_field_descriptor_for_type"] = Contract("for_type", for_type)

    def strcmp(eng_, st, args):
        a, b = args[0], args[1]
        if isinstance(a, Opaque) and a.what == "fdname" and isinstance(b, Opaque) and b.what == "str":
            lit = (b.tag or "").strip('"')
            if len(args) == 3:          # strncmp(name, "walltime", 8): the descriptors whose first n characters are those of lit
                nn = const_int(args[2])
                if nn is None:
                    raise Unsupported("strncmp with a symbolic length")
                hit = [typ for typ, nm in names.items() if (nm + "\0")[:nn] == (lit + "\0")[:nn]]
                match = z3.Or(*[a.tag == w for w in hit]) if hit else z3.BoolVal(False)
            else:
                match = (a.tag == ids[lit]) if lit in ids else None
            if match is None:
                raise Unsupported("strcmp against %r" % lit)
            return z3.If(match, z3.IntVal(0), z3.IntVal(1))
        raise Unsupported("strcmp %r %r" % (a, b))
    v.st.ghost["strcmp"] = strcmp

    def strstr(eng_, st, args):
        a, b = args[0], args[1]
        if isinstance(a, Opaque) and a.what == "fdname" and isinstance(b, Opaque) and b.what == "str":
            lit = (b.tag or "").strip('"')
            hit = [typ for typ, nm in names.items() if lit in nm]
            return z3.Or(*[a.tag == w for w in hit]) if hit else z3.BoolVal(False)
        raise Unsupported("strstr %r %r" % (a, b))
    v.st.ghost["strstr"] = strstr
    bufp, bufpp = v.cell("char*", "outbuf", value=Ptr(None, (), True))
    sizep, sizepp = v.cell("unsigned long", "outsize", value=z3.IntVal(0))
    return dict(b1=b1, b2=b2, size1=size1, size2=size2, T=T, S=S, B=B, END=END, wall=wall, ids=ids, bufpp=bufpp, sizepp=sizepp)


def varconfig_invariant(v):
    """element loop of the var_config branch of reb_binary_diff: one iteration raises fields_differ iff some NON-POINTER
    member of element i differs between the two buffers (the pointer to the simulation is skipped).  Shared by C06
    (a changed variational configuration must be emitted) and C17 (compare reports exactly the real differences)."""
    bitor = v.eng.uf("bitor", z3.IntSort(), z3.IntSort(), z3.IntSort())
    xx = z3.Int("x!flag")
    v.assume(z3.ForAll([xx], z3.Implies(z3.Or(xx == 0, xx == 1), bitor(xx, 1) == 1)))       # 0|1 = 1|1 = 1
    tu0 = v.eng.tu0
    vc_size = tu0.sizeof(tu0.ctype("struct reb_variational_configuration"))
    vc_members = [(n_, tu0.ctype(q), tu0.offsetof("reb_variational_configuration", n_))
                  for (n_, q, _i) in tu0.records["reb_variational_configuration"]]

    def inv(L):
        out = [("i_nonneg", L.i >= 0), ("flag_boolean", z3.Or(L.fields_differ == 0, L.fields_differ == 1))]
        i0, f0 = L.at_head("i"), L.at_head("fields_differ")
        if i0 is not None:
            p1, p2 = L.pos1, L.pos2
            diffs = []
            for (n_, t_, off_) in vc_members:
                if t_.kind == "ptr":
                    continue
                c1 = v.eng.content("buf1", ("reb_variational_configuration", n_), t_, z3.simplify(p1 + i0 * vc_size + off_))
                c2 = v.eng.content("buf2", ("reb_variational_configuration", n_), t_, z3.simplify(p2 + i0 * vc_size + off_))
                diffs.append(c1 != c2)
            some = z3.Or(*diffs)
            out.append(("element_differs_raises_flag", z3.Implies(some, L.fields_differ == 1)))
            out.append(("equal_element_keeps_flag", z3.Implies(z3.Not(some), L.fields_differ == f0)))
        return out
    return inv


def varconfig_loop(v, fn):
    """attach varconfig_invariant to the element loop of the var_config branch and add its iteration-space contract: when
    the loop is left, EVERY element of the field (field1.size / sizeof(struct reb_variational_configuration) of them) has
    been compared -- an element loop with a too small bound never sees a change in the later elements"""
    from engine.csym import LoopSpec, as_int
    hits = [o for (o, i) in v.loops_of(fn) if i["kind"] == "ForStmt" and "vb1" in i["names"]]
    v.ground("var_config_branch_present", len(hits) == 1, str(hits))
    if len(hits) != 1:
        from engine.cexec import PathEnd
        raise PathEnd("var_config element loop not found")
    spec = LoopSpec(varconfig_invariant(v))
    tu0 = v.eng.tu0
    vc_size = tu0.sizeof(tu0.ctype("struct reb_variational_configuration"))
    o = hits[0]

    def handler(e, st, n, cond, inc, body):
        fl = e.loop_invariant(st, n, cond, inc, body, False, spec, fn, o)
        i = as_int(e.local(st, "i"))
        f1 = e.local(st, "field1")
        size = as_int(f1.fields["size"] if hasattr(f1, "fields") else e.read(st, Ptr(e.local_ptr(st, "field1").obj, ("size",))))
        e.oblige(st, "reb_binary_diff.var_config.every_element_of_the_field_compared", i * vc_size + vc_size > size, "loop", n)
        return fl
    v.loop(fn, o, invariant=handler, mode="custom")
    return hits


def particle_loop(v, fn, inv):
    """element loop of the `particles` branch: same iteration-space contract (every particle of the field is handed to
    reb_particle_diff)"""
    from engine.csym import LoopSpec, as_int
    hits = [o for (o, i) in v.loops_of(fn) if i["kind"] == "ForStmt" and "pb1" in i["names"]]
    v.ground("particles_branch_present", len(hits) == 1, str(hits))
    if len(hits) != 1:
        from engine.cexec import PathEnd
        raise PathEnd("particles element loop not found")
    spec = LoopSpec(inv)
    tu0 = v.eng.tu0
    psize = tu0.sizeof(tu0.ctype("struct reb_particle"))
    o = hits[0]

    def handler(e, st, n, cond, inc, body):
        fl = e.loop_invariant(st, n, cond, inc, body, False, spec, fn, o)
        i = as_int(e.local(st, "i"))
        size = as_int(e.local(st, "field1").fields["size"])
        e.oblige(st, "reb_binary_diff.particles.every_particle_of_the_field_compared", i * psize + psize > size, "loop", n)
        return fl
    v.loop(fn, o, invariant=handler, mode="custom")
    return hits


def local_names(L):
    names = set()
    for did, oid in L.st.frames[-1].items():
        o = L.st.mem.objs.get(oid)
        if o is not None and getattr(o, "name", None):
            names.add(o.name)
    return names


def stream_wf(chunks):
    """appended chunks of one iteration: [] | [hdr(size 0)] | [hdr(t,s), payload(len s)]"""
    conds = []
    i = 0
    while i < len(chunks):
        c = chunks[i]
        if c[0] != "hdr":
            return [z3.BoolVal(False)]
        conds.append(c[3] == HDR)
        if i + 1 < len(chunks) and chunks[i + 1][0] == "payload":
            conds.append(chunks[i + 1][3] == c[2])
            i += 2
        else:
            conds.append(c[2] == 0)
            i += 1
    return conds or [z3.BoolVal(True)]


def diff_task(option):
    @P.task("reb_binary_diff.option%d" % option, fn="reb_binary_diff", timeout=900)
    def _(v):
        E = setup(v, option)
        T, S, B, END = E["T"], E["S"], E["B"], E["END"]
        size1, size2 = E["size1"], E["size2"]
        fn = "reb_binary_diff"

        def common(L):
            return [("pos1_boundary", z3.And(L.pos1 >= 64, B[1](L.pos1))),
                    ("pos2_boundary", z3.And(L.pos2 >= 64, B[2](L.pos2))),
                    ("flag_boolean", z3.Or(L.are_different == 0, L.are_different == 1))]

        def main_inv(L):
            new = L.st.trace[len(L.entry.trace):] if L.entry is not None else []
            out = common(L)
            for i, c in enumerate(stream_wf(new)):
                out.append(("stream_wf.%d" % i, c))
            # what is appended: the payload of a changed field is the CURRENT one (from buf2) and carries field2's header
            for i, ch in enumerate(new):
                if ch[0] == "payload":
                    out.append(("payload_from_current.%d" % i, z3.BoolVal(ch[1] == "buf2")))
            if option == 2:
                out.append(("nothing_written", z3.BoolVal(not new)))
            h1, h2 = L.at_head("pos1"), L.at_head("pos2")
            if option == 0 and h1 is not None and "fields_differ" in local_names(L):
                # completeness of the delta (first pass, field present in both serialisations): the field is emitted iff the
                # comparison found a difference; for byte-compared fields that is: sizes differ or memcmp != 0
                out.append(("emitted_iff_field_differs", z3.BoolVal(bool(new)) == (L.fields_differ != 0)))
                mc = v.eng.uf("memcmp_buf1_buf2", z3.IntSort(), z3.IntSort(), z3.IntSort(), z3.IntSort())
                f1, f2 = L.field1, L.field2
                t1, s1, s2 = f1.fields["type"], f1.fields["size"], f2.fields["size"]
                plain = z3.And(t1 != E["ids"]["particles"], t1 != E["ids"]["var_config"])
                p1now, p2now = L.pos1, L.pos2        # advanced by the sizes at the end of the iteration
                out.append(("plain_field_differs_iff_bytes_differ",
                            z3.Implies(plain, (L.fields_differ != 0) == z3.Or(s1 != s2, mc(p1now - s1, p2now - s2, s1) != 0))))
                out.append(("size_change_is_a_difference", z3.Implies(s1 != s2, L.fields_differ != 0)))
            return out

        def search2_inv(L):      # inner loop of the first pass: scans buf2 from 64
            return [("pos2_boundary", z3.And(L.pos2 >= 64, B[2](L.pos2))), ("notfound_boolean", z3.Or(L.notfound == 0, L.notfound == 1)),
                    ("pos1_kept", L.pos1 == L.old("pos1"))]

        def search1_inv(L):      # inner loop of the second pass: scans buf1 from 64
            return [("pos1_boundary", z3.And(L.pos1 >= 64, B[1](L.pos1))), ("notfound_boolean", z3.Or(L.notfound == 0, L.notfound == 1)),
                    ("pos2_kept", L.pos2 == L.old("pos2"))]

        def triv(L):
            return [("i_nonneg", L.i >= 0)]
        # loops are identified by structure, not by position: outer passes (depth 0) contain the stream writes;
        # the search loops (depth 1, while) declare nothing and call nothing; element loops (for) compare payloads
        outer = v.loop_where(fn, lambda i: i["depth"] == 0 and i["kind"] == "WhileStmt", invariant=main_inv)
        v.ground("two_passes", len(outer) == 2, "outer loops: %s" % outer)
        inner = [o for (o, i) in v.loops_of(fn) if i["depth"] == 1 and i["kind"] == "WhileStmt"]
        v.ground("two_search_loops", len(inner) == 2, str(inner))
        v.loop(fn, inner[0], invariant=search2_inv)
        v.loop(fn, inner[1], invariant=search1_inv)
        particle_loop(v, fn, triv)
        varconfig_loop(v, fn)
        ret = v.call(fn, E["b1"], size1, E["b2"], size2, E["bufpp"], E["sizepp"], z3.IntVal(option))
        v.prove("returns_boolean", z3.Or(ret == 0, ret == 1))
    return _


diff_task(0)
diff_task(2)
