"""C20 (rotations, degenerate constructions): reb_rotation_init_to_new_axes(newz, newx) builds the rotation to the frame whose z
axis is newz and whose x axis is newx (orthogonalised against newz) from two from-to rotations.  The second one
(newx' -> x) must leave the z axis where the first one has put it; in the generic case its axis newx' x xhat is parallel to z,
but when newx' is exactly ANTIPARALLEL to xhat the from-to construction is free to pick any axis perpendicular to xhat and
only the choice  +-zhat  keeps the documented meaning of the result (a half turn about any other axis turns z away again:
the angular momentum of a simulation rotated "to its invariable plane" would then point along -z).

Contract on the real reb_rotation_init_to_new_axes (all callees inlined: reb_rotation_init_from_to, reb_vec3d_normalize, ...)
on the two families in which the second stage is exactly antiparallel:
    A: newz = (0,0,1),  newx = (-1,0,0)        (first stage: identity)
    B: newz = (0,0,-1), newx = ( 1,0,0)        (first stage: antiparallel as well)
    (unit-length representatives of the families (0,0,+-c), (-+a,0,b): the inputs are normalised / orthogonalised first)
postconditions (R = result):  |R| = 1,   R zhat_new = (0,0,1),   R (newx - (newx.zhat_new) zhat_new) = (a,0,0).
The generic case needs the obtuse branch of from-to, which is not decided (see C20_rotations)."""
import z3
from engine.api import Pack
from engine.csym import as_real
from contracts import C20_rotations as R

P = Pack("C20", ["src/rotations.c"], "to_new_axes: the second stage keeps the new z axis (antiparallel x)")
PACKS = [P]
P.assumptions += list(R.P.assumptions)
P.assume("to_new_axes task: isnormal(x) is false for the NaN returned by normalising the zero vector and x != 0 otherwise")
P.not_decided += ["reb_rotation_init_to_new_axes for generic (newz, newx): needs the obtuse branch of reb_rotation_init_from_to (not decided)"]


def gen(tag, sz, sx):
    @P.task("reb_rotation_init_to_new_axes.antiparallel_x." + tag, fn="reb_rotation_init_to_new_axes", z3_ms=60000)
    def _(v):
        newz = v.struct("struct reb_vec3d", "newz")
        newx = v.struct("struct reb_vec3d", "newx")
        # unit-length representatives: the construction normalises its inputs (reb_rotation_init_from_to.normalises_inputs,
        # reb_vec3d_normalize), symbolic lengths only add nested square roots to every path condition (> 500 s per task)
        a, b, c = z3.RealVal(1), z3.RealVal(0), z3.RealVal(1)
        newz.x, newz.y, newz.z = z3.RealVal(0), z3.RealVal(0), sz * c
        newx.x, newx.y, newx.z = sx * a, z3.RealVal(0), b
        R._install_isnormal(v, lambda x: z3.BoolVal(False) if "NaN_" in str(x) else x != 0, nan_on_zero=True)
        q = v.call("reb_rotation_init_to_new_axes", newz, newx)
        v.prove("unit", R.n2(q) == 1)
        zhat = v.struct("struct reb_vec3d", "zhat")
        zhat.x, zhat.y, zhat.z = z3.RealVal(0), z3.RealVal(0), z3.RealVal(sz)
        w = R.rot_spec(zhat, q)
        for k, (got, want) in enumerate(zip(w, (0, 0, 1))):
            v.prove("new_z_axis_is_mapped_to_z." + "xyz"[k], got == want)
        xo = v.struct("struct reb_vec3d", "newx_orthogonalised")
        xo.x, xo.y, xo.z = sx * a, z3.RealVal(0), z3.RealVal(0)
        w = R.rot_spec(xo, q)
        for k, (got, want) in enumerate(zip(w, (a, 0, 0))):
            v.prove("new_x_axis_is_mapped_to_x." + "xyz"[k], got == want)


gen("first_stage_identity", 1, -1)
gen("first_stage_antiparallel", -1, 1)
