"""C04 (momentum): the modified kick of the EOS inner shell (reb_integrator_eos_interaction_shell1 with v != 0: kick plus
force-gradient "jerk" term between the central body and every other body) must move the total momentum by nothing: for every
pair (0, i) the jerk increments satisfy  m_0 dv_0 + m_i dv_i = 0  -- for an active body always, for a test particle when
testparticle_type != 0 (otherwise the test particle, massless by definition, leaves the central body alone).

Contract on the real function as a two-state invariant of its two jerk loops (one arbitrary iteration each; the force loops in
front of them only provide the accelerations, used here as arbitrary values)."""
import z3
from engine.api import Pack
from engine.csym import as_real, as_int
from engine.mem import Ptr

FILES = ["src/integrator_eos.c"]
FN = "reb_integrator_eos_interaction_shell1"
P = Pack("C04", FILES, "EOS modified kick: pairwise momentum balance of the jerk term")
PACKS = [P]
P.assume("EOS modified-kick task: doubles as reals; distances non-zero (definedness of 1/dr^3 is C02's subject); N_var = 0")


@P.task("eos.shell1.modified_kick.pairwise_momentum_balance", fn=FN)
def _(v):
    eng = v.eng
    eng.check_defined = False
    r, rp = v.struct_obj("struct reb_simulation", "r")
    N, Na, tp = v.int("N"), v.int("N_active"), v.int("testparticle_type")
    v.assume(N >= 2, Na >= 1, Na <= N, z3.Or(tp == 0, tp == 1))
    r.N, r.N_var, r.N_active, r.testparticle_type, r.G = N, 0, Na, tp, v.real("G")
    parts = v.array("struct reb_particle", N, "P")
    r.particles = parts.ptr
    y, vv = v.real("y"), v.real("v")
    v.assume(vv != 0)
    loops = v.loops_of(FN)
    jerk = [o for (o, info) in loops if "alphasum" in info["names"]]
    v.ground("jerk_loops_found", len(jerk) >= 1, "loops computing alphasum: %s of %s" % (jerk, [(o, sorted(i["names"])[:4]) for o, i in loops]))

    def arr(st, f):
        return eng._leaf_array(st.mem.get(parts.obj.id), (f,))

    guarded = {o for (o, info) in loops if o in jerk and "testparticle_type" in info["names"]}

    def inv(L, test_loop=False):
        out = [("counter_positive", L.i >= 1)]
        if test_loop:
            # the loop whose back-reaction on the central body is guarded by testparticle_type may only visit test particles
            out.append(("guarded_loop_visits_test_particles_only", L.i >= Na))
        if L.headst is None:
            return out
        i = as_int(L.at_head("i"))
        m = arr(L.st, "m")
        m0, mi = z3.Select(m, 0), z3.Select(m, i)
        for c in "xyz":
            v0a, v0b = z3.Select(arr(L.headst, "v" + c), 0), z3.Select(arr(L.st, "v" + c), 0)
            via, vib = z3.Select(arr(L.headst, "v" + c), i), z3.Select(arr(L.st, "v" + c), i)
            ai = z3.Select(arr(L.headst, "a" + c), i)
            balance = m0 * (v0b - v0a) + mi * (vib - via - y * ai) == 0
            out.append(("active_pair_momentum_balance." + c, z3.Implies(i < Na, balance)))
            out.append(("testparticle_pair." + c, z3.Implies(i >= Na, z3.If(tp != 0, balance, v0b == v0a))))
        return out
    for o in jerk:
        v.loop(FN, o, invariant=(lambda L, t=(o in guarded): inv(L, t)))
    for (o, info) in loops:
        if o not in jerk:
            v.loop(FN, o, invariant=lambda L: [("true", z3.BoolVal(True))])
    v.call(FN, rp, y, vv)
