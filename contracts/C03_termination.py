"""C03 ('the step always terminates'): the Stumpff functions reduce their argument by repeated quartering,
`while (|z| > 0.1) { z = z/4; n++; }`.  For a long hyperbolic step the first Newton iterate X of the universal Kepler equation
overflows (beta X^2 = +-inf); +-inf is a FIXED POINT of z -> z/4, so the reduction loop never exits and sim.step() hangs
(natively reproduced: a=-3631, e=2.585, f=-0.41, dt = 372 "periods" 2 pi sqrt(|a|^3/mu); repaired by a fix: commit).

Two parts:
 * structural contract on the real stumpff_cs / stumpff_cs3 (clang AST, every run): every loop whose body only scales its control
   variable by a constant (z = z/c or z /= c, plus a counter) has a loop condition with a conjunct that is false for non-finite
   values of that variable (isfinite / isnormal of it, or a comparison against DBL_MAX / INFINITY).  This is a statement about IEEE
   values; the R-mode contracts (doubles as reals) cannot express it, and in R the loop terminates for every argument
   (|z| shrinks geometrically: ranking function ceil(log4(|z|/0.1))).
 * BOUNDED native stand-in (never counted as proved): hyperbolic two-body steps at three length scales with |dt| up to 999 periods,
   both signs, run in a child process under a time limit; a child that does not return is reported as does_not_terminate."""
from engine.api import Pack
from engine import cfront, frames

FILE = "src/integrator_whfast.c"
P = Pack("C03", [FILE], "Kepler solver: argument reduction terminates for non-finite arguments")
PACKS = [P]
P.trust("IEEE-754: +-inf/4 = +-inf, every ordered comparison with NaN is false; isfinite(x) is false exactly for +-inf and NaN")
P.assume("bounded stand-in (termination): a finite list of inputs run natively under a time limit; nothing is proved by it")
FINITE_TESTS = {"isfinite", "__builtin_isfinite", "isnormal", "__builtin_isnormal", "__isinf", "isinf", "__builtin_isinf", "__builtin_isinf_sign",
                "__finite", "finite"}


def _scaled_var(body):
    """name of the variable if the loop body is { v = v / const (or v /= const, v *= const); counter++ } else None"""
    stmts = [c for c in body.get("inner", ()) if isinstance(c, dict)] if body.get("kind") == "CompoundStmt" else [body]
    var = None
    for s in stmts:
        s = frames.strip_casts(s)
        k = s.get("kind")
        if k == "UnaryOperator" and s.get("opcode") in ("++", "--"):
            continue
        if k == "CompoundAssignOperator" and s.get("opcode") in ("/=", "*=", "+=", "-="):
            lhs = frames.strip_casts(s["inner"][0])
            rhs = frames.strip_casts(s["inner"][1])
            if s.get("opcode") in ("+=", "-="):
                continue                      # counters
            if lhs.get("kind") == "DeclRefExpr" and rhs.get("kind") in ("FloatingLiteral", "IntegerLiteral"):
                var = lhs["referencedDecl"]["name"]
                continue
            return None
        if k == "BinaryOperator" and s.get("opcode") == "=":
            lhs = frames.strip_casts(s["inner"][0])
            rhs = frames.strip_casts(s["inner"][1])
            if lhs.get("kind") == "DeclRefExpr" and rhs.get("kind") == "BinaryOperator" and rhs.get("opcode") in ("/", "*"):
                a, b = (frames.strip_casts(x) for x in rhs["inner"])
                name = lhs["referencedDecl"]["name"]
                if (a.get("kind") == "DeclRefExpr" and a["referencedDecl"]["name"] == name and b.get("kind") in ("FloatingLiteral", "IntegerLiteral")) or \
                   (b.get("kind") == "DeclRefExpr" and b["referencedDecl"]["name"] == name and a.get("kind") in ("FloatingLiteral", "IntegerLiteral")):
                    var = name
                    continue
            return None
        return None
    return var


def _conjuncts(c):
    c = frames.strip_casts(c)
    while c.get("kind") == "ParenExpr":
        c = frames.strip_casts(c["inner"][0])
    if c.get("kind") == "BinaryOperator" and c.get("opcode") == "&&":
        return _conjuncts(c["inner"][0]) + _conjuncts(c["inner"][1])
    return [c]


def _false_for_non_finite(conj, var):
    """isfinite(var) / isnormal(var) (also in their macro expansions: a call or a comparison against a huge constant)"""
    names = {frames.callee_name(x) for x in frames.walk(conj) if x.get("kind") == "CallExpr"} - {None}
    refs = {x["referencedDecl"]["name"] for x in frames.walk(conj) if x.get("kind") == "DeclRefExpr" and x.get("referencedDecl")}
    if var not in refs:
        return False
    if names & FINITE_TESTS:
        # isinf(var) alone would have to be negated; accept only tests that are false for inf and NaN
        neg = frames.strip_casts(conj).get("kind") == "UnaryOperator" and frames.strip_casts(conj).get("opcode") == "!"
        is_inf_test = bool(names & {"__isinf", "isinf", "__builtin_isinf", "__builtin_isinf_sign"})
        return (is_inf_test and neg) or (not is_inf_test and not neg)
    # fabs(var) <= DBL_MAX / < INFINITY written out
    for x in frames.walk(conj):
        if x.get("kind") == "BinaryOperator" and x.get("opcode") in ("<", "<="):
            rhs = frames.strip_casts(x["inner"][1])
            if rhs.get("kind") == "FloatingLiteral" and float(rhs.get("value", 0)) >= 1e300:
                return True
            if any(frames.callee_name(y) in ("__builtin_inff", "__builtin_inf", "__builtin_huge_val") for y in frames.walk(rhs) if y.get("kind") == "CallExpr"):
                return x.get("opcode") == "<"
    return False


def _is_range_test(conj, var):
    """|var| > literal  (fabs(var) > 0.1, fastabs macro: (var > 0 ? var : -var) > 0.1)"""
    c = frames.strip_casts(conj)
    while c.get("kind") == "ParenExpr":
        c = frames.strip_casts(c["inner"][0])
    if c.get("kind") != "BinaryOperator" or c.get("opcode") not in (">", ">="):
        return False
    rhs = frames.strip_casts(c["inner"][1])
    refs = {x["referencedDecl"]["name"] for x in frames.walk(c["inner"][0]) if x.get("kind") == "DeclRefExpr" and x.get("referencedDecl")}
    return rhs.get("kind") == "FloatingLiteral" and refs <= {var, "fabs", "__builtin_fabs", "fastabs", "fabsl", "fabsf"} and var in refs


def _counter_bound(conj, var):
    """K if the conjunct is  counter < K  /  counter <= K-1  for an integer variable other than the scaled one, else None"""
    c = frames.strip_casts(conj)
    while c.get("kind") == "ParenExpr":
        c = frames.strip_casts(c["inner"][0])
    if c.get("kind") != "BinaryOperator" or c.get("opcode") not in ("<", "<="):
        return None
    lhs, rhs = frames.strip_casts(c["inner"][0]), frames.strip_casts(c["inner"][1])
    while rhs.get("kind") == "ParenExpr":
        rhs = frames.strip_casts(rhs["inner"][0])
    if lhs.get("kind") == "DeclRefExpr" and lhs["referencedDecl"]["name"] != var and rhs.get("kind") == "IntegerLiteral":
        return int(rhs["value"]) + (1 if c.get("opcode") == "<=" else 0)
    return None


@P.task("stumpff.argument_reduction_exits_for_non_finite_arguments")
def _(v):
    tu = cfront.tu(FILE)
    loops = []
    for name, fn in sorted(tu.functions.items()):
        if not name.startswith("stumpff"):
            continue
        for n in frames.walk(fn):
            if n.get("kind") == "WhileStmt":
                cond, body = n["inner"][0], n["inner"][-1]
                var = _scaled_var(body)
                if var is not None:
                    loops.append((name, var, cond))
    v.ground("reduction_loops_found", len(loops) >= 2, "loops that only rescale their control variable: %s" % [(a, b) for a, b, _ in loops])
    for k, (name, var, cond) in enumerate(loops):
        cj = _conjuncts(cond)
        bounds = [_counter_bound(c, var) for c in cj]
        ok = any(_false_for_non_finite(c, var) for c in cj) or any(b is not None for b in bounds)
        v.ground("%s.loop%d.condition_is_false_for_non_finite_%s" % (name, k, var), ok,
                 "condition: %s -- +-inf is a fixed point of the rescaling, so without a conjunct that is false for non-finite values "
                 "(or a bound on the number of rounds) the loop never exits" % frames.expr_text(cond)[:200])
        # ... and the reduction must not be cut short for FINITE arguments: the truncated series that follows is only accurate for
        # |z| <= 0.1 (C03_kepler stumpff contracts assume the exit condition |z| <= 0.1).  Every finite double is below 0.1 after at
        # most 514 quarterings (log4(DBL_MAX / 0.1) = 513.7), so a bound on the number of rounds must be at least that.
        short = []
        for c, b in zip(cj, bounds):
            if b is not None and b < 514:
                short.append("at most %d rounds" % b)
            elif b is None and not _false_for_non_finite(c, var) and not _is_range_test(c, var):
                short.append("unrecognised conjunct %s" % frames.expr_text(c)[:80])
        v.ground("%s.loop%d.reduction_reaches_the_series_range_for_every_finite_%s" % (name, k, var), not short,
                 "condition: %s; %s" % (frames.expr_text(cond)[:200], "; ".join(short)))


_HARNESS = r'''
import sys, os, json, math, warnings
workdir = sys.argv[1]
sys.path.insert(0, workdir)
import rebound
warnings.simplefilter("ignore")
for a in (-1., -3631., -1e6):
    for e in (1.01, 2.585, 10.):
        for f in (-0.41, 0., 1.):
            if abs(f) >= math.acos(-1. / e) - 0.05:
                continue
            for k in (100., 372., 999.):
                for sgn in (1., -1.):
                    print(json.dumps({"start": [a, e, f, sgn * k]}), flush=True)
                    sim = rebound.Simulation()
                    sim.add(m=1.)
                    sim.add(m=0., a=a, e=e, f=f)
                    sim.integrator = "whfast"
                    sim.dt = sgn * k * 2. * math.pi * math.sqrt(abs(a) ** 3)
                    sim.step()
                    print(json.dumps({"done": [a, e, f, sgn * k]}), flush=True)
print(json.dumps({"finished": True}), flush=True)
'''


@P.bounded_check("native_termination_hyperbolic_long_steps", "3 length scales x 3 eccentricities x 3 phases x |dt| in {100, 372, 999} periods x 2 signs; 120 s for all")
def _(tier, seed):
    import tempfile, shutil, subprocess, os, json, glob
    from engine import native
    repo = cfront.REPO
    d = tempfile.mkdtemp(prefix="verif-c03t-")
    try:
        so = native.build_lib(repo)
        shutil.copytree(os.path.join(repo, "rebound"), os.path.join(d, "rebound"), ignore=shutil.ignore_patterns("tests", "__pycache__"))
        for old in glob.glob(os.path.join(d, "librebound*.so")):
            os.remove(old)
        shutil.copy(so, os.path.join(d, "librebound.cpython-312-x86_64-linux-gnu.so"))
        open(os.path.join(d, "harness.py"), "w").write(_HARNESS)
        out, timed_out = "", False
        try:
            p = subprocess.run(["/venv/bin/python", os.path.join(d, "harness.py"), d], capture_output=True, text=True, timeout=120)
            out = p.stdout
        except subprocess.TimeoutExpired as ex:
            timed_out = True
            out = ex.stdout.decode() if isinstance(ex.stdout, bytes) else (ex.stdout or "")
        lines = [json.loads(l) for l in out.strip().split("\n") if l.startswith("{")]
        done = sum(1 for l in lines if "done" in l)
        r = {"grid_points": done}
        if lines and lines[-1].get("finished"):
            r["result"] = "held"
            return r
        last = next((l["start"] for l in reversed(lines) if "start" in l), None)
        if timed_out and last is not None:
            r["result"] = "violation"
            r["witnesses"] = [{"id": "does_not_terminate", "count": 1,
                               "example": {"a": last[0], "e": last[1], "f": last[2], "dt_in_periods": last[3], "time_limit_s": 120}}]
            return r
        r["result"] = "error"
        r["error"] = out[-400:]
        return r
    finally:
        shutil.rmtree(d, True)


_.quick = True
