"""C14 (Python side): rebound/particles.py Particles container and Simulation.remove / `del sim.particles`.

There is no general Python engine in /verif yet; this pack carries a small AST-to-z3 path enumerator ("pysym") for the
pure integer / dispatch logic of these few methods.  The REAL files are parsed with `ast` on every run (never a copy);
any construct outside the supported fragment raises UNSUPPORTED (exit 3) instead of being skipped.

Python semantics assumed (stated, not proved):
 * Python 3 (`sys.version_info[0] == 3`), ints are unbounded mathematical integers, `+=` on an int rebinds the local name;
 * `isinstance(key, T)` is decided by the scenario of the task (int / slice / str / c_uint32 / other), bool is not considered;
 * `raise` ends the call with that exception, nothing after it runs; `return` likewise;
 * ctypes: `(Particle*n).from_address(a)` is an array view of exactly n elements starting at a; indexing it with
   0 <= i < n touches element i only (ctypes itself raises IndexError outside that range);
 * `slice.indices(n)` returns (start, stop, step) such that every i in range(start, stop, step) satisfies 0 <= i < n
   (documented behaviour of slice.indices).
"""
import ast, os
import z3
from engine.api import Pack
from engine.csym import Unsupported

P = Pack("C14", ["src/particle.c"], "python particles container")
PACKS = [P]
P.assume("Python side (pysym): Python 3 semantics of int arithmetic/comparison, isinstance dispatch fixed per scenario, "
         "raise/return terminate the call, ctypes array views index exactly [0,n), slice.indices(n) yields indices in [0,n)")


# ------------------------------------------------------------------------------------------------ pysym
class Opq:
    """uninterpreted python value with a printable description"""

    def __init__(self, what, args=()):
        self.what, self.args = what, tuple(args)

    def __repr__(self):
        return "%s(%s)" % (self.what, ", ".join(map(repr, self.args))) if self.args else self.what

    def __eq__(self, o):
        return isinstance(o, Opq) and (self.what, self.args) == (o.what, o.args)

    def __hash__(self):
        return hash((self.what, self.args))


class Outcome:
    def __init__(self, kind, value, pc, effects):
        self.kind, self.value, self.pc, self.effects = kind, value, pc, effects   # kind: return | raise | fall


class PySym:
    """enumerates the paths of one function body; env maps names to z3 terms / python constants / Opq"""

    def __init__(self, attrs, kinds, calls_pure=()):
        self.attrs = attrs          # dotted attribute path -> value, e.g. "self.sim.N" -> z3 Int
        self.kinds = kinds          # variable name -> scenario kind for isinstance ("int", "slice", "str", "c_uint32", "other")
        self.calls_pure = set(calls_pure)

    # -- expressions
    def names_itself(self, root, env):
        """a global / module name, or a parameter that stands for itself (env[x] == Opq(x))"""
        return root not in env or env[root] == Opq(root)

    def dotted(self, n):
        if isinstance(n, ast.Name):
            return n.id
        if isinstance(n, ast.Attribute):
            b = self.dotted(n.value)
            return None if b is None else b + "." + n.attr
        return None

    def ev(self, n, env):
        if isinstance(n, ast.Constant):
            return n.value
        if isinstance(n, ast.Name):
            if n.id in env:
                return env[n.id]
            return Opq(n.id)
        if isinstance(n, ast.Attribute):
            d = self.dotted(n)
            if d in self.attrs:
                return self.attrs[d]
            if d is not None and self.names_itself(d.split(".")[0], env):
                return Opq(d)
            return Opq("attr." + n.attr, (self.ev(n.value, env),))
        if isinstance(n, ast.Tuple):
            return tuple(self.ev(e, env) for e in n.elts)
        if isinstance(n, ast.Subscript):
            base, idx = self.ev(n.value, env), self.ev(n.slice, env)
            if base == Opq("sys.version_info") and idx == 0:
                return 3                                     # assumption: Python 3
            return Opq("index", (base, idx))
        if isinstance(n, ast.UnaryOp) and isinstance(n.op, ast.Not):
            return self.neg(self.truth(self.ev(n.operand, env)))
        if isinstance(n, ast.UnaryOp) and isinstance(n.op, ast.USub):
            v = self.ev(n.operand, env)
            return -v
        if isinstance(n, ast.BinOp):
            a, b = self.ev(n.left, env), self.ev(n.right, env)
            if isinstance(n.op, ast.Add):
                return a + b
            if isinstance(n.op, ast.Sub):
                return a - b
            if isinstance(n.op, ast.Mult):
                if isinstance(a, Opq) or isinstance(b, Opq):
                    return Opq("mul", (a, b))
                return a * b
            raise Unsupported("pysym: binary operator %s" % type(n.op).__name__)
        if isinstance(n, ast.BoolOp):
            vals = [self.truth(self.ev(e, env)) for e in n.values]
            return self.conj(vals) if isinstance(n.op, ast.And) else self.disj(vals)
        if isinstance(n, ast.Compare):
            if len(n.ops) != 1:
                raise Unsupported("pysym: chained comparison")
            a, b, op = self.ev(n.left, env), self.ev(n.comparators[0], env), n.ops[0]
            if isinstance(op, (ast.Is, ast.IsNot)):
                if b is None:
                    r = self.is_none(a)
                    return r if isinstance(op, ast.Is) else self.neg(r)
                raise Unsupported("pysym: `is` against non-None")
            if isinstance(a, Opq) or isinstance(b, Opq):
                raise Unsupported("pysym: comparison of opaque values %r %r" % (a, b))
            if isinstance(op, ast.Lt):
                return a < b
            if isinstance(op, ast.LtE):
                return a <= b
            if isinstance(op, ast.Gt):
                return a > b
            if isinstance(op, ast.GtE):
                return a >= b
            if isinstance(op, ast.Eq):
                return a == b
            if isinstance(op, ast.NotEq):
                return a != b
            raise Unsupported("pysym: comparison %s" % type(op).__name__)
        if isinstance(n, ast.Call):
            f = self.dotted(n.func)
            args = [self.ev(a, env) for a in n.args]
            if n.keywords:
                raise Unsupported("pysym: keyword arguments in call to %s" % f)
            if f == "isinstance":
                var = n.args[0].id if isinstance(n.args[0], ast.Name) else None
                if var not in self.kinds:
                    raise Unsupported("pysym: isinstance on %r" % (args[0],))
                return self.isinstance(self.kinds[var], args[1])
            if f == "len" and args == [Opq("self")]:
                return Opq("len(self)")
            if f is None or not self.names_itself(f.split(".")[0], env):
                # method of a computed value (a local variable bound earlier): keep the receiver's value
                if not isinstance(n.func, ast.Attribute):
                    raise Unsupported("pysym: call of a computed function")
                return Opq("call:method." + n.func.attr, [self.ev(n.func.value, env)] + args)
            return Opq("call:" + str(f), args)
        if isinstance(n, ast.ListComp):
            return Opq("listcomp", (ast.dump(n),))
        if isinstance(n, ast.Starred):
            return Opq("star", (self.ev(n.value, env),))
        raise Unsupported("pysym: expression %s" % type(n).__name__)

    def isinstance(self, kind, typ):
        names = set()
        for t in (typ if isinstance(typ, tuple) else (typ,)):
            if isinstance(t, Opq):
                names.add(t.what)
            elif t in (int, str, slice):
                names.add(t.__name__)
            else:
                raise Unsupported("pysym: isinstance type %r" % (t,))
        table = {"int": {"int"}, "slice": {"slice"}, "str": {"str"}, "c_uint32": {"c_uint32", "c_uint"},
                 "other": set(), "Particle": {"Particle"}}
        return bool(table[kind] & names)

    def is_none(self, v):
        if v is None:
            return True
        if isinstance(v, z3.BoolRef) or isinstance(v, z3.ExprRef):
            return False
        if isinstance(v, Opq) and v.what.endswith("?"):       # optional argument: symbolic None-ness
            return z3.Bool(v.what[:-1] + "_is_None")
        return False

    def truth(self, v):
        if isinstance(v, (bool, z3.BoolRef)):
            return v
        if isinstance(v, int):
            return v != 0
        if isinstance(v, z3.ArithRef):
            return v != 0
        raise Unsupported("pysym: truth value of %r" % (v,))

    def neg(self, v):
        return (not v) if isinstance(v, bool) else z3.Not(v)

    def conj(self, vs):
        if any(v is False for v in vs):
            return False
        vs = [v for v in vs if v is not True]
        return True if not vs else (vs[0] if len(vs) == 1 else z3.And(*vs))

    def disj(self, vs):
        if any(v is True for v in vs):
            return True
        vs = [v for v in vs if v is not False]
        return False if not vs else (vs[0] if len(vs) == 1 else z3.Or(*vs))

    # -- statements: returns list of Outcome
    def run(self, stmts, env, pc, effects):
        if not stmts:
            return [Outcome("fall", env, pc, effects)]
        s, rest = stmts[0], stmts[1:]
        if isinstance(s, ast.Expr) and isinstance(s.value, ast.Constant):        # docstring
            return self.run(rest, env, pc, effects)
        if isinstance(s, ast.Pass):
            return self.run(rest, env, pc, effects)
        if isinstance(s, ast.Assign):
            v = self.ev(s.value, env)
            env = dict(env)
            for t in s.targets:
                if isinstance(t, ast.Name):
                    env[t.id] = v
                elif isinstance(t, ast.Tuple) and isinstance(v, tuple) and len(v) == len(t.elts) and all(isinstance(e, ast.Name) for e in t.elts):
                    for e, x in zip(t.elts, v):
                        env[e.id] = x
                elif isinstance(t, ast.Attribute):
                    effects = effects + [("setattr", self.dotted(t), v)]
                else:
                    raise Unsupported("pysym: assignment target")
            return self.run(rest, env, pc, effects)
        if isinstance(s, ast.AugAssign):
            if not isinstance(s.target, ast.Name) or not isinstance(s.op, ast.Add):
                raise Unsupported("pysym: augmented assignment")
            env = dict(env)
            env[s.target.id] = env[s.target.id] + self.ev(s.value, env)
            return self.run(rest, env, pc, effects)
        if isinstance(s, ast.Return):
            return [Outcome("return", self.ev(s.value, env) if s.value is not None else None, pc, effects)]
        if isinstance(s, ast.Raise):
            exc = s.exc.func.id if isinstance(s.exc, ast.Call) else self.dotted(s.exc)
            return [Outcome("raise", exc, pc, effects)]
        if isinstance(s, ast.Expr):
            v = self.ev(s.value, env)
            return self.run(rest, env, pc, effects + [("call", v)])
        if isinstance(s, ast.If):
            c = self.truth(self.ev(s.test, env))
            out = []
            for branch, cond in ((s.body, c), (s.orelse, self.neg(c))):
                if cond is False:
                    continue
                pc2 = pc if cond is True else pc + [cond]
                if cond is not True and not feasible(pc2):
                    continue
                for o in self.run(list(branch), env, pc2, effects):
                    if o.kind == "fall":
                        out += self.run(rest, o.value, o.pc, o.effects)
                    else:
                        out.append(o)
            return out
        raise Unsupported("pysym: statement %s" % type(s).__name__)


def feasible(pc):
    s = z3.Solver()
    s.set("timeout", 2000)
    s.add(*pc)
    return s.check() != z3.unsat


def load(v, relpath):
    repo = v.eng.tus[0].repo
    path = os.path.join(repo, relpath)
    return ast.parse(open(path).read(), path)


def find_method(tree, cls, name, decorated=None):
    for c in ast.walk(tree):
        if isinstance(c, ast.ClassDef) and c.name == cls:
            for f in c.body:
                if isinstance(f, ast.FunctionDef) and f.name == name:
                    decs = [ast.unparse(d) for d in f.decorator_list]
                    if decorated is None or decorated in decs:
                        return f
    raise Unsupported("pysym: %s.%s not found" % (cls, name))


def note_fn(v, relpath, fdef, label):
    v.eng.functions_seen[label] = (relpath, fdef.lineno)


def prove_under(v, name, pc, goal):
    """obligation: pc => goal (on top of the task's assumptions)"""
    v.prove(name, z3.Implies(z3.And(*pc), goal) if pc else goal)


# ------------------------------------------------------------------------------------------------ Particles
PARTICLES = "rebound/particles.py"


@P.task("py.Particles.getitem.int_key", fn="Particles.__getitem__")
def _(v):
    """integer key: normalised like a Python sequence index (key<0 => key+N), AttributeError iff not -N <= key < N,
    otherwise element key' of the N-element view of the particle storage with 0 <= key' < N."""
    tree = load(v, PARTICLES)
    f = find_method(tree, "Particles", "__getitem__")
    note_fn(v, PARTICLES, f, "Particles.__getitem__")
    key, N = v.int("key"), v.int("N")
    v.assume(N >= 0)
    ps = PySym({"self.sim.N": N}, {"key": "int"})
    outs = ps.run(list(f.body), {"key": key, "self": Opq("self")}, [], [])
    v.ground("paths_enumerated", len(outs) >= 2, "expected a raising and a returning path")
    in_range = z3.And(-N <= key, key < N)
    rets = [o for o in outs if o.kind == "return"]
    raises = [o for o in outs if o.kind == "raise"]
    v.ground("no_fall_through", all(o.kind in ("return", "raise") for o in outs))
    v.ground("int_key_never_reaches_hash_lookup", all("reb_simulation_particle_by_hash" not in repr(o.effects) + repr(o.value) for o in outs))
    for i, o in enumerate(raises):
        v.ground("raise%d.is_AttributeError" % i, o.value == "AttributeError", str(o.value))
        prove_under(v, "raise%d.only_when_out_of_range" % i, o.pc, z3.Not(in_range))
    for i, o in enumerate(rets):
        val = o.value
        ok = isinstance(val, Opq) and val.what == "index" and val.args[0] == Opq("self._ps")
        v.ground("return%d.is_element_of_self._ps" % i, ok, repr(val))
        if ok:
            idx = val.args[1]
            prove_under(v, "return%d.only_when_in_range" % i, o.pc, in_range)
            prove_under(v, "return%d.index_normalised" % i, o.pc, idx == z3.If(key < 0, key + N, key))
            prove_under(v, "return%d.index_inside_view" % i, o.pc, z3.And(0 <= idx, idx < N))
    # completeness: the returning paths cover the whole valid range, the raising ones the rest
    v.prove("in_range_returns", z3.Implies(in_range, z3.Or(*[z3.And(*o.pc) if o.pc else z3.BoolVal(True) for o in rets])))
    v.prove("out_of_range_raises", z3.Implies(z3.Not(in_range), z3.Or(*[z3.And(*o.pc) if o.pc else z3.BoolVal(True) for o in raises])))


@P.task("py.Particles.getitem.slice_key", fn="Particles.__getitem__")
def _(v):
    """slice key: delegated element-wise to the integer branch over range(*key.indices(len(self))) (structural check);
    with the documented slice.indices contract every such i has 0 <= i < N, for which the integer branch returns
    element i itself (proved here from the real integer branch)."""
    tree = load(v, PARTICLES)
    f = find_method(tree, "Particles", "__getitem__")
    N = v.int("N")
    v.assume(N >= 0)
    ps = PySym({"self.sim.N": N}, {"key": "slice"})
    outs = ps.run(list(f.body), {"key": Opq("key"), "self": Opq("self")}, [], [])
    v.ground("single_path", len(outs) == 1 and outs[0].kind == "return")
    # the returned expression in the real source
    ret = None
    for s in f.body:
        if isinstance(s, ast.If) and ast.unparse(s.test) == "isinstance(key, slice)":
            ret = s.body[0]
    ok = isinstance(ret, ast.Return) and ast.unparse(ret.value) == "[self[i] for i in range(*key.indices(len(self)))]"
    v.ground("delegates_to_self_getitem_over_slice_indices", ok, ast.unparse(ret) if ret is not None else "no slice branch")
    ln = find_method(tree, "Particles", "__len__")
    note_fn(v, PARTICLES, ln, "Particles.__len__")
    v.ground("len_is_sim_N", len(ln.body) == 1 and ast.unparse(ln.body[0]) == "return self.sim.N", ast.unparse(ln.body[0]))
    # element-wise: i in [0, N) goes through the integer branch unchanged
    i = v.int("i")
    v.assume(0 <= i, i < N)
    psi = PySym({"self.sim.N": N}, {"key": "int"})
    for k, o in enumerate(psi.run(list(f.body), {"key": i, "self": Opq("self")}, list(v.st.pc), [])):
        v.ground("element.path%d_returns" % k, o.kind == "return", "%s %r" % (o.kind, o.value))
        if o.kind == "return":
            prove_under(v, "element.path%d_is_element_i" % k, o.pc, o.value.args[1] == i)


@P.task("py.Particles.view_has_N_elements", fn="Particles._ps")
def _(v):
    """self._ps is the ctypes view (Particle*self.sim.N).from_address(address of r->particles[0]): exactly the abstract
    view particles[0..N) of the C side, so 0 <= index < N never leaves the particle storage (wf: N <= N_allocated)."""
    tree = load(v, PARTICLES)
    f = find_method(tree, "Particles", "_ps", decorated="property")
    note_fn(v, PARTICLES, f, "Particles._ps")
    src = [ast.unparse(s) for s in f.body]
    v.ground("array_type_has_sim_N_elements", "ParticleList = Particle * self.sim.N" in src, "; ".join(src))
    v.ground("view_starts_at_particles_pointer",
             "pl = ParticleList.from_address(addressof(self.sim._particles.contents))" in src, "; ".join(src))
    v.ground("returns_the_view", src[-1] == "return pl", src[-1])
    it = find_method(tree, "Particles", "__iter__")
    note_fn(v, PARTICLES, it, "Particles.__iter__")
    v.ground("iter_walks_the_view_when_nonempty", ast.unparse(it.body[0]).replace("\n", " ").split() ==
             "if self.sim.N > 0: for p in self._ps: yield p".split(), ast.unparse(it.body[0]))


def gen_hash_key(kind):
    @P.task("py.Particles.getitem.%s_key" % kind, fn="Particles.__getitem__")
    def _(v):
        """non-integer key: exactly one call reb_simulation_particle_by_hash(byref(self.sim), h) with h = rebhash(key) for a
        string / key itself for a ctypes hash; NULL result raises ParticleNotFound, otherwise the particle AT the returned
        address is handed out (no copy); any other key type raises AttributeError without calling C."""
        tree = load(v, PARTICLES)
        f = find_method(tree, "Particles", "__getitem__")
        found = z3.Bool("c_returns_non_NULL")

        class PS(PySym):
            def truth(self, val):
                if isinstance(val, Opq) and val.what == "call:clibrebound.reb_simulation_particle_by_hash":
                    return found
                return PySym.truth(self, val)
        ps = PS({}, {"key": kind})
        outs = ps.run(list(f.body), {"key": Opq("key"), "self": Opq("self")}, [], [])
        if kind == "other":
            v.ground("raises_AttributeError", len(outs) == 1 and outs[0].kind == "raise" and outs[0].value == "AttributeError")
            v.ground("no_C_call", "reb_simulation_particle_by_hash(" not in repr(outs[0].effects))
            return
        want = Opq("call:rebhash", (Opq("key"),)) if kind == "str" else Opq("key")
        call = Opq("call:clibrebound.reb_simulation_particle_by_hash", (Opq("call:byref", (Opq("self.sim"),)), want))
        v.ground("two_paths", len(outs) == 2, repr([(o.kind, o.value) for o in outs]))
        for o in outs:
            if o.kind == "raise":
                v.ground("not_found.raises_ParticleNotFound", o.value == "ParticleNotFound", str(o.value))
                prove_under(v, "not_found.only_on_NULL", o.pc, z3.Not(found))
            else:
                prove_under(v, "found.only_on_non_NULL", o.pc, found)
                want_ret = Opq("call:method.from_address", (Opq("Particle"), Opq("call:addressof", (Opq("attr.contents", (call,)),))))
                v.ground("found.particle_at_returned_address", o.value == want_ret, repr(o.value))


for _k in ("str", "c_uint32", "other"):
    gen_hash_key(_k)


# ------------------------------------------------------------------------------------------------ Simulation.remove
SIMULATION = "rebound/simulation.py"


def gen_remove(scenario):
    @P.task("py.Simulation.remove.%s" % scenario, fn="Simulation.remove")
    def _(v):
        """Simulation.remove forwards to the C functions under contract in C14_particles.py: index and keep_sorted are
        passed through unchanged (no Python-side index normalisation: a negative index is an invalid request and is
        rejected by the C range check), hashes are converted (str -> rebhash, int -> c_uint32), and process_messages()
        runs on every path so that the C error becomes a Python exception."""
        tree = load(v, SIMULATION)
        f = find_method(tree, "Simulation", "remove")
        note_fn(v, SIMULATION, f, "Simulation.remove")
        defaults = {a.arg: ast.unparse(d) for a, d in zip(f.args.args[-len(f.args.defaults):], f.args.defaults)}
        v.ground("keep_sorted_defaults_to_True", defaults.get("keep_sorted") == "True", str(defaults))
        kinds = {"hash": {"by_index": "other", "by_str_hash": "str", "by_int_hash": "int", "by_ctypes_hash": "c_uint32"}[scenario]}
        env = {"self": Opq("self"), "keep_sorted": Opq("keep_sorted"),
               "index": Opq("index") if scenario == "by_index" else None,
               "hash": None if scenario == "by_index" else Opq("hash")}
        outs = PySym({}, kinds).run(list(f.body), env, [], [])
        v.ground("single_path", len(outs) == 1 and outs[0].kind == "fall", repr([(o.kind, o.value) for o in outs]))
        calls = [e[1] for e in outs[0].effects if e[0] == "call"]
        byref = Opq("call:byref", (Opq("self"),))
        if scenario == "by_index":
            want = Opq("call:clibrebound.reb_simulation_remove_particle", (byref, Opq("index"), Opq("keep_sorted")))
        else:
            h = {"by_str_hash": Opq("call:rebhash", (Opq("hash"),)), "by_int_hash": Opq("call:c_uint32", (Opq("hash"),)),
                 "by_ctypes_hash": Opq("hash")}[scenario]
            want = Opq("call:clibrebound.reb_simulation_remove_particle_by_hash", (byref, h, Opq("keep_sorted")))
        v.ground("exactly_one_C_call_with_arguments_passed_through", calls[:-1] == [want], repr(calls))
        v.ground("process_messages_last", calls[-1:] == [Opq("call:self.process_messages", ())], repr(calls[-1:]))


for _s in ("by_index", "by_str_hash", "by_int_hash", "by_ctypes_hash"):
    gen_remove(_s)


@P.task("py.Simulation.del_particles", fn="Simulation.particles.deleter")
def _(v):
    tree = load(v, SIMULATION)
    f = find_method(tree, "Simulation", "particles", decorated="particles.deleter")
    note_fn(v, SIMULATION, f, "Simulation.particles (deleter)")
    outs = PySym({}, {}).run(list(f.body), {"self": Opq("self")}, [], [])
    calls = [e[1] for e in outs[0].effects if e[0] == "call"]
    v.ground("calls_remove_all_then_process_messages", len(outs) == 1 and calls == [
        Opq("call:clibrebound.reb_simulation_remove_all_particles", (Opq("call:byref", (Opq("self"),)),)),
        Opq("call:self.process_messages", ())], repr(calls))


P.not_decided.append("Python Particles.__setitem__ / Simulation.add argument dispatch (Particle construction from kwargs, "
                     "Horizons lookups) are outside the pysym fragment; Simulation.add's final call reb_simulation_add(byref(self), "
                     "particle) is covered on the C side only")
P.not_decided.append("reb_hash (tools.c, MurmurHash3) versus rebound/hash.py: Python calls the C function (by inspection); the "
                     "bit-vector identity against the reference algorithm is not attempted in this pack")
