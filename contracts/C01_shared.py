"""C01 (shared lemma): the fourth-/sixth-order EOS schemes (pmlf4, pmlf6, ...) and WHFast's modified-kick kernels reach their
advertised order only if the jerk term they add is the jerk of exactly the force the kick uses: same pair set (active sources,
test-particle handling, gravity_ignore_terms) and the analytic per-pair formula.  The C02 contract of the real
reb_calculate_and_apply_jerk (accumulation rule: per-pair body + iteration space) is re-registered here, so that the C01
check fails when the jerk stops matching the force (the word algebra takes `jerk == [B,[A,B]]` as a letter)."""
from engine.api import Pack, Task
from contracts import C02_gravity as G

P = Pack("C01", G.P.files, "jerk term matches the force (shared with C02)")
PACKS = [P]
P.assumptions += ["shared with C02: " + a for a in G.P.assumptions]
P.trusted += G.P.trusted
for t in G.P.tasks:
    if t.name.startswith("jerk."):
        P.tasks.append(Task(P, "jerk_matches_force." + t.name, t.fn, t.func, files=G.P.files, timeout=t.timeout, order=t.order, z3_ms=t.z3_ms, polyid_s=t.polyid_s))


# the advertised order of a scheme also has to hold with safe_mode = 0 (steps left unsynchronised): the unsafe word of every SABA
# corrector variant must be the safe word with the merged stages carrying the doubled weights (C09 word equivalence), otherwise
# the eps^2 dt^2 term the corrector removes comes back
from contracts import C09_sync_more as SM
for t in SM.P.tasks:
    if t.name.startswith("sabac."):
        P.tasks.append(Task(P, "unsynchronised_word_has_the_same_order." + t.name, t.fn, t.func, files=t.files or SM.P.files, timeout=t.timeout))
