"""C11 (Pal coordinates): reb_particle_from_pal / reb_tools_particle_to_pal (src/tools.c), Pal (2009).

Modular: reb_tools_solve_kepler_pal is an iterative solver (Newton with a tolerance, or reb_M_to_E); it is used
through its contract "returns (p, q) solving Pal's generalised Kepler equations
    p = k sin(lambda+p) - h cos(lambda+p),   q = k cos(lambda+p) + h sin(lambda+p)"
(exactness of the solver's result is NOT proved: it converges to a tolerance; listed in not_decided).
R-mode; the angle lambda+p enters through its (sin, cos) pair.
"""
import z3
from fractions import Fraction
from engine.api import Pack
from engine.csym import as_real
from engine.mem import Ptr
from contracts.C11_orbits import (R, TINY, PZ, cut, only, generalize, focus, small_hyps, axioms_of, _cross, _dot,
                                  _find_apps, _uf_atoms)

P = Pack("C11", ["src/tools.c", "src/particle.c"], "Pal coordinates")
PACKS = [P]
P.assume("Pal coordinates: reb_tools_solve_kepler_pal is replaced by its contract (p, q solve Pal's Kepler equations "
         "exactly); preconditions of reb_particle_from_pal: a > 0, h^2+k^2 < 1, ix^2+iy^2 < 4 (the Python and C front ends "
         "reject ix^2+iy^2 > 4), G >= 0, m >= 0, primary.m > 0")
P.not_decided.append("reb_tools_solve_kepler_pal: convergence / exactness of the returned (p,q) is not decided (Newton iteration "
                     "with tolerance 1e-15, at most 50 steps; the division 1/(qn-1) inside the iteration is not proved defined "
                     "for an arbitrary iterate); the Pal tasks assume an exact solution through the contract")


def _pal_inputs(v):
    G = v.real("G")
    prim = v.struct("struct reb_particle", "primary")
    for c in ("x", "y", "z", "vx", "vy", "vz"):
        setattr(prim, c, R(0))
    m, a, lam, k, h, ix, iy = (v.real(n) for n in ("m", "a", "lambda", "k", "h", "ix", "iy"))
    v.assume(G >= 0, m >= 0, prim.m > 0, a > 0, h * h + k * k < 1, ix * ix + iy * iy < 4)
    return G, prim, m, a, lam, k, h, ix, iy


def _kepler_pal_contract(v, lam, k, h):
    """(p, q): fresh reals with Pal's equations; also q^2 + p^2 = h^2 + k^2 follows (proved as clause)."""
    box = {}

    def apply(eng, st, args, n):
        p_, q_ = eng.fresh("pal_p", z3.RealSort()), eng.fresh("pal_q", z3.RealSort())
        s, c = eng.trig_pair(lam + p_)
        st.assume(s * s + c * c == 1)
        st.assume(p_ == k * s - h * c)
        st.assume(q_ == k * c + h * s)
        box.update(p=p_, q=q_, s=s, c=c)
        eng.write(st, args[3], p_)
        eng.write(st, args[4], q_)
        return None
    v.contract("reb_tools_solve_kepler_pal", apply)
    return box


@P.task("from_pal.relations", fn="reb_particle_from_pal", polyid_s=30)
def _(v):
    G, prim, m, a, lam, k, h, ix, iy = _pal_inputs(v)
    box = _kepler_pal_contract(v, lam, k, h)
    np_ = v.call("reb_particle_from_pal", G, prim, m, a, lam, k, h, ix, iy)
    p_, q_, s, c = box["p"], box["q"], box["s"], box["c"]
    mu = G * (m + prim.m)
    d = (np_.x, np_.y, np_.z)
    w = (np_.vx, np_.vy, np_.vz)
    e2 = h * h + k * k
    v.prove("frame.m", np_.m == m)
    # |q| <= e < 1: the radius a(1-q) is positive
    cut(v, "pq_norm", p_ * p_ + q_ * q_ == e2, order=PZ)
    cut(v, "q_lt_1", q_ < 1, order=("z3",))
    r = a * (1 - q_)
    # iz: the code takes sqrt(fabs(4-ix^2-iy^2)); under the precondition this is sqrt(4-ix^2-iy^2)
    iz = v.eng.math1(v.st, "sqrt", 4 - ix * ix - iy * iy)
    izc = [t for t in _find_apps(np_.z, "m_sqrt") if _find_apps(t, "if") or "If" in str(t.arg(0))[:400]]
    v.ground("one_iz", len(izc) == 1, "sqrt(fabs(..)) applications found in np.z: %d" % len(izc))
    if len(izc) != 1:
        return
    izc = izc[0]
    only(v, v.prove("iz_code", izc == iz, order=("z3",)),
         axioms_of(v, izc) + axioms_of(v, iz) + [h_ for h_ in v.st.pc if h_.eq(ix * ix + iy * iy < 4)])
    v.assume(izc == iz)
    v.prove("distance", _dot(d, d) == r * r, order=PZ)
    v.prove("vis_viva", _dot(w, w) * r * a == mu * (2 * a - r), order=PZ)
    # angular momentum: sqrt(mu a (1-e^2)) * unit normal (iy iz/2, -ix iz/2, 1-(ix^2+iy^2)/2),  iz = sqrt(4-ix^2-iy^2)
    hv = _cross(d, w)
    nhat = (iy * iz / 2, -ix * iz / 2, 1 - (ix * ix + iy * iy) / 2)
    v.prove("normal_is_unit", _dot(nhat, nhat) == 1, order=PZ)
    for i_, cc in enumerate("xyz"):
        v.prove("h_parallel_to_normal." + cc, _cross(hv, nhat)[i_] == 0, order=PZ)
    # magnitude and sense: h . nhat = a * sqrt(mu/a) * sqrt(1-e^2) >= 0, whose square is mu a (1-e^2)
    sq = {t.get_id(): t for t in _find_apps(np_.vx, "m_sqrt") + _find_apps(np_.x, "m_sqrt")}.values()
    an = [t for t in sq if "primary.m" in str(t.arg(0))]
    Ls = [t for t in sq if "primary.m" not in str(t.arg(0)) and "If" not in str(t.arg(0))]
    v.ground("sqrt_terms", len(an) == 1 and len(Ls) == 1, "sqrt(mu/a): %d, sqrt(1-h^2-k^2): %d" % (len(an), len(Ls)))
    an, Ls = an[0], Ls[0]
    cut(v, "h_dot_normal", _dot(hv, nhat) == a * an * Ls, order=PZ)
    only(v, v.prove("h_dot_normal_sq", (a * an * Ls) * (a * an * Ls) == mu * a * (1 - e2), order=PZ), axioms_of(v, an) + axioms_of(v, Ls))
    only(v, v.prove("h_sense", a * an * Ls >= 0, order=("z3",)),
         [h_ for h_ in axioms_of(v, an) + axioms_of(v, Ls) if not z3.is_eq(h_)] + [h_ for h_ in v.st.pc if h_.eq(a > 0)])


P.not_decided.append("Pal round trip reb_tools_particle_to_pal(reb_particle_from_pal(a,lambda,k,h,ix,iy)) = (a,lambda,k,h,ix,iy): "
                     "attempted by direct composition with cuts (r = a(1-q), h = a sqrt(mu/a) sqrt(1-e^2) nhat); polyid/sympy "
                     "does not finish within the budget (nested square roots sqrt(2/(1+cz/c)), sqrt(1-e2), atan2) -- not "
                     "discharged, not claimed; only the forward relations of reb_particle_from_pal are proved")


@P.task("solve_kepler_pal.high_e", fn="reb_tools_solve_kepler_pal")
def _(v):
    """0.09 <= h^2+k^2 < 1 (branch through reb_M_to_E): definedness, and p^2+q^2 = h^2+k^2 (p = e sin E, q = e cos E)."""
    from contracts.C11_orbits import _true_inv
    h, k, lam = v.real("h"), v.real("k"), v.real("lambda")
    v.assume(h * h + k * k >= R(Fraction(0.3) * Fraction(0.3)), h * h + k * k < 1)
    v.loop("reb_M_to_E", 0, invariant=_true_inv)
    v.loop("reb_tools_solve_kepler_pal", 0, invariant=_true_inv)
    pc, pp = v.cell("double", "p_out")
    qc, qp = v.cell("double", "q_out")
    v.call("reb_tools_solve_kepler_pal", h, k, lam, pp, qp)
    p_, q_ = v.read(pp), v.read(qp)
    v.prove("pq_norm", p_ * p_ + q_ * q_ == h * h + k * k, order=PZ)
