"""C16 (bookkeeping): reb_simulation_add_variation_1st_order / _2nd_order, reb_simulation_rescale_var,
reb_tools_megno_deltad_delta, reb_tools_megno_update of src/tools.c.

Specification (from the property statement and the doc comments of rebound.h):
  add_variation_*  : returns index = N before the call; appends N_real = N - N_var zero particles (a test-particle set: one),
                     N_var grows by the same count (so N - N_var, the number of real particles, is unchanged and
                     index + N_real <= N holds afterwards: the invariant the force routine relies on); appends one
                     var_config entry {sim = r, order, index, testparticle, lrescale = 0 [, index_1st_order_a/b]}; older entries kept.
  rescale_var      : "automatic rescaling changes only the recorded magnitude": per coordinate of the set
                     c' * exp(lrescale') == c * exp(lrescale), nothing else of the particles changes; no change at all for
                     lrescale < 0, for second-order sets, for an unsynchronised WHFast/EOS, or while no coordinate exceeds 1e100.
  megno_deltad_delta : sum_i (dx_i.dv_i + dv_i.da_i) / sum_i (|dx_i|^2 + |dv_i|^2) over the MEGNO set.
  megno_update     : Ys += dY; Yss += (Ys/t) dt; with the sample (t, <Y> = Yss/t): n += 1 and the running mean / co-moment
                     updates of Welford's algorithm, i.e. with power sums St, SY, Stt, StY of the samples seen so far
                     mean_t = St/n, mean_Y = SY/n, var_t = Stt - St^2/n, cov_Yt = StY - St SY/n   (the definitions behind
                     LCN = cov_Yt/var_t = least-squares slope of <Y>(t), see the code's own comment).
"""
import z3
from engine.api import Pack
from engine.csym import as_real, as_int
from engine.mem import Ptr, StructObj

P = Pack("C16", ["src/tools.c"], "variational equations: bookkeeping, rescaling, MEGNO accumulators")
PACKS = [P]
P.assume("machine arithmetic treated as mathematical (doubles as reals)")
P.assume("bookkeeping: reb_simulation_add used through its contract (proved in C14 add.*.append for no tree / no boundary): "
         "particles[N] := pt, N := N + 1, older particles and every other counter unchanged; realloc succeeds and keeps the prefix")
P.assume("bookkeeping: reb_simulation_warning only records a message (contract: no effect on the modelled state)")
P.assume("rescale: exp/log: exp(log(s)) = s for s > 0 (engine axiom of log) and the functional equation "
         "exp(a + log s) = exp(a) * s, supplied as a hypothesis at the one instance used")

P.assume("megno.deltad_delta: prefix sums S_deltad(i) = sum_{cm <= k < i} (dv_k.dx_k + da_k.dv_k), S_delta2(i) = sum (|dx_k|^2 + "
         "|dv_k|^2) are uninterpreted functions defined by S(cm) = 0 and the step equation instantiated at the loop index; the "
         "sum of squares of the MEGNO set is non-zero (otherwise the routine divides by zero)")
P.assume("FINDING megno.update.comoments.step (kept, fails on the unchanged tree, natively reproduced by "
         "tools/repro/C16_megno_update_comoments_not_welford.py): reb_tools_megno_update adds (n-1)/n (t - mean_t')(Y - mean_Y') with the ALREADY "
         "UPDATED means; Welford's update uses the deviations from the OLD means (or old*new); the code's increments are too "
         "small by the factor ((n-1)/n)^2, so megno_var_t / megno_cov_Yt are not the sums of squared deviations / deviation "
         "products and reb_simulation_lyapunov is not the least-squares slope it is documented to be (samples t=1,2,3: var_t "
         "0.7917 instead of 2; lyapunov() 0.0940 vs slope 0.1056); both converge to the same limit for long runs")

I, R = z3.IntSort(), z3.RealSort()
VC = "struct reb_variational_configuration"
T = "struct reb_particle"
PV = ("x", "y", "z", "vx", "vy", "vz")
PFIELDS = PV + ("ax", "ay", "az", "m", "r", "last_collision")


# ------------------------------------------------------------------------------------------------ add_variation
def add_contract(v, box):
    """reb_simulation_add by contract"""
    def apply(eng, st, args, n):
        rp, pt = args[0], args[1]
        N = as_int(eng.read(st, Ptr(rp.obj, rp.path + ("N",))))
        parts = eng.read(st, Ptr(rp.obj, rp.path + ("particles",)))
        for f in PFIELDS:
            val = eng._lazy_field(pt, f, st)
            eng.write(st, Ptr(parts.obj, (N, f)), val)
        eng.write(st, Ptr(rp.obj, rp.path + ("N",)), N + 1)
        box["adds"] = box.get("adds", 0) + 1
        return None
    v.contract("reb_simulation_add", apply)


def add_variation_task(order, testparticle):
    fn = "reb_simulation_add_variation_%s_order" % ("1st" if order == 1 else "2nd")

    @P.task("add_variation.%s.%s" % ("first" if order == 1 else "second", "testparticle" if testparticle else "full"), fn=fn)
    def _(v):
        r, rp = v.struct_obj("struct reb_simulation", "r")
        N, Nv, Nc = v.int("N"), v.int("N_var"), v.int("N_var_config")
        parts = v.array(T, None, "P")
        vc = v.array(VC, Nc, "VCFG")
        r.N, r.N_var, r.N_var_config = N, Nv, Nc
        r.particles = parts.ptr
        r.var_config = vc.ptr
        Nr = N - Nv
        tp = v.int("testparticle")
        v.assume(N >= 0, Nv >= 0, Nv <= N, Nc >= 0)
        v.assume(tp >= 0 if testparticle else tp < 0)
        old = {f: parts.array(f) for f in PFIELDS}
        oldvc = {f: vc.array(f) for f in ("order", "index", "testparticle", "index_1st_order_a", "index_1st_order_b", "lrescale")}
        box = {}
        add_contract(v, box)
        k = z3.Int("k")

        def inv(L):
            i = L.i
            cur = {f: v.eng._leaf_array(L.st.mem.objs[parts._a.id], (f,)) for f in PFIELDS}
            rN = L.eng._lazy_field(L.st.mem.objs[r._s.id], "N", L.st)
            return [("range", z3.And(0 <= i, i <= Nr)), ("N_counts", rN == N + i), ("N_real_local", L.N_real == Nr),
                    ("appended_zero", z3.ForAll([k], z3.Implies(z3.And(N <= k, k < N + i), z3.And(*[z3.Select(cur[f], k) == 0 for f in PFIELDS])))),
                    ("older_kept", z3.ForAll([k], z3.Implies(k < N, z3.And(*[z3.Select(cur[f], k) == z3.Select(old[f], k) for f in PFIELDS]))))]
        v.loop(fn, 0, invariant=inv, variant=lambda L: Nr - L.i)
        ia, ib = v.int("index_1st_order_a"), v.int("index_1st_order_b")
        ret = v.call(fn, rp, tp) if order == 1 else v.call(fn, rp, tp, ia, ib)
        count = z3.IntVal(1) if testparticle else Nr
        v.prove("returns_index_N_before", ret == N)
        v.prove("N_grows_by_count", r.N == N + count)
        v.prove("N_var_grows_by_count", r.N_var == Nv + count)
        v.prove("N_real_unchanged", r.N - r.N_var == Nr)
        v.prove("block_inside_array", z3.And(Nr <= ret, ret + count <= r.N))
        v.prove("one_config_appended", r.N_var_config == Nc + 1)
        p = r.var_config

        def fld(i, f):
            return v.read(Ptr(p.obj, (as_int(i), f)))
        v.prove("config.order", fld(Nc, "order") == order)
        v.prove("config.index", fld(Nc, "index") == N)
        v.prove("config.testparticle", fld(Nc, "testparticle") == tp)
        v.prove("config.lrescale", fld(Nc, "lrescale") == 0)
        simv = fld(Nc, "sim")
        v.ground("config.sim_points_to_r", isinstance(simv, Ptr) and simv.obj == rp.obj and tuple(simv.path) == (),
                 "var_config[last].sim = %r" % (simv,))
        if order == 2:
            v.prove("config.index_1st_order_a", fld(Nc, "index_1st_order_a") == ia)
            v.prove("config.index_1st_order_b", fld(Nc, "index_1st_order_b") == ib)
        else:
            # unused by a first-order set, but saved and compared member-wise (C17): must not be left as the realloc'ed
            # memory happens to be (two identically built simulations compared unequal)
            v.prove("config.unused_members_are_determined", z3.And(fld(Nc, "index_1st_order_a") == 0, fld(Nc, "index_1st_order_b") == 0))
        j = v.int("j")
        v.assume(0 <= j, j < Nc)
        for f in oldvc:
            v.prove("older_configs_kept." + f, fld(j, f) == z3.Select(oldvc[f], j))
        q = v.int("q")
        v.assume(N <= q, q < N + count)
        for f in PFIELDS:
            v.prove("new_particles_zero." + f, parts.leaf(q, f) == 0)
        o = v.int("o")
        v.assume(0 <= o, o < N)
        for f in PFIELDS:
            v.prove("older_particles_kept." + f, parts.leaf(o, f) == z3.Select(old[f], o))
    return _


for _o in (1, 2):
    for _t in (False, True):
        add_variation_task(_o, _t)


# ------------------------------------------------------------------------------------------------ rescale_var
RS = "reb_simulation_rescale_var"
IAS_DP7 = ("b", "e", "br", "er", "csb")


def rescale_setup(v, order, testparticle, integrator=None):
    r, rp = v.struct_obj("struct reb_simulation", "r")
    N, Nv = v.int("N"), v.int("N_var")
    parts = v.array(T, N, "P")
    vc = v.array(VC, 1, "VCFG", sym=False)
    r.N, r.N_var, r.N_var_config = N, Nv, 1
    r.particles = parts.ptr
    r.var_config = vc.ptr
    it = vc.obj.items[0].fields
    idx, tp, lr = v.int("index"), v.int("testparticle"), v.real("lrescale")
    it["order"], it["index"], it["testparticle"], it["lrescale"] = z3.IntVal(order), idx, tp, lr
    it["index_1st_order_a"], it["index_1st_order_b"] = v.int("index_1st_order_a"), v.int("index_1st_order_b")
    Nr = N - Nv
    v.assume(N >= 0, Nv >= 0, Nv <= N)
    if testparticle:
        v.assume(tp >= 0, Nr <= idx, idx < N)
        cnt = z3.IntVal(1)
    else:
        v.assume(tp < 0, Nr <= idx, idx + Nr <= N)
        cnt = Nr
    if integrator is not None:
        r.integrator = v.enumc(integrator)
    v.contract("reb_simulation_warning", lambda eng, st, args, n: None)
    # IAS15 keeps predictor coefficients (b, e, br, er), compensated-summation terms of b (csb) and of the coordinates
    # (csx, csv) per coordinate: 3*N_allocated/3 doubles each, index 3*particle + component
    Na = v.int("ias15_N_allocated")
    v.assume(Na >= 0)
    r.ri_ias15.N_allocated = Na
    ias = {}
    for nm in IAS_DP7:
        for c in range(7):
            a = v.array("double", Na, "ias15_%s_p%d" % (nm, c))
            ias[(nm, c)] = a
            setattr(getattr(r.ri_ias15, nm), "p%d" % c, a.ptr)
    for nm in ("csx", "csv"):
        a = v.array("double", Na, "ias15_" + nm)
        ias[(nm, None)] = a
        setattr(r.ri_ias15, nm, a.ptr)
    v.task_ias = (Na, ias, {k: a.array() for k, a in ias.items()})
    return r, rp, parts, vc, idx, lr, cnt


def rescale_loops(v, parts, idx, cnt, old, skolems=()):
    """invariants of the max-loop and of the dividing loop, found by structure (depth 1; the max-loop calls fabs; the other
    depth-1 loop that calls reb_simulation_warning is the search for dependent second-order sets, unrolled).
    skolems: [(name, index term)] indices chosen before the call for which the dividing loop's effect is tracked
    (no nonlinear arithmetic under a quantifier).  Returns a dict that receives the value of `scale` at the entry of the
    dividing loop (key "scale") when a path reaches it."""
    k = z3.Int("k")
    loops = v.loops_of(RS)
    maxloop = [o for (o, info) in loops if info["depth"] == 1 and "fabs" in info["calls"]]
    plain = [(o, info) for (o, info) in loops if info["depth"] == 1 and "fabs" not in info["calls"] and "reb_simulation_warning" not in info["calls"]]
    divloop = [o for (o, info) in plain if "particles" in info["names"]]
    iasloop = [o for (o, info) in plain if "ri_ias15" in info["names"]]
    shape_ok = len(maxloop) == 1 and len(divloop) == 1 and len(iasloop) == 1 and len(plain) == 2
    v.ground("rescale.every_state_linear_in_the_coordinates_has_its_rescaling_loop", shape_ok,
             "expected one max loop, one loop dividing the particle coordinates and one loop dividing the IAS15 predictor / "
             "compensation terms; found max loop %s, dividing loop %s, IAS15 state loop %s" % (maxloop, divloop, iasloop))
    if not shape_ok:
        from engine.cexec import PathEnd
        raise PathEnd("rescale_var: loop structure does not match the contract (reported by the ground obligation)")
    ent = {}
    Na, ias, ias0 = v.task_ias

    def cur(L, f):
        return L.eng._leaf_array(L.st.mem.objs[parts._a.id], (f,))

    def inv_max(L):
        i = L.i
        sc = as_real(L.scale)
        bound = z3.ForAll([k], z3.Implies(z3.And(0 <= k, k < i), z3.And(*[z3.And(z3.Select(old[f], idx + k) <= sc, -z3.Select(old[f], idx + k) <= sc) for f in PV])))
        return [("range", z3.And(0 <= i, i <= cnt)), ("scale_nonneg", sc >= 0), ("scale_bounds_seen", bound),
                ("frame", z3.And(*[cur(L, f) == old[f] for f in PFIELDS]))]
    v.loop(RS, maxloop[0], invariant=inv_max, variant=lambda L: cnt - L.i)

    def inv_div(L):
        i = L.i
        sc = as_real(L.scale)
        if "scale" not in ent:
            ent["scale"] = sc                       # first evaluation = loop entry
        out = [("range", z3.And(0 <= i, i <= cnt)), ("scale_large", sc > z3.RealVal("1e100")), ("scale_fixed", sc == ent["scale"])]
        for nm, q in skolems:
            for f in PV:
                c = z3.Select(cur(L, f), q)
                out.append(("%s.%s" % (nm, f), z3.If(z3.And(idx <= q, q < idx + i), c * sc == z3.Select(old[f], q), c == z3.Select(old[f], q))))
        out.append(("frame", z3.And(*[cur(L, f) == old[f] for f in PFIELDS if f not in PV])))
        return out
    v.loop(RS, divloop[0], invariant=inv_div, variant=lambda L: cnt - L.i)

    def inv_ias(L):
        """IAS15 state loop: entries 3*index <= q < k of every predictor / compensation array are divided by the same scale,
        all other entries and the particles are as at loop entry"""
        kk = L.k
        sc = as_real(L.scale)
        if "ias_parts" not in ent:
            ent["ias_parts"] = {f: cur(L, f) for f in PFIELDS}
        out = [("range", z3.And(3 * idx <= kk, kk <= z3.If(3 * (idx + cnt) <= 3 * idx, 3 * idx, 3 * (idx + cnt)), z3.Or(kk == 3 * idx, kk <= Na))),
               ("scale_fixed", sc == ent.get("scale", sc)), ("scale_large", sc > z3.RealVal("1e100")),
               ("particles_untouched", z3.And(*[cur(L, f) == ent["ias_parts"][f] for f in PFIELDS]))]
        for nm, q in skolems:
            for key, a in ias.items():
                now = z3.Select(L.eng._leaf_array(L.st.mem.objs[a._a.id], ()), 3 * q + ent["comp"])
                was = z3.Select(ias0[key], 3 * q + ent["comp"])
                inside = z3.And(3 * idx <= 3 * q + ent["comp"], 3 * q + ent["comp"] < kk)
                out.append(("%s.ias15.%s%s" % (nm, key[0], "" if key[1] is None else ".p%d" % key[1]), z3.If(inside, now == was / sc, now == was)))
        return out
    ent["comp"] = v.int("component")
    v.assume(0 <= ent["comp"], ent["comp"] < 3)
    v.loop(RS, iasloop[0], invariant=inv_ias, variant=lambda L: 3 * (idx + cnt) - L.k)
    return ent


def rescale_task(testparticle):
    @P.task("rescale_var.first_order.%s" % ("testparticle" if testparticle else "full"), fn=RS, timeout=300)
    def _(v):
        """order 1, lrescale >= 0, synchronised integrator: either nothing changes (no coordinate above 1e100) or every
        coordinate of the set is divided by s = max |coordinate| > 1e100 and lrescale grows by log s, so that
        c' * exp(lrescale') == c * exp(lrescale); nothing else of the particles changes."""
        r, rp, parts, vc, idx, lr, cnt = rescale_setup(v, 1, testparticle)
        v.assume(lr >= 0)
        # synchronised: not (WHFAST and unsynchronised), not (EOS and unsynchronised)
        v.assume(z3.Not(z3.And(r.integrator == v.enumc("REB_INTEGRATOR_WHFAST"), r.ri_whfast.is_synchronized == 0)),
                 z3.Not(z3.And(r.integrator == v.enumc("REB_INTEGRATOR_EOS"), r.ri_eos.is_synchronized == 0)))
        old = {f: parts.array(f) for f in PFIELDS}
        j = v.int("j")
        v.assume(idx <= j, j < idx + cnt)
        o = v.int("o")
        v.assume(z3.Or(o < idx, o >= idx + cnt))
        ent = rescale_loops(v, parts, idx, cnt, old, [("j", j), ("o", o)])
        flag0 = r.ri_whfast.recalculate_coordinates_this_timestep
        N0, Nv0 = r.N, r.N_var
        v.call(RS, rp)
        lr2 = as_real(v.read(Ptr(vc._a.id, (z3.IntVal(0), "lrescale"))))
        v.prove("counters_unchanged", z3.And(r.N == N0, r.N_var == Nv0, r.N_var_config == 1))
        for f in PFIELDS:
            if f not in PV:
                v.prove("frame." + f, parts.array(f) == old[f])
        if lr2.eq(lr):
            # a path on which lrescale is not written: nothing may change
            for f in PV:
                v.prove("not_rescaled.particles_unchanged." + f, parts.array(f) == old[f])
            v.prove("not_rescaled.whfast_flag_unchanged", r.ri_whfast.recalculate_coordinates_this_timestep == flag0)
            for key, a in v.task_ias[1].items():
                v.prove("not_rescaled.ias15_state_unchanged.%s%s" % (key[0], "" if key[1] is None else ".p%d" % key[1]), a.array() == v.task_ias[2][key])
            return
        v.ground("rescaled.path_went_through_the_dividing_loop", "scale" in ent, "lrescale written but the dividing loop not reached")
        s_ = ent["scale"]
        EXP = v.eng.uf("exp", R, R)
        LOG = v.eng.uf("log", R, R)
        v.prove("rescaled.lrescale_grows_by_log_of_scale", lr2 == lr + LOG(s_))
        v.prove("rescaled.scale_above_threshold", s_ > z3.RealVal("1e100"))
        for f in PV:
            v.prove("rescaled.coordinate_divided_by_scale." + f, parts.leaf(j, f) * s_ == z3.Select(old[f], j))
            v.prove("rescaled.outside_set_untouched." + f, parts.leaf(o, f) == z3.Select(old[f], o))
        # magnitude: with exp(a + log s) = exp(a) s  (hypothesis, see P.assume)
        for f in PV:
            v.lemma("rescaled.magnitude_preserved." + f,
                    [EXP(lr + LOG(s_)) == EXP(lr) * s_, lr2 == lr + LOG(s_), parts.leaf(j, f) * s_ == z3.Select(old[f], j)],
                    parts.leaf(j, f) * EXP(lr2) == z3.Select(old[f], j) * EXP(lr), order=("polyid", "z3"))
        # IAS15 state of the set is rescaled with it (and only for IAS15, only the set's entries that exist)
        Na, ias, ias0 = v.task_ias
        isias = r.integrator == v.enumc("REB_INTEGRATOR_IAS15")
        for nm, q in (("j", j), ("o", o)):
            e_ = 3 * q + ent["comp"]
            for key, a in ias.items():
                now, was = z3.Select(a.array(), e_), z3.Select(ias0[key], e_)
                inset = z3.And(idx <= q, q < idx + cnt, e_ < Na)
                v.prove("rescaled.ias15_state.%s.%s%s" % (nm, key[0], "" if key[1] is None else ".p%d" % key[1]),
                        z3.If(z3.And(isias, inset), now == was / s_, now == was))
        v.prove("rescaled.whfast_flag", z3.If(z3.And(r.integrator == v.enumc("REB_INTEGRATOR_WHFAST"), r.ri_whfast.safe_mode == 0),
                                              r.ri_whfast.recalculate_coordinates_this_timestep == 1,
                                              r.ri_whfast.recalculate_coordinates_this_timestep == flag0))
    return _


rescale_task(False)
rescale_task(True)


def rescale_skip_task(name, order, lr_negative=False, unsync=None):
    @P.task("rescale_var.skipped." + name, fn=RS, timeout=300)
    def _(v):
        """no particle and no lrescale changes"""
        r, rp, parts, vc, idx, lr, cnt = rescale_setup(v, order, False, integrator=unsync)
        if lr_negative:
            v.assume(lr < 0)
        else:
            v.assume(lr >= 0)
        if unsync == "REB_INTEGRATOR_WHFAST":
            r.ri_whfast.is_synchronized = 0
        if unsync == "REB_INTEGRATOR_EOS":
            r.ri_eos.is_synchronized = 0
        old = {f: parts.array(f) for f in PFIELDS}
        rescale_loops(v, parts, idx, cnt, old)
        v.call(RS, rp)
        lr2 = as_real(v.read(Ptr(vc._a.id, (z3.IntVal(0), "lrescale"))))
        v.prove("lrescale_unchanged", lr2 == lr)
        for f in PFIELDS:
            v.prove("particles_unchanged." + f, parts.array(f) == old[f])
        for key, a in v.task_ias[1].items():
            v.prove("ias15_state_unchanged.%s%s" % (key[0], "" if key[1] is None else ".p%d" % key[1]), a.array() == v.task_ias[2][key])
    return _


rescale_skip_task("lrescale_negative", 1, lr_negative=True)
rescale_skip_task("second_order", 2)
rescale_skip_task("whfast_unsynchronised", 1, unsync="REB_INTEGRATOR_WHFAST")
rescale_skip_task("eos_unsynchronised", 1, unsync="REB_INTEGRATOR_EOS")


# ------------------------------------------------------------------------------------------------ MEGNO
@P.task("megno.deltad_delta", fn="reb_tools_megno_deltad_delta", timeout=300)
def _(v):
    r, rp = v.struct_obj("struct reb_simulation", "r")
    N, Nv, cm = v.int("N"), v.int("N_var"), v.int("calculate_megno")
    parts = v.array(T, N, "P")
    r.N, r.N_var, r.calculate_megno = N, Nv, cm
    r.particles = parts.ptr
    Nr = N - Nv
    v.assume(N >= 0, Nv >= 0, Nv <= N, Nr <= cm, cm + Nr <= N)
    A = {f: parts.array(f) for f in PFIELDS}
    SD, S2 = z3.Function("S_deltad", I, R), z3.Function("S_delta2", I, R)

    def term_d(i):
        g = lambda f: z3.Select(A[f], i)
        return g("vx") * g("x") + g("vy") * g("y") + g("vz") * g("z") + g("ax") * g("vx") + g("ay") * g("vy") + g("az") * g("vz")

    def term_2(i):
        g = lambda f: z3.Select(A[f], i)
        return sum((g(f) * g(f) for f in PV[1:]), g("x") * g("x"))
    v.assume(SD(cm) == 0, S2(cm) == 0)

    def inv(L):
        i = L.i
        L.st.assume(z3.And(SD(i + 1) == SD(i) + term_d(i), S2(i + 1) == S2(i) + term_2(i)))
        return [("range", z3.And(cm <= i, i <= cm + Nr)), ("deltad", as_real(L.deltad) == SD(i)), ("delta2", as_real(L.delta2) == S2(i)),
                ("imax", L.imax == cm + Nr)]
    v.loop("reb_tools_megno_deltad_delta", 0, invariant=inv, variant=lambda L: cm + Nr - L.i)
    v.assume(S2(cm + Nr) != 0)
    ret = v.call("reb_tools_megno_deltad_delta", rp)
    v.prove("ratio_of_sums", ret * S2(cm + Nr) == SD(cm + Nr))
    for f in PFIELDS:
        v.prove("no_write." + f, parts.array(f) == A[f])


MU = "reb_tools_megno_update"


def megno_setup(v):
    r, rp = v.struct_obj("struct reb_simulation", "r")
    t, dY, dt = v.real("t"), v.real("dY"), v.real("dt_done")
    Ys, Yss = v.real("megno_Ys"), v.real("megno_Yss")
    r.t, r.megno_Ys, r.megno_Yss = t, Ys, Yss
    v.assume(t != 0)
    return r, rp, t, dY, dt, Ys, Yss


@P.task("megno.update.running_sums", fn=MU)
def _(v):
    """Ys' = Ys + dY;  Yss' = Yss + (Ys'/t) dt;  the sample fed to the moments is (t, <Y>' = Yss'/t); n' = n + 1"""
    r, rp, t, dY, dt, Ys, Yss = megno_setup(v)
    n = v.int("megno_n")
    r.megno_n = n
    v.assume(n >= 0)
    v.call(MU, rp, dY, dt)
    v.prove("Ys", r.megno_Ys == Ys + dY)
    v.prove("Yss", r.megno_Yss * t == Yss * t + (Ys + dY) * dt)
    v.prove("n", r.megno_n == n + 1)
    v.prove("t_untouched", r.t == t)


def megno_moments(v, first):
    r, rp, t, dY, dt, Ys, Yss = megno_setup(v)
    n = v.int("megno_n")
    r.megno_n = n
    St, SY, Stt, StY = v.real("St"), v.real("SY"), v.real("Stt"), v.real("StY")
    if first:
        v.assume(n == 0)
        r.megno_mean_t, r.megno_mean_Y, r.megno_var_t, r.megno_cov_Yt = 0, 0, 0, 0
        v.assume(St == 0, SY == 0, Stt == 0, StY == 0)
    else:
        v.assume(n >= 1)
        nr = z3.ToReal(n)
        mt, mY, var, cov = v.real("megno_mean_t"), v.real("megno_mean_Y"), v.real("megno_var_t"), v.real("megno_cov_Yt")
        r.megno_mean_t, r.megno_mean_Y, r.megno_var_t, r.megno_cov_Yt = mt, mY, var, cov
        # the state is the one the definitions give for the samples seen so far
        v.assume(mt * nr == St, mY * nr == SY, var * nr == Stt * nr - St * St, cov * nr == StY * nr - St * SY)
    v.call(MU, rp, dY, dt)
    Y = v.real("Y_sample")
    v.assume(Y * t == r.megno_Yss)            # <Y>' = Yss'/t, the sample
    n1 = z3.ToReal(n + 1)
    St1, SY1, Stt1, StY1 = St + t, SY + Y, Stt + t * t, StY + t * Y
    return r, n1, St1, SY1, Stt1, StY1


def megno_moment_tasks(first):
    tag = "first_sample" if first else "step"

    @P.task("megno.update.means.%s" % tag, fn=MU)
    def _(v):
        r, n1, St1, SY1, Stt1, StY1 = megno_moments(v, first)
        v.prove("mean_t", r.megno_mean_t * n1 == St1, order=("polyid", "z3", "cvc5"))
        v.prove("mean_Y", r.megno_mean_Y * n1 == SY1, order=("polyid", "z3", "cvc5"))

    @P.task("megno.update.comoments.%s" % tag, fn=MU)
    def _(v):
        r, n1, St1, SY1, Stt1, StY1 = megno_moments(v, first)
        v.prove("var_t_is_sum_of_squared_deviations", r.megno_var_t * n1 == Stt1 * n1 - St1 * St1, order=("z3", "polyid", "cvc5"))
        v.prove("cov_Yt_is_sum_of_deviation_products", r.megno_cov_Yt * n1 == StY1 * n1 - St1 * SY1, order=("z3", "polyid", "cvc5"))


megno_moment_tasks(True)
megno_moment_tasks(False)

P.not_decided += [
    "MEGNO -> 2 and Lyapunov estimate -> 0 on regular orbits: asymptotic statements about the dynamics, not about the code; "
    "not decided (no obligation)",
    "numerical agreement of variational particles with finite differences of neighbouring trajectories (truncation and "
    "rounding error): replaced by the exact derivative contracts; the numerical statement itself is not decided",
    "propagation of variational particles by the integrators beyond the force routine: WHFast tangent map of the Kepler "
    "solver and of the Jacobi interaction step (reb_whfast_kepler_solver / reb_whfast_interaction_step variational blocks), "
    "IAS15 / BS / leapfrog / EOS / SABA treatment of variational particles, the extra MEGNO acceleration term in "
    "reb_integrator_whfast_part2: not attempted in C16's packs",
    "reb_simulation_init_megno: random isotropic initialisation of the MEGNO set (unit norm per particle after the rescale by "
    "deltad) and its use of add_variation_1st_order: not attempted (reb_random_normal is outside the TU model)",
    "reb_simulation_rescale_var with several configurations: proved for one configuration per call; the search loop for "
    "dependent second-order sets (warning bit 4) only sets a warning flag; first-order configurations created by "
    "reb_simulation_add_variation_1st_order leave index_1st_order_a/b uninitialised (realloc memory) and that loop reads them "
    "(observation: indeterminate values influence only the warning)",
]
